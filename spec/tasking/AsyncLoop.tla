------------------------------ MODULE AsyncLoop ------------------------------
(* Mechanism specification of rkcommon::tasking::AsyncLoop (property C03).     *)
(*                                                                             *)
(* One PlusCal label per verification point (RKCOMMON_VERIF_POINT site) in     *)
(* rkcommon/tasking/AsyncLoop.h: a step of this model is "the code between two *)
(* consecutive points", and every step contains at most one access to a shared *)
(* variable that is not protected by a lock the thread holds.  Process `loop`  *)
(* is the background thread (mainLoop), process `ctl` the thread that calls    *)
(* start(), stop() and the destructor according to `script`.                   *)
(*                                                                             *)
(* Contract variables (what property C03 talks about): quiesced = a stop() has *)
(* returned (or start() was never called) and start() has not been called      *)
(* since; bodyActive = the loop body is executing; destroyed.                  *)
EXTENDS Integers, Sequences, TLC

CONSTANTS MaxCalls,   \* number of start/stop calls before the destructor
          Method,     \* "THREAD" (owned thread, joined by the destructor) or "TASK"
          RECHECK,    \* TRUE: the loop re-reads shouldBeRunning after publishing insideLoopBody
          LOCKSTART   \* TRUE: start() writes the flag under the mutex (FALSE = negative control)

Calls == {"start", "stop", "settle"}
RECURSIVE SeqsUpTo(_)
SeqsUpTo(n) == IF n = 0 THEN {<<>>} ELSE LET S == SeqsUpTo(n - 1) IN S \cup {Append(s, c) : s \in {t \in S : Len(t) = n - 1}, c \in Calls}
Scripts == {Append(s, "destroy") : s \in SeqsUpTo(MaxCalls)}

(* --algorithm AsyncLoop {
variables
  script \in Scripts,
  alive = TRUE,            \* threadShouldBeAlive
  sbr = FALSE,             \* shouldBeRunning
  ilb = FALSE,             \* insideLoopBody
  mtx = "free",            \* runningMutex owner
  waiting = FALSE,         \* loop thread blocked inside condition_variable::wait
  woken = FALSE,           \* a notify reached the blocked loop thread
  loopDone = FALSE,        \* mainLoop returned
  \* contract (ghost) state
  quiesced = TRUE, bodyActive = FALSE, destroyed = FALSE,
  entered = FALSE,         \* the body was entered since the last start() call
  started = FALSE,         \* a start() returned and neither stop() nor the destructor was called since
  ip = 1;

macro Notify() { if (waiting) { woken := TRUE; } }

fair process (loop = "L")
variable r = FALSE;
{
L_top:   while (alive) {                                   \* while (threadShouldBeAlive) { if (!threadShouldBeAlive) return;
L_chk:     r := sbr;                                       \* if (shouldBeRunning)
           if (r) {
L_pub:       ilb := TRUE;                                  \* insideLoopBody = true
L_body:      if (RECHECK /\ ~sbr) { skip; }                \* (repair) re-read the flag after publishing
             else {
               bodyActive := TRUE;                         \* fcn() begins            (contract: BodyEnter)
               entered := TRUE;
B_in:          bodyActive := FALSE;                        \* fcn() returns           (contract: BodyExit)
             };
L_clr:       ilb := FALSE;                                 \* insideLoopBody = false
           } else {
L_lock:      await mtx = "free";                           \* unique_lock: acquires; the L_pred point parks with the mutex released
L_pred:      await mtx = "free"; mtx := "L";               \* (re)acquire inside wait(); evaluate the predicate
             r := (sbr \/ ~alive);
L_predexit:  if (r) { mtx := "free"; }                     \* wait() returns, lock released at scope exit
             else {
               mtx := "free"; waiting := TRUE;             \* wait(): atomically release and block
L_wait:        await woken /\ mtx = "free";                \* notified; wakes up and re-acquires inside wait()
               woken := FALSE; waiting := FALSE;
               goto L_pred;
             };
           };
         };
L_exit:  loopDone := TRUE;
}

fair process (ctl = "C")
{
H_next: while (ip <= Len(script)) {
          if (script[ip] = "start") {
            quiesced := FALSE; entered := FALSE; started := FALSE;   \* StartCall
T_chk:      if (~sbr) {
              if (LOCKSTART) {
T_lock:         await mtx = "free";                        \* { lock; shouldBeRunning = true; }
                sbr := TRUE;
              } else {
T_lock_nl:      sbr := TRUE;                               \* negative control: no mutex
              };
T_notify:     Notify();
            };
T_ret:      started := TRUE; ip := ip + 1;                 \* StartRet
          } else if (script[ip] = "stop") {
            started := FALSE;                              \* StopCall
S_chk:      if (sbr) {
S_clr:        sbr := FALSE;
S_spin:       while (ilb) { skip; };                       \* while (insideLoopBody.load()) yield
            };
S_ret:      quiesced := TRUE;                              \* StopRet
            ip := ip + 1;
          } else if (script[ip] = "settle") {              \* harness step: wait for a body entry after start()
H_settle:   await entered \/ ~started;                     \* SettleOk
            ip := ip + 1;
          } else {
            started := FALSE;                              \* DtorCall
D_lock:     await mtx = "free"; mtx := "C";
            alive := FALSE;
D_mid:      sbr := FALSE; mtx := "free";
D_notify:   Notify();
D_join:     if (Method = "THREAD") { await loopDone; };
D_ret:      destroyed := TRUE;                             \* DtorRet
            ip := ip + 1;
          }
        }
}
} *)
\* BEGIN TRANSLATION
VARIABLES pc, script, alive, sbr, ilb, mtx, waiting, woken, loopDone, 
          quiesced, bodyActive, destroyed, entered, started, ip, r

vars == << pc, script, alive, sbr, ilb, mtx, waiting, woken, loopDone, 
           quiesced, bodyActive, destroyed, entered, started, ip, r >>

ProcSet == {"L"} \cup {"C"}

Init == (* Global variables *)
        /\ script \in Scripts
        /\ alive = TRUE
        /\ sbr = FALSE
        /\ ilb = FALSE
        /\ mtx = "free"
        /\ waiting = FALSE
        /\ woken = FALSE
        /\ loopDone = FALSE
        /\ quiesced = TRUE
        /\ bodyActive = FALSE
        /\ destroyed = FALSE
        /\ entered = FALSE
        /\ started = FALSE
        /\ ip = 1
        (* Process loop *)
        /\ r = FALSE
        /\ pc = [self \in ProcSet |-> CASE self = "L" -> "L_top"
                                        [] self = "C" -> "H_next"]

L_top == /\ pc["L"] = "L_top"
         /\ IF alive
               THEN /\ pc' = [pc EXCEPT !["L"] = "L_chk"]
               ELSE /\ pc' = [pc EXCEPT !["L"] = "L_exit"]
         /\ UNCHANGED << script, alive, sbr, ilb, mtx, waiting, woken, 
                         loopDone, quiesced, bodyActive, destroyed, entered, 
                         started, ip, r >>

L_chk == /\ pc["L"] = "L_chk"
         /\ r' = sbr
         /\ IF r'
               THEN /\ pc' = [pc EXCEPT !["L"] = "L_pub"]
               ELSE /\ pc' = [pc EXCEPT !["L"] = "L_lock"]
         /\ UNCHANGED << script, alive, sbr, ilb, mtx, waiting, woken, 
                         loopDone, quiesced, bodyActive, destroyed, entered, 
                         started, ip >>

L_pub == /\ pc["L"] = "L_pub"
         /\ ilb' = TRUE
         /\ pc' = [pc EXCEPT !["L"] = "L_body"]
         /\ UNCHANGED << script, alive, sbr, mtx, waiting, woken, loopDone, 
                         quiesced, bodyActive, destroyed, entered, started, ip, 
                         r >>

L_body == /\ pc["L"] = "L_body"
          /\ IF RECHECK /\ ~sbr
                THEN /\ TRUE
                     /\ pc' = [pc EXCEPT !["L"] = "L_clr"]
                     /\ UNCHANGED << bodyActive, entered >>
                ELSE /\ bodyActive' = TRUE
                     /\ entered' = TRUE
                     /\ pc' = [pc EXCEPT !["L"] = "B_in"]
          /\ UNCHANGED << script, alive, sbr, ilb, mtx, waiting, woken, 
                          loopDone, quiesced, destroyed, started, ip, r >>

B_in == /\ pc["L"] = "B_in"
        /\ bodyActive' = FALSE
        /\ pc' = [pc EXCEPT !["L"] = "L_clr"]
        /\ UNCHANGED << script, alive, sbr, ilb, mtx, waiting, woken, loopDone, 
                        quiesced, destroyed, entered, started, ip, r >>

L_clr == /\ pc["L"] = "L_clr"
         /\ ilb' = FALSE
         /\ pc' = [pc EXCEPT !["L"] = "L_top"]
         /\ UNCHANGED << script, alive, sbr, mtx, waiting, woken, loopDone, 
                         quiesced, bodyActive, destroyed, entered, started, ip, 
                         r >>

L_lock == /\ pc["L"] = "L_lock"
          /\ mtx = "free"
          /\ pc' = [pc EXCEPT !["L"] = "L_pred"]
          /\ UNCHANGED << script, alive, sbr, ilb, mtx, waiting, woken, 
                          loopDone, quiesced, bodyActive, destroyed, entered, 
                          started, ip, r >>

L_pred == /\ pc["L"] = "L_pred"
          /\ mtx = "free"
          /\ mtx' = "L"
          /\ r' = (sbr \/ ~alive)
          /\ pc' = [pc EXCEPT !["L"] = "L_predexit"]
          /\ UNCHANGED << script, alive, sbr, ilb, waiting, woken, loopDone, 
                          quiesced, bodyActive, destroyed, entered, started, 
                          ip >>

L_predexit == /\ pc["L"] = "L_predexit"
              /\ IF r
                    THEN /\ mtx' = "free"
                         /\ pc' = [pc EXCEPT !["L"] = "L_top"]
                         /\ UNCHANGED waiting
                    ELSE /\ mtx' = "free"
                         /\ waiting' = TRUE
                         /\ pc' = [pc EXCEPT !["L"] = "L_wait"]
              /\ UNCHANGED << script, alive, sbr, ilb, woken, loopDone, 
                              quiesced, bodyActive, destroyed, entered, 
                              started, ip, r >>

L_wait == /\ pc["L"] = "L_wait"
          /\ woken /\ mtx = "free"
          /\ woken' = FALSE
          /\ waiting' = FALSE
          /\ pc' = [pc EXCEPT !["L"] = "L_pred"]
          /\ UNCHANGED << script, alive, sbr, ilb, mtx, loopDone, quiesced, 
                          bodyActive, destroyed, entered, started, ip, r >>

L_exit == /\ pc["L"] = "L_exit"
          /\ loopDone' = TRUE
          /\ pc' = [pc EXCEPT !["L"] = "Done"]
          /\ UNCHANGED << script, alive, sbr, ilb, mtx, waiting, woken, 
                          quiesced, bodyActive, destroyed, entered, started, 
                          ip, r >>

loop == L_top \/ L_chk \/ L_pub \/ L_body \/ B_in \/ L_clr \/ L_lock
           \/ L_pred \/ L_predexit \/ L_wait \/ L_exit

H_next == /\ pc["C"] = "H_next"
          /\ IF ip <= Len(script)
                THEN /\ IF script[ip] = "start"
                           THEN /\ quiesced' = FALSE
                                /\ entered' = FALSE
                                /\ started' = FALSE
                                /\ pc' = [pc EXCEPT !["C"] = "T_chk"]
                           ELSE /\ IF script[ip] = "stop"
                                      THEN /\ started' = FALSE
                                           /\ pc' = [pc EXCEPT !["C"] = "S_chk"]
                                      ELSE /\ IF script[ip] = "settle"
                                                 THEN /\ pc' = [pc EXCEPT !["C"] = "H_settle"]
                                                      /\ UNCHANGED started
                                                 ELSE /\ started' = FALSE
                                                      /\ pc' = [pc EXCEPT !["C"] = "D_lock"]
                                /\ UNCHANGED << quiesced, entered >>
                ELSE /\ pc' = [pc EXCEPT !["C"] = "Done"]
                     /\ UNCHANGED << quiesced, entered, started >>
          /\ UNCHANGED << script, alive, sbr, ilb, mtx, waiting, woken, 
                          loopDone, bodyActive, destroyed, ip, r >>

T_chk == /\ pc["C"] = "T_chk"
         /\ IF ~sbr
               THEN /\ IF LOCKSTART
                          THEN /\ pc' = [pc EXCEPT !["C"] = "T_lock"]
                          ELSE /\ pc' = [pc EXCEPT !["C"] = "T_lock_nl"]
               ELSE /\ pc' = [pc EXCEPT !["C"] = "T_ret"]
         /\ UNCHANGED << script, alive, sbr, ilb, mtx, waiting, woken, 
                         loopDone, quiesced, bodyActive, destroyed, entered, 
                         started, ip, r >>

T_notify == /\ pc["C"] = "T_notify"
            /\ IF waiting
                  THEN /\ woken' = TRUE
                  ELSE /\ TRUE
                       /\ woken' = woken
            /\ pc' = [pc EXCEPT !["C"] = "T_ret"]
            /\ UNCHANGED << script, alive, sbr, ilb, mtx, waiting, loopDone, 
                            quiesced, bodyActive, destroyed, entered, started, 
                            ip, r >>

T_lock == /\ pc["C"] = "T_lock"
          /\ mtx = "free"
          /\ sbr' = TRUE
          /\ pc' = [pc EXCEPT !["C"] = "T_notify"]
          /\ UNCHANGED << script, alive, ilb, mtx, waiting, woken, loopDone, 
                          quiesced, bodyActive, destroyed, entered, started, 
                          ip, r >>

T_lock_nl == /\ pc["C"] = "T_lock_nl"
             /\ sbr' = TRUE
             /\ pc' = [pc EXCEPT !["C"] = "T_notify"]
             /\ UNCHANGED << script, alive, ilb, mtx, waiting, woken, loopDone, 
                             quiesced, bodyActive, destroyed, entered, started, 
                             ip, r >>

T_ret == /\ pc["C"] = "T_ret"
         /\ started' = TRUE
         /\ ip' = ip + 1
         /\ pc' = [pc EXCEPT !["C"] = "H_next"]
         /\ UNCHANGED << script, alive, sbr, ilb, mtx, waiting, woken, 
                         loopDone, quiesced, bodyActive, destroyed, entered, r >>

S_chk == /\ pc["C"] = "S_chk"
         /\ IF sbr
               THEN /\ pc' = [pc EXCEPT !["C"] = "S_clr"]
               ELSE /\ pc' = [pc EXCEPT !["C"] = "S_ret"]
         /\ UNCHANGED << script, alive, sbr, ilb, mtx, waiting, woken, 
                         loopDone, quiesced, bodyActive, destroyed, entered, 
                         started, ip, r >>

S_clr == /\ pc["C"] = "S_clr"
         /\ sbr' = FALSE
         /\ pc' = [pc EXCEPT !["C"] = "S_spin"]
         /\ UNCHANGED << script, alive, ilb, mtx, waiting, woken, loopDone, 
                         quiesced, bodyActive, destroyed, entered, started, ip, 
                         r >>

S_spin == /\ pc["C"] = "S_spin"
          /\ IF ilb
                THEN /\ TRUE
                     /\ pc' = [pc EXCEPT !["C"] = "S_spin"]
                ELSE /\ pc' = [pc EXCEPT !["C"] = "S_ret"]
          /\ UNCHANGED << script, alive, sbr, ilb, mtx, waiting, woken, 
                          loopDone, quiesced, bodyActive, destroyed, entered, 
                          started, ip, r >>

S_ret == /\ pc["C"] = "S_ret"
         /\ quiesced' = TRUE
         /\ ip' = ip + 1
         /\ pc' = [pc EXCEPT !["C"] = "H_next"]
         /\ UNCHANGED << script, alive, sbr, ilb, mtx, waiting, woken, 
                         loopDone, bodyActive, destroyed, entered, started, r >>

H_settle == /\ pc["C"] = "H_settle"
            /\ entered \/ ~started
            /\ ip' = ip + 1
            /\ pc' = [pc EXCEPT !["C"] = "H_next"]
            /\ UNCHANGED << script, alive, sbr, ilb, mtx, waiting, woken, 
                            loopDone, quiesced, bodyActive, destroyed, entered, 
                            started, r >>

D_lock == /\ pc["C"] = "D_lock"
          /\ mtx = "free"
          /\ mtx' = "C"
          /\ alive' = FALSE
          /\ pc' = [pc EXCEPT !["C"] = "D_mid"]
          /\ UNCHANGED << script, sbr, ilb, waiting, woken, loopDone, quiesced, 
                          bodyActive, destroyed, entered, started, ip, r >>

D_mid == /\ pc["C"] = "D_mid"
         /\ sbr' = FALSE
         /\ mtx' = "free"
         /\ pc' = [pc EXCEPT !["C"] = "D_notify"]
         /\ UNCHANGED << script, alive, ilb, waiting, woken, loopDone, 
                         quiesced, bodyActive, destroyed, entered, started, ip, 
                         r >>

D_notify == /\ pc["C"] = "D_notify"
            /\ IF waiting
                  THEN /\ woken' = TRUE
                  ELSE /\ TRUE
                       /\ woken' = woken
            /\ pc' = [pc EXCEPT !["C"] = "D_join"]
            /\ UNCHANGED << script, alive, sbr, ilb, mtx, waiting, loopDone, 
                            quiesced, bodyActive, destroyed, entered, started, 
                            ip, r >>

D_join == /\ pc["C"] = "D_join"
          /\ IF Method = "THREAD"
                THEN /\ loopDone
                ELSE /\ TRUE
          /\ pc' = [pc EXCEPT !["C"] = "D_ret"]
          /\ UNCHANGED << script, alive, sbr, ilb, mtx, waiting, woken, 
                          loopDone, quiesced, bodyActive, destroyed, entered, 
                          started, ip, r >>

D_ret == /\ pc["C"] = "D_ret"
         /\ destroyed' = TRUE
         /\ ip' = ip + 1
         /\ pc' = [pc EXCEPT !["C"] = "H_next"]
         /\ UNCHANGED << script, alive, sbr, ilb, mtx, waiting, woken, 
                         loopDone, quiesced, bodyActive, entered, started, r >>

ctl == H_next \/ T_chk \/ T_notify \/ T_lock \/ T_lock_nl \/ T_ret \/ S_chk
          \/ S_clr \/ S_spin \/ S_ret \/ H_settle \/ D_lock \/ D_mid
          \/ D_notify \/ D_join \/ D_ret

(* Allow infinite stuttering to prevent deadlock on termination. *)
Terminating == /\ \A self \in ProcSet: pc[self] = "Done"
               /\ UNCHANGED vars

Next == loop \/ ctl
           \/ Terminating

Spec == /\ Init /\ [][Next]_vars
        /\ WF_vars(loop)
        /\ WF_vars(ctl)

Termination == <>(\A self \in ProcSet: pc[self] = "Done")

\* END TRANSLATION

-------------------------------------------------------------------------------
\* Safety part of C03: the mechanism refines the contract (every step is a contract event or
\* leaves the contract variables unchanged)
C == INSTANCE AsyncLoopContract WITH method <- Method, q <- quiesced, b <- bodyActive, d <- destroyed,
                                     started <- started, entered <- entered
RefinesContract == C!CInit(Method) /\ [][C!CNext]_(C!cvars)

\* Liveness part: after start() returned the body is entered, unless stop()/destroy intervene
\* Liveness part: "settle" waits for a body entry after a start() that returned, so a lost
\* wake-up shows as the controlling thread never finishing its script; destroying always terminates
\* and the loop thread always exits.
Terminates == <>(pc["C"] = "Done" /\ pc["L"] = "Done")

\* initial state for a given script (used by the trace specification)
InitWith(sc) ==
  /\ script = sc /\ alive = TRUE /\ sbr = FALSE /\ ilb = FALSE /\ mtx = "free" /\ waiting = FALSE /\ woken = FALSE
  /\ loopDone = FALSE /\ quiesced = TRUE /\ bodyActive = FALSE /\ destroyed = FALSE /\ entered = FALSE /\ started = FALSE
  /\ ip = 1 /\ r = FALSE /\ pc = [self \in ProcSet |-> IF self = "L" THEN "L_top" ELSE "H_next"]

\* the step of the model taken at label `lbl`
StepAt(lbl) ==
  CASE lbl = "L_top" -> L_top [] lbl = "L_chk" -> L_chk [] lbl = "L_pub" -> L_pub [] lbl = "L_body" -> L_body
    [] lbl = "B_in" -> B_in [] lbl = "L_clr" -> L_clr [] lbl = "L_lock" -> L_lock [] lbl = "L_pred" -> L_pred
    [] lbl = "L_predexit" -> L_predexit [] lbl = "L_wait" -> L_wait [] lbl = "L_exit" -> L_exit
    [] lbl = "H_next" -> H_next [] lbl = "T_chk" -> T_chk [] lbl = "T_lock" -> T_lock [] lbl = "T_notify" -> T_notify
    [] lbl = "T_ret" -> T_ret [] lbl = "S_chk" -> S_chk [] lbl = "S_clr" -> S_clr [] lbl = "S_spin" -> S_spin
    [] lbl = "S_ret" -> S_ret [] lbl = "H_settle" -> H_settle [] lbl = "D_lock" -> D_lock [] lbl = "D_mid" -> D_mid
    [] lbl = "D_notify" -> D_notify [] lbl = "D_join" -> D_join [] lbl = "D_ret" -> D_ret
    [] OTHER -> FALSE

TypeOK == mtx \in {"free", "L", "C"} /\ (waiting => mtx # "L")
===============================================================================
