SPECIFICATION Spec
CONSTANTS
  defaultInitValue = defaultInitValue
  SizeLog2 = 1
  NW = 3
  Readers = {"r1", "r2"}
  ATOMICCAS = FALSE
INVARIANTS NoDup OnlyWritten NoLoss
