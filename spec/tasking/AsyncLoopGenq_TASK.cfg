SPECIFICATION Spec
CONSTANTS
  MaxCalls = 3
  Method = "TASK"
  RECHECK = TRUE
  LOCKSTART = TRUE
INVARIANTS TypeOK
