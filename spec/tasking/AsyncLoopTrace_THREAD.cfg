SPECIFICATION TSpec
CONSTANTS
  MaxCalls = 1
  Method = "THREAD"
  RECHECK = TRUE
  LOCKSTART = TRUE
POSTCONDITION Post
CHECK_DEADLOCK FALSE
