SPECIFICATION TSpec
CONSTANTS
  Backend <- TraceBackend
  Ns = {}
  Froms = {}
  Shapes = {}
  RSet = {}
  DSet = {}
INVARIANTS TypeOK
CHECK_DEADLOCK FALSE
