SPECIFICATION TSpec
CONSTANTS
  Backend <- TraceBackend
  Ns = {}
  Froms = {}
  Shapes = {}
  RSet = {}
  DSet = {}
  HW = 16
  InitOpts = {}
  BurstOpts = {}
  LoopOpts = {}
  LBurstOpts = {}
  PairOpts = {}
INVARIANTS TypeOK
CHECK_DEADLOCK FALSE
