-------------------------- MODULE EnkiCutsValidate --------------------------
(* code -> spec: every run of indices that one thread of the real Internal     *)
(* backend executed back to back for a top-level parallel_for(n) issued on an   *)
(* idle scheduler with T threads must start and end at a cut point of EnkiCuts  *)
(* (the partition arithmetic of the mechanism model EnkiTS).  Records:          *)
(* [T |-> threads, n |-> set size, runs |-> <<<<b, e>>, ...>>].                 *)
EXTENDS EnkiCuts, Sequences, FiniteSets, TLC, Json, IOUtils
Recs == ndJsonDeserialize(IOEnv.RECS)
BadRuns(r) == {k \in 1..Len(r.runs) : ~IsUnionOfPartitions(r.T, r.n, r.runs[k][1], r.runs[k][2])}
Rejected == {i \in 1..Len(Recs) : BadRuns(Recs[i]) # {}}
\* laws of the arithmetic itself, on a bounded domain
ASSUME \A T \in 1..9, n \in 1..40 :
         /\ IsCut(T, n, 0) /\ IsCut(T, n, n)
         /\ \A x \in CutPointsOf(T, n) \ {n} : \E y \in CutPointsOf(T, n) : y > x /\ IsPartition(T, n, x, y)   \* the cuts tile 0..n
         /\ \A b \in 0..n, e \in 0..n : IsPartition(T, n, b, e) => IsUnionOfPartitions(T, n, b, e)
ASSUME PrintT(<<"CUTS-JUDGED", Len(Recs), "RUNS", IF Len(Recs) = 0 THEN 0 ELSE Cardinality(UNION {{<<i, k>> : k \in 1..Len(Recs[i].runs)} : i \in 1..Len(Recs)})>>)
ASSUME \A i \in Rejected : PrintT(<<"CUTS-REJECTED", i, Recs[i].T, Recs[i].n, BadRuns(Recs[i])>>)
VARIABLE x
Init == x = 0
Next == x' = x
Spec == Init /\ [][Next]_x
=============================================================================
