-------------------------- MODULE AsyncLoopMultiPlan --------------------------
(* Command-level plans for N AsyncLoop instances: what the harness asks the    *)
(* real objects to do, and from which thread.  TLC's state graph of this module*)
(* (abstract state: which instances run, which bodies are parked at their gate)*)
(* yields the plans the driver replays: a transition cover, all plans up to a  *)
(* length, random walks.  The guards are those of AsyncLoopMultiCmds, the same *)
(* the director of the mechanism model AsyncLoopMulti obeys.                   *)
(*   Start(i,c) / Stop(i,c)  thread c calls start() / stop() of instance i     *)
(*   Hold(i)     wait until a body of i is mid-invocation, parked at its gate  *)
(*   Release(i)  open the gate of i                                            *)
(*   Probe(i)    i is running: a NEW body of i must be entered (independence:  *)
(*               whatever was done to the other instances in between)          *)
(* Stop(i, c) with the body of i parked: the gate of i opens once the caller   *)
(* is inside stop(i) (spinning) - or stop(i) has wrongly returned.             *)
EXTENDS AsyncLoopMultiCmds, Sequences, TLC
VARIABLES run, held, last
pvars == <<run, held, last>>

St(i) == IF held[i] THEN "body-held" ELSE IF run[i] THEN "running" ELSE "stopped"
Who(c) == IF c = 0 THEN "ext" ELSE "body-of-other"
Others(i) == IF \E j \in Inst \ {i} : run[j] THEN "other-running" ELSE "other-stopped"

PInit == run = [i \in Inst |-> FALSE] /\ held = [i \in Inst |-> FALSE] /\ last = [a |-> "Init", i |-> 0, c |-> 0, cls |-> ""]

PStart(i, c)  == /\ CanCall(i, c, held)
                 /\ run' = [run EXCEPT ![i] = TRUE] /\ UNCHANGED held
                 /\ last' = [a |-> "Start", i |-> i, c |-> c, cls |-> "caller=" \o Who(c) \o ",target=" \o St(i)]
PStop(i, c)   == /\ CanCall(i, c, held)
                 /\ run' = [run EXCEPT ![i] = FALSE] /\ held' = [held EXCEPT ![i] = FALSE]
                 /\ last' = [a |-> "Stop", i |-> i, c |-> c, cls |-> "caller=" \o Who(c) \o ",target=" \o St(i)]
PHold(i)      == /\ CanHold(i, run, held)
                 /\ held' = [held EXCEPT ![i] = TRUE] /\ UNCHANGED run
                 /\ last' = [a |-> "Hold", i |-> i, c |-> 0, cls |-> Others(i)]
PRelease(i)   == /\ CanRelease(i, held)
                 /\ held' = [held EXCEPT ![i] = FALSE] /\ UNCHANGED run
                 /\ last' = [a |-> "Release", i |-> i, c |-> 0, cls |-> ""]
PProbe(i)     == /\ CanProbe(i, run, held)
                 /\ UNCHANGED <<run, held>>
                 /\ last' = [a |-> "Probe", i |-> i, c |-> 0, cls |-> Others(i)]

PNext == \E i \in Inst : \/ \E c \in Threads : PStart(i, c) \/ PStop(i, c)
                         \/ PHold(i) \/ PRelease(i) \/ PProbe(i)
PSpec == PInit /\ [][PNext]_pvars

\* no plan asks an instance's own body to stop it; a calling body is parked at its gate
PlanOK == /\ \A i \in Inst : held[i] => run[i]
          /\ last.a \in {"Start", "Stop"} => (last.c # last.i /\ (last.c # 0 => held[last.c]))
===============================================================================
