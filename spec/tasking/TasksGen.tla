------------------------------- MODULE TasksGen -------------------------------
(* Scenario space of C02: kind of task x result type x how the caller consumes  *)
(* the result x whether the function is fast or slow; bursts of schedule()      *)
(* calls of several sizes with closures owning heap state.                      *)
EXTENDS Integers, Sequences, FiniteSets, TLC, Json, IOUtils, SequencesExt
Types == {"int", "string", "vector", "tracked", "slowctor"}
AFlows == {"get", "poll_get", "wait_get", "destroy", "get_twice", "poll_destroy"}
FFlows == {"get", "wait_get", "drop"}      \* std::future returned by async()
Sc(kind, type, flow, slow, n) == [kind |-> kind, type |-> type, flow |-> flow, slow |-> slow, n |-> n]
ATasks == {Sc("atask", t, f, s, 1) : t \in Types, f \in AFlows, s \in BOOLEAN}
Asyncs == {Sc("async", t, f, s, 1) : t \in Types \ {"slowctor"}, f \in FFlows, s \in BOOLEAN}
Bursts == {Sc("burst", t, "idle", s, n) : t \in {"int", "vector"}, s \in BOOLEAN, n \in {1, 10, 255, 256, 257, 513, 1000, 30000}}   \* 256 = capacity of a scheduler pipe of the Internal back end
\* a scheduled closure that schedules n further closures itself (on the Internal backend some of them then run nested
\* inside the parent once the thread's task pipe is full, i.e. for n > 256)
Nested == {Sc("nested", "vector", "idle", s, n) : s \in BOOLEAN, n \in {10, 600, 3000}}
\* a burst after which the tasking system is initialised again (with fewer / more / the same number of threads) while
\* closures are still queued: what was scheduled before must still run exactly once
Reinit == {Sc("reinit", "vector", f, s, n) : f \in {"fewer", "more", "same"}, s \in BOOLEAN, n \in {10, 1000}}
\* closures scheduled back to back while every worker sleeps; closure k keeps its worker until closure k + 1 has started:
\* every scheduled closure must be started "with no further action of the caller" while workers are idle (n <= workers)
Chains == {Sc("chain", "vector", "idle", FALSE, n) : n \in {2, 3}}
Scenarios == ATasks \cup Asyncs \cup Bursts \cup Nested \cup Reinit \cup Chains
ASSUME PrintT(<<"SCENARIOS", Cardinality(Scenarios)>>)
ASSUME ndJsonSerialize(IOEnv.OUT, SetToSeq(Scenarios))
VARIABLE x
Init == x = 0
Next == x' = x
Spec == Init /\ [][Next]_x
===============================================================================
