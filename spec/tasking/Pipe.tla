-------------------------------- MODULE Pipe --------------------------------
(* Instruction-level model of enki::LockLessMultiReadPipe                        *)
(* (rkcommon/tasking/detail/enkiTS/LockLessMultiReadPipe.h): one PlusCal label   *)
(* per access to shared memory (write index, read count, read index, per-slot    *)
(* flag incl. the compare-and-swap, buffer cell), sequentially consistent        *)
(* memory.  One writer performing NW operations (each WriterTryWriteFront or     *)
(* WriterTryReadFront) and the readers looping on ReaderTryReadBack.             *)
(* Checked against the contract the scheduler relies on (PipeContract): every    *)
(* written item is handed out exactly once (NoDup, NoLoss), nothing else is      *)
(* (OnlyWritten).  ATOMICCAS = FALSE splits the readers' compare-and-swap into   *)
(* a load and a store - the negative control TLC must refute.                    *)
EXTENDS Integers, Sequences, FiniteSets, TLC
CONSTANTS SizeLog2, NW, Readers,  \* NW: number of operations of the writer; Readers: set of reader ids
          ATOMICCAS                \* TRUE: the flag CAS is one atomic step (the code); FALSE: negative control
Size == 2^SizeLog2
Slot(i) == i % Size
CW == "CAN_WRITE"  CR == "CAN_READ"  IV == "INVALID"
(* --algorithm Pipe {
variables buf = [s \in 0..Size-1 |-> 0], flg = [s \in 0..Size-1 |-> CW],
          wIdx = 0, rCnt = 0, rIdx = 0,
          got = <<>>,          \* every value handed out (by anybody), in completion order
          written = {},        \* values successfully written
          nextVal = 1, wOps = 0;

\* ---- single writer: alternates (nondeterministically) write-front and read-front
fair process (writer = "w")
variables wi = 0, front = 0, rc = 0, act = 0, prev = CW, outv = 0;
{
W:  while (wOps < NW) {
      either {
\* WriterTryWriteFront
WW0:    wi := wIdx; act := Slot(wi);
WW1:    if (flg[act] # CW) { wOps := wOps + 1 }           \* still being read / full: fail
        else {
WW2:      buf[act] := nextVal;
WW3:      flg[act] := CR; written := written \cup {nextVal};
WW4:      wIdx := wi + 1; nextVal := nextVal + 1; wOps := wOps + 1;
        }
      } or {
\* WriterTryReadFront
WF0:    wi := wIdx; front := wi;
WF1:    rc := rCnt;
        if (wi - rc = 0 \/ front = 0) {
WF2:      rIdx := rc; wOps := wOps + 1;
        } else {
          front := front - 1; act := Slot(front);
WF3:      prev := flg[act]; if (prev = CR) flg[act] := IV;     \* CAS(CAN_READ -> INVALID)
          if (prev = CR) {
WF5:        outv := buf[act];
WF6:        flg[act] := CW;
WF7:        wIdx := wIdx - 1; got := Append(got, outv); wOps := wOps + 1;
          } else {
WF4:        if (rIdx >= front) { wOps := wOps + 1 } else { goto WF1 };
          }
        }
      }
    }
}

\* ---- readers: each performs ReaderTryReadBack until the writer is done and the pipe is empty
fair process (reader \in Readers)
variables rcl = 0, use = 0, wl = 0, ract = 0, rprev = CW, rout = 0, tries = 0;
{
R:  while (wOps < NW \/ wIdx - rCnt # 0) {
R0:   rcl := rCnt; use := rcl;
R1:   wl := wIdx;
      if (wl - rcl = 0) { goto R }                          \* empty: return false
      else {
        if (use >= wl) {
R2:       use := rIdx;
        };
R3:     ract := Slot(use);
        rprev := flg[ract];
        if (ATOMICCAS) { if (rprev = CR) flg[ract] := IV; }  \* AtomicCompareAndSwap( &m_Flags[idx], FLAG_INVALID, FLAG_CAN_READ )
        else {
R3b:      if (rprev = CR) flg[ract] := IV;                   \* (negative control: the store happens in a later step)
        };
R3c:    skip;
        if (rprev # CR) {
          use := use + 1;
R4:       rcl := rCnt; goto R1;
        };
R5:     rCnt := rCnt + 1;                                    \* AtomicAdd
R6:     rout := buf[ract];
R7:     flg[ract] := CW; got := Append(got, rout);
      }
    }
}
} *)
\* BEGIN TRANSLATION
VARIABLES pc, buf, flg, wIdx, rCnt, rIdx, got, written, nextVal, wOps, wi, 
          front, rc, act, prev, outv, rcl, use, wl, ract, rprev, rout, tries

vars == << pc, buf, flg, wIdx, rCnt, rIdx, got, written, nextVal, wOps, wi, 
           front, rc, act, prev, outv, rcl, use, wl, ract, rprev, rout, tries
        >>

ProcSet == {"w"} \cup (Readers)

Init == (* Global variables *)
        /\ buf = [s \in 0..Size-1 |-> 0]
        /\ flg = [s \in 0..Size-1 |-> CW]
        /\ wIdx = 0
        /\ rCnt = 0
        /\ rIdx = 0
        /\ got = <<>>
        /\ written = {}
        /\ nextVal = 1
        /\ wOps = 0
        (* Process writer *)
        /\ wi = 0
        /\ front = 0
        /\ rc = 0
        /\ act = 0
        /\ prev = CW
        /\ outv = 0
        (* Process reader *)
        /\ rcl = [self \in Readers |-> 0]
        /\ use = [self \in Readers |-> 0]
        /\ wl = [self \in Readers |-> 0]
        /\ ract = [self \in Readers |-> 0]
        /\ rprev = [self \in Readers |-> CW]
        /\ rout = [self \in Readers |-> 0]
        /\ tries = [self \in Readers |-> 0]
        /\ pc = [self \in ProcSet |-> CASE self = "w" -> "W"
                                        [] self \in Readers -> "R"]

W == /\ pc["w"] = "W"
     /\ IF wOps < NW
           THEN /\ \/ /\ pc' = [pc EXCEPT !["w"] = "WW0"]
                   \/ /\ pc' = [pc EXCEPT !["w"] = "WF0"]
           ELSE /\ pc' = [pc EXCEPT !["w"] = "Done"]
     /\ UNCHANGED << buf, flg, wIdx, rCnt, rIdx, got, written, nextVal, wOps, 
                     wi, front, rc, act, prev, outv, rcl, use, wl, ract, rprev, 
                     rout, tries >>

WW0 == /\ pc["w"] = "WW0"
       /\ wi' = wIdx
       /\ act' = Slot(wi')
       /\ pc' = [pc EXCEPT !["w"] = "WW1"]
       /\ UNCHANGED << buf, flg, wIdx, rCnt, rIdx, got, written, nextVal, wOps, 
                       front, rc, prev, outv, rcl, use, wl, ract, rprev, rout, 
                       tries >>

WW1 == /\ pc["w"] = "WW1"
       /\ IF flg[act] # CW
             THEN /\ wOps' = wOps + 1
                  /\ pc' = [pc EXCEPT !["w"] = "W"]
             ELSE /\ pc' = [pc EXCEPT !["w"] = "WW2"]
                  /\ wOps' = wOps
       /\ UNCHANGED << buf, flg, wIdx, rCnt, rIdx, got, written, nextVal, wi, 
                       front, rc, act, prev, outv, rcl, use, wl, ract, rprev, 
                       rout, tries >>

WW2 == /\ pc["w"] = "WW2"
       /\ buf' = [buf EXCEPT ![act] = nextVal]
       /\ pc' = [pc EXCEPT !["w"] = "WW3"]
       /\ UNCHANGED << flg, wIdx, rCnt, rIdx, got, written, nextVal, wOps, wi, 
                       front, rc, act, prev, outv, rcl, use, wl, ract, rprev, 
                       rout, tries >>

WW3 == /\ pc["w"] = "WW3"
       /\ flg' = [flg EXCEPT ![act] = CR]
       /\ written' = (written \cup {nextVal})
       /\ pc' = [pc EXCEPT !["w"] = "WW4"]
       /\ UNCHANGED << buf, wIdx, rCnt, rIdx, got, nextVal, wOps, wi, front, 
                       rc, act, prev, outv, rcl, use, wl, ract, rprev, rout, 
                       tries >>

WW4 == /\ pc["w"] = "WW4"
       /\ wIdx' = wi + 1
       /\ nextVal' = nextVal + 1
       /\ wOps' = wOps + 1
       /\ pc' = [pc EXCEPT !["w"] = "W"]
       /\ UNCHANGED << buf, flg, rCnt, rIdx, got, written, wi, front, rc, act, 
                       prev, outv, rcl, use, wl, ract, rprev, rout, tries >>

WF0 == /\ pc["w"] = "WF0"
       /\ wi' = wIdx
       /\ front' = wi'
       /\ pc' = [pc EXCEPT !["w"] = "WF1"]
       /\ UNCHANGED << buf, flg, wIdx, rCnt, rIdx, got, written, nextVal, wOps, 
                       rc, act, prev, outv, rcl, use, wl, ract, rprev, rout, 
                       tries >>

WF1 == /\ pc["w"] = "WF1"
       /\ rc' = rCnt
       /\ IF wi - rc' = 0 \/ front = 0
             THEN /\ pc' = [pc EXCEPT !["w"] = "WF2"]
                  /\ UNCHANGED << front, act >>
             ELSE /\ front' = front - 1
                  /\ act' = Slot(front')
                  /\ pc' = [pc EXCEPT !["w"] = "WF3"]
       /\ UNCHANGED << buf, flg, wIdx, rCnt, rIdx, got, written, nextVal, wOps, 
                       wi, prev, outv, rcl, use, wl, ract, rprev, rout, tries >>

WF2 == /\ pc["w"] = "WF2"
       /\ rIdx' = rc
       /\ wOps' = wOps + 1
       /\ pc' = [pc EXCEPT !["w"] = "W"]
       /\ UNCHANGED << buf, flg, wIdx, rCnt, got, written, nextVal, wi, front, 
                       rc, act, prev, outv, rcl, use, wl, ract, rprev, rout, 
                       tries >>

WF3 == /\ pc["w"] = "WF3"
       /\ prev' = flg[act]
       /\ IF prev' = CR
             THEN /\ flg' = [flg EXCEPT ![act] = IV]
             ELSE /\ TRUE
                  /\ flg' = flg
       /\ IF prev' = CR
             THEN /\ pc' = [pc EXCEPT !["w"] = "WF5"]
             ELSE /\ pc' = [pc EXCEPT !["w"] = "WF4"]
       /\ UNCHANGED << buf, wIdx, rCnt, rIdx, got, written, nextVal, wOps, wi, 
                       front, rc, act, outv, rcl, use, wl, ract, rprev, rout, 
                       tries >>

WF5 == /\ pc["w"] = "WF5"
       /\ outv' = buf[act]
       /\ pc' = [pc EXCEPT !["w"] = "WF6"]
       /\ UNCHANGED << buf, flg, wIdx, rCnt, rIdx, got, written, nextVal, wOps, 
                       wi, front, rc, act, prev, rcl, use, wl, ract, rprev, 
                       rout, tries >>

WF6 == /\ pc["w"] = "WF6"
       /\ flg' = [flg EXCEPT ![act] = CW]
       /\ pc' = [pc EXCEPT !["w"] = "WF7"]
       /\ UNCHANGED << buf, wIdx, rCnt, rIdx, got, written, nextVal, wOps, wi, 
                       front, rc, act, prev, outv, rcl, use, wl, ract, rprev, 
                       rout, tries >>

WF7 == /\ pc["w"] = "WF7"
       /\ wIdx' = wIdx - 1
       /\ got' = Append(got, outv)
       /\ wOps' = wOps + 1
       /\ pc' = [pc EXCEPT !["w"] = "W"]
       /\ UNCHANGED << buf, flg, rCnt, rIdx, written, nextVal, wi, front, rc, 
                       act, prev, outv, rcl, use, wl, ract, rprev, rout, tries >>

WF4 == /\ pc["w"] = "WF4"
       /\ IF rIdx >= front
             THEN /\ wOps' = wOps + 1
                  /\ pc' = [pc EXCEPT !["w"] = "W"]
             ELSE /\ pc' = [pc EXCEPT !["w"] = "WF1"]
                  /\ wOps' = wOps
       /\ UNCHANGED << buf, flg, wIdx, rCnt, rIdx, got, written, nextVal, wi, 
                       front, rc, act, prev, outv, rcl, use, wl, ract, rprev, 
                       rout, tries >>

writer == W \/ WW0 \/ WW1 \/ WW2 \/ WW3 \/ WW4 \/ WF0 \/ WF1 \/ WF2 \/ WF3
             \/ WF5 \/ WF6 \/ WF7 \/ WF4

R(self) == /\ pc[self] = "R"
           /\ IF wOps < NW \/ wIdx - rCnt # 0
                 THEN /\ pc' = [pc EXCEPT ![self] = "R0"]
                 ELSE /\ pc' = [pc EXCEPT ![self] = "Done"]
           /\ UNCHANGED << buf, flg, wIdx, rCnt, rIdx, got, written, nextVal, 
                           wOps, wi, front, rc, act, prev, outv, rcl, use, wl, 
                           ract, rprev, rout, tries >>

R0(self) == /\ pc[self] = "R0"
            /\ rcl' = [rcl EXCEPT ![self] = rCnt]
            /\ use' = [use EXCEPT ![self] = rcl'[self]]
            /\ pc' = [pc EXCEPT ![self] = "R1"]
            /\ UNCHANGED << buf, flg, wIdx, rCnt, rIdx, got, written, nextVal, 
                            wOps, wi, front, rc, act, prev, outv, wl, ract, 
                            rprev, rout, tries >>

R1(self) == /\ pc[self] = "R1"
            /\ wl' = [wl EXCEPT ![self] = wIdx]
            /\ IF wl'[self] - rcl[self] = 0
                  THEN /\ pc' = [pc EXCEPT ![self] = "R"]
                  ELSE /\ IF use[self] >= wl'[self]
                             THEN /\ pc' = [pc EXCEPT ![self] = "R2"]
                             ELSE /\ pc' = [pc EXCEPT ![self] = "R3"]
            /\ UNCHANGED << buf, flg, wIdx, rCnt, rIdx, got, written, nextVal, 
                            wOps, wi, front, rc, act, prev, outv, rcl, use, 
                            ract, rprev, rout, tries >>

R3(self) == /\ pc[self] = "R3"
            /\ ract' = [ract EXCEPT ![self] = Slot(use[self])]
            /\ rprev' = [rprev EXCEPT ![self] = flg[ract'[self]]]
            /\ IF ATOMICCAS
                  THEN /\ IF rprev'[self] = CR
                             THEN /\ flg' = [flg EXCEPT ![ract'[self]] = IV]
                             ELSE /\ TRUE
                                  /\ flg' = flg
                       /\ pc' = [pc EXCEPT ![self] = "R3c"]
                  ELSE /\ pc' = [pc EXCEPT ![self] = "R3b"]
                       /\ flg' = flg
            /\ UNCHANGED << buf, wIdx, rCnt, rIdx, got, written, nextVal, wOps, 
                            wi, front, rc, act, prev, outv, rcl, use, wl, rout, 
                            tries >>

R3b(self) == /\ pc[self] = "R3b"
             /\ IF rprev[self] = CR
                   THEN /\ flg' = [flg EXCEPT ![ract[self]] = IV]
                   ELSE /\ TRUE
                        /\ flg' = flg
             /\ pc' = [pc EXCEPT ![self] = "R3c"]
             /\ UNCHANGED << buf, wIdx, rCnt, rIdx, got, written, nextVal, 
                             wOps, wi, front, rc, act, prev, outv, rcl, use, 
                             wl, ract, rprev, rout, tries >>

R3c(self) == /\ pc[self] = "R3c"
             /\ TRUE
             /\ IF rprev[self] # CR
                   THEN /\ use' = [use EXCEPT ![self] = use[self] + 1]
                        /\ pc' = [pc EXCEPT ![self] = "R4"]
                   ELSE /\ pc' = [pc EXCEPT ![self] = "R5"]
                        /\ use' = use
             /\ UNCHANGED << buf, flg, wIdx, rCnt, rIdx, got, written, nextVal, 
                             wOps, wi, front, rc, act, prev, outv, rcl, wl, 
                             ract, rprev, rout, tries >>

R4(self) == /\ pc[self] = "R4"
            /\ rcl' = [rcl EXCEPT ![self] = rCnt]
            /\ pc' = [pc EXCEPT ![self] = "R1"]
            /\ UNCHANGED << buf, flg, wIdx, rCnt, rIdx, got, written, nextVal, 
                            wOps, wi, front, rc, act, prev, outv, use, wl, 
                            ract, rprev, rout, tries >>

R5(self) == /\ pc[self] = "R5"
            /\ rCnt' = rCnt + 1
            /\ pc' = [pc EXCEPT ![self] = "R6"]
            /\ UNCHANGED << buf, flg, wIdx, rIdx, got, written, nextVal, wOps, 
                            wi, front, rc, act, prev, outv, rcl, use, wl, ract, 
                            rprev, rout, tries >>

R6(self) == /\ pc[self] = "R6"
            /\ rout' = [rout EXCEPT ![self] = buf[ract[self]]]
            /\ pc' = [pc EXCEPT ![self] = "R7"]
            /\ UNCHANGED << buf, flg, wIdx, rCnt, rIdx, got, written, nextVal, 
                            wOps, wi, front, rc, act, prev, outv, rcl, use, wl, 
                            ract, rprev, tries >>

R7(self) == /\ pc[self] = "R7"
            /\ flg' = [flg EXCEPT ![ract[self]] = CW]
            /\ got' = Append(got, rout[self])
            /\ pc' = [pc EXCEPT ![self] = "R"]
            /\ UNCHANGED << buf, wIdx, rCnt, rIdx, written, nextVal, wOps, wi, 
                            front, rc, act, prev, outv, rcl, use, wl, ract, 
                            rprev, rout, tries >>

R2(self) == /\ pc[self] = "R2"
            /\ use' = [use EXCEPT ![self] = rIdx]
            /\ pc' = [pc EXCEPT ![self] = "R3"]
            /\ UNCHANGED << buf, flg, wIdx, rCnt, rIdx, got, written, nextVal, 
                            wOps, wi, front, rc, act, prev, outv, rcl, wl, 
                            ract, rprev, rout, tries >>

reader(self) == R(self) \/ R0(self) \/ R1(self) \/ R3(self) \/ R3b(self)
                   \/ R3c(self) \/ R4(self) \/ R5(self) \/ R6(self)
                   \/ R7(self) \/ R2(self)

(* Allow infinite stuttering to prevent deadlock on termination. *)
Terminating == /\ \A self \in ProcSet: pc[self] = "Done"
               /\ UNCHANGED vars

Next == writer
           \/ (\E self \in Readers: reader(self))
           \/ Terminating

Spec == /\ Init /\ [][Next]_vars
        /\ WF_vars(writer)
        /\ \A self \in Readers : WF_vars(reader(self))

Termination == <>(\A self \in ProcSet: pc[self] = "Done")

\* END TRANSLATION
Range(s) == {s[i] : i \in DOMAIN s}
NoDup == \A i, j \in DOMAIN got : i # j => got[i] # got[j]
OnlyWritten == Range(got) \subseteq written
AllDone == \A p \in {"w"} \cup Readers : pc[p] = "Done"
NoLoss == AllDone => Range(got) = written
====
