----------------------------- MODULE ParallelFor -----------------------------
(* Contract of rkcommon::tasking::parallel_for / parallel_foreach /            *)
(* parallel_in_blocks_of (property C01), over what a caller can observe:       *)
(*                                                                             *)
(*   Call(c, n, B, parent)   the call is made (n = task count, B = block size, *)
(*                           1 for parallel_for / parallel_foreach); `parent`  *)
(*                           is <<call, begin>> of the enclosing body          *)
(*                           invocation for a nested call, <<>> otherwise      *)
(*   ExecBegin(c, b, e)      the user function is invoked for the index run    *)
(*                           [b, e): one index (e = b + 1), a block of         *)
(*                           parallel_in_blocks_of, or - a lossless            *)
(*                           compression of the log - consecutive indices      *)
(*                           executed back to back by one thread               *)
(*   ExecEnd(c, b, e)        that invocation returned                          *)
(*   Return(c, cells)        the call returned; `cells` = how many of the n    *)
(*                           plain memory cells written by the invocations     *)
(*                           the caller reads back as written                  *)
(*                                                                             *)
(* Rules: the function is invoked exactly once for every index in [0, n) and   *)
(* for nothing else (a count <= 0 invokes nothing); blocks partition [0, n)    *)
(* with no block larger than B; every invocation has ended and every effect is *)
(* visible when the call returns; a nested call starts and returns inside the  *)
(* body invocation that made it.                                               *)
EXTENDS Integers, Sequences, FiniteSets

VARIABLES calls      \* function: call id -> record (ids are arbitrary distinct integers)
vars == <<calls>>

NoCall == [st |-> "none"]
IsActive(c) == c \in DOMAIN calls /\ calls[c].st = "active"

Init == calls = <<>>

Overlaps(b, e, r) == b < r[2] /\ r[1] < e
\* the runs are pairwise disjoint (enforced on entry), so they cover [0,n) iff their lengths add up to n;
\* the sum is kept incrementally in `len` (ParallelForMC checks that this implies the declarative statement)
Covered(c) == calls[c].len = (IF calls[c].n > 0 THEN calls[c].n ELSE 0)

\* finished runs are kept coalesced ([a,b) and [b,c) become [a,c)): lossless for the overlap test, and it
\* keeps the state small when a backend hands out single indices round-robin
AddDone(D, b, e) ==
  LET L  == {r \in D : r[2] = b}
      R  == {r \in D : r[1] = e}
      nb == IF L = {} THEN b ELSE (CHOOSE r \in L : TRUE)[1]
      ne == IF R = {} THEN e ELSE (CHOOSE r \in R : TRUE)[2]
  IN (D \ (L \cup R)) \cup {<<nb, ne>>}

\* a new call with a fresh id
Call(c, n, B, blocks, parent) ==
  /\ c \notin DOMAIN calls
  /\ B >= 1
  /\ IF parent = <<>> THEN TRUE ELSE (IsActive(parent[1]) /\ <<parent[2], parent[3]>> \in calls[parent[1]].open)
  /\ calls' = [x \in DOMAIN calls \cup {c} |->
                 IF x = c THEN [st |-> "active", n |-> n, B |-> B, blocks |-> blocks, parent |-> parent, done |-> {}, open |-> {}, len |-> 0]
                          ELSE calls[x]]

ExecBegin(c, b, e) ==
  /\ IsActive(c)
  /\ calls[c].n > 0                                   \* a count <= 0 invokes nothing
  /\ 0 <= b /\ b < e /\ e <= calls[c].n               \* only indices of [0, n)
  /\ calls[c].blocks => e - b <= calls[c].B           \* no block larger than the block size
  /\ \A r \in calls[c].done \cup calls[c].open : ~Overlaps(b, e, r)   \* nothing twice
  /\ calls' = [calls EXCEPT ![c].open = @ \cup {<<b, e>>}, ![c].len = @ + (e - b)]

ExecEnd(c, b, e) ==
  /\ IsActive(c)
  /\ <<b, e>> \in calls[c].open
  /\ \A k \in DOMAIN calls : (calls[k].st = "active" /\ calls[k].parent = <<c, b, e>>) => FALSE   \* nested calls have returned
  /\ calls' = [calls EXCEPT ![c].open = @ \ {<<b, e>>}, ![c].done = AddDone(@, b, e)]

Return(c, cells) ==
  /\ IsActive(c)
  /\ calls[c].open = {}                               \* the call joins: no invocation is still running
  /\ Covered(c)                                       \* every index was executed
  /\ cells = (IF calls[c].n > 0 THEN calls[c].n ELSE 0)   \* and every effect is visible to the caller
  /\ calls' = [calls EXCEPT ![c].st = "returned"]

\* Properties of the contract itself (checked on a bounded instance by ParallelForMC)
DoneDisjoint == \A c \in DOMAIN calls : \A r1, r2 \in calls[c].done \cup calls[c].open : r1 # r2 => ~Overlaps(r1[1], r1[2], r2)
ReturnedComplete == \A c \in DOMAIN calls : calls[c].st = "returned" =>
                      /\ calls[c].open = {}
                      /\ \A i \in 0..(calls[c].n - 1) : \E r \in calls[c].done : r[1] <= i /\ i < r[2]
===============================================================================
