------------------------- MODULE ParallelForHugeGen -------------------------
(* Emits the macro scenarios of ParallelForHuge (counts around 2^31 / 2^32) as  *)
(* ndjson for the recorder; the summaries it measures on the real code are      *)
(* judged by TLC in ParallelForHugeValidate.                                    *)
EXTENDS ParallelForHuge, Json, IOUtils, SequencesExt
ASSUME PrintT(<<"HUGE-SCENARIOS", Cardinality(Scenarios)>>)
ASSUME ndJsonSerialize(IOEnv.OUT, SetToSeq(Scenarios))
VARIABLE x
Init == x = 0
Next == x' = x
Spec == Init /\ [][Next]_x
===============================================================================
