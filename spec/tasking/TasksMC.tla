------------------------------- MODULE TasksMC -------------------------------
(* Bounded instance of the Tasks contract with a history ghost: checks that the *)
(* operational rules imply the declarative statement - every function ran       *)
(* exactly once when the scenario ends, every delivered value is the returned    *)
(* one, finished() = TRUE only after the function returned, result storage is    *)
(* constructed and destroyed alternately.                                        *)
EXTENDS Tasks
CONSTANTS K, Vals, Addrs, MaxLen
VARIABLE hist
InitH == Init /\ hist = <<>>
Ev(e) == hist' = Append(hist, e)
NextH ==
  /\ Len(hist) < MaxLen
  /\ \/ \E k \in K : Create(k) /\ Ev(<<"Create", k>>)
     \/ \E k \in K : FnBegin(k) /\ Ev(<<"FnBegin", k>>)
     \/ \E k \in K, v \in Vals : FnEnd(k, v) /\ Ev(<<"FnEnd", k, v>>)
     \/ \E k \in K, r \in BOOLEAN : Finished(k, r) /\ Ev(<<"Finished", k, r>>)
     \/ \E k \in K, v \in Vals : Get(k, v) /\ Ev(<<"Get", k, v>>)
     \/ \E k \in K : Destroyed(k) /\ Ev(<<"Destroyed", k>>)
     \/ \E op \in {"ctor", "assign", "read", "dtor"}, a \in Addrs : P(op, a) /\ Ev(<<"P", op, a>>)
     \/ End /\ Ev(<<"End">>)
SpecH == InitH /\ [][NextH]_<<tvars, hist>>
Idx(tag, k) == {i \in DOMAIN hist : hist[i][1] = tag /\ Len(hist[i]) >= 2 /\ hist[i][2] = k}
ExactlyOnce == \A k \in K : Cardinality(Idx("FnBegin", k)) <= 1 /\ Cardinality(Idx("FnEnd", k)) <= 1
AtEndAllRan == \A i \in DOMAIN hist : hist[i][1] = "End" =>
                 \A k \in K : Idx("Create", k) # {} /\ (\A c \in Idx("Create", k) : c < i) => \E j \in Idx("FnEnd", k) : j < i
GetIsReturned == \A i \in DOMAIN hist : hist[i][1] = "Get" =>
                   \E j \in 1..(i - 1) : hist[j][1] = "FnEnd" /\ hist[j][2] = hist[i][2] /\ hist[j][3] = hist[i][3]
FinishedAfterReturn == \A i \in DOMAIN hist : (hist[i][1] = "Finished" /\ hist[i][3]) =>
                         \E j \in 1..(i - 1) : hist[j][1] = "FnEnd" /\ hist[j][2] = hist[i][2]
NoRunAfterDestroy == \A i, j \in DOMAIN hist : (hist[i][1] = "Destroyed" /\ hist[j][1] \in {"FnBegin", "FnEnd"} /\ hist[j][2] = hist[i][2]) => j < i
\* construction and destruction of one storage alternate, starting with a construction; other operations only in between
PCount(tag, a, n) == Cardinality({i \in 1..n : hist[i][1] = "P" /\ hist[i][2] = tag /\ hist[i][3] = a})
Lifetimes == \A i \in DOMAIN hist : hist[i][1] = "P" =>
               LET a == hist[i][3]  live == PCount("ctor", a, i - 1) - PCount("dtor", a, i - 1)
               IN IF hist[i][2] = "ctor" THEN live = 0 ELSE live = 1
===============================================================================
