----------------------------- MODULE PipeContract -----------------------------
(* What the scheduler needs from enki::LockLessMultiReadPipe (and what the      *)
(* instruction-level model Pipe.tla is checked against): every item whose write *)
(* succeeded is handed out by exactly one successful read (by the writer from   *)
(* the front or by any reader from the back), only such items are handed out,   *)
(* and nothing is left behind once the pipe has been drained.  Used as a trace  *)
(* specification for executions recorded from the real template.                *)
EXTENDS Integers, Sequences, FiniteSets, TLC, Json, IOUtils

VARIABLES offered,   \* items whose write has been invoked and has not (yet) failed
          taken,     \* items handed out and still "recent" (kept until their write returned)
          l
TraceLines == ndJsonDeserialize(IOEnv.TRACE)
N == Len(TraceLines)
Line == TraceLines[l]

TInit == offered = {} /\ taken = {} /\ l = 1

WInv == Line.ev = "WInv" /\ Line.v \notin offered /\ Line.v \notin taken
        /\ offered' = offered \cup {Line.v} /\ UNCHANGED taken
\* the write returned: a failed write offers nothing (and nothing may have taken it)
WRet == /\ Line.ev = "WRet"
        /\ IF Line.ok THEN (Line.v \in offered \/ Line.v \in taken) /\ offered' = offered /\ taken' = taken \ {Line.v}
                      ELSE Line.v \in offered /\ offered' = offered \ {Line.v} /\ UNCHANGED taken
\* an item is handed out: it must be on offer (so it was written and was not handed out before)
Got  == Line.ev = "Got" /\ Line.v \in offered
        /\ offered' = offered \ {Line.v} /\ taken' = taken \cup {Line.v}
\* end of the execution (after the writer drained the pipe): nothing is left behind
End  == Line.ev = "End" /\ offered = {} /\ offered' = {} /\ taken' = {}
Reset == Line.ev = "Reset" /\ offered' = {} /\ taken' = {}

TNext == l <= N /\ (WInv \/ WRet \/ Got \/ End \/ Reset) /\ l' = l + 1
TSpec == TInit /\ [][TNext]_<<offered, taken, l>>
Accepted == TLCGet("stats").diameter - 1 = N
Post == IF Accepted THEN TRUE
        ELSE PrintT(<<"TRACE-REJECTED-AT-LINE", TLCGet("stats").diameter, "OF", N>>) /\ FALSE
===============================================================================
