SPECIFICATION TSpec
CONSTANTS
  MaxCalls = 1
  Method = "TASK"
  RECHECK = TRUE
  LOCKSTART = TRUE
POSTCONDITION Post
CHECK_DEADLOCK FALSE
