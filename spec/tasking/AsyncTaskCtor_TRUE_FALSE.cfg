SPECIFICATION Spec
CONSTANTS
  defaultInitValue = defaultInitValue
  RESULT_FIRST = TRUE
  SYNC = FALSE
INVARIANTS NoAssignToRawStorage GetYieldsValue
CHECK_DEADLOCK FALSE
