SPECIFICATION Spec
CONSTANTS
  Writers = {"w1", "w2"}
  PerWriter = 2
INVARIANTS NoDup OnlyAdded NoLoss
