SPECIFICATION Spec
CONSTANTS
  MaxCalls = 4
  Method = "THREAD"
  RECHECK = TRUE
  LOCKSTART = FALSE
INVARIANTS TypeOK
PROPERTIES RefinesContract Terminates
