------------------------------ MODULE EnkiCuts ------------------------------
(* The partition arithmetic of the Internal backend's scheduler (enkiTS       *)
(* AddTaskSetToPipe / SplitTask / TryRunTask): where a task set of n indices   *)
(* run by T scheduler threads can be cut.  The set is first cut into pieces of *)
(* Init(T, n) indices; a piece that is taken from a pipe is cut further into    *)
(* pieces of Rtr(T, n) indices, counted from the start of that piece.  As long  *)
(* as no pipe is full (never the case with the production capacity of 256 for   *)
(* a loop issued on an idle scheduler) every range handed to ExecuteRange       *)
(* starts and ends at a cut point.                                              *)
(*                                                                              *)
(* Used twice: EnkiTS.tla checks that its own Exec calls respect it             *)
(* (ExecAtCuts), and EnkiCutsValidate judges the ranges recorded from the real  *)
(* scheduler - a mismatch means the mechanism model no longer describes the     *)
(* code's partitioning (reported as model drift, not as a property violation).  *)
EXTENDS Naturals
CMax(a, b) == IF a > b THEN a ELSE b
CMin(a, b) == IF a < b THEN a ELSE b
NumPartitionsOf(T) == IF T = 1 THEN 1 ELSE T * (T - 1)
NumInitialOf(T)    == IF T = 1 THEN 1 ELSE CMin(T - 1, 8)
RtrOf(T, n)  == CMax(1, n \div NumPartitionsOf(T))
InitOf(T, n) == CMax(1, n \div NumInitialOf(T))
IsCut(T, n, x) == x \in 0..n /\ (x = n \/ (x % InitOf(T, n)) % RtrOf(T, n) = 0)
CutPointsOf(T, n) == {x \in 0..n : IsCut(T, n, x)}
\* a range the scheduler may hand out: between two cut points, inside one initial piece, at most Rtr long unless it is a
\* whole initial piece (taken when Rtr >= its length)
IsPartition(T, n, b, e) ==
  /\ b < e /\ IsCut(T, n, b) /\ IsCut(T, n, e)
  /\ b \div InitOf(T, n) = (e - 1) \div InitOf(T, n)
  /\ e - b <= RtrOf(T, n)
\* runs recorded from the real code are unions of ranges executed back to back by one thread
IsUnionOfPartitions(T, n, b, e) == b < e /\ IsCut(T, n, b) /\ IsCut(T, n, e)
=============================================================================
