---------------------------- MODULE AsyncLoopTrace ----------------------------
(* Mechanism-level trace validation: the sequence of steps the schedule        *)
(* controller granted to the real threads (one line per step, named by the     *)
(* verification point the thread was parked at) must be a behaviour of the     *)
(* PlusCal model AsyncLoop.  A rejection means the code no longer works the    *)
(* way the model says (model drift) - it is reported as a note, the contract   *)
(* decides about violations.                                                   *)
EXTENDS AsyncLoop, Json, IOUtils

VARIABLE l
TraceLines == ndJsonDeserialize(IOEnv.TRACE)
N == Len(TraceLines)
Line == TraceLines[l]

TInit == l = 1 /\ InitWith(<<"destroy">>)

Begin == /\ Line.e = "Begin"
         /\ script' = Line.script /\ alive' = TRUE /\ sbr' = FALSE /\ ilb' = FALSE /\ mtx' = "free" /\ waiting' = FALSE
         /\ woken' = FALSE /\ loopDone' = FALSE /\ quiesced' = TRUE /\ bodyActive' = FALSE /\ destroyed' = FALSE
         /\ entered' = FALSE /\ started' = FALSE /\ ip' = 1 /\ r' = FALSE
         /\ pc' = [self \in ProcSet |-> IF self = "L" THEN "L_top" ELSE "H_next"]

TStep == Line.e = "G" /\ StepAt(Line.site)

TNext == l <= N /\ (Begin \/ TStep) /\ l' = l + 1
TSpec == TInit /\ [][TNext]_<<vars, l>>

Accepted == TLCGet("stats").diameter - 1 = N
Post == IF Accepted THEN TRUE
        ELSE PrintT(<<"TRACE-REJECTED-AT-LINE", TLCGet("stats").diameter, "OF", N>>) /\ FALSE
===============================================================================
