----------------------- MODULE AsyncLoopMultiContract -----------------------
(* Contract of N AsyncLoop instances alive at once: AsyncLoopContract, once    *)
(* per instance, with the calling thread of start() / stop() as a parameter.   *)
(* The statement of C03 is per instance and does not mention the caller:       *)
(*  - after stop(i) has returned - whichever thread called it - no body of i is*)
(*    executing or begins until start(i) is next called;                       *)
(*  - after start(i) returned the body of i is executed again;                 *)
(*  - operations on i do not change what holds for j # i (every action below   *)
(*    touches the components of ONE instance only: j keeps running while i is  *)
(*    stopped - Probe(j) - and stays stopped while i is restarted).            *)
(* Harness events: HoldOk(i) = the body of i was found parked at its gate      *)
(* (mid-invocation); ProbeCall(i) / ProbeOk(i) = a body of i was entered after *)
(* the probe began (a probe that gives up is not a behaviour).                 *)
EXTENDS AsyncLoopMultiCmds

VARIABLES method,   \* [Inst -> {"THREAD","TASK"}]
          q, b, d, started, entered,   \* as in AsyncLoopContract, one component per instance
          fresh,    \* a body of i was entered since the last ProbeCall(i)
          busy      \* busy[c]: the call in progress on thread c, <<op, instance>>
mvars == <<method, q, b, d, started, entered, fresh, busy>>
NoCall == <<"none", 0>>
AllI(v) == [i \in Inst |-> v]

MInit(m) == /\ method = m /\ q = AllI(TRUE) /\ b = AllI(FALSE) /\ d = AllI(FALSE) /\ started = AllI(FALSE)
            /\ entered = AllI(FALSE) /\ fresh = AllI(FALSE) /\ busy = [c \in Threads |-> NoCall]

\* thread c may issue a call on i: it is not inside another call, and if it is a loop thread it is
\* executing the body of its own instance c # i
CallerOk(i, c) == busy[c] = NoCall /\ (c # 0 => (c # i /\ b[c]))

StartCall(i, c) == /\ CallerOk(i, c) /\ ~d[i]
                   /\ q' = [q EXCEPT ![i] = FALSE] /\ entered' = [entered EXCEPT ![i] = FALSE]
                   /\ started' = [started EXCEPT ![i] = FALSE] /\ busy' = [busy EXCEPT ![c] = <<"start", i>>]
                   /\ UNCHANGED <<method, b, d, fresh>>
StartRet(i, c)  == /\ busy[c] = <<"start", i>>
                   /\ started' = [started EXCEPT ![i] = TRUE] /\ busy' = [busy EXCEPT ![c] = NoCall]
                   /\ UNCHANGED <<method, q, b, d, entered, fresh>>
StopCall(i, c)  == /\ CallerOk(i, c)
                   /\ started' = [started EXCEPT ![i] = FALSE] /\ busy' = [busy EXCEPT ![c] = <<"stop", i>>]
                   /\ UNCHANGED <<method, q, b, d, entered, fresh>>
StopRet(i, c)   == /\ busy[c] = <<"stop", i>>
                   /\ ~b[i]                              \* the body of i is not executing when stop(i) returns - to ANY caller
                   /\ q' = [q EXCEPT ![i] = TRUE] /\ busy' = [busy EXCEPT ![c] = NoCall]
                   /\ UNCHANGED <<method, b, d, started, entered, fresh>>
DtorCall(i)     == /\ busy[0] = NoCall
                   /\ started' = [started EXCEPT ![i] = FALSE] /\ busy' = [busy EXCEPT ![0] = <<"dtor", i>>]
                   /\ UNCHANGED <<method, q, b, d, entered, fresh>>
DtorRet(i)      == /\ busy[0] = <<"dtor", i>>
                   /\ method[i] = "THREAD" => ~b[i]
                   /\ d' = [d EXCEPT ![i] = TRUE] /\ busy' = [busy EXCEPT ![0] = NoCall]
                   /\ UNCHANGED <<method, q, b, started, entered, fresh>>
BodyEnter(i)    == /\ ~q[i] /\ ~b[i] /\ ~(d[i] /\ method[i] = "THREAD")
                   /\ b' = [b EXCEPT ![i] = TRUE] /\ entered' = [entered EXCEPT ![i] = TRUE] /\ fresh' = [fresh EXCEPT ![i] = TRUE]
                   /\ UNCHANGED <<method, q, d, started, busy>>
BodyExit(i)     == /\ b[i] /\ busy[i] = NoCall           \* a body that is inside a call has not returned
                   /\ b' = [b EXCEPT ![i] = FALSE]
                   /\ UNCHANGED <<method, q, d, started, entered, fresh, busy>>
HoldOk(i)       == b[i] /\ UNCHANGED mvars
ProbeCall(i)    == fresh' = [fresh EXCEPT ![i] = FALSE] /\ UNCHANGED <<method, q, b, d, started, entered, busy>>
ProbeOk(i)      == fresh[i] /\ UNCHANGED mvars

MNext == \E i \in Inst :
           \/ \E c \in Threads : StartCall(i, c) \/ StartRet(i, c) \/ StopCall(i, c) \/ StopRet(i, c)
           \/ DtorCall(i) \/ DtorRet(i) \/ BodyEnter(i) \/ BodyExit(i) \/ HoldOk(i) \/ ProbeCall(i) \/ ProbeOk(i)

\* per instance: the body is never active while the instance is quiesced
NoBodyAfterStopC == \A i \in Inst : q[i] => ~b[i]
===============================================================================
