-------------------------------- MODULE Tasks --------------------------------
(* Contract of rkcommon::tasking::async() and AsyncTask<T> (property C02) over  *)
(* what a caller can observe, plus the lifetime of result objects as reported   *)
(* by an instrumented result type:                                              *)
(*                                                                              *)
(*  Create(k)          async() is called / an AsyncTask is constructed          *)
(*  FnBegin(k)         the user function is invoked (exactly once)              *)
(*  FnEnd(k, v)        it returns the value v                                   *)
(*  Finished(k, r)     AsyncTask::finished() returned r                         *)
(*  Get(k, v)          future.get() / AsyncTask::get() returned v               *)
(*  Destroyed(k)       the AsyncTask destructor returned                        *)
(*  P(op, a)           a special member of the instrumented result type ran on  *)
(*                     the storage with identity a: "ctor", "assign" (target),  *)
(*                     "read" (source of a copy / move), "dtor"                 *)
(*  End                the scenario is over (everything was given time to run)  *)
(*                                                                              *)
(* The burst behaviour of schedule() (each closure exactly once, no action      *)
(* required from the caller) is the exactly-once contract of ParallelFor.tla    *)
(* with "indices" = closures; recorded bursts are validated against it.         *)
EXTENDS Integers, Sequences, FiniteSets, TLC

VARIABLES tasks,    \* id -> [st, val, destroyed]
          store     \* storage id -> "live" (absent = raw)
tvars == <<tasks, store>>

Init == tasks = <<>> /\ store = {}

Upd(k, rec) == [x \in DOMAIN tasks \cup {k} |-> IF x = k THEN rec ELSE tasks[x]]

Create(k) == /\ k \notin DOMAIN tasks
             /\ tasks' = Upd(k, [st |-> "created", val |-> 0, destroyed |-> FALSE])
             /\ UNCHANGED store
FnBegin(k) == /\ k \in DOMAIN tasks /\ tasks[k].st = "created"          \* executed exactly once ...
              /\ ~tasks[k].destroyed                                   \* ... and never after its AsyncTask is gone
              /\ tasks' = Upd(k, [tasks[k] EXCEPT !.st = "running"])
              /\ UNCHANGED store
FnEnd(k, v) == /\ k \in DOMAIN tasks /\ tasks[k].st = "running"
               /\ tasks' = Upd(k, [tasks[k] EXCEPT !.st = "done", !.val = v])
               /\ UNCHANGED store
\* finished() == true implies the function has returned (get() then yields the complete value without blocking)
Finished(k, r) == /\ k \in DOMAIN tasks
                  /\ r => tasks[k].st = "done"
                  /\ UNCHANGED tvars
\* the value delivered is exactly the value the function returned
Get(k, v) == /\ k \in DOMAIN tasks /\ tasks[k].st = "done" /\ v = tasks[k].val
             /\ UNCHANGED tvars
\* destroying an AsyncTask first waits for its task
Destroyed(k) == /\ k \in DOMAIN tasks /\ tasks[k].st = "done"
                /\ tasks' = Upd(k, [tasks[k] EXCEPT !.destroyed = TRUE])
                /\ UNCHANGED store

\* lifetime of result objects: no operation on storage that holds no live object
P(op, a) ==
  /\ UNCHANGED tasks
  /\ CASE op = "ctor"   -> a \notin store /\ store' = store \cup {a}
       [] op = "assign" -> a \in store /\ UNCHANGED store
       [] op = "read"   -> a \in store /\ UNCHANGED store
       [] op = "dtor"   -> a \in store /\ store' = store \ {a}
       [] OTHER -> FALSE

\* at the end every function has run (eventually, no further action required from the caller)
End == /\ \A k \in DOMAIN tasks : tasks[k].st = "done"
       /\ UNCHANGED tvars
===============================================================================
