SPECIFICATION Spec
