------------------------- MODULE AsyncLoopMultiCmds -------------------------
(* Several AsyncLoop instances alive at once, and WHO calls start() / stop()   *)
(* (property C03, gap class "state per thread / per process instead of per     *)
(* instance").  Shared vocabulary of the three modules built on it:            *)
(*   AsyncLoopMultiContract  the contract of N instances over observable events*)
(*   AsyncLoopMulti          the mechanism of N instances (per-instance        *)
(*                           shouldBeRunning / insideLoopBody), model-checked  *)
(*   AsyncLoopMultiPlan      the command-level plans the driver replays        *)
(* Threads: 0 is a thread outside every loop (the harness's controlling        *)
(* thread); j in 1..N is the loop thread of instance j WHILE IT EXECUTES THE    *)
(* BODY of j (supervisor / watchdog pattern: the body of j starts and stops    *)
(* another instance).  stop(i) issued by the body of i itself is outside the   *)
(* contract (it waits for its own return) and is never generated.              *)
EXTENDS Integers
CONSTANT N
Inst    == 1..N
Threads == 0..N

\* the harness parks the body of an instance at a gate ("held"): a definite
\* "mid-invocation" state.  A caller c # 0 must be parked there to be handed a call.
CanCall(i, c, heldF)       == IF c = 0 THEN TRUE ELSE (c # i /\ heldF[c])
CanHold(i, runF, heldF)    == runF[i] /\ ~heldF[i]
CanRelease(i, heldF)       == heldF[i]
CanProbe(i, runF, heldF)   == runF[i] /\ ~heldF[i]
===============================================================================
