----------------------- MODULE ParallelForHugeValidate -----------------------
(* code -> spec: the summaries measured on the real code for macro scenarios    *)
(* (records [sc |-> scenario of ParallelForHuge, obs |-> measured summary]) are *)
(* judged here: every field of the summary must be the one the contract fixes   *)
(* (Summary(N); NoLoop(N) for the control).  A record whose scenario is not an  *)
(* element of the specification's scenario space is reported as foreign.        *)
EXTENDS ParallelForHuge, Json, IOUtils
Recs == ndJsonDeserialize(IOEnv.RECS)
BadFields(r) == {Fields[k] : k \in {q \in 1..Len(Fields) : r.obs[Fields[q]] # Expected(r.sc.api, r.sc.N)[Fields[q]]}}
Foreign  == {i \in 1..Len(Recs) : Recs[i].sc \notin Scenarios}
Rejected == {i \in 1..Len(Recs) : i \notin Foreign /\ BadFields(Recs[i]) # {}}
ASSUME PrintT(<<"HUGE-JUDGED", Len(Recs), "FOREIGN", Cardinality(Foreign)>>)
ASSUME \A i \in Rejected : PrintT(<<"HUGE-REJECTED", i, BadFields(Recs[i])>>)
VARIABLE x
Init == x = 0
Next == x' = x
Spec == Init /\ [][Next]_x
===============================================================================
