SPECIFICATION Spec
