---------------------------- MODULE IntrusiveList ----------------------------
(* Instruction-level model of enki::LocklessMultiWriteIntrusiveList               *)
(* (rkcommon/tasking/detail/enkiTS/LockLessMultiReadPipe.h), the multi-writer /   *)
(* single-reader list behind enkiTS's pinned tasks.  Not anchored in one of the   *)
(* listed properties (rkcommon's public tasking API never adds pinned tasks): it  *)
(* extends the specification's coverage of the Internal backend.                  *)
(*                                                                                *)
(* Writers call WriterWriteFront(node): node.next := NULL; prev := exchange(head, *)
(* node); prev.next := node.  The owner calls ReaderReadBack().  Sequentially     *)
(* consistent memory, one label per shared access.                                *)
(* Contract: every node added is handed out exactly once; once all writers are    *)
(* done the owner can drain the list completely (nothing is lost).                *)
EXTENDS Integers, Sequences, FiniteSets, TLC

CONSTANTS Writers,        \* set of writer ids
          PerWriter       \* nodes each writer adds
Nodes == {<<w, k>> : w \in Writers, k \in 1..PerWriter}
TailN == <<"tail", 0>>
NullN == <<"null", 0>>
Ref  == Nodes \cup {TailN, NullN}

(* --algorithm IntrusiveList {
variables head = TailN,                                  \* pHead
          next = [n \in Nodes \cup {TailN} |-> NullN],    \* pNext of every node and of the sentinel
          got = <<>>,                                   \* nodes handed out, in order
          added = {},                                   \* nodes whose WriterWriteFront returned
          emptyReads = 0;

fair process (writer \in Writers)
variables k = 1, node = NullN, prev = NullN;
{
W:  while (k <= PerWriter) {
      node := <<self, k>>;
W1:   next[node] := NullN;                               \* pNode_->pNext = NULL
W2:   prev := head; head := node;                       \* AtomicExchangePtr(&pHead, pNode_)
W3:   next[prev] := node;                               \* pPrev->pNext = pNode_
      added := added \cup {node};
      k := k + 1;
    }
}

fair process (reader = "owner")
variables t1 = NullN, t2 = NullN, cas = NullN;
{
R:  while (emptyReads < 2 \/ Cardinality(added) < Cardinality(Nodes)) {
R1:   t1 := next[TailN];                                 \* T* pTailPlus1 = tail.pNext
      if (t1 = NullN) {
        if (Cardinality(added) = Cardinality(Nodes)) { emptyReads := emptyReads + 1; };
      } else {
R2:     t2 := next[t1];                                 \* pTailPlus1->pNext
        if (t2 # NullN) {
R3:       next[TailN] := t2;                             \* not head
        } else {
R4:       next[TailN] := NullN;
R5:       cas := head; if (head = t1) { head := TailN; };   \* AtomicCompareAndSwapPtr(&pHead, &tail, pTailPlus1)
          if (cas # t1) {
R6:         next[TailN] := next[t1];                     \* "pTailPlus1->pNext should be non NULL" (only an assert)
          };
        };
R7:     got := Append(got, t1);
        emptyReads := 0;
      }
    }
}
} *)
\* BEGIN TRANSLATION
VARIABLES pc, head, next, got, added, emptyReads, k, node, prev, t1, t2, cas

vars == << pc, head, next, got, added, emptyReads, k, node, prev, t1, t2, cas
        >>

ProcSet == (Writers) \cup {"owner"}

Init == (* Global variables *)
        /\ head = TailN
        /\ next = [n \in Nodes \cup {TailN} |-> NullN]
        /\ got = <<>>
        /\ added = {}
        /\ emptyReads = 0
        (* Process writer *)
        /\ k = [self \in Writers |-> 1]
        /\ node = [self \in Writers |-> NullN]
        /\ prev = [self \in Writers |-> NullN]
        (* Process reader *)
        /\ t1 = NullN
        /\ t2 = NullN
        /\ cas = NullN
        /\ pc = [self \in ProcSet |-> CASE self \in Writers -> "W"
                                        [] self = "owner" -> "R"]

W(self) == /\ pc[self] = "W"
           /\ IF k[self] <= PerWriter
                 THEN /\ node' = [node EXCEPT ![self] = <<self, k[self]>>]
                      /\ pc' = [pc EXCEPT ![self] = "W1"]
                 ELSE /\ pc' = [pc EXCEPT ![self] = "Done"]
                      /\ node' = node
           /\ UNCHANGED << head, next, got, added, emptyReads, k, prev, t1, t2, 
                           cas >>

W1(self) == /\ pc[self] = "W1"
            /\ next' = [next EXCEPT ![node[self]] = NullN]
            /\ pc' = [pc EXCEPT ![self] = "W2"]
            /\ UNCHANGED << head, got, added, emptyReads, k, node, prev, t1, 
                            t2, cas >>

W2(self) == /\ pc[self] = "W2"
            /\ prev' = [prev EXCEPT ![self] = head]
            /\ head' = node[self]
            /\ pc' = [pc EXCEPT ![self] = "W3"]
            /\ UNCHANGED << next, got, added, emptyReads, k, node, t1, t2, cas >>

W3(self) == /\ pc[self] = "W3"
            /\ next' = [next EXCEPT ![prev[self]] = node[self]]
            /\ added' = (added \cup {node[self]})
            /\ k' = [k EXCEPT ![self] = k[self] + 1]
            /\ pc' = [pc EXCEPT ![self] = "W"]
            /\ UNCHANGED << head, got, emptyReads, node, prev, t1, t2, cas >>

writer(self) == W(self) \/ W1(self) \/ W2(self) \/ W3(self)

R == /\ pc["owner"] = "R"
     /\ IF emptyReads < 2 \/ Cardinality(added) < Cardinality(Nodes)
           THEN /\ pc' = [pc EXCEPT !["owner"] = "R1"]
           ELSE /\ pc' = [pc EXCEPT !["owner"] = "Done"]
     /\ UNCHANGED << head, next, got, added, emptyReads, k, node, prev, t1, t2, 
                     cas >>

R1 == /\ pc["owner"] = "R1"
      /\ t1' = next[TailN]
      /\ IF t1' = NullN
            THEN /\ IF Cardinality(added) = Cardinality(Nodes)
                       THEN /\ emptyReads' = emptyReads + 1
                       ELSE /\ TRUE
                            /\ UNCHANGED emptyReads
                 /\ pc' = [pc EXCEPT !["owner"] = "R"]
            ELSE /\ pc' = [pc EXCEPT !["owner"] = "R2"]
                 /\ UNCHANGED emptyReads
      /\ UNCHANGED << head, next, got, added, k, node, prev, t2, cas >>

R2 == /\ pc["owner"] = "R2"
      /\ t2' = next[t1]
      /\ IF t2' # NullN
            THEN /\ pc' = [pc EXCEPT !["owner"] = "R3"]
            ELSE /\ pc' = [pc EXCEPT !["owner"] = "R4"]
      /\ UNCHANGED << head, next, got, added, emptyReads, k, node, prev, t1, 
                      cas >>

R3 == /\ pc["owner"] = "R3"
      /\ next' = [next EXCEPT ![TailN] = t2]
      /\ pc' = [pc EXCEPT !["owner"] = "R7"]
      /\ UNCHANGED << head, got, added, emptyReads, k, node, prev, t1, t2, cas >>

R4 == /\ pc["owner"] = "R4"
      /\ next' = [next EXCEPT ![TailN] = NullN]
      /\ pc' = [pc EXCEPT !["owner"] = "R5"]
      /\ UNCHANGED << head, got, added, emptyReads, k, node, prev, t1, t2, cas >>

R5 == /\ pc["owner"] = "R5"
      /\ cas' = head
      /\ IF head = t1
            THEN /\ head' = TailN
            ELSE /\ TRUE
                 /\ head' = head
      /\ IF cas' # t1
            THEN /\ pc' = [pc EXCEPT !["owner"] = "R6"]
            ELSE /\ pc' = [pc EXCEPT !["owner"] = "R7"]
      /\ UNCHANGED << next, got, added, emptyReads, k, node, prev, t1, t2 >>

R6 == /\ pc["owner"] = "R6"
      /\ next' = [next EXCEPT ![TailN] = next[t1]]
      /\ pc' = [pc EXCEPT !["owner"] = "R7"]
      /\ UNCHANGED << head, got, added, emptyReads, k, node, prev, t1, t2, cas >>

R7 == /\ pc["owner"] = "R7"
      /\ got' = Append(got, t1)
      /\ emptyReads' = 0
      /\ pc' = [pc EXCEPT !["owner"] = "R"]
      /\ UNCHANGED << head, next, added, k, node, prev, t1, t2, cas >>

reader == R \/ R1 \/ R2 \/ R3 \/ R4 \/ R5 \/ R6 \/ R7

(* Allow infinite stuttering to prevent deadlock on termination. *)
Terminating == /\ \A self \in ProcSet: pc[self] = "Done"
               /\ UNCHANGED vars

Next == reader
           \/ (\E self \in Writers: writer(self))
           \/ Terminating

Spec == /\ Init /\ [][Next]_vars
        /\ \A self \in Writers : WF_vars(writer(self))
        /\ WF_vars(reader)

Termination == <>(\A self \in ProcSet: pc[self] = "Done")

\* END TRANSLATION

Range(s) == {s[i] : i \in DOMAIN s}
NoDup  == \A i, j \in DOMAIN got : i # j => got[i] # got[j]
OnlyAdded == \A i \in DOMAIN got : got[i] \in Nodes
AllDone == \A p \in Writers \cup {"owner"} : pc[p] = "Done"
NoLoss == AllDone => Range(got) = Nodes
\* the owner's loop ends only after it drained: with a lost node it never sees it, so the loss shows as NoLoss violated
===============================================================================
