---------------------------- MODULE AsyncTaskCtor ----------------------------
(* Mechanism model of the construction of rkcommon::tasking::AsyncTask<T>        *)
(* (property C02): members are constructed in declaration order by the thread    *)
(* that creates the AsyncTask; the member `taskImpl` starts the task in its      *)
(* constructor (on another thread, or - serial Debug backend - synchronously).   *)
(* The task assigns the result member and then sets jobFinished.                 *)
(*                                                                               *)
(* RESULT_FIRST = TRUE is the declaration order of the header as repaired        *)
(* (jobFinished, retValue, taskImpl); FALSE is the order of the pinned code      *)
(* (jobFinished, taskImpl, retValue) and is kept as the negative control TLC     *)
(* must refute.  SYNC = TRUE models the Debug backend.                           *)
EXTENDS Integers, Sequences, TLC
CONSTANTS RESULT_FIRST, SYNC

(* --algorithm AsyncTaskCtor {
variables resultLive = FALSE,      \* retValue has been constructed (and not yet destroyed)
          resultVal = "none",      \* "none" | "default" | "value"
          started = FALSE,         \* the task has been handed to the tasking system
          ran = FALSE,
          finished = FALSE,        \* jobFinished
          bad = "none",
          got = "none";

procedure TaskBody()
{
T_assign: if (~resultLive) { bad := "assignment to a result object that is not constructed"; };
          resultVal := "value";                     \* retValue = fcn();
T_flag:   finished := TRUE; ran := TRUE;            \* jobFinished = true;
T_ret:    return;
}

fair process (creator = "creator")
{
C_flag:   skip;                                     \* jobFinished{false}
C_m2:     if (RESULT_FIRST) {
            resultLive := TRUE; resultVal := "default";   \* T retValue;
          } else {
            started := TRUE;                        \* taskImpl(...) starts the task
            if (SYNC) { call TaskBody(); };
          };
C_m3:     if (RESULT_FIRST) {
            started := TRUE;
            if (SYNC) { call TaskBody(); };
          } else {
            resultLive := TRUE; resultVal := "default";   \* T retValue;  (constructed last: overwrites whatever was assigned)
          };
C_get:    await finished;                           \* get(): if (!jobFinished) wait();
          got := resultVal;
}

fair process (worker = "worker")
{
W_wait:   await started /\ ~SYNC;
W_run:    call TaskBody();
}
} *)
\* BEGIN TRANSLATION
VARIABLES pc, resultLive, resultVal, started, ran, finished, bad, got, stack

vars == << pc, resultLive, resultVal, started, ran, finished, bad, got, stack
        >>

ProcSet == {"creator"} \cup {"worker"}

Init == (* Global variables *)
        /\ resultLive = FALSE
        /\ resultVal = "none"
        /\ started = FALSE
        /\ ran = FALSE
        /\ finished = FALSE
        /\ bad = "none"
        /\ got = "none"
        /\ stack = [self \in ProcSet |-> << >>]
        /\ pc = [self \in ProcSet |-> CASE self = "creator" -> "C_flag"
                                        [] self = "worker" -> "W_wait"]

T_assign(self) == /\ pc[self] = "T_assign"
                  /\ IF ~resultLive
                        THEN /\ bad' = "assignment to a result object that is not constructed"
                        ELSE /\ TRUE
                             /\ bad' = bad
                  /\ resultVal' = "value"
                  /\ pc' = [pc EXCEPT ![self] = "T_flag"]
                  /\ UNCHANGED << resultLive, started, ran, finished, got, 
                                  stack >>

T_flag(self) == /\ pc[self] = "T_flag"
                /\ finished' = TRUE
                /\ ran' = TRUE
                /\ pc' = [pc EXCEPT ![self] = "T_ret"]
                /\ UNCHANGED << resultLive, resultVal, started, bad, got, 
                                stack >>

T_ret(self) == /\ pc[self] = "T_ret"
               /\ pc' = [pc EXCEPT ![self] = Head(stack[self]).pc]
               /\ stack' = [stack EXCEPT ![self] = Tail(stack[self])]
               /\ UNCHANGED << resultLive, resultVal, started, ran, finished, 
                               bad, got >>

TaskBody(self) == T_assign(self) \/ T_flag(self) \/ T_ret(self)

C_flag == /\ pc["creator"] = "C_flag"
          /\ TRUE
          /\ pc' = [pc EXCEPT !["creator"] = "C_m2"]
          /\ UNCHANGED << resultLive, resultVal, started, ran, finished, bad, 
                          got, stack >>

C_m2 == /\ pc["creator"] = "C_m2"
        /\ IF RESULT_FIRST
              THEN /\ resultLive' = TRUE
                   /\ resultVal' = "default"
                   /\ pc' = [pc EXCEPT !["creator"] = "C_m3"]
                   /\ UNCHANGED << started, stack >>
              ELSE /\ started' = TRUE
                   /\ IF SYNC
                         THEN /\ stack' = [stack EXCEPT !["creator"] = << [ procedure |->  "TaskBody",
                                                                            pc        |->  "C_m3" ] >>
                                                                        \o stack["creator"]]
                              /\ pc' = [pc EXCEPT !["creator"] = "T_assign"]
                         ELSE /\ pc' = [pc EXCEPT !["creator"] = "C_m3"]
                              /\ stack' = stack
                   /\ UNCHANGED << resultLive, resultVal >>
        /\ UNCHANGED << ran, finished, bad, got >>

C_m3 == /\ pc["creator"] = "C_m3"
        /\ IF RESULT_FIRST
              THEN /\ started' = TRUE
                   /\ IF SYNC
                         THEN /\ stack' = [stack EXCEPT !["creator"] = << [ procedure |->  "TaskBody",
                                                                            pc        |->  "C_get" ] >>
                                                                        \o stack["creator"]]
                              /\ pc' = [pc EXCEPT !["creator"] = "T_assign"]
                         ELSE /\ pc' = [pc EXCEPT !["creator"] = "C_get"]
                              /\ stack' = stack
                   /\ UNCHANGED << resultLive, resultVal >>
              ELSE /\ resultLive' = TRUE
                   /\ resultVal' = "default"
                   /\ pc' = [pc EXCEPT !["creator"] = "C_get"]
                   /\ UNCHANGED << started, stack >>
        /\ UNCHANGED << ran, finished, bad, got >>

C_get == /\ pc["creator"] = "C_get"
         /\ finished
         /\ got' = resultVal
         /\ pc' = [pc EXCEPT !["creator"] = "Done"]
         /\ UNCHANGED << resultLive, resultVal, started, ran, finished, bad, 
                         stack >>

creator == C_flag \/ C_m2 \/ C_m3 \/ C_get

W_wait == /\ pc["worker"] = "W_wait"
          /\ started /\ ~SYNC
          /\ pc' = [pc EXCEPT !["worker"] = "W_run"]
          /\ UNCHANGED << resultLive, resultVal, started, ran, finished, bad, 
                          got, stack >>

W_run == /\ pc["worker"] = "W_run"
         /\ stack' = [stack EXCEPT !["worker"] = << [ procedure |->  "TaskBody",
                                                      pc        |->  "Done" ] >>
                                                  \o stack["worker"]]
         /\ pc' = [pc EXCEPT !["worker"] = "T_assign"]
         /\ UNCHANGED << resultLive, resultVal, started, ran, finished, bad, 
                         got >>

worker == W_wait \/ W_run

(* Allow infinite stuttering to prevent deadlock on termination. *)
Terminating == /\ \A self \in ProcSet: pc[self] = "Done"
               /\ UNCHANGED vars

Next == creator \/ worker
           \/ (\E self \in ProcSet: TaskBody(self))
           \/ Terminating

Spec == /\ Init /\ [][Next]_vars
        /\ WF_vars(creator) /\ WF_vars(TaskBody("creator"))
        /\ WF_vars(worker) /\ WF_vars(TaskBody("worker"))

Termination == <>(\A self \in ProcSet: pc[self] = "Done")

\* END TRANSLATION

NoAssignToRawStorage == bad = "none"
GetYieldsValue == got \in {"none", "value"}          \* get() never returns a default-constructed result
FinishedImpliesValue == finished => resultVal = "value" \/ ~resultLive
===============================================================================
