SPECIFICATION Spec
CONSTANTS
  MaxCalls = 4
  Method = "TASK"
  RECHECK = TRUE
  LOCKSTART = TRUE
INVARIANTS TypeOK
