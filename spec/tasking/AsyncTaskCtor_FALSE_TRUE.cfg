SPECIFICATION Spec
CONSTANTS
  defaultInitValue = defaultInitValue
  RESULT_FIRST = FALSE
  SYNC = TRUE
INVARIANTS NoAssignToRawStorage GetYieldsValue
CHECK_DEADLOCK FALSE
