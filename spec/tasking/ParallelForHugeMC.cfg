SPECIFICATION Spec
CONSTANTS
  MaxCalls = 2
  MaxN = 3
INVARIANTS MacroAgrees
CHECK_DEADLOCK FALSE
