SPECIFICATION Spec
CONSTANTS
  defaultInitValue = defaultInitValue
  RESULT_FIRST = TRUE
  SYNC = TRUE
INVARIANTS NoAssignToRawStorage GetYieldsValue
CHECK_DEADLOCK FALSE
