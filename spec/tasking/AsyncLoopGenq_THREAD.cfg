SPECIFICATION Spec
CONSTANTS
  MaxCalls = 3
  Method = "THREAD"
  RECHECK = TRUE
  LOCKSTART = TRUE
INVARIANTS TypeOK
