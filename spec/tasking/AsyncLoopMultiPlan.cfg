SPECIFICATION PSpec
CONSTANTS
  N = 2
INVARIANTS PlanOK
CHECK_DEADLOCK FALSE
