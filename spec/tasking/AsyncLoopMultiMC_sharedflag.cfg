SPECIFICATION Spec
CONSTANTS
  N = 2
  MaxOps = 4
  RECHECK = TRUE
  VARIANT = "sharedflag"
INVARIANTS TypeOK
PROPERTIES Independence
CHECK_DEADLOCK FALSE
