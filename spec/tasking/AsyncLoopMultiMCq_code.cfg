SPECIFICATION Spec
CONSTANTS
  N = 2
  MaxOps = 3
  RECHECK = TRUE
  VARIANT = "code"
INVARIANTS TypeOK NoBodyAfterStop
PROPERTIES RefinesContract Independence Completes
CHECK_DEADLOCK FALSE
