SPECIFICATION Spec
CONSTANTS
  defaultInitValue = defaultInitValue
  N = 3
  Cap = 1
  S = 5
  Prefill = 1
  WithF = TRUE
  FIXSPLIT = TRUE
  FIXFREE = TRUE
INVARIANTS NoOob NoUaf AtMostOnce JoinOk
PROPERTIES Joins
