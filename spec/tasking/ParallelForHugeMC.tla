-------------------------- MODULE ParallelForHugeMC --------------------------
(* Links the macro form of the contract (ParallelForHuge: the summary of a      *)
(* whole loop) to the per-index contract ParallelFor on the bounded instance    *)
(* ParallelForMC: whenever a call has returned, the summary computed from the   *)
(* invocations the per-index contract allowed is Summary(n) - every index once, *)
(* none never / twice / outside, min 0, max n - 1 (None for a count <= 0).      *)
(* The fields oversize / empty are the guards of ExecBegin itself (b < e,       *)
(* e - b <= B for blocks): an invocation violating them is not a step at all.   *)
EXTENDS ParallelForMC, ParallelForHuge

Visits(c, i) == Cardinality({r \in calls[c].done \cup calls[c].open : r[1] <= i /\ i < r[2]})
MicroSummary(c) ==
  LET n == IF calls[c].n > 0 THEN calls[c].n ELSE 0
      R == 0..(n - 1)
      U == (-1)..(MaxN + 1)
      V == {i \in U : Visits(c, i) >= 1}
  IN [once    |-> OfInt(Cardinality({i \in R : Visits(c, i) = 1})),
      never   |-> OfInt(Cardinality({i \in R : Visits(c, i) = 0})),
      multi   |-> OfInt(Cardinality({i \in R : Visits(c, i) > 1})),
      outside |-> OfInt(Cardinality(V \ R)),
      min     |-> IF V = {} THEN None ELSE OfInt(CHOOSE i \in V : \A k \in V : i <= k),
      max     |-> IF V = {} THEN None ELSE OfInt(CHOOSE i \in V : \A k \in V : i >= k)]
MacroAgrees ==
  \A c \in DOMAIN calls : calls[c].st = "returned" =>
    LET n == IF calls[c].n > 0 THEN calls[c].n ELSE 0
    IN \A f \in {"once", "never", "multi", "outside", "min", "max"} : MicroSummary(c)[f] = Summary(OfInt(n))[f]
\* non-vacuity of the invariant: some behaviour returns from a call with n = MaxN (TLC must refute this)
NeverReturnsFull == \A c \in DOMAIN calls : ~(calls[c].st = "returned" /\ calls[c].n = MaxN)
===============================================================================
