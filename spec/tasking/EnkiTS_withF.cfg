SPECIFICATION Spec
CONSTANTS
  defaultInitValue = defaultInitValue
  N = 2
  Cap = 2
  S = 3
  Prefill = 0
  WithF = TRUE
  FIXSPLIT = TRUE
  FIXFREE = TRUE
INVARIANTS NoOob NoUaf AtMostOnce JoinOk
PROPERTIES Joins
