SPECIFICATION Spec
