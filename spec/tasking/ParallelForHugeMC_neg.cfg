SPECIFICATION Spec
CONSTANTS
  MaxCalls = 2
  MaxN = 3
INVARIANTS NeverReturnsFull
CHECK_DEADLOCK FALSE
