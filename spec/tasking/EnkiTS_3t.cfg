SPECIFICATION Spec
CONSTANTS
  defaultInitValue = defaultInitValue
  N = 3
  Cap = 2
  S = 6
  Prefill = 0
  WithF = FALSE
  FIXSPLIT = TRUE
  FIXFREE = TRUE
INVARIANTS NoOob NoUaf AtMostOnce JoinOk
PROPERTIES Joins
