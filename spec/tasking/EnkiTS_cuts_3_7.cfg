SPECIFICATION Spec
CONSTANTS
  defaultInitValue = defaultInitValue
  N = 3
  Cap = 6
  S = 7
  Prefill = 0
  WithF = FALSE
  FIXSPLIT = TRUE
  FIXFREE = TRUE
INVARIANTS NoOob AtMostOnce JoinOk ExecAtCuts NoFullBranch
