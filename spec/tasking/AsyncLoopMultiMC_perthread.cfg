SPECIFICATION Spec
CONSTANTS
  N = 2
  MaxOps = 4
  RECHECK = TRUE
  VARIANT = "perthread"
INVARIANTS TypeOK
PROPERTIES RefinesContract
CHECK_DEADLOCK FALSE
