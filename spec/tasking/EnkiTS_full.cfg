SPECIFICATION Spec
CONSTANTS
  defaultInitValue = defaultInitValue
  N = 2
  Cap = 1
  S = 5
  Prefill = 1
  WithF = FALSE
  FIXSPLIT = TRUE
  FIXFREE = TRUE
INVARIANTS NoOob NoUaf AtMostOnce JoinOk
PROPERTIES Joins
