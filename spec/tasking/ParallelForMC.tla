---------------------------- MODULE ParallelForMC ----------------------------
(* Bounded instance of the contract: all behaviours over calls with n in -1..3, *)
(* block sizes 1..2, one level of nesting.  Checks that the operational rules   *)
(* (disjoint runs, length sum) imply the declarative statement: after Return    *)
(* every index of [0,n) lies in exactly one executed run.                       *)
EXTENDS ParallelFor
CONSTANTS MaxCalls, MaxN
Ns == -1..MaxN
Runs(n) == {<<b, e>> \in (0..MaxN) \X (0..MaxN + 1) : b < e}
ParentsNow == {<<>>} \cup UNION {{<<c, r[1], r[2]>> : r \in calls[c].open} : c \in DOMAIN calls}
Next ==
  \/ /\ Cardinality(DOMAIN calls) < MaxCalls
     /\ \E n \in Ns, B \in 1..2, bl \in BOOLEAN, p \in ParentsNow : Call(Cardinality(DOMAIN calls) + 1, n, B, bl, p)
  \/ \E c \in DOMAIN calls : \E r \in Runs(MaxN) : ExecBegin(c, r[1], r[2]) \/ ExecEnd(c, r[1], r[2])
  \/ \E c \in DOMAIN calls : \E k \in 0..MaxN : Return(c, k)
Spec == Init /\ [][Next]_vars
===============================================================================
