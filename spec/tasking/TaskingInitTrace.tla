---------------------------- MODULE TaskingInitTrace ---------------------------
(* Trace specification: are the recorded executions of the real tasking system  *)
(* behaviours of TaskingInit?  One line per action {a, arg, obs}: the observed  *)
(* query result / the observed order of body entries and exits are handed to    *)
(* the contract's actions, whose enabling conditions (QueryOK, LoopOK,           *)
(* WellFormed) decide.  Executions (one fresh process each) are separated by    *)
(* {"a":"Reset"}.  A line the contract has no action for (crash) is rejected.   *)
(* The backend kind comes from the environment (BACKEND).                        *)
(*                                                                             *)
(* Many executions are validated by one TLC run and one rejected execution     *)
(* must not hide the others: when the contract has no step for the next line   *)
(* (~ENABLED Dispatch) TLC reports the line and continues behind the next      *)
(* Reset.  Reaching the end of the file is reported too, so that a run that    *)
(* stopped early for any other reason is never mistaken for acceptance.        *)
EXTENDS TaskingInit, Json, IOUtils, TLCExt

VARIABLE l
tvars == <<inited, limit, reinit, last, l>>

TraceBackend == IOEnv.BACKEND
TraceLines == ndJsonDeserialize(IOEnv.TRACE)
N == Len(TraceLines)
Line == TraceLines[l]

TInit == Init /\ l = 1

Dispatch ==
  \/ Line.a = "Init"      /\ InitWith(Line.arg)
  \/ Line.a = "InitBurst" /\ InitBurst(Line.arg)
  \/ Line.a = "Query"     /\ Query(Line.arg.from, Line.obs.r)
  \/ Line.a = "Loop"      /\ LoopWith(Line.arg, Line.obs.deltas)
  \/ Line.a = "LoopBurst" /\ LoopLike("LoopBurst", Line.arg, Line.obs.deltas)
  \/ Line.a = "LoopPair"  /\ LoopPair(Line.arg, Line.obs.d1, Line.obs.d2)

\* index of the next Reset line after line i (N + 1 if there is none)
RECURSIVE NextReset(_)
NextReset(i) == IF i > N THEN N + 1 ELSE IF TraceLines[i].a = "Reset" THEN i ELSE NextReset(i + 1)

TStep   == l <= N /\ Line.a # "Reset" /\ Dispatch /\ l' = l + 1
TReject == /\ l <= N /\ Line.a # "Reset" /\ ~ENABLED Dispatch
           /\ PrintT(<<"TRACE-REJECTED-LINE", l, "CLS", IF Line.a \in {"Query", "Loop", "LoopBurst", "LoopPair"} THEN Cls(Line.arg.from) ELSE "">>)
           /\ l' = NextReset(l)
           /\ UNCHANGED <<inited, limit, reinit, last>>
TReset  == /\ l <= N /\ Line.a = "Reset"
           /\ inited' = FALSE /\ limit' = 0 /\ reinit' = FALSE
           /\ last' = [a |-> "Start", arg |-> <<>>, cls |-> "", exp |-> [r |-> 0]]
           /\ l' = l + 1
TDone   == /\ l = N + 1 /\ PrintT(<<"TRACE-END-REACHED", N>>) /\ l' = N + 2
           /\ UNCHANGED <<inited, limit, reinit, last>>
TNext  == TStep \/ TReject \/ TReset \/ TDone
TSpec  == TInit /\ [][TNext]_tvars
===============================================================================
