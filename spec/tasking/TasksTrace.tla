------------------------------ MODULE TasksTrace ------------------------------
EXTENDS Tasks, Json, IOUtils
VARIABLE l
TraceLines == ndJsonDeserialize(IOEnv.TRACE)
N == Len(TraceLines)
Line == TraceLines[l]
TInit == Init /\ l = 1
Dispatch ==
  \/ Line.ev = "Create"    /\ Create(Line.k)
  \/ Line.ev = "FnBegin"   /\ FnBegin(Line.k)
  \/ Line.ev = "FnEnd"     /\ FnEnd(Line.k, Line.v)
  \/ Line.ev = "Finished"  /\ Finished(Line.k, Line.r)
  \/ Line.ev = "Get"       /\ Get(Line.k, Line.v)
  \/ Line.ev = "Destroyed" /\ Destroyed(Line.k)
  \/ Line.ev = "P"         /\ P(Line.op, Line.a)
  \/ Line.ev = "End"       /\ End
  \/ Line.ev = "Reset"     /\ tasks' = <<>> /\ store' = {}
  \* "Abort" lines (crash, sanitizer report, time-out) are no events of the contract
TNext == l <= N /\ Dispatch /\ l' = l + 1
TSpec == TInit /\ [][TNext]_<<tvars, l>>
Accepted == TLCGet("stats").diameter - 1 = N
Post == IF Accepted THEN TRUE
        ELSE PrintT(<<"TRACE-REJECTED-AT-LINE", TLCGet("stats").diameter, "OF", N>>) /\ FALSE
===============================================================================
