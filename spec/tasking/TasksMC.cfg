SPECIFICATION SpecH
CONSTANTS
  K = {1, 2}
  Vals = {7, 8}
  Addrs = {1}
  MaxLen = 7
INVARIANTS ExactlyOnce AtEndAllRan GetIsReturned FinishedAfterReturn NoRunAfterDestroy Lifetimes
CHECK_DEADLOCK FALSE
