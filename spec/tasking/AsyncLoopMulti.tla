---------------------------- MODULE AsyncLoopMulti ----------------------------
(* Mechanism of N AsyncLoop instances alive at once (property C03; the single- *)
(* instance mechanism with its mutex / condition variable / destructor is      *)
(* AsyncLoop.tla - here the wait for start() is abstracted to "the loop thread *)
(* goes on when shouldBeRunning is set", everything about the stop() handshake *)
(* is kept).  Each instance i has its OWN shouldBeRunning sbr[i], its OWN       *)
(* insideLoopBody ilb[i] and its own loop thread (lpc[i]).  start(i) / stop(i) *)
(* are executed step by step by a calling thread c: 0 = a thread outside every *)
(* loop, j # i = the loop thread of j while it executes the body of j.         *)
(* A director issues one command at a time (guards: AsyncLoopMultiCmds, the    *)
(* same as the plans replayed on the real code, AsyncLoopMultiPlan).           *)
(*                                                                             *)
(* VARIANT = "code"       : the header as it is - state per instance           *)
(*           "perthread"  : negative control - stop() skips the wait when the  *)
(*                          calling thread is executing ANY loop body (a       *)
(*                          thread_local flag instead of per-instance state)   *)
(*           "sharedflag" : negative control - insideLoopBody is one cell per  *)
(*                          process (a static) instead of one per instance     *)
(* Checked: RefinesContract (AsyncLoopMultiContract: NoBodyAfterStop for every *)
(* instance and every caller), NoBodyAfterStop, Independence (a step changes   *)
(* the state of the instance it is about and of no other), Completes (every    *)
(* call returns - stop(i) from the body of j # i included).                    *)
EXTENDS AsyncLoopMultiCmds, TLC
CONSTANTS MaxOps, RECHECK, VARIANT

VARIABLES sbr, ilb,     \* shouldBeRunning / insideLoopBody, one per instance
          lpc,          \* loop thread of i: "top" "pub" "body" "in" "clr"
          call,         \* call[c] = <<op, instance, pc>>: the call in progress on thread c
          held,         \* harness gate: the body of i is kept mid-invocation
          nops,
          q, b, started, entered, fresh,   \* contract ghosts, one component per instance
          actor         \* <<thread, instance>> of the last step
vars == <<sbr, ilb, lpc, call, held, nops, q, b, started, entered, fresh, actor>>

Idle == <<"none", 0, "-">>
AllI(v) == [i \in Inst |-> v]
F(i) == IF VARIANT = "sharedflag" THEN 1 ELSE i     \* which insideLoopBody cell instance i uses
AllIdle == \A c \in Threads : call[c] = Idle

Init == /\ sbr = AllI(FALSE) /\ ilb = AllI(FALSE) /\ lpc = AllI("top") /\ call = [c \in Threads |-> Idle]
        /\ held = AllI(FALSE) /\ nops = 0
        /\ q = AllI(TRUE) /\ b = AllI(FALSE) /\ started = AllI(FALSE) /\ entered = AllI(FALSE) /\ fresh = AllI(FALSE)
        /\ actor = <<0, 0>>

---- \* the loop thread of instance i (mainLoop)
L_chk(i)  == /\ lpc[i] = "top" /\ sbr[i]                                  \* if (shouldBeRunning)
             /\ lpc' = [lpc EXCEPT ![i] = "pub"]
             /\ UNCHANGED <<sbr, ilb, call, held, nops, q, b, started, entered, fresh>>
L_pub(i)  == /\ lpc[i] = "pub"
             /\ ilb' = [ilb EXCEPT ![F(i)] = TRUE]                         \* insideLoopBody = true
             /\ lpc' = [lpc EXCEPT ![i] = "body"]
             /\ UNCHANGED <<sbr, call, held, nops, q, b, started, entered, fresh>>
L_body(i) == /\ lpc[i] = "body"
             /\ IF RECHECK /\ ~sbr[i]
                  THEN lpc' = [lpc EXCEPT ![i] = "clr"] /\ UNCHANGED <<b, entered, fresh>>
                  ELSE /\ lpc' = [lpc EXCEPT ![i] = "in"]                  \* fcn() begins
                       /\ b' = [b EXCEPT ![i] = TRUE] /\ entered' = [entered EXCEPT ![i] = TRUE]
                       /\ fresh' = [fresh EXCEPT ![i] = TRUE]
             /\ UNCHANGED <<sbr, ilb, call, held, nops, q, started>>
B_exit(i) == /\ lpc[i] = "in" /\ call[i] = Idle /\ ~held[i]                \* fcn() returns
             /\ b' = [b EXCEPT ![i] = FALSE]
             /\ lpc' = [lpc EXCEPT ![i] = "clr"]
             /\ UNCHANGED <<sbr, ilb, call, held, nops, q, started, entered, fresh>>
L_clr(i)  == /\ lpc[i] = "clr"
             /\ ilb' = [ilb EXCEPT ![F(i)] = FALSE]                        \* insideLoopBody = false
             /\ lpc' = [lpc EXCEPT ![i] = "top"]
             /\ UNCHANGED <<sbr, call, held, nops, q, b, started, entered, fresh>>
LoopStep(i) == (L_chk(i) \/ L_pub(i) \/ L_body(i) \/ B_exit(i) \/ L_clr(i)) /\ actor' = <<i, i>>

---- \* the director: one command at a time
Issue ==
  /\ AllIdle /\ nops < MaxOps /\ nops' = nops + 1
  /\ \E i \in Inst :
       \/ \E c \in Threads :
            /\ CanCall(i, c, held) /\ (c # 0 => lpc[c] = "in")
            /\ \/ /\ call' = [call EXCEPT ![c] = <<"start", i, "chk">>]                       \* StartCall(i, c)
                  /\ q' = [q EXCEPT ![i] = FALSE] /\ entered' = [entered EXCEPT ![i] = FALSE]
                  /\ started' = [started EXCEPT ![i] = FALSE]
               \/ /\ call' = [call EXCEPT ![c] = <<"stop", i, "chk">>]                        \* StopCall(i, c)
                  /\ started' = [started EXCEPT ![i] = FALSE] /\ UNCHANGED <<q, entered>>
            /\ actor' = <<c, i>> /\ UNCHANGED <<sbr, ilb, lpc, held, b, fresh>>
       \/ /\ CanHold(i, started, held)
          /\ call' = [call EXCEPT ![0] = <<"hold", i, "wait">>] /\ actor' = <<0, i>>
          /\ UNCHANGED <<sbr, ilb, lpc, held, q, b, started, entered, fresh>>
       \/ /\ CanRelease(i, held)
          /\ held' = [held EXCEPT ![i] = FALSE] /\ actor' = <<0, i>>
          /\ UNCHANGED <<sbr, ilb, lpc, call, q, b, started, entered, fresh>>
       \/ /\ CanProbe(i, started, held)
          /\ fresh' = [fresh EXCEPT ![i] = FALSE]                                             \* ProbeCall(i)
          /\ call' = [call EXCEPT ![0] = <<"probe", i, "wait">>] /\ actor' = <<0, i>>
          /\ UNCHANGED <<sbr, ilb, lpc, held, q, b, started, entered>>

---- \* a call in progress on thread c
Goto(c, pcv) == call' = [call EXCEPT ![c] = <<call[c][1], call[c][2], pcv>>]
CallStep(c) ==
  LET op == call[c][1]  i == call[c][2]  pc == call[c][3] IN
  /\ op # "none" /\ actor' = <<c, i>> /\ UNCHANGED nops
  /\ \/ /\ op = "start" /\ pc = "chk"                                      \* if (!shouldBeRunning)
        /\ Goto(c, IF ~sbr[i] THEN "set" ELSE "ret")
        /\ UNCHANGED <<sbr, ilb, lpc, held, q, b, started, entered, fresh>>
     \/ /\ op = "start" /\ pc = "set"                                      \* { lock; shouldBeRunning = true; } notify
        /\ sbr' = [sbr EXCEPT ![i] = TRUE] /\ Goto(c, "ret")
        /\ UNCHANGED <<ilb, lpc, held, q, b, started, entered, fresh>>
     \/ /\ op = "start" /\ pc = "ret"                                      \* StartRet(i, c)
        /\ started' = [started EXCEPT ![i] = TRUE] /\ call' = [call EXCEPT ![c] = Idle]
        /\ UNCHANGED <<sbr, ilb, lpc, held, q, b, entered, fresh>>
     \/ /\ op = "stop" /\ pc = "chk"                                       \* if (shouldBeRunning)
        /\ Goto(c, IF sbr[i] THEN "clr" ELSE "ret")
        /\ UNCHANGED <<sbr, ilb, lpc, held, q, b, started, entered, fresh>>
     \/ /\ op = "stop" /\ pc = "clr"                                       \* shouldBeRunning = false
        /\ sbr' = [sbr EXCEPT ![i] = FALSE]
        /\ Goto(c, IF VARIANT = "perthread" /\ c # 0 THEN "ret" ELSE "spin")   \* c # 0: the caller is inside a loop body
        /\ UNCHANGED <<ilb, lpc, held, q, b, started, entered, fresh>>
     \/ /\ op = "stop" /\ pc = "spin"                                      \* while (insideLoopBody) yield
        /\ held' = [held EXCEPT ![i] = FALSE]                              \* harness: the gate of i opens once the caller spins
        /\ IF ilb[F(i)] THEN UNCHANGED call ELSE Goto(c, "ret")
        /\ UNCHANGED <<sbr, ilb, lpc, q, b, started, entered, fresh>>
     \/ /\ op = "stop" /\ pc = "ret"                                       \* StopRet(i, c)
        /\ q' = [q EXCEPT ![i] = TRUE] /\ call' = [call EXCEPT ![c] = Idle]
        /\ held' = [held EXCEPT ![i] = FALSE]                              \* harness: ... or stop(i) has returned
        /\ UNCHANGED <<sbr, ilb, lpc, b, started, entered, fresh>>
     \/ /\ op = "hold" /\ lpc[i] = "in" /\ b[i]                            \* HoldOk(i)
        /\ held' = [held EXCEPT ![i] = TRUE] /\ call' = [call EXCEPT ![c] = Idle]
        /\ UNCHANGED <<sbr, ilb, lpc, q, b, started, entered, fresh>>
     \/ /\ op = "probe" /\ fresh[i]                                        \* ProbeOk(i)
        /\ call' = [call EXCEPT ![c] = Idle]
        /\ UNCHANGED <<sbr, ilb, lpc, held, q, b, started, entered, fresh>>

Next == Issue \/ (\E i \in Inst : LoopStep(i)) \/ (\E c \in Threads : CallStep(c))
Spec == /\ Init /\ [][Next]_vars
        /\ \A i \in Inst : WF_vars(LoopStep(i))
        /\ \A c \in Threads : SF_vars(CallStep(c))

-------------------------------------------------------------------------------
Busy(c) == IF call[c][1] \in {"start", "stop"} THEN <<call[c][1], call[c][2]>> ELSE <<"none", 0>>
C == INSTANCE AsyncLoopMultiContract WITH method <- AllI("THREAD"), d <- AllI(FALSE), busy <- [c \in Threads |-> Busy(c)]
RefinesContract == C!MInit(AllI("THREAD")) /\ [][C!MNext]_(C!mvars)

NoBodyAfterStop == \A i \in Inst : q[i] => ~b[i]

\* a step changes the state of the instance it is about, and of no other
Changed(j) == \/ sbr'[j] # sbr[j] \/ ilb'[j] # ilb[j] \/ lpc'[j] # lpc[j] \/ held'[j] # held[j]
              \/ q'[j] # q[j] \/ b'[j] # b[j] \/ started'[j] # started[j] \/ entered'[j] # entered[j] \/ fresh'[j] # fresh[j]
Independence == [][\A j \in Inst : Changed(j) => actor'[2] = j]_vars

\* every call returns, every Hold / Probe is answered (the loops of the other instances keep running)
Completes == \A c \in Threads : (call[c] # Idle) ~> (call[c] = Idle)

TypeOK == /\ \A i \in Inst : lpc[i] \in {"top", "pub", "body", "in", "clr"}
          /\ \A c \in Inst : call[c] # Idle => lpc[c] = "in"     \* a loop thread is handed calls only inside its body
===============================================================================
