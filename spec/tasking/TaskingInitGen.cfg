SPECIFICATION Spec
CONSTANTS
  Backend <- GenBackend
  Ns <- GenNs
  Froms = {"init-thread", "second-thread"}
  Shapes = {"flat", "nested"}
  RSet <- GenRSet
  DSet <- GenDSet
  HW <- GenHW
  InitOpts = {}
  BurstOpts = {}
  LoopOpts = {}
  LBurstOpts = {}
  PairOpts = {}
INVARIANTS TypeOK
