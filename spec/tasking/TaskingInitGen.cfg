SPECIFICATION Spec
CONSTANTS
  Backend <- GenBackend
  Ns <- GenNs
  Froms = {"init-thread", "second-thread"}
  Shapes = {"flat", "nested"}
  RSet <- GenRSet
  DSet <- GenDSet
INVARIANTS TypeOK
