SPECIFICATION Spec
CONSTANTS
  defaultInitValue = defaultInitValue
  RESULT_FIRST = FALSE
  SYNC = FALSE
INVARIANTS NoAssignToRawStorage GetYieldsValue
CHECK_DEADLOCK FALSE
