SPECIFICATION Spec
CONSTANTS
  defaultInitValue = defaultInitValue
  N = 2
  Cap = 4
  S = 5
  Prefill = 0
  WithF = FALSE
  FIXSPLIT = TRUE
  FIXFREE = TRUE
INVARIANTS NoOob AtMostOnce JoinOk ExecAtCuts NoFullBranch
