SPECIFICATION Spec
CONSTANTS
  MaxCalls = 4
  Method = "THREAD"
  RECHECK = TRUE
  LOCKSTART = TRUE
INVARIANTS TypeOK
PROPERTIES RefinesContract Terminates
