SPECIFICATION Spec
CONSTANTS
  Backend <- GenBackend
  Ns = {}
  Froms <- BFroms
  Shapes = {}
  RSet <- BRSet
  DSet <- BDSet
  HW <- GenHW
  InitOpts <- BInitOpts
  BurstOpts <- BBurstOpts
  LoopOpts <- BLoopOpts
  LBurstOpts <- BLBurstOpts
  PairOpts <- BPairOpts
INVARIANTS TypeOK
