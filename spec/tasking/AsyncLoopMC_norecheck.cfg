SPECIFICATION Spec
CONSTANTS
  MaxCalls = 4
  Method = "THREAD"
  RECHECK = FALSE
  LOCKSTART = TRUE
INVARIANTS TypeOK
PROPERTIES RefinesContract Terminates
