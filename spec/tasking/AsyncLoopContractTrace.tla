----------------------- MODULE AsyncLoopContractTrace -----------------------
(* Is the sequence of contract events recorded from a real execution of        *)
(* AsyncLoop (ordered by stamps of one counter taken under one mutex) a        *)
(* behaviour of AsyncLoopContract?  Executions are introduced by a Begin line. *)
EXTENDS AsyncLoopContract, Json, IOUtils, TLC, Sequences, Naturals

VARIABLE l
TraceLines == ndJsonDeserialize(IOEnv.TRACE)
N == Len(TraceLines)
Line == TraceLines[l]

TInit == l = 1 /\ CInit("THREAD")

Begin == /\ Line.e = "Begin"
         /\ method' = Line.method /\ q' = TRUE /\ b' = FALSE /\ d' = FALSE /\ started' = FALSE /\ entered' = FALSE

Dispatch ==
  \/ Begin
  \/ Line.e = "StartCall" /\ StartCall
  \/ Line.e = "StartRet"  /\ StartRet
  \/ Line.e = "StopCall"  /\ StopCall
  \/ Line.e = "StopRet"   /\ StopRet
  \/ Line.e = "DtorCall"  /\ DtorCall
  \/ Line.e = "DtorRet"   /\ DtorRet
  \/ Line.e = "BodyEnter" /\ BodyEnter
  \/ Line.e = "BodyExit"  /\ BodyExit
  \/ Line.e = "SettleOk"  /\ SettleOk
  \* "SettleTimeout" (the body was not entered after start() returned) is no action of the contract

TNext == l <= N /\ Dispatch /\ l' = l + 1
TSpec == TInit /\ [][TNext]_<<cvars, l>>

Accepted == TLCGet("stats").diameter - 1 = N
Post == IF Accepted THEN TRUE
        ELSE PrintT(<<"TRACE-REJECTED-AT-LINE", TLCGet("stats").diameter, "OF", N>>) /\ FALSE
===============================================================================
