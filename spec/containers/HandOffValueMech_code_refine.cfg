SPECIFICATION Spec
CONSTANTS
  NAssign = 3
  NRounds = 3
  Variant = "code"
INVARIANTS AnnotOK
PROPERTY Refines
CHECK_DEADLOCK FALSE
