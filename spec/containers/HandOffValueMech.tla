--------------------------- MODULE HandOffValueMech ---------------------------
(* Mechanism model of rkcommon::utility::TransactionalValue<T>                 *)
(* (rkcommon/utility/TransactionalValue.h), transcribed statement by statement:*)
(* one PlusCal label per access of a shared variable, annotated with the       *)
(* accesses it performs and the locks held there.                              *)
(*                                                                             *)
(*   operator=(ot): lock_guard(mutex); queuedValue = ot; newValue = true;      *)
(*   update()     : bool did = false;                                          *)
(*                  if (newValue) {                 <- read WITHOUT the lock   *)
(*                    lock_guard(mutex);                                       *)
(*                    currentValue = std::move(queuedValue);                   *)
(*                    newValue = false; did = true; }                          *)
(*                  return did;                                                *)
(*   get()        : return currentValue;            (consumer-only variable)   *)
(*                                                                             *)
(* Variants:                                                                   *)
(*   "code"          the header as it is (bool newValue, tested before locking)*)
(*   "locked"        proposed patch A: update() takes the lock before testing  *)
(*   "atomic"        proposed patch B: std::atomic<bool> newValue              *)
(*   "nolock_update" negative control: update() never locks                    *)
(* TLC checks under every interleaving of one producer doing NAssign           *)
(* assignments and one consumer doing NRounds update()+get() rounds plus the   *)
(* final round after the producer stopped:                                     *)
(*   Refines  every step is a step of the HandOff contract (Strict = TRUE) at  *)
(*            its linearisation point, or a stutter                            *)
(*   NoRace   never two threads about to perform conflicting accesses of the   *)
(*            same plain variable without a common lock                        *)
(* Expected: "code" refines the contract under sequential consistency but      *)
(* violates NoRace (producer at a_flag under the lock, consumer at u_test      *)
(* without it) - which makes the sequentially consistent exploration itself    *)
(* unjustified for the real code; "locked" and "atomic" satisfy both;          *)
(* "nolock_update" violates both.                                              *)
EXTENDS Integers, Sequences, FiniteSets, TLC

CONSTANTS NAssign,     \* assignments by the producer (values 1..NAssign)
          NRounds,     \* concurrent update()+get() rounds of the consumer
          Variant

Consumer == 0
Producer == 1
Free     == -1
Moved    == -7        \* a moved-from T (for heap-owning payloads: not a value anybody assigned)
Threads  == {Consumer, Producer}
FlagIsAtomic == Variant = "atomic"

(* --algorithm ValMech {
  variables newValue     = FALSE,   \* bool newValue{false}            (plain; std::atomic in variant "atomic")
            queuedValue  = Moved,   \* T queuedValue                   (plain)
            currentValue = 0,       \* T currentValue, constructed from the initial value 0
            mutex        = Free,    \* std::mutex mutex: Free or its holder
            asg          = <<>>,    \* ghost: values assigned so far (appended where operator= takes effect)
            last         = [op |-> "init", arg |-> <<>>, res |-> <<>>],
            pdone        = FALSE;   \* the producer has returned from its last assignment (join)

  process (prod = Producer)
    variables i = 0;
  {
   a_loop:   while (i < NAssign) {
   a_lock:     await mutex = Free; mutex := Producer;                    \* std::lock_guard<std::mutex> lock{mutex};
   a_q:        queuedValue := i + 1;                                     \* queuedValue = ot;
   a_flag:     newValue := TRUE;                                         \* newValue = true;
               asg := Append(asg, i + 1);
               last := [op |-> "assign", arg |-> i + 1, res |-> <<>>];
   a_unlock:   mutex := Free;                                            \* ~lock_guard
               i := i + 1;
             };
   a_done:   pdone := TRUE;
  }

  process (cons = Consumer)
    variables r = 0, fin = FALSE;
  {
   u_loop:   while (~fin) {
   u_begin:    if (r >= NRounds) { await pdone; fin := TRUE; };           \* last round: after the producer has stopped
   u_pre:      if (Variant = "locked") { await mutex = Free; mutex := Consumer; };
   u_test:     if (newValue) {                                           \* if (newValue)
   u_lock:       if (Variant \in {"code", "atomic"}) { await mutex = Free; mutex := Consumer; };
   u_mv:         currentValue := queuedValue;                            \* currentValue = std::move(queuedValue);
                 queuedValue := Moved;
                 last := [op |-> "update", arg |-> <<>>, res |-> TRUE];
   u_clr:        newValue := FALSE;                                      \* newValue = false;
               } else {
                 last := [op |-> "update", arg |-> <<>>, res |-> FALSE]; \* didUpdate stays false
               };
   u_unlock:   if (mutex = Consumer) { mutex := Free; };                 \* ~lock_guard (if one was taken)
   g_get:      last := [op |-> "get", arg |-> <<>>, res |-> currentValue]; \* return currentValue;
               r := r + 1;
             };
   v_end:    last := [op |-> "end", arg |-> "val", res |-> <<>>];
  }
} *)
\* BEGIN TRANSLATION
VARIABLES pc, newValue, queuedValue, currentValue, mutex, asg, last, pdone, i, 
          r, fin

vars == << pc, newValue, queuedValue, currentValue, mutex, asg, last, pdone, 
           i, r, fin >>

ProcSet == {Producer} \cup {Consumer}

Init == (* Global variables *)
        /\ newValue = FALSE
        /\ queuedValue = Moved
        /\ currentValue = 0
        /\ mutex = Free
        /\ asg = <<>>
        /\ last = [op |-> "init", arg |-> <<>>, res |-> <<>>]
        /\ pdone = FALSE
        (* Process prod *)
        /\ i = 0
        (* Process cons *)
        /\ r = 0
        /\ fin = FALSE
        /\ pc = [self \in ProcSet |-> CASE self = Producer -> "a_loop"
                                        [] self = Consumer -> "u_loop"]

a_loop == /\ pc[Producer] = "a_loop"
          /\ IF i < NAssign
                THEN /\ pc' = [pc EXCEPT ![Producer] = "a_lock"]
                ELSE /\ pc' = [pc EXCEPT ![Producer] = "a_done"]
          /\ UNCHANGED << newValue, queuedValue, currentValue, mutex, asg, 
                          last, pdone, i, r, fin >>

a_lock == /\ pc[Producer] = "a_lock"
          /\ mutex = Free
          /\ mutex' = Producer
          /\ pc' = [pc EXCEPT ![Producer] = "a_q"]
          /\ UNCHANGED << newValue, queuedValue, currentValue, asg, last, 
                          pdone, i, r, fin >>

a_q == /\ pc[Producer] = "a_q"
       /\ queuedValue' = i + 1
       /\ pc' = [pc EXCEPT ![Producer] = "a_flag"]
       /\ UNCHANGED << newValue, currentValue, mutex, asg, last, pdone, i, r, 
                       fin >>

a_flag == /\ pc[Producer] = "a_flag"
          /\ newValue' = TRUE
          /\ asg' = Append(asg, i + 1)
          /\ last' = [op |-> "assign", arg |-> i + 1, res |-> <<>>]
          /\ pc' = [pc EXCEPT ![Producer] = "a_unlock"]
          /\ UNCHANGED << queuedValue, currentValue, mutex, pdone, i, r, fin >>

a_unlock == /\ pc[Producer] = "a_unlock"
            /\ mutex' = Free
            /\ i' = i + 1
            /\ pc' = [pc EXCEPT ![Producer] = "a_loop"]
            /\ UNCHANGED << newValue, queuedValue, currentValue, asg, last, 
                            pdone, r, fin >>

a_done == /\ pc[Producer] = "a_done"
          /\ pdone' = TRUE
          /\ pc' = [pc EXCEPT ![Producer] = "Done"]
          /\ UNCHANGED << newValue, queuedValue, currentValue, mutex, asg, 
                          last, i, r, fin >>

prod == a_loop \/ a_lock \/ a_q \/ a_flag \/ a_unlock \/ a_done

u_loop == /\ pc[Consumer] = "u_loop"
          /\ IF ~fin
                THEN /\ pc' = [pc EXCEPT ![Consumer] = "u_begin"]
                ELSE /\ pc' = [pc EXCEPT ![Consumer] = "v_end"]
          /\ UNCHANGED << newValue, queuedValue, currentValue, mutex, asg, 
                          last, pdone, i, r, fin >>

u_begin == /\ pc[Consumer] = "u_begin"
           /\ IF r >= NRounds
                 THEN /\ pdone
                      /\ fin' = TRUE
                 ELSE /\ TRUE
                      /\ fin' = fin
           /\ pc' = [pc EXCEPT ![Consumer] = "u_pre"]
           /\ UNCHANGED << newValue, queuedValue, currentValue, mutex, asg, 
                           last, pdone, i, r >>

u_pre == /\ pc[Consumer] = "u_pre"
         /\ IF Variant = "locked"
               THEN /\ mutex = Free
                    /\ mutex' = Consumer
               ELSE /\ TRUE
                    /\ mutex' = mutex
         /\ pc' = [pc EXCEPT ![Consumer] = "u_test"]
         /\ UNCHANGED << newValue, queuedValue, currentValue, asg, last, pdone, 
                         i, r, fin >>

u_test == /\ pc[Consumer] = "u_test"
          /\ IF newValue
                THEN /\ pc' = [pc EXCEPT ![Consumer] = "u_lock"]
                     /\ last' = last
                ELSE /\ last' = [op |-> "update", arg |-> <<>>, res |-> FALSE]
                     /\ pc' = [pc EXCEPT ![Consumer] = "u_unlock"]
          /\ UNCHANGED << newValue, queuedValue, currentValue, mutex, asg, 
                          pdone, i, r, fin >>

u_lock == /\ pc[Consumer] = "u_lock"
          /\ IF Variant \in {"code", "atomic"}
                THEN /\ mutex = Free
                     /\ mutex' = Consumer
                ELSE /\ TRUE
                     /\ mutex' = mutex
          /\ pc' = [pc EXCEPT ![Consumer] = "u_mv"]
          /\ UNCHANGED << newValue, queuedValue, currentValue, asg, last, 
                          pdone, i, r, fin >>

u_mv == /\ pc[Consumer] = "u_mv"
        /\ currentValue' = queuedValue
        /\ queuedValue' = Moved
        /\ last' = [op |-> "update", arg |-> <<>>, res |-> TRUE]
        /\ pc' = [pc EXCEPT ![Consumer] = "u_clr"]
        /\ UNCHANGED << newValue, mutex, asg, pdone, i, r, fin >>

u_clr == /\ pc[Consumer] = "u_clr"
         /\ newValue' = FALSE
         /\ pc' = [pc EXCEPT ![Consumer] = "u_unlock"]
         /\ UNCHANGED << queuedValue, currentValue, mutex, asg, last, pdone, i, 
                         r, fin >>

u_unlock == /\ pc[Consumer] = "u_unlock"
            /\ IF mutex = Consumer
                  THEN /\ mutex' = Free
                  ELSE /\ TRUE
                       /\ mutex' = mutex
            /\ pc' = [pc EXCEPT ![Consumer] = "g_get"]
            /\ UNCHANGED << newValue, queuedValue, currentValue, asg, last, 
                            pdone, i, r, fin >>

g_get == /\ pc[Consumer] = "g_get"
         /\ last' = [op |-> "get", arg |-> <<>>, res |-> currentValue]
         /\ r' = r + 1
         /\ pc' = [pc EXCEPT ![Consumer] = "u_loop"]
         /\ UNCHANGED << newValue, queuedValue, currentValue, mutex, asg, 
                         pdone, i, fin >>

v_end == /\ pc[Consumer] = "v_end"
         /\ last' = [op |-> "end", arg |-> "val", res |-> <<>>]
         /\ pc' = [pc EXCEPT ![Consumer] = "Done"]
         /\ UNCHANGED << newValue, queuedValue, currentValue, mutex, asg, 
                         pdone, i, r, fin >>

cons == u_loop \/ u_begin \/ u_pre \/ u_test \/ u_lock \/ u_mv \/ u_clr
           \/ u_unlock \/ g_get \/ v_end

(* Allow infinite stuttering to prevent deadlock on termination. *)
Terminating == /\ \A self \in ProcSet: pc[self] = "Done"
               /\ UNCHANGED vars

Next == prod \/ cons
           \/ Terminating

Spec == Init /\ [][Next]_vars

Termination == <>(\A self \in ProcSet: pc[self] = "Done")

\* END TRANSLATION

-------------------------------------------------------------------------------
\* accesses of plain (non-atomic) shared variables performed by the step a thread is about to take
FlagAcc(k) == IF FlagIsAtomic THEN {} ELSE {<<"newValue", k>>}
Acc(t) == CASE pc[t] = "a_q"    -> {<<"queuedValue", "w">>}
            [] pc[t] = "a_flag" -> FlagAcc("w")
            [] pc[t] = "u_test" -> FlagAcc("r")
            [] pc[t] = "u_mv"   -> {<<"queuedValue", "r">>, <<"queuedValue", "w">>, <<"currentValue", "w">>}
            [] pc[t] = "u_clr"  -> FlagAcc("w")
            [] pc[t] = "g_get"  -> {<<"currentValue", "r">>}
            [] OTHER            -> {}

\* locks held there according to the source (scope of the lock_guard)
Held(t) == IF pc[t] \in {"a_q", "a_flag"} THEN {"mutex"}
           ELSE IF pc[t] \in {"u_mv", "u_clr"} /\ Variant # "nolock_update" THEN {"mutex"}
           ELSE IF pc[t] = "u_test" /\ Variant = "locked" THEN {"mutex"}
           ELSE {}

Conflict(a, b) == a[1] = b[1] /\ "w" \in {a[2], b[2]}
Race == \E t1, t2 \in Threads : /\ t1 # t2
                                /\ \E a \in Acc(t1), b \in Acc(t2) : Conflict(a, b)
                                /\ Held(t1) \cap Held(t2) = {}
NoRace  == ~Race
AnnotOK == \A t \in Threads : pc[t] \in {"a_q", "a_flag", "u_test", "u_mv", "u_clr"} => (("mutex" \in Held(t)) <=> (mutex = t))

\* refinement: values are their own position in asg (the producer assigns 1, 2, 3, ...)
C == INSTANCE HandOff WITH Strict <- TRUE, InitVal <- 0, Producers <- {}, Elems <- {}, Vals <- 1..NAssign, MaxAssign <- NAssign,
                           pend <- <<>>, asg <- asg, cur <- currentValue, last <- last
Refines == C!ObsSpec
===============================================================================
