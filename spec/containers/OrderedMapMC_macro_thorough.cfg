SPECIFICATION SpecH
CONSTANTS
  Keys = {0, 1, 2}
  Vals = {1, 2}
  Default = 0
  MaxSize = 4
  Ext = {}
  RangeN = {0, 1, 2, 3}
  K = 2
INVARIANTS TypeOK UniqueKeys Bounded LastAgrees AgreesWithHistory MacroIsIteration
CONSTRAINT HistBound
VIEW View
