----------------------------- MODULE HandOffTrace -----------------------------
(* Trace specification: is an execution recorded from the real                 *)
(* TransactionalBuffer / TransactionalValue a behaviour of the HandOff         *)
(* contract (Strict = FALSE: exactly the property statement)?                  *)
(*                                                                             *)
(* The driver logs, per thread, every call with an invocation stamp and a      *)
(* response stamp taken from ONE global atomic counter; the orchestrator       *)
(* merges the per-thread logs by stamp into lines                              *)
(*     {"k":"inv","t":thread,"c":{call with arguments and observed result}}    *)
(*     {"k":"res","t":thread,"c":{the same call}}                              *)
(*     {"k":"End","obj":"buf"|"val"}   producers joined, final consume()/update() done *)
(*     {"k":"Reset"}                   next execution, fresh object            *)
(* Threads 9..12 are READERS: they only call size() / empty(), concurrently     *)
(* with each other, with the consumer's polls and with producers that throttle  *)
(* themselves with size().  Consecutive calls of one thread to one accessor     *)
(* that returned the same result may be ONE record (op "sizes" / "empties",     *)
(* the result and the number "cnt" of calls) whose window spans all of them     *)
(* and which is explained by ONE observer step (BSizeRun_ / BEmptyRun_).        *)
(* A burst of n calls of one producer during which the consumer was held       *)
(* between two calls by the driver is ONE record (op "bpush" / "burst", first   *)
(* value and n) and takes effect as ONE macro action of the contract.           *)
(* (anything else - "race", "crash", "timeout" - is an event no behaviour of   *)
(* the contract contains).                                                     *)
(* A call takes effect in ONE contract step (TLin) placed anywhere between its *)
(* own inv and res line: TLC searches for such a placement (a linearisation)   *)
(* under which every observed result - batch, size, empty, update, get - is    *)
(* the result the contract allows in the state reached.  No wall-clock or      *)
(* cross-thread ordering is assumed beyond "response stamp < invocation stamp  *)
(* => really before".                                                          *)
(*                                                                             *)
(* Acceptance: register 1 holds the largest line index reached by any branch   *)
(* of the search (internal TLin steps make the search depth meaningless); the  *)
(* trace is accepted iff it exceeds N.  Otherwise it is the line no placement  *)
(* can explain.  (Run with one worker.)                                        *)
EXTENDS HandOff, Json, IOUtils, TLCExt

VARIABLES l,     \* next line to consume
          at,    \* [thread -> line of its open call's invocation, 0 if none]
          lin,   \* [thread -> the open call has taken effect]
          start  \* first line of the current execution
tvars == <<pend, asg, cur, last, l, at, lin, start>>

TraceLines == ndJsonDeserialize(IOEnv.TRACE)
N == Len(TraceLines)
Line == TraceLines[l]
Readers  == 9..12                                 \* threads that only ever call size() / empty() (observers)
TThreads == 0..12                                 \* 0: the consumer, 1..8: producers, 9..12: readers

Mark(x) == IF x > TLCGet(1) THEN TLCSet(1, x) ELSE TRUE

Idle == [t \in TThreads |-> 0]
NotLin == [t \in TThreads |-> FALSE]

TInit == Init /\ l = 1 /\ at = Idle /\ lin = NotLin /\ start = 1 /\ TLCSet(1, 1)

\* bursts and long batches arrive in run-length form (lossless): n values first, first+1, ...
Run(first, n)        == [i \in 1..n |-> first + i - 1]
ElemRun(p, first, n) == [i \in 1..n |-> <<p, first + i - 1>>]
RECURSIVE ExpandRuns(_)
ExpandRuns(rs) == IF rs = <<>> THEN <<>>
                  ELSE ElemRun(Head(rs)[1], Head(rs)[2], Head(rs)[3] - Head(rs)[2] + 1) \o ExpandRuns(Tail(rs))
BatchOf(c) == IF "runs" \in DOMAIN c THEN ExpandRuns(c.runs) ELSE c.batch

\* The open call of thread t was made while every producer had stopped: no producer call is open and the
\* line after t's invocation is its own response, so nothing at all happened inside its window.  The lines
\* up to that response are a complete execution (it is what really happened up to then) whose producers
\* have stopped and whose consumer has made one more call: the End clause applies (BConsumeQ_, VUpdateQ_).
\* Calls of reader threads inside the window do not count: a reader calls size() / empty() only (ReaderOK), which change
\* nothing - as far as the mutators go the window is still empty.
\* (looked for among the next 64 lines only - a call whose response is farther away is judged as not quiescent, the weaker
\* clause; no recursion over the lines: executions of code that answers erratically have thousands of reader lines)
IsReaderLine(i) == TraceLines[i].k \in {"inv", "res"} /\ TraceLines[i].t \in Readers
Quiescent(t) == /\ \A q \in Producers : at[q] = 0
                /\ \E j \in (at[t] + 1)..(IF N < at[t] + 64 THEN N ELSE at[t] + 64) :
                      /\ TraceLines[j].k = "res" /\ TraceLines[j].t = t
                      /\ \A i \in (at[t] + 1)..(j - 1) : IsReaderLine(i)

\* observers: any thread may call size() / empty(); a reader thread calls nothing else
Observing == {"size", "sizes", "empty", "empties"}
ReaderOK(t, c) == t \in Readers => c.op \in Observing

\* the poll loop (BConsumePolled_): the previous call of the thread that now calls consume() - the single consumer -
\* returned empty() = FALSE / size() > 0
PolledSome(t) ==
  LET S == {j \in start..(at[t] - 1) : TraceLines[j].k = "res" /\ TraceLines[j].t = t}
  IN S # {} /\ LET c == TraceLines[CHOOSE j \in S : \A i \in S : i <= j].c
               IN \/ c.op \in {"empty", "empties"} /\ ~c.b
                  \/ c.op \in {"size", "sizes"} /\ c.n > 0

\* Search hint: the orchestrator copies into an update() record the value returned by the get() the same
\* thread made next ("ng").  Only the consumer changes `cur`, so a choice of cur' that disagrees with that
\* get() is a branch the get() line would cut anyway; cutting it here keeps update() after a burst of 2^16
\* assignments from spawning 2^16 branches.  Never changes the verdict.
Hint(c) == "ng" \in DOMAIN c => ValAt(cur') = c.ng

\* (a state predicate used as the test of an IF is evaluated iteratively; as a conjunct of an action TLC would
\* unfold its quantifiers recursively, one stack frame per recorded call)
Holds(b) == IF b THEN TRUE ELSE FALSE

\* the contract step of a recorded call c made by thread t, with the results as observed
Effect(t, c) ==
  ReaderOK(t, c) /\
  CASE c.op = "push"    -> t = c.v[1] /\ BPush_(t, c.v)
    [] c.op = "pushx"   -> t = c.v[1] /\ (IF c.threw THEN BPushFailed_(t, c.v) ELSE BPush_(t, c.v))
    [] c.op = "assignx" -> IF c.threw THEN VAssignFailed_(c.v) ELSE VAssign_(c.v)
    [] c.op = "bpush"   -> t = c.p /\ BBurst_(t, ElemRun(c.p, c.first, c.n))
    [] c.op = "consume" -> /\ IF Quiescent(t) THEN BConsumeQ_(BatchOf(c)) ELSE BConsume_(BatchOf(c))
                           /\ Holds(PolledSome(t) => BatchOf(c) # <<>>)          \* BConsumePolled_
    [] c.op = "sizes"   -> BSizeRun_(c.n, c.cnt)
    [] c.op = "empties" -> BEmptyRun_(c.b, c.cnt)
    [] c.op = "size"    -> BSize_(c.n)
    [] c.op = "empty"   -> BEmpty_(c.b)
    [] c.op = "assign"  -> VAssign_(c.v)
    [] c.op = "burst"   -> VBurst_(Run(c.first, c.n))
    [] c.op = "update"  -> (IF Quiescent(t) THEN VUpdateQ_(c.ret) ELSE VUpdate_(c.ret)) /\ Hint(c)
    [] c.op = "get"     -> VGet_(c.v)
    [] OTHER            -> FALSE

TInv == /\ l <= N /\ Line.k = "inv"
        /\ Line.t \in TThreads /\ at[Line.t] = 0
        /\ at' = [at EXCEPT ![Line.t] = l]
        /\ l' = l + 1
        /\ UNCHANGED <<pend, asg, cur, last, lin, start>>

TLin(t) == /\ at[t] # 0 /\ ~lin[t]
           /\ Effect(t, TraceLines[at[t]].c)
           /\ lin' = [lin EXCEPT ![t] = TRUE]
           /\ UNCHANGED <<last, l, at, start>>

TRes == /\ l <= N /\ Line.k = "res"
        /\ Line.t \in TThreads /\ at[Line.t] # 0 /\ lin[Line.t]
        /\ Line.c = TraceLines[at[Line.t]].c
        /\ at' = [at EXCEPT ![Line.t] = 0]
        /\ lin' = [lin EXCEPT ![Line.t] = FALSE]
        /\ l' = l + 1
        /\ UNCHANGED <<pend, asg, cur, last, start>>

-------------------------------------------------------------------------------
\* The whole-execution clauses of the statement, read directly off the lines of the execution
\* between lines i and j (independent of where the search placed the effects; any execution that
\* has a linearisation satisfies them - they are checked again at the End line in this form
\* because this is the form the property statement has).
Sel(i, j, kind, ops) == SelectSeq(SubSeq(TraceLines, i, j), LAMBDA ln : ln.k = kind /\ ln.c.op \in ops)
RECURSIVE FlatBatches(_)
FlatBatches(s) == IF s = <<>> THEN <<>> ELSE BatchOf(Head(s).c) \o FlatBatches(Tail(s))
RECURSIVE FlatPushes(_)
FlatPushes(s) == IF s = <<>> THEN <<>>
                 ELSE (IF Head(s).c.op = "push" THEN <<Head(s).c.v>> ELSE ElemRun(Head(s).c.p, Head(s).c.first, Head(s).c.n))
                      \o FlatPushes(Tail(s))

\* consumed = pushed, per producer, in push order (batches in the consumer's call order)
WholeBuf(i, j) ==
  LET cons == FlatBatches(Sel(i, j, "res", {"consume"}))
      psh  == Sel(i, j, "inv", {"push", "bpush"})
  IN /\ SelectSeq(psh, LAMBDA ln : ln.t \notin Producers) = <<>>
     /\ SelectSeq(cons, LAMBDA e : e[1] \notin Producers) = <<>>
     /\ \A p \in Producers : ProjP(cons, p) = FlatPushes(SelectSeq(psh, LAMBDA ln : ln.t = p))

\* values seen = initial value or assigned ones, in assignment order; the last one seen is the last one assigned
\* (a value is located by the assignment line that contains it; inside a burst values increase)
WholeVal(i, j) ==
  LET as   == Sel(i, j, "inv", {"assign", "burst"})
      gs   == Sel(i, j, "res", {"get"})
      In(a, v) == IF as[a].c.op = "assign" THEN as[a].c.v = v ELSE as[a].c.first <= v /\ v < as[a].c.first + as[a].c.n
      LastOf(a) == IF as[a].c.op = "assign" THEN as[a].c.v ELSE as[a].c.first + as[a].c.n - 1
      Known(v) == v = InitVal \/ \E a \in DOMAIN as : In(a, v)
      \* v was assigned no later than w (some assignment of v is not after some assignment of w)
      Before(v, w) == v = InitVal \/ \E a, b \in DOMAIN as : a <= b /\ In(a, v) /\ In(b, w) /\ (a = b => v <= w)
  IN /\ \A k \in DOMAIN gs : Known(gs[k].c.v)
     /\ \A k \in 2..Len(gs) : Before(gs[k - 1].c.v, gs[k].c.v)
     /\ (gs # <<>> /\ as # <<>>) => gs[Len(gs)].c.v = LastOf(Len(as))

\* (executions that contain a call that threw are judged by the step-wise contract only: whether such a call counts
\* as made is left open, so the whole-execution form has no fixed set of pushed elements / assigned values)
NoThrow(i, j) == Sel(i, j, "inv", {"pushx", "assignx"}) = <<>>

TEnd == /\ l <= N /\ Line.k = "End"
        /\ at = Idle
        /\ IF Line.obj = "buf" THEN BEnd_ /\ Holds(NoThrow(start, l) => WholeBuf(start, l))
                                ELSE VEnd_ /\ Holds(NoThrow(start, l) => WholeVal(start, l))
        /\ l' = l + 1
        /\ UNCHANGED <<last, at, lin, start>>

TReset == /\ l <= N /\ Line.k = "Reset"
          /\ at = Idle
          /\ pend' = [p \in Producers |-> <<>>] /\ asg' = <<>> /\ cur' = 0
          /\ l' = l + 1 /\ start' = l + 1
          /\ UNCHANGED <<last, at, lin>>

TNext == (TInv \/ TRes \/ TEnd \/ TReset \/ \E t \in TThreads : TLin(t)) /\ Mark(l')
TSpec == TInit /\ [][TNext]_tvars

\* sanity of the search state itself
TypeOK == /\ \A t \in TThreads : lin[t] => at[t] # 0
          /\ cur \in 0..Len(asg)

Post == IF TLCGet(1) > N THEN TRUE
        ELSE /\ PrintT(<<"TRACE-REJECTED-AT-LINE", TLCGet(1), "OF", N>>)
             /\ FALSE
===============================================================================
