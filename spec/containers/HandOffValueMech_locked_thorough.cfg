SPECIFICATION Spec
CONSTANTS
  NAssign = 5
  NRounds = 5
  Variant = "locked"
INVARIANTS NoRace AnnotOK
PROPERTY Refines
CHECK_DEADLOCK FALSE
