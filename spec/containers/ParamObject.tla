------------------------------ MODULE ParamObject ------------------------------
(* Reference meaning of rkcommon::utility::ParameterizedObject (property C10):  *)
(* an insertion-ordered list of named parameters, each holding a typed value    *)
(* and a "queried" flag.  A read with a type other than the exact stored type   *)
(* yields the caller's default and does not mark the parameter as queried.      *)
(*                                                                              *)
(* Beyond one action per public member: the name / value argument may be the    *)
(* object stored inside the parameter list (RemoveParamAt, SetParamFrom), a     *)
(* parameter may exist without a value (findParam(name, true) of the protected  *)
(* interface, type tag "none"), setting a value may fail with an exception of   *)
(* the value's copy constructor (SetParamThrows), and macro actions stand for   *)
(* loops of calls over a range of names (sizes on both sides of 2^8 ...).       *)
EXTENDS Integers, Sequences, FiniteSets, TLC

CONSTANTS Names,    \* parameter names (integers; the driver maps n to a concrete name)
          Types,    \* type tags, e.g. {"int","float","str"}
          Vals,     \* integer payloads (the driver builds a value of the tagged type from it)
          MaxSize,
          Ext,      \* further action groups taken by Next: subset of {"alias", "protected", "throw"}
          RangeN    \* range lengths of the macro actions in Next ({} = none)

VARIABLES ps, last      \* ps: sequence of [n, t, v, q]
vars == <<ps, last>>

\* ---- the parameter list as a value ---------------------------------------------
IdxIn(pp, n) == {i \in DOMAIN pp : pp[i].n = n}
HasIn(pp, n) == IdxIn(pp, n) # {}
PosIn(pp, n) == CHOOSE i \in IdxIn(pp, n) : TRUE
SetF(pp, n, t, v) == IF HasIn(pp, n) THEN [pp EXCEPT ![PosIn(pp, n)].t = t, ![PosIn(pp, n)].v = v]
                     ELSE Append(pp, [n |-> n, t |-> t, v |-> v, q |-> FALSE])
AddF(pp, n)       == IF HasIn(pp, n) THEN pp ELSE Append(pp, [n |-> n, t |-> "none", v |-> 0, q |-> FALSE])
HitIn(pp, n, t)   == HasIn(pp, n) /\ pp[PosIn(pp, n)].t = t
GetF(pp, n, t)    == IF HitIn(pp, n, t) THEN [pp EXCEPT ![PosIn(pp, n)].q = TRUE] ELSE pp
RemF(pp, n)       == SelectSeq(pp, LAMBDA p : p.n # n)
NameSet(pp)       == {pp[i].n : i \in DOMAIN pp}

Idx(n) == IdxIn(ps, n)
Has(n) == HasIn(ps, n)
Pos(n) == PosIn(ps, n)
Row(p) == <<p.n, p.t, p.v, p.q>>
Proj(pp) == [size |-> Len(pp), params |-> [i \in 1..Len(pp) |-> Row(pp[i])]]

\* ---- macro operations: a loop of calls over the names lo .. lo+n-1 ---------------
PV(k, d) == ((k * 7 + d) % 97) + 1
InRange(k, lo, n) == k >= lo /\ k < lo + n
SetRangeF(pp, lo, n, t, d) ==
  LET have  == NameSet(pp)
      over  == [i \in DOMAIN pp |-> IF InRange(pp[i].n, lo, n) THEN [pp[i] EXCEPT !.t = t, !.v = PV(pp[i].n, d)] ELSE pp[i]]
      fresh == SelectSeq([i \in 1..n |-> lo + i - 1], LAMBDA k : k \notin have)
  IN  over \o [i \in 1..Len(fresh) |-> [n |-> fresh[i], t |-> t, v |-> PV(fresh[i], d), q |-> FALSE]]
GetRangeF(pp, lo, n, t) == [i \in DOMAIN pp |-> IF InRange(pp[i].n, lo, n) /\ pp[i].t = t THEN [pp[i] EXCEPT !.q = TRUE] ELSE pp[i]]
HitsInRange(pp, lo, n, t) == Cardinality({i \in DOMAIN pp : InRange(pp[i].n, lo, n) /\ pp[i].t = t})
RemoveEveryF(pp, lo, n, st, r) == SelectSeq(pp, LAMBDA p : ~(InRange(p.n, lo, n) /\ p.n % st = r))

RECURSIVE SetRangeIter(_, _, _, _, _), GetRangeIter(_, _, _, _), RemoveEveryIter(_, _, _, _, _)
SetRangeIter(pp, lo, n, t, d) == IF n = 0 THEN pp ELSE SetRangeIter(SetF(pp, lo, t, PV(lo, d)), lo + 1, n - 1, t, d)
GetRangeIter(pp, lo, n, t)    == IF n = 0 THEN pp ELSE GetRangeIter(GetF(pp, lo, t), lo + 1, n - 1, t)
RemoveEveryIter(pp, lo, n, st, r) ==
  IF n = 0 THEN pp ELSE RemoveEveryIter(IF lo % st = r THEN RemF(pp, lo) ELSE pp, lo + 1, n - 1, st, r)

Init == ps = <<>> /\ last = [a |-> "Init", arg |-> <<>>, exp |-> Proj(<<>>)]

Step(a, arg, ret, pp) ==
  /\ ps' = pp
  /\ last' = [a |-> a, arg |-> arg, exp |-> [ret |-> ret] @@ Proj(pp)]
StepC(a, cls, arg, ret, pp) ==
  /\ ps' = pp
  /\ last' = [a |-> a, cls |-> cls, arg |-> arg, exp |-> [ret |-> ret] @@ Proj(pp)]

SetParam(n, t, v) ==
  /\ Has(n) \/ Len(ps) < MaxSize
  /\ Step("SetParam", [n |-> n, t |-> t, v |-> v], "void", SetF(ps, n, t, v))

\* getParam<T>(name, default): default d is an integer payload distinct from stored ones
GetParam(n, t, d) ==
  Step("GetParam", [n |-> n, t |-> t, d |-> d], IF HitIn(ps, n, t) THEN ps[Pos(n)].v ELSE d, GetF(ps, n, t))

HasParam(n) == Step("HasParam", [n |-> n], Has(n), ps)

RemoveParam(n) == Step("RemoveParam", [n |-> n], "void", RemF(ps, n))

ResetQuery == Step("ResetQuery", <<>>, "void", [i \in DOMAIN ps |-> [ps[i] EXCEPT !.q = FALSE]])

\* removeParam(name) where `name` is the name object stored in the i-th parameter (0-based):
\*   removeParam((*(params_begin() + i))->name)
RemoveParamAt(i) ==
  IF i < Len(ps)
  THEN StepC("RemoveParamAt", IF i + 1 = Len(ps) THEN "name=stored-object,last" ELSE "name=stored-object,not-last",
             [i |-> i, n |-> ps[i + 1].n], "void", RemF(ps, ps[i + 1].n))
  ELSE StepC("RemoveParamAt", "beyond-the-end", [i |-> i, n |-> -1], "not-callable", ps)     \* the driver makes no call

\* setParam(n, <const reference to the value stored in parameter n2>): the value is copied; n = n2 sets a
\* parameter to its own value; a new n grows the list while the reference into it is alive
SetParamFrom(n, n2) ==
  IF Has(n2) /\ ps[Pos(n2)].t # "none"
  THEN /\ Has(n) \/ Len(ps) < MaxSize
       /\ StepC("SetParamFrom", IF n = n2 THEN "own-value" ELSE IF Has(n) THEN "value-of-other,present" ELSE "value-of-other,new",
                [n |-> n, n2 |-> n2], "void", SetF(ps, n, ps[Pos(n2)].t, ps[Pos(n2)].v))
  ELSE StepC("SetParamFrom", "no-source-value", [n |-> n, n2 |-> n2], "not-callable", ps)    \* the driver makes no call

\* findParam(name, true) of the protected interface: the parameter exists afterwards, without a value if it is new
FindOrAdd(n) ==
  /\ Has(n) \/ Len(ps) < MaxSize
  /\ Step("FindOrAdd", [n |-> n], "void", AddF(ps, n))

\* setParam<T>(n, x) where copying x throws.  Nothing was written: a present parameter keeps type, value and
\* flag, every other parameter is untouched, no other name appears.  Whether a NEW name now exists without a
\* value is not something the property statement decides (both outcomes are accepted).
SetParamThrows(n) ==
  \/ StepC("SetParamThrows", IF Has(n) THEN "present" ELSE "absent,not-created", [n |-> n], "throws", ps)
  \/ /\ ~Has(n) /\ Len(ps) < MaxSize
     /\ StepC("SetParamThrows", "absent,created-without-value", [n |-> n], "throws", AddF(ps, n))

\* ---- macro actions ----------------------------------------------------------------
SetRange(lo, n, t, d) ==
  /\ lo >= 0 /\ n >= 0
  /\ Cardinality(NameSet(ps) \cup lo..(lo + n - 1)) <= MaxSize
  /\ StepC("SetRange", n, [lo |-> lo, n |-> n, t |-> t, d |-> d], "void", SetRangeF(ps, lo, n, t, d))
\* getParam<t>(name, default) for every name of the range; returns how many calls did not yield the default
GetRange(lo, n, t) ==
  /\ lo >= 0 /\ n >= 0
  /\ StepC("GetRange", n, [lo |-> lo, n |-> n, t |-> t], HitsInRange(ps, lo, n, t), GetRangeF(ps, lo, n, t))
\* how = "name": removeParam(name(k)) for k ascending; how = "alias": one pass over the list, removeParam((*it)->name)
RemoveEvery(lo, n, st, r, how) ==
  /\ lo >= 0 /\ n >= 0 /\ st > 0
  /\ StepC("RemoveEvery", how, [lo |-> lo, n |-> n, st |-> st, r |-> r, how |-> how], "void", RemoveEveryF(ps, lo, n, st, r))

DefaultVal == 99

Next ==
  \/ \E n \in Names, t \in Types, v \in Vals : SetParam(n, t, v)
  \/ \E n \in Names, t \in Types : GetParam(n, t, DefaultVal)
  \/ \E n \in Names : HasParam(n) \/ RemoveParam(n)
  \/ ResetQuery
  \/ /\ "alias" \in Ext
     /\ \/ \E i \in 0..(MaxSize - 1) : RemoveParamAt(i)
        \/ \E n \in Names, n2 \in Names : SetParamFrom(n, n2)
  \/ /\ "protected" \in Ext
     /\ \E n \in Names : FindOrAdd(n)
  \/ /\ "throw" \in Ext
     /\ \E n \in Names : SetParamThrows(n)
  \/ \E n \in RangeN, lo \in Names :
        \/ \E t \in Types, d \in Vals : SetRange(lo, n, t, d)
        \/ \E t \in Types : GetRange(lo, n, t)
        \/ \E st \in 1..2, r \in 0..1, how \in {"name", "alias"} : RemoveEvery(lo, n, st, r, how)

Spec == Init /\ [][Next]_vars

UniqueNames == Cardinality(NameSet(ps)) = Len(ps)
LastAgrees  == last.exp.params = Proj(ps).params
\* a parameter without a value is never marked queried
NoneNotQueried == \A i \in DOMAIN ps : ps[i].t = "none" => ~ps[i].q
\* a parameter is marked queried only by a read with its exact type: checked as an action property
QueryOnlyByExactRead ==
  [][\A i \in DOMAIN ps' : (ps'[i].q /\ ~(\E j \in DOMAIN ps : ps[j].n = ps'[i].n /\ ps[j].q))
        => \/ (last'.a = "GetParam" /\ last'.arg.n = ps'[i].n /\ last'.arg.t = ps'[i].t)
           \/ (last'.a = "GetRange" /\ InRange(ps'[i].n, last'.arg.lo, last'.arg.n) /\ last'.arg.t = ps'[i].t)]_vars
\* the flag survives until reset / removal
QueryUntilReset ==
  [][\A j \in DOMAIN ps : (ps[j].q /\ ~(\E i \in DOMAIN ps' : ps'[i].n = ps[j].n /\ ps'[i].q))
        => last'.a \in {"ResetQuery", "RemoveParam", "RemoveParamAt", "RemoveEvery"}]_vars
\* a macro action is the iteration of the single calls it stands for
MacroIsIteration ==
  \A n \in RangeN, lo \in Names, t \in Types :
     /\ \A d \in Vals : Cardinality(NameSet(ps) \cup lo..(lo + n - 1)) <= MaxSize => SetRangeF(ps, lo, n, t, d) = SetRangeIter(ps, lo, n, t, d)
     /\ GetRangeF(ps, lo, n, t) = GetRangeIter(ps, lo, n, t)
     /\ \A st \in 1..2, r \in 0..1 : RemoveEveryF(ps, lo, n, st, r) = RemoveEveryIter(ps, lo, n, st, r)
===============================================================================
