------------------------------ MODULE ParamObject ------------------------------
(* Reference meaning of rkcommon::utility::ParameterizedObject (property C10):  *)
(* an insertion-ordered list of named parameters, each holding a typed value    *)
(* and a "queried" flag.  A read with a type other than the exact stored type   *)
(* yields the caller's default and does not mark the parameter as queried.      *)
EXTENDS Integers, Sequences, FiniteSets, TLC

CONSTANTS Names,    \* parameter names (integers; the driver maps n to "p<n>")
          Types,    \* type tags, e.g. {"int","float","str"}
          Vals,     \* integer payloads (the driver builds a value of the tagged type from it)
          MaxSize

VARIABLES ps, last      \* ps: sequence of [n, t, v, q]
vars == <<ps, last>>

Idx(n) == {i \in DOMAIN ps : ps[i].n = n}
Has(n) == Idx(n) # {}
Pos(n) == CHOOSE i \in Idx(n) : TRUE
Row(p) == <<p.n, p.t, p.v, p.q>>
Proj(pp) == [size |-> Len(pp), params |-> [i \in 1..Len(pp) |-> Row(pp[i])]]

Init == ps = <<>> /\ last = [a |-> "Init", arg |-> <<>>, exp |-> Proj(<<>>)]

SetParam(n, t, v) ==
  /\ Has(n) \/ Len(ps) < MaxSize
  /\ ps' = IF Has(n) THEN [ps EXCEPT ![Pos(n)].t = t, ![Pos(n)].v = v]
                     ELSE Append(ps, [n |-> n, t |-> t, v |-> v, q |-> FALSE])
  /\ last' = [a |-> "SetParam", arg |-> [n |-> n, t |-> t, v |-> v], exp |-> [ret |-> "void"] @@ Proj(ps')]

\* getParam<T>(name, default): default d is an integer payload distinct from stored ones
GetParam(n, t, d) ==
  LET hit == Has(n) /\ ps[Pos(n)].t = t IN
  /\ ps' = IF hit THEN [ps EXCEPT ![Pos(n)].q = TRUE] ELSE ps
  /\ last' = [a |-> "GetParam", arg |-> [n |-> n, t |-> t, d |-> d],
              exp |-> [ret |-> IF hit THEN ps[Pos(n)].v ELSE d] @@ Proj(ps')]

HasParam(n) ==
  /\ ps' = ps
  /\ last' = [a |-> "HasParam", arg |-> [n |-> n], exp |-> [ret |-> Has(n)] @@ Proj(ps)]

RemoveParam(n) ==
  /\ ps' = SelectSeq(ps, LAMBDA p : p.n # n)
  /\ last' = [a |-> "RemoveParam", arg |-> [n |-> n], exp |-> [ret |-> "void"] @@ Proj(ps')]

ResetQuery ==
  /\ ps' = [i \in DOMAIN ps |-> [ps[i] EXCEPT !.q = FALSE]]
  /\ last' = [a |-> "ResetQuery", arg |-> <<>>, exp |-> [ret |-> "void"] @@ Proj(ps')]

DefaultVal == 99

Next ==
  \/ \E n \in Names, t \in Types, v \in Vals : SetParam(n, t, v)
  \/ \E n \in Names, t \in Types : GetParam(n, t, DefaultVal)
  \/ \E n \in Names : HasParam(n) \/ RemoveParam(n)
  \/ ResetQuery

Spec == Init /\ [][Next]_vars

UniqueNames == \A i, j \in DOMAIN ps : ps[i].n = ps[j].n => i = j
LastAgrees  == last.exp.params = Proj(ps).params
\* a parameter is marked queried only by a read with its exact type: checked as an action property
QueryOnlyByExactRead ==
  [][\A i \in DOMAIN ps' : (ps'[i].q /\ ~(\E j \in DOMAIN ps : ps[j].n = ps'[i].n /\ ps[j].q))
        => (last'.a = "GetParam" /\ last'.arg.n = ps'[i].n /\ last'.arg.t = ps'[i].t)]_vars
\* the flag survives until reset / removal
QueryUntilReset ==
  [][\A j \in DOMAIN ps : (ps[j].q /\ ~(\E i \in DOMAIN ps' : ps'[i].n = ps[j].n /\ ps'[i].q))
        => last'.a \in {"ResetQuery", "RemoveParam"}]_vars
===============================================================================
