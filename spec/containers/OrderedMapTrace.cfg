SPECIFICATION TSpec
CONSTANTS
  Keys = {1,2,3,4,5,6,7,8,9,10}
  Vals = {1,2,3,4,5}
  Default = 0
  MaxSize = 10
INVARIANTS UniqueKeys LastAgrees
POSTCONDITION Post
CHECK_DEADLOCK FALSE
