SPECIFICATION TSpec
CONSTANTS
  Keys = {0,1,2,3,4,5,6,7,8,9}
  Vals = {1,2,3,4,5}
  Default = 0
  MaxSize = 100000
  Ext = {"write", "cidx", "throw", "two"}
  RangeN = {}
INVARIANTS UniqueKeys LastAgrees
POSTCONDITION Post
CHECK_DEADLOCK FALSE
