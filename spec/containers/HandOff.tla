------------------------------- MODULE HandOff -------------------------------
(* Contract of the two cross-thread hand-off containers of rkcommon            *)
(* (property C12):                                                             *)
(*                                                                             *)
(*   containers::TransactionalBuffer<T>   many producers push_back, one        *)
(*                                        consumer takes batches with consume()*)
(*   utility::TransactionalValue<T>       one producer assigns, one consumer   *)
(*                                        calls update() / get()               *)
(*                                                                             *)
(* Every call is ONE atomic step of this specification (its linearisation      *)
(* point); what the call returned is a parameter of the action, so the same    *)
(* actions serve model checking (results quantified over a finite set), the    *)
(* refinement check of the lock-protocol models (HandOffMech, HandOffValueMech)*)
(* and the validation of executions recorded from the real code (HandOffTrace: *)
(* results as observed).                                                       *)
(*                                                                             *)
(* A burst of n calls of one producer with nothing else in between is ONE    *)
(* macro action (BBurst_, VBurst_) - equal to its n single steps by the laws   *)
(* checked in HandOffMC - so that histories at counter boundaries (2^8, 2^16   *)
(* calls between two consumer calls) cost TLC one transition.                  *)
(*                                                                             *)
(* Strict = FALSE is exactly the property statement:                           *)
(*   - a batch takes, for every producer, a PREFIX of that producer's pending  *)
(*     elements (so no element is lost, duplicated, invented or overtaken by a *)
(*     later element of the same producer; the order between elements of       *)
(*     different producers inside a batch is left open, as in the statement);  *)
(*   - size() / empty() return the number of pending elements of one atomic    *)
(*     state (never a torn one);                                               *)
(*   - update() = TRUE installs some value assigned after the current one,     *)
(*     update() = FALSE installs nothing; get() returns the installed value;   *)
(*   - at the end of an execution (producers stopped, then one more consume()  *)
(*     resp. update()) nothing is pending / the last assigned value is         *)
(*     installed.                                                              *)
(* Strict = TRUE is the documented behaviour of the headers ("take all contents*)
(* of the buffer", "the consumer will always get the last value set"): every   *)
(* consume() takes everything, update() installs the newest value and returns  *)
(* TRUE exactly when one was pending.  TLC checks Strict => not Strict         *)
(* (HandOffMC) and mechanism => Strict (HandOffMech / HandOffValueMech); real  *)
(* executions are validated against Strict = FALSE only.                       *)
EXTENDS Integers, Sequences, FiniteSets, TLC

CONSTANTS Producers,   \* ids of the producer threads of the buffer (positive integers)
          InitVal,     \* what get() returns before the first successful update()
          Strict       \* BOOLEAN, see above

VARIABLES pend,        \* TransactionalBuffer: [Producers -> sequence of elements], pending elements of each producer in push order
          asg,         \* TransactionalValue: the sequence of values assigned so far
          cur,         \* TransactionalValue: index in asg of the value the consumer holds (0: the initial value)
          last         \* ghost: the call linearised by the last step, [op, arg, res]

vars  == <<pend, asg, cur, last>>
bvars == <<pend>>
vvars == <<asg, cur>>

-------------------------------------------------------------------------------
\* An element is a pair <<producer, payload>>; the producer of an element is e[1].
ProjP(batch, p) == SelectSeq(batch, LAMBDA e : e[1] = p)
IsPrefix(s, t)  == Len(s) <= Len(t) /\ SubSeq(t, 1, Len(s)) = s
Drop(t, n)      == SubSeq(t, n + 1, Len(t))

RECURSIVE SumLen(_, _)
SumLen(f, S) == IF S = {} THEN 0 ELSE LET x == CHOOSE x \in S : TRUE IN Len(f[x]) + SumLen(f, S \ {x})
Pending == SumLen(pend, Producers)

ValAt(i) == IF i = 0 THEN InitVal ELSE asg[i]

Init == /\ pend = [p \in Producers |-> <<>>]
        /\ asg = <<>>
        /\ cur = 0
        /\ last = [op |-> "init", arg |-> <<>>, res |-> <<>>]

-------------------------------------------------------------------------------
\* TransactionalBuffer
\* (X_ is the effect of call X on the contract state; X adds the ghost record)

\* state after push_back(v) by p / after the burst of push_backs vs by p (functions of the state, so that
\* the law "a burst is its single steps" can be stated as an ASSUME, see HandOffMC)
PushF(pd, p, v)       == [pd EXCEPT ![p] = Append(@, v)]
BurstPushF(pd, p, vs) == [pd EXCEPT ![p] = @ \o vs]
RECURSIVE FoldPush(_, _, _)
FoldPush(pd, p, vs) == IF vs = <<>> THEN pd ELSE FoldPush(PushF(pd, p, Head(vs)), p, Tail(vs))

\* push_back(v) by producer p
BPush_(p, v) ==
  /\ p \in Producers /\ v[1] = p
  /\ pend' = PushF(pend, p, v)
  /\ UNCHANGED vvars

\* MACRO ACTION: Len(vs) consecutive push_back calls of producer p (elements vs, in this order) during
\* which no other call on the buffer takes effect - one step whatever the length, so that histories
\* with bursts of 2^16 calls cost one transition.  Law (HandOffMC): BurstPushF = FoldPush.
BBurst_(p, vs) ==
  /\ p \in Producers /\ SelectSeq(vs, LAMBDA e : e[1] # p) = <<>>   \* all elements are p's (written with SelectSeq, not \A, so
  /\ pend' = BurstPushF(pend, p, vs)                                 \* that TLC handles 2^16 elements iteratively, in one pass)
  /\ UNCHANGED vvars

\* push_back(v) by producer p ended with an exception thrown by the copy of the element: the statement speaks
\* of pushed elements only, so the call may count as not made, or as made (the element then is a pushed
\* element like any other) - what matters is that the buffer keeps behaving as specified afterwards
BPushFailed_(p, v) == BPush_(p, v) \/ UNCHANGED <<pend, asg, cur>>

\* consume() returned `batch`
BConsume_(batch) ==
  /\ SelectSeq(batch, LAMBDA e : e[1] \notin Producers) = <<>>     \* nothing invented
  /\ \A p \in Producers : /\ IsPrefix(ProjP(batch, p), pend[p])   \* nothing duplicated / reordered within a producer
                          /\ Strict => ProjP(batch, p) = pend[p]
  /\ pend' = [p \in Producers |-> Drop(pend[p], Len(ProjP(batch, p)))]
  /\ UNCHANGED vvars

\* consume() returned `batch`, and the call was made while every producer had stopped (no push_back in
\* flight or later): the execution up to the response of this call is itself a complete execution whose
\* producers have stopped and whose consumer has called consume() once more - the clause of BEnd_ applies
BConsumeQ_(batch) ==
  /\ BConsume_(batch)
  /\ \A p \in Producers : pend'[p] = <<>>

\* size() returned n
BSize_(n) == n = Pending /\ UNCHANGED <<pend, asg, cur>>

\* empty() returned b
BEmpty_(b) == b = (Pending = 0) /\ UNCHANGED <<pend, asg, cur>>

\* OBSERVERS.  size() and empty() are read-only: they may be called by ANY thread - the consumer (polling), a producer
\* (back-pressure: while (size() >= limit) wait), threads that do nothing else (monitors, "readers") - and by any number
\* of them at the same time.  Each call is still ONE step that returns the length / emptiness of the atomic state at its
\* linearisation point and changes nothing; who else is inside size() / empty() at that moment is not part of the state,
\* so it cannot influence the answer.  In particular, while no push_back is open or made (mutators quiescent) every
\* empty() is TRUE and every size() is 0 on a drained buffer, whatever the number of concurrent observers.
\* MACRO ACTION: k >= 1 consecutive size() / empty() calls of one thread that all returned the same result (run-length
\* form of a recording).  Each of the k calls has its own linearisation point; the run is explained only if at least one
\* state agrees with the result, which is what this step asks for (the law "an observer step leaves the state unchanged",
\* ObserverIsReadOnly in HandOffMC, makes k steps at one state equal to one).
BSizeRun_(n, k)  == k >= 1 /\ BSize_(n)
BEmptyRun_(b, k) == k >= 1 /\ BEmpty_(b)

\* POLL LOOP of the single consumer:  if (!empty()) batch = consume();  resp.  if (size() > 0) ...
\* Only the consumer removes elements, so an element it observed through empty() = FALSE / size() > 0 is still pending
\* when its next consume() takes effect; the header documents consume() as "take all contents of the buffer", of which
\* this clause keeps the weakest consequence: that batch is not empty.  (Strict = TRUE implies it, law PollThenConsume in
\* HandOffMC; the statement's own clauses - prefix per producer - are unchanged.)
BConsumePolled_(batch) == BConsume_(batch) /\ batch # <<>>

\* end of an execution: all producers have stopped and the consumer called consume() once more
BEnd_ == (\A p \in Producers : pend[p] = <<>>)                    \* nothing lost
         /\ UNCHANGED <<pend, asg, cur>>

BPush(p, v)     == BPush_(p, v)     /\ last' = [op |-> "push",    arg |-> v,     res |-> <<>>]
BBurst(p, vs)   == BBurst_(p, vs)   /\ last' = [op |-> "bpush",   arg |-> vs,    res |-> <<>>]
BConsume(batch) == BConsume_(batch) /\ last' = [op |-> "consume", arg |-> <<>>,  res |-> batch]
BSize(n)        == BSize_(n)        /\ last' = [op |-> "size",    arg |-> <<>>,  res |-> n]
BEmpty(b)       == BEmpty_(b)       /\ last' = [op |-> "empty",   arg |-> <<>>,  res |-> b]
BSizeRun(n, k)  == BSizeRun_(n, k)  /\ last' = [op |-> "sizes",   arg |-> k,     res |-> n]
BEmptyRun(b, k) == BEmptyRun_(b, k) /\ last' = [op |-> "empties", arg |-> k,     res |-> b]
BEnd            == BEnd_            /\ last' = [op |-> "end",     arg |-> "buf", res |-> <<>>]

-------------------------------------------------------------------------------
\* TransactionalValue

AssignF(a, v)       == Append(a, v)
BurstAssignF(a, vs) == a \o vs
RECURSIVE FoldAssign(_, _)
FoldAssign(a, vs) == IF vs = <<>> THEN a ELSE FoldAssign(AssignF(a, Head(vs)), Tail(vs))

\* tv = v by the producer
VAssign_(v) == asg' = AssignF(asg, v) /\ UNCHANGED <<pend, cur>>

\* MACRO ACTION: Len(vs) consecutive assignments (values vs, in this order) during which no consumer call
\* takes effect; the queued value is then the last of the burst.  Law (HandOffMC): BurstAssignF = FoldAssign.
VBurst_(vs) == asg' = BurstAssignF(asg, vs) /\ UNCHANGED <<pend, cur>>

\* tv = v ended with an exception thrown by the copy of the value: as for BPushFailed_
VAssignFailed_(v) == VAssign_(v) \/ UNCHANGED <<pend, asg, cur>>

\* update() returned ret
VUpdate_(ret) ==
  /\ IF ret THEN /\ cur < Len(asg)
                 /\ cur' \in (cur + 1)..Len(asg)                  \* a newer value, in assignment order
                 /\ Strict => cur' = Len(asg)
            ELSE /\ cur' = cur
                 /\ Strict => cur = Len(asg)
  /\ UNCHANGED <<pend, asg>>

\* update() returned ret, and the call was made while the producer had stopped (no assignment in flight
\* or later): the execution up to the response of this call is a complete execution in which the producer
\* has stopped and the consumer has called update() once more - the clause of VEnd_ applies
VUpdateQ_(ret) ==
  /\ cur' = Len(asg)
  /\ VUpdate_(ret)

\* get() (or ref()) returned v
VGet_(v) == v = ValAt(cur) /\ UNCHANGED <<pend, asg, cur>>

\* end of an execution: the producer has stopped and the consumer called update() once more
VEnd_ == cur = Len(asg)                                           \* the consumer obtained the last value
         /\ UNCHANGED <<pend, asg, cur>>

VAssign(v)   == VAssign_(v)   /\ last' = [op |-> "assign", arg |-> v,     res |-> <<>>]
VBurst(vs)   == VBurst_(vs)   /\ last' = [op |-> "burst",  arg |-> vs,    res |-> <<>>]
VUpdate(ret) == VUpdate_(ret) /\ last' = [op |-> "update", arg |-> <<>>,  res |-> ret]
VGet(v)      == VGet_(v)      /\ last' = [op |-> "get",    arg |-> <<>>,  res |-> v]
VEnd         == VEnd_         /\ last' = [op |-> "end",    arg |-> "val", res |-> <<>>]

-------------------------------------------------------------------------------
\* Closed-system next-state relations over finite universes (model checking, refinement)
CONSTANTS Elems,       \* elements that may be pushed (pairs <<p, payload>>)
          Vals,        \* values that may be assigned
          MaxAssign    \* bound on Len(asg)

\* all sequences of distinct elements
Batches == UNION {{s \in [1..n -> Elems] : \A i, j \in 1..n : i # j => s[i] # s[j]} : n \in 0..Cardinality(Elems)}

BNext == \/ \E v \in Elems : BPush(v[1], v)
         \/ \E batch \in Batches : BConsume(batch)
         \/ \E n \in 0..Cardinality(Elems) : BSize(n)
         \/ \E b \in BOOLEAN : BEmpty(b)
         \/ \E n \in 0..Cardinality(Elems), k \in 1..2 : BSizeRun(n, k)
         \/ \E b \in BOOLEAN, k \in 1..2 : BEmptyRun(b, k)
         \/ BEnd
VNext == \/ \E v \in Vals : Len(asg) < MaxAssign /\ VAssign(v)
         \/ \E r \in BOOLEAN : VUpdate(r)
         \/ \E v \in Vals \cup {InitVal} : VGet(v)
         \/ VEnd

BufSpec == Init /\ [][BNext]_vars
ValSpec == Init /\ [][VNext]_vars

\* The same relations without enumeration, for refinement checks of models that maintain `last`
\* themselves: every action sets last' to its own name and parameters, so "some action with some
\* parameters" is "the action and parameters named by last'".
StepOf(r) == CASE r.op = "push"    -> BPush(r.arg[1], r.arg)
               [] r.op = "consume" -> BConsume(r.res)
               [] r.op = "size"    -> BSize(r.res)
               [] r.op = "empty"   -> BEmpty(r.res)
               [] r.op = "sizes"   -> BSizeRun(r.res, r.arg)
               [] r.op = "empties" -> BEmptyRun(r.res, r.arg)
               [] r.op = "assign"  -> VAssign(r.arg)
               [] r.op = "update"  -> VUpdate(r.res)
               [] r.op = "get"     -> VGet(r.res)
               [] r.op = "end"     -> IF r.arg = "buf" THEN BEnd ELSE VEnd
               [] OTHER            -> FALSE
ObsSpec == Init /\ [][StepOf(last')]_vars
===============================================================================
