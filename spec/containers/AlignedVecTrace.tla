---------------------------- MODULE AlignedVecTrace ----------------------------
(* Trace specification: is a recorded execution of two real AlignedVector<T>   *)
(* (and of aligned_allocator<T>::allocate) a behaviour of AlignedVec?  Each    *)
(* recorded line {a, arg, obs} must be the next action of the specification    *)
(* with those arguments, and every observable the specification computes for   *)
(* that step (last'.exp: contents and sizes of both vectors, data() mod 64,    *)
(* the outcome class of allocate) must equal what was observed; observables    *)
(* the specification does not mention (capacity, whether data() moved) are     *)
(* ignored.  Executions are separated by {"a":"Reset"} lines.                  *)
EXTENDS AlignedVec, Json, IOUtils, TLCExt

\* the element type of the recorded vectors: sizeof(T) / alignof(T), given by the environment of the validation run
TESize  == atoi(IOEnv.C14_ESIZE)
TEAlign == atoi(IOEnv.C14_EALIGN)

VARIABLE l
tvars == <<v, last, l>>

TraceLines == ndJsonDeserialize(IOEnv.TRACE)
N == Len(TraceLines)
Line == TraceLines[l]

Matches(f)  == f \in DOMAIN Line.obs /\ Line.obs[f] = last'.exp[f]
ObsMatches  == \A f \in DOMAIN last'.exp : Matches(f)
FirstBad    == CHOOSE f \in DOMAIN last'.exp : ~Matches(f)

TInit == Init /\ l = 1

Threw == "ret" \in DOMAIN Line.obs /\ Line.obs.ret = "threw"
Dispatch ==
  IF Threw THEN "fuse" \in DOMAIN Line.arg /\ Failed(Line.a, Line.arg) ELSE
  \/ Line.a = "PushBack" /\ PushBack(Line.arg.i, Line.arg.x)
  \/ Line.a = "PushBackRv" /\ PushBackRv(Line.arg.i, Line.arg.x)
  \/ Line.a = "PushBackOwn" /\ PushBackOwn(Line.arg.i)
  \/ Line.a = "CopyCtor" /\ CopyCtor(Line.arg.i)
  \/ Line.a = "InsertMid" /\ InsertMid(Line.arg.i, Line.arg.x)
  \/ Line.a = "PopBack" /\ PopBack(Line.arg.i)
  \/ Line.a = "Resize" /\ Resize(Line.arg.i, Line.arg.n)
  \/ Line.a = "ResizeVal" /\ ResizeVal(Line.arg.i, Line.arg.n, Line.arg.x)
  \/ Line.a = "Reserve" /\ Reserve(Line.arg.i, Line.arg.n)
  \/ Line.a = "ShrinkToFit" /\ ShrinkToFit(Line.arg.i)
  \/ Line.a = "Assign" /\ Assign(Line.arg.i, Line.arg.n, Line.arg.x)
  \/ Line.a = "AssignFrom" /\ AssignFrom(Line.arg.i)
  \/ Line.a = "Swap" /\ Swap
  \/ Line.a = "Clear" /\ Clear(Line.arg.i)
  \/ Line.a = "Insert" /\ Insert(Line.arg.i, Line.arg.pos, Line.arg.x)
  \/ Line.a = "MoveAssign" /\ MoveAssign(Line.arg.i)
  \/ Line.a = "SelfAssign" /\ SelfAssign(Line.arg.i)
  \/ Line.a = "InsertOwn" /\ InsertOwn(Line.arg.i)
  \/ Line.a = "ResizeValOwn" /\ ResizeValOwn(Line.arg.i, Line.arg.n)
  \/ Line.a = "Allocate" /\ Line.arg.how # "rebind_to" /\ Allocate(Line.arg.how, Line.arg.rel, Line.arg.d)
  \/ Line.a = "Allocate" /\ Line.arg.how = "rebind_to" /\ AllocateTo(Line.arg.to, Line.arg.rel, Line.arg.d)

TStep  == /\ l <= N /\ Line.a # "Reset"
          /\ Dispatch
          /\ IF ObsMatches THEN TRUE ELSE PrintT(<<"C14-REASON", l, FirstBad, last'.cls>>) /\ FALSE
          /\ l' = l + 1
TReset == l <= N /\ Line.a = "Reset" /\ v' = <<<<>>, <<>>>>
          /\ last' = [a |-> "Init", arg |-> <<>>, cls |-> "", byte_ok |-> TRUE, exp |-> Proj(<<<<>>, <<>>>>)] /\ l' = l + 1
TNext  == TStep \/ TReset
TSpec  == TInit /\ [][TNext]_tvars

\* acceptance: the search reached the end of the trace (one state per line + the initial one)
Accepted == TLCGet("stats").diameter - 1 = N
Post == IF Accepted THEN TRUE
        ELSE /\ PrintT(<<"TRACE-REJECTED-AT-LINE", TLCGet("stats").diameter, "OF", N>>)
             /\ FALSE
===============================================================================
