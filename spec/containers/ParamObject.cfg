SPECIFICATION Spec
CONSTANTS
  Names = {1, 2}
  Types = {"int", "float", "str"}
  Vals = {1, 2}
  MaxSize = 2
INVARIANTS UniqueNames LastAgrees
PROPERTIES QueryOnlyByExactRead QueryUntilReset
