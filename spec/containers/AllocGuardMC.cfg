SPECIFICATION Spec
CONSTANTS
  W = 256
  ESizes = {1, 2, 3, 4, 12, 24, 63, 64, 65, 72}
  Guarded = TRUE
