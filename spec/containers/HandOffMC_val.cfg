SPECIFICATION MCValSpec
CONSTANTS
  Producers = {1, 2}
  InitVal = 0
  Strict = FALSE
  Elems <- MCElems
  Vals <- MCVals
  MaxAssign = 3
  NPush = 2
  MaxConsume = 3
  MaxGets = 4
INVARIANTS SeenAssigned SeenInOrder TrueIffNewer GetIsCurrent LastObtained StrictNewest
PROPERTY RefinesStatementVal
CHECK_DEADLOCK FALSE
