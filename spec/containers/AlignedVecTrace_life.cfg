SPECIFICATION TSpec
CONSTANTS
  Vals = {1, 2, 3, 4, 5, 6, 7, 8, 9}
  Default = 0
  MaxLen = 100000
  ResizeNs = {}
  ReserveNs = {}
  AllocBelow = 0
  AllocAbove = 0
  ESize <- TESize
  EAlign <- TEAlign
  Lifetime = TRUE
INVARIANTS LastAgrees
POSTCONDITION Post
CHECK_DEADLOCK FALSE
