SPECIFICATION Spec
CONSTANTS
  Vals = {9}
  Default = 0
  MaxLen = 3
  ResizeNs = {0, 2, 3}
  ReserveNs = {0, 5}
  AllocBelow = 1
  AllocAbove = 1
  ESize = 8
  EAlign = 8
  Lifetime = TRUE
INVARIANTS TypeOK Bounded LastAgrees
