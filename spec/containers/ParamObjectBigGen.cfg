SPECIFICATION Spec
CONSTANTS
  Sizes = {255, 256, 257}
