SPECIFICATION Spec
CONSTANTS
  NAssign = 3
  NRounds = 3
  Variant = "atomic"
INVARIANTS NoRace AnnotOK
PROPERTY Refines
CHECK_DEADLOCK FALSE
