SPECIFICATION SpecH
CONSTANTS
  Keys = {0, 1, 2}
  Vals = {1, 2}
  Default = 0
  MaxSize = 3
  Ext = {"write"}
  RangeN = {}
  K = 3
INVARIANTS TypeOK UniqueKeys Bounded LastAgrees AgreesWithHistory
CONSTRAINT HistBound
VIEW View
