------------------------------ MODULE AllocGuard ------------------------------
(* The overflow guard of rkcommon::containers::aligned_allocator<T>::allocate   *)
(* (property C14, last clause): "the allocator throws length_error instead of   *)
(* overflowing when the request exceeds max_size()".                            *)
(*                                                                             *)
(* size_t arithmetic is modelled over a word of W values (W = 2^64 for the     *)
(* real code, which TLC's 32-bit integers cannot hold).  Requests are therefore *)
(* written SYMBOLICALLY, relative to the two boundaries the clause talks about: *)
(*                                                                             *)
(*   [rel |-> "abs", d |-> k]   n = k                       (small requests)   *)
(*   [rel |-> "max", d |-> k]   n = max_size() + k          (k may be <= 0)    *)
(*   [rel |-> "ovf", d |-> k]   n = (W-1) div sizeof(T) + k (k > 0: the byte   *)
(*                              count n*sizeof(T) is not representable)        *)
(*                                                                             *)
(* Representable / MustThrow below are the symbolic semantics used to compute   *)
(* the expected outcome for the real 64-bit allocator; AllocGuardMC checks them *)
(* against concrete arithmetic for W = 256, together with the law that makes    *)
(* the guard correct, and refutes an unguarded allocator.                       *)
EXTENDS Integers, Sequences

Rels == {"abs", "max", "ovf"}

\* can the request be written down as a size_t at all?  For sizeof(T) = 1, max_size() is the largest size_t.
Representable(byteSized, rel, d) ==
  CASE rel = "abs" -> d >= 0
    [] rel = "max" -> d <= 0 \/ ~byteSized
    [] rel = "ovf" -> d <= 0 \/ ~byteSized

\* the clause: a request beyond max_size() (equivalently: one whose byte count overflows) must throw length_error
MustThrow(rel, d) == rel \in {"max", "ovf"} /\ d > 0

-------------------------------------------------------------------------------
(* Element types.  The statement quantifies over "AlignedVector of several      *)
(* element sizes": an element type is [size |-> sizeof(T), align |-> alignof(T)] *)
(* and every law below is a FORMULA in these two numbers - sizes below, at and  *)
(* above the 64-byte alignment of the blocks, powers of two or not (63, 64, 65, *)
(* 72, 96, 127, 128, 129, 160, 200 ...), over-aligned types (alignof = 128 > 64) *)
(* and the types an allocator gets REBOUND to (rebind<U>::other: node types of   *)
(* odd sizes, 1 byte) are all instances of the same formulas:                    *)
(*   - every block handed out by aligned_allocator<T> is AllocAlign-aligned,     *)
(*     whatever sizeof(T) / alignof(T) are (also when alignof(T) > AllocAlign:   *)
(*     the statement promises 64, not alignof(T));                               *)
(*   - max_size() = (W - 1) div sizeof(T), with W = 2^64 written as limbs;       *)
(*   - a request of n elements with n * sizeof(T) <= SmallBytes SUCCEEDS (no     *)
(*     null, no bad_alloc: a few KiB are always available to the test process)   *)
(*     and n * sizeof(T) bytes of it are usable;                                 *)
(*   - a request beyond max_size() throws length_error (MustThrow).              *)
IsPow2(a)  == a \in {1, 2, 4, 8, 16, 32, 64, 128, 256, 512, 1024, 2048, 4096}
ETypeOK(t) == t.size \in 1..32767 /\ IsPow2(t.align) /\ t.size % t.align = 0
AllocAlign == 64
SmallBytes == 16777216

\* numbers of nl limbs of base `base`, most significant first (the real size_t: base 2^16, 4 limbs)
LimbVal(base, x) == LET RECURSIVE V(_) V(k) == IF k = 0 THEN 0 ELSE V(k - 1) * base + x[k] IN V(Len(x))
\* (base^nl - 1) div es by long division; es < 2^15 keeps every intermediate value below 2^31
DivAllOnes(base, nl, es) ==
  LET RECURSIVE R(_)        \* remainder after k limbs
      R(k) == IF k = 0 THEN 0 ELSE (R(k - 1) * base + (base - 1)) % es
  IN [k \in 1..nl |-> (R(k - 1) * base + (base - 1)) \div es]
\* x + d (d a small integer, possibly negative), modulo base^nl: size_t arithmetic
AddSmall(base, nl, x, d) ==
  LET RECURSIVE C(_)        \* carry into limb k (k = nl + 1: the addend)
      C(k) == IF k = nl + 1 THEN d ELSE (x[k] + C(k + 1)) \div base
  IN [k \in 1..nl |-> (x[k] + C(k + 1)) % base]
MaxSizeL(base, nl, es) == DivAllOnes(base, nl, es)
\* the symbolic request [rel, d] for element size es, as a number
RequestL(base, nl, es, rel, d) ==
  CASE rel = "abs" -> AddSmall(base, nl, [k \in 1..nl |-> 0], d)
    [] rel = "max" -> AddSmall(base, nl, MaxSizeL(base, nl, es), d)
    [] rel = "ovf" -> AddSmall(base, nl, DivAllOnes(base, nl, es), d)
\* the real size_t
MaxSize64(es)          == MaxSizeL(65536, 4, es)
Request64(es, rel, d)  == RequestL(65536, 4, es, rel, d)
\* requests that must succeed, and the bytes they make usable
SmallRequest(es, rel, d) == rel = "abs" /\ d > 0 /\ d * es <= SmallBytes
===============================================================================
