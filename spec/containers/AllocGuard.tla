------------------------------ MODULE AllocGuard ------------------------------
(* The overflow guard of rkcommon::containers::aligned_allocator<T>::allocate   *)
(* (property C14, last clause): "the allocator throws length_error instead of   *)
(* overflowing when the request exceeds max_size()".                            *)
(*                                                                             *)
(* size_t arithmetic is modelled over a word of W values (W = 2^64 for the     *)
(* real code, which TLC's 32-bit integers cannot hold).  Requests are therefore *)
(* written SYMBOLICALLY, relative to the two boundaries the clause talks about: *)
(*                                                                             *)
(*   [rel |-> "abs", d |-> k]   n = k                       (small requests)   *)
(*   [rel |-> "max", d |-> k]   n = max_size() + k          (k may be <= 0)    *)
(*   [rel |-> "ovf", d |-> k]   n = (W-1) div sizeof(T) + k (k > 0: the byte   *)
(*                              count n*sizeof(T) is not representable)        *)
(*                                                                             *)
(* Representable / MustThrow below are the symbolic semantics used to compute   *)
(* the expected outcome for the real 64-bit allocator; AllocGuardMC checks them *)
(* against concrete arithmetic for W = 256, together with the law that makes    *)
(* the guard correct, and refutes an unguarded allocator.                       *)
EXTENDS Integers

Rels == {"abs", "max", "ovf"}

\* can the request be written down as a size_t at all?  For sizeof(T) = 1, max_size() is the largest size_t.
Representable(byteSized, rel, d) ==
  CASE rel = "abs" -> d >= 0
    [] rel = "max" -> d <= 0 \/ ~byteSized
    [] rel = "ovf" -> d <= 0 \/ ~byteSized

\* the clause: a request beyond max_size() (equivalently: one whose byte count overflows) must throw length_error
MustThrow(rel, d) == rel \in {"max", "ovf"} /\ d > 0
===============================================================================
