SPECIFICATION Spec
CONSTANTS
  Keys = {0, 1}
  Vals = {1}
  Default = 0
  MaxSize = 2
  Ext = {"write", "cidx", "throw", "two"}
  RangeN = {}
INVARIANTS TypeOK UniqueKeys Bounded LastAgrees
