SPECIFICATION Spec
CONSTANTS
  Producers = {}
  NPush = 0
  NOps = 1
  Readers = {10}
  NReads = 1
  Variant = "trylock_empty"
INVARIANTS MutexOK
PROPERTY Refines
CHECK_DEADLOCK FALSE
