SPECIFICATION Spec
CONSTANTS
  NAssign = 3
  NRounds = 3
  Variant = "code"
INVARIANTS NoRace

CHECK_DEADLOCK FALSE
