----------------------------- MODULE AllocGuardMC -----------------------------
(* Concrete 8-bit model (W = 256) of allocate(n) for element sizes ESizes:      *)
(*   - the guard as written in aligned_allocator.h:  n > max_size() -> throw,   *)
(*     with max_size() = (W-1) div sizeof(T), rejects exactly the requests      *)
(*     whose byte count n*sizeof(T) is not representable, so the byte count     *)
(*     handed to alignedMalloc is always the mathematical product;              *)
(*   - the symbolic request classes of AllocGuard mean what they say;           *)
(*   - negative control: without the guard some request is served with fewer    *)
(*     bytes than n elements need (Guarded = FALSE must be refuted).            *)
EXTENDS AllocGuard, TLC

CONSTANTS W, ESizes, Guarded

MaxSizeOf(es) == (W - 1) \div es
Ns == 0..(W - 1)

\* what allocate(n) asks alignedMalloc for (Throw = length_error instead of a request)
Throw == -1
BytesRequested(n, es) ==
  IF Guarded /\ n > MaxSizeOf(es) THEN Throw ELSE (n * es) % W

\* law: the allocator never asks for fewer bytes than n elements occupy
NeverShort == \A es \in ESizes, n \in Ns :
                 BytesRequested(n, es) = Throw \/ BytesRequested(n, es) = n * es
\* law: it throws only when it has to (the product really is not representable)
ThrowsOnlyOnOverflow == \A es \in ESizes, n \in Ns :
                 BytesRequested(n, es) = Throw => n * es > W - 1
\* law: max_size() elements are representable, one more is not
MaxSizeTight == \A es \in ESizes : MaxSizeOf(es) * es <= W - 1 /\ (MaxSizeOf(es) + 1) * es > W - 1

\* the symbolic request classes, made concrete
Concrete(es, rel, d) == CASE rel = "abs" -> d
                          [] rel = "max" -> MaxSizeOf(es) + d
                          [] rel = "ovf" -> ((W - 1) \div es) + d
Ds == -2..3
SymbolicAgrees ==
  \A es \in ESizes, rel \in Rels, d \in Ds :
     LET n == Concrete(es, rel, d) IN
       /\ (rel # "abs" /\ d > 0 => (Representable(es = 1, rel, d) <=> n \in Ns))
       /\ (n \in Ns => (MustThrow(rel, d) <=> n > MaxSizeOf(es)))
       /\ (n \in Ns /\ MustThrow(rel, d) => n * es > W - 1)

\* the limb formulas of AllocGuard (used at base 2^16 x 4 limbs for the real size_t) agree with integer arithmetic
\* at base 4 x 4 limbs (W = 256) / base 16 x 3 limbs (W = 4096): max_size() of every element size, and requests around it
LB == IF W = 256 THEN 4 ELSE 16
LN == IF W = 256 THEN 4 ELSE 3
LimbsAgree ==
  /\ LB ^ LN = W
  /\ \A es \in ESizes :
       /\ ETypeOK([size |-> es, align |-> 1])
       /\ LimbVal(LB, MaxSizeL(LB, LN, es)) = MaxSizeOf(es)
       /\ \A rel \in Rels, d \in Ds :
            LET n == Concrete(es, rel, d) IN
              (rel = "abs" => d >= 0) /\ n \in Ns => LimbVal(LB, RequestL(LB, LN, es, rel, d)) = n
\* requests that must succeed are never requests that must throw, and their byte count is the plain product
SmallIsLegal ==
  \A es \in ESizes, rel \in Rels, d \in Ds :
     SmallRequest(es, rel, d) => ~MustThrow(rel, d) /\ Representable(es = 1, rel, d)

ASSUME NeverShort
ASSUME LimbsAgree
ASSUME SmallIsLegal
ASSUME ThrowsOnlyOnOverflow
ASSUME MaxSizeTight
ASSUME SymbolicAgrees

VARIABLE dummy
Init == dummy = 0
Next == UNCHANGED dummy
Spec == Init /\ [][Next]_dummy
===============================================================================
