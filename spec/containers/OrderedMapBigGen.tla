--------------------------- MODULE OrderedMapBigGen ---------------------------
(* Histories that take a map ACROSS A SIZE BOUNDARY (property C10).  The       *)
(* statement quantifies over every history; an implementation that keeps a     *)
(* position, a count or a distance in a narrow integer (8 / 16 bits), or that  *)
(* goes wrong when the underlying storage grows, is wrong only for maps of     *)
(* 2^8 / 2^16 entries and their neighbours.  N is the boundary; each shape     *)
(* reaches N - 1, N and N + 1 entries and looks at both ends, removes the      *)
(* first / last / every second entry (by key and through the stored key        *)
(* object), re-inserts, clears and refills.                                    *)
(*                                                                             *)
(* A range of calls is ONE step (macro actions PutRange / EraseEvery of        *)
(* OrderedMap.tla, content defined by a formula), so TLC handles a dozen steps *)
(* per history; the driver performs the real calls.  This module only emits    *)
(* the call sequences; what the real map returns after every step is validated *)
(* by OrderedMapTrace against OrderedMap.tla.                                   *)
EXTENDS Integers, Sequences, FiniteSets, TLC, Json, IOUtils, SequencesExt

CONSTANTS Sizes,        \* boundaries N
          SmallMax      \* shapes that print whole maps (reverse iteration, second map) only for N <= SmallMax

A(a, arg) == [a |-> a, arg |-> arg]
PR(lo, n, d)          == A("PutRange", [lo |-> lo, n |-> n, d |-> d])
EE(lo, n, st, r, how) == A("EraseEvery", [lo |-> lo, n |-> n, st |-> st, r |-> r, how |-> how])
P(k, v)   == A("Put", [k |-> k, v |-> v])
G(k)      == A("GetOrInsert", [k |-> k])
AT(k)     == A("At", [k |-> k])
AA(k, v)  == A("AtAssign", [k |-> k, v |-> v])
C(k)      == A("Contains", [k |-> k])
E(k)      == A("Erase", [k |-> k])
EA(i)     == A("EraseAt", [i |-> i])
AI(i)     == A("AtIndex", [i |-> i])
AIA(i, v) == A("AtIndexAssign", [i |-> i, v |-> v])
IA(i, v)  == A("IterAssign", [i |-> i, v |-> v])
R(n)      == A("Reserve", [n |-> n])
CL        == A("Clear", <<>>)
IR        == A("IterRev", <<>>)
IC        == A("IterConst", <<>>)
CT        == A("CopyTo", <<>>)
CF        == A("CopyFrom", <<>>)
CC        == A("CopyCtor", <<>>)
MC        == A("MoveCtor", <<>>)
SW        == A("Swap", <<>>)
CL2       == A("Clear2", <<>>)

Shape(k, N) ==
  CASE k = 1 ->   \* exactly N entries: both ends, absent neighbours, first / last removed, re-insertion goes to the back
         <<PR(0, N, 1), AI(N - 1), AI(N), AT(N - 1), AT(N), C(N - 1), C(N), G(N - 1), E(0), AI(N - 2), AI(N - 1),
           P(0, 5), AI(N - 1), EA(0), EA(N - 2), AI(N - 2), G(N), AI(N - 2), AA(N - 1, 3), AT(N - 1)>>
    [] k = 2 ->   \* one by one across the boundary, and back
         <<PR(0, N - 1, 1), P(N - 1, 2), AI(N - 1), P(N, 3), AI(N), P(N + 1, 4), AI(N + 1), AI(N + 2), E(N), AI(N), E(N - 1),
           AI(N - 1), G(N - 1), AI(N), AIA(N, 9), AIA(N + 1, 9), IA(N - 1, 8), AT(N + 1), EA(N), EA(N - 1), AI(N - 1)>>
    [] k = 3 ->   \* every second entry removed (by key / through the stored key object), refilled: survivors keep their place
         <<PR(0, N, 1), EE(0, N, 2, 0, "key"), AI(0), PR(0, N, 2), AI(0), AI(N - 1), EE(0, N, 2, 1, "alias"), AI(0), AI(N - 1),
           CL, AI(0), PR(1, N, 3), R(0), AI(N - 1), EE(0, N + 1, 1, 0, "alias"), G(N)>>
    [] k = 4 ->   \* growth after an exact reservation; removals from the front
         <<R(N), PR(0, N, 1), P(N, 1), AI(N), EE(0, N - 1, 1, 0, "key"), AI(0), AI(1), AI(2), R(1), PR(0, 2, 4), AI(3)>>
    [] k = 5 ->   \* whole maps of N entries copied, swapped, moved; the copy is independent of the original
         <<PR(0, N, 1), CT, E(0), EA(N - 2), CF, AI(N - 1), P(N, 2), SW, AI(N), CC, E(1), IR, IC, MC, AI(0), CL2>>

ShapesFor(N) == IF N <= SmallMax THEN 1..5 ELSE 1..4
Cases == {[cls |-> N, shape |-> k, h |-> Shape(k, N)] : N \in Sizes, k \in 1..5} \ {[cls |-> N, shape |-> 5, h |-> Shape(5, N)] : N \in {n \in Sizes : n > SmallMax}}

\* every case reaches its boundary size in one macro step and contains a removal through a stored key object
ASSUME \A c \in Cases : /\ \E i \in DOMAIN c.h : c.h[i].a = "PutRange" /\ c.h[i].arg.n \in {c.cls - 1, c.cls}
                        /\ c.shape \in ShapesFor(c.cls)
ASSUME \A N \in Sizes : N >= 4
ASSUME ndJsonSerialize(IOEnv.OUT, SetToSeq(Cases))

VARIABLE x
Init == x = 0
Next == UNCHANGED x
Spec == Init /\ [][Next]_x
===============================================================================
