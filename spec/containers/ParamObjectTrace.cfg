SPECIFICATION TSpec
CONSTANTS
  Names = {1,2,3,4,5,6}
  Types = {"int", "float", "str", "bool"}
  Vals = {1,2,3,4,5}
  MaxSize = 100000
  Ext = {"alias", "protected", "throw"}
  RangeN = {}
INVARIANTS UniqueNames LastAgrees NoneNotQueried
POSTCONDITION Post
CHECK_DEADLOCK FALSE
