SPECIFICATION TSpec
CONSTANTS
  Names = {1,2,3,4,5,6}
  Types = {"int", "float", "str", "bool"}
  Vals = {1,2,3,4,5}
  MaxSize = 6
INVARIANTS UniqueNames LastAgrees
POSTCONDITION Post
CHECK_DEADLOCK FALSE
