----------------------------- MODULE ParamObjectMC -----------------------------
(* Model-checking instance of ParamObject: the history of single calls, and the *)
(* declarative reading of property C10 for ParameterizedObject after it:        *)
(*   - a parameter exists iff it was set (or created through findParam(name,    *)
(*     true)) and not removed since; it exists once;                            *)
(*   - the list is in first-creation order of the surviving names;              *)
(*   - type and value are those of the last setParam since its creation;        *)
(*   - it is marked queried iff, since its creation and since the last          *)
(*     resetAllParamQueryStatus(), some getParam<T> asked for exactly the type   *)
(*     it held at that moment.                                                   *)
(* A removal through the stored name object is the removal of that name, a      *)
(* setParam with the value of another parameter is a setParam with that type    *)
(* and value, a macro action contributes the calls it stands for.               *)
EXTENDS ParamObject

CONSTANT K
VARIABLES hist, steps
varsH == <<ps, last, hist, steps>>

ASSUME "throw" \notin Ext      \* (a failed setParam has two admissible outcomes: not part of the deterministic reading)

Call(a, n, t, v) == [a |-> a, n |-> n, t |-> t, v |-> v]
RangeSeq(lo, n) == [i \in 1..n |-> lo + i - 1]
\* the single calls a step stands for (the state before the step is needed for SetParamFrom)
CallsOf(l, before) ==
  CASE l.a = "SetParam"      -> <<Call("Set", l.arg.n, l.arg.t, l.arg.v)>>
    [] l.a = "SetParamFrom"  -> IF l.cls = "no-source-value" THEN <<>>
                                ELSE <<Call("Set", l.arg.n, before[PosIn(before, l.arg.n2)].t, before[PosIn(before, l.arg.n2)].v)>>
    [] l.a = "GetParam"      -> <<Call("Get", l.arg.n, l.arg.t, 0)>>
    [] l.a = "RemoveParam"   -> <<Call("Remove", l.arg.n, "", 0)>>
    [] l.a = "RemoveParamAt" -> IF l.arg.n = -1 THEN <<>> ELSE <<Call("Remove", l.arg.n, "", 0)>>
    [] l.a = "ResetQuery"    -> <<Call("Reset", 0, "", 0)>>
    [] l.a = "FindOrAdd"     -> <<Call("Add", l.arg.n, "", 0)>>
    [] l.a = "SetRange"      -> [i \in 1..l.arg.n |-> Call("Set", l.arg.lo + i - 1, l.arg.t, PV(l.arg.lo + i - 1, l.arg.d))]
    [] l.a = "GetRange"      -> [i \in 1..l.arg.n |-> Call("Get", l.arg.lo + i - 1, l.arg.t, 0)]
    [] l.a = "RemoveEvery"   -> LET ks == SelectSeq(RangeSeq(l.arg.lo, l.arg.n), LAMBDA k : k % l.arg.st = l.arg.r)
                                IN  [i \in 1..Len(ks) |-> Call("Remove", ks[i], "", 0)]
    [] OTHER                 -> <<>>

InitH == Init /\ hist = <<>> /\ steps = 0
NextH == Next /\ hist' = hist \o CallsOf(last', ps) /\ steps' = steps + (IF CallsOf(last', ps) = <<>> THEN 0 ELSE 1)
SpecH == InitH /\ [][NextH]_varsH

MaxOf(S) == CHOOSE x \in S : \A y \in S : y <= x
MinOf(S) == CHOOSE x \in S : \A y \in S : x <= y

AllNames     == {hist[i].n : i \in {j \in DOMAIN hist : hist[j].a # "Reset"}}
LastKill(n)  == LET S == {i \in DOMAIN hist : hist[i].a = "Remove" /\ hist[i].n = n} IN IF S = {} THEN 0 ELSE MaxOf(S)
Births(n)    == {i \in DOMAIN hist : i > LastKill(n) /\ hist[i].a \in {"Set", "Add"} /\ hist[i].n = n}
Present      == {n \in AllNames : Births(n) # {}}
Birth(n)     == MinOf(Births(n))
\* the Set that determines type and value of n as seen by call number i (0: none yet)
SetBefore(n, i) == LET S == {j \in DOMAIN hist : j >= Birth(n) /\ j < i /\ hist[j].a = "Set" /\ hist[j].n = n} IN IF S = {} THEN 0 ELSE MaxOf(S)
TypeAt(n, i)  == IF SetBefore(n, i) = 0 THEN "none" ELSE hist[SetBefore(n, i)].t
ValueAt(n, i) == IF SetBefore(n, i) = 0 THEN 0 ELSE hist[SetBefore(n, i)].v
LastReset     == LET S == {i \in DOMAIN hist : hist[i].a = "Reset"} IN IF S = {} THEN 0 ELSE MaxOf(S)
Queried(n)    == \E i \in DOMAIN hist : /\ i > Birth(n) /\ i > LastReset
                                        /\ hist[i].a = "Get" /\ hist[i].n = n /\ hist[i].t = TypeAt(n, i)
End           == Len(hist) + 1
RefSeq        == [i \in 1..Cardinality(Present) |->
                    LET n == CHOOSE nn \in Present : Cardinality({j \in Present : Birth(j) < Birth(nn)}) = i - 1
                    IN [n |-> n, t |-> TypeAt(n, End), v |-> ValueAt(n, End), q |-> Queried(n)]]

AgreesWithHistory == ps = RefSeq
HistBound == steps <= K
View == <<ps, hist, steps>>
===============================================================================
