SPECIFICATION SpecH
CONSTANTS
  Names = {1, 2}
  Types = {"int", "float", "str"}
  Vals = {1, 2}
  MaxSize = 2
  Ext = {"alias", "protected"}
  RangeN = {}
  K = 3
INVARIANTS UniqueNames LastAgrees NoneNotQueried AgreesWithHistory
CONSTRAINT HistBound
VIEW View
