SPECIFICATION Spec
CONSTANTS
  W = 256
  ESizes = {1, 2, 3, 4, 12, 64}
  Guarded = FALSE
