SPECIFICATION TSpec
CONSTANTS
  Producers = {1,2,3,4,5,6,7,8}
  InitVal = 0
  Strict = FALSE
  Elems = {}
  Vals = {}
  MaxAssign = 0
INVARIANTS TypeOK
POSTCONDITION Post
CHECK_DEADLOCK FALSE
