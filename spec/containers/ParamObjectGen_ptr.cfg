SPECIFICATION Spec
CONSTANTS
  Names = {1, 2}
  Types = {"ptr", "cstr", "double"}
  Vals = {1, 2}
  MaxSize = 2
  Ext = {"alias", "protected"}
  RangeN = {}
INVARIANTS UniqueNames LastAgrees NoneNotQueried
