SPECIFICATION Spec
CONSTANTS
  W = 4096
  ESizes = {1, 2, 3, 4, 12, 24, 63, 64, 65, 72, 96, 127, 128, 129, 160, 200}
  Guarded = FALSE
