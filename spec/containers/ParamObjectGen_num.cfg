SPECIFICATION Spec
CONSTANTS
  Names = {1, 2}
  Types = {"int", "uint", "i64"}
  Vals = {1, 2}
  MaxSize = 2
  Ext = {"alias", "protected"}
  RangeN = {}
INVARIANTS UniqueNames LastAgrees NoneNotQueried
