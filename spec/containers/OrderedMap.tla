------------------------------ MODULE OrderedMap ------------------------------
(* Insertion-ordered unique-key map: the reference meaning of                  *)
(* rkcommon::containers::FlatMap<KEY,VALUE> (property C10).                    *)
(*                                                                             *)
(* State: m, a sequence of <<key, value>> pairs.  One action per public entry  *)
(* point of FlatMap.  The ghost variable `last` records the action just taken, *)
(* its arguments and every observable the contract constrains after it         *)
(* (return value / "throws", size, full iteration order); it is what the       *)
(* conformance drivers are compared with and what trace validation binds to.   *)
EXTENDS Integers, Sequences, FiniteSets, TLC

CONSTANTS Keys,      \* key universe (integers; drivers map them to int / string keys)
          Vals,      \* values written by Put (integers # Default)
          Default,   \* value a default-constructed VALUE() stands for
          MaxSize    \* bound on Len(m) for model checking (>= Cardinality(Keys) = unbounded)

VARIABLES m, last
vars == <<m, last>>

Idx(k)  == {i \in DOMAIN m : m[i][1] = k}
Has(k)  == Idx(k) # {}
Pos(k)  == CHOOSE i \in Idx(k) : TRUE
KeysOf  == {m[i][1] : i \in DOMAIN m}
Rev(s)  == [i \in 1..Len(s) |-> s[Len(s) + 1 - i]]
SelectNot(k) == SelectSeq(m, LAMBDA p : p[1] # k)

\* the projection every step is compared on
Proj(mm) == [size |-> Len(mm), empty |-> (Len(mm) = 0), items |-> mm]

Init == m = <<>> /\ last = [a |-> "Init", arg |-> <<>>, exp |-> Proj(<<>>)]

TypeOK == /\ m \in Seq(Keys \X (Vals \cup {Default}))

-------------------------------------------------------------------------------
\* operator[] followed by assignment:  map[k] = v
Put(k, v) ==
  /\ Has(k) \/ Len(m) < MaxSize
  /\ m' = IF Has(k) THEN [m EXCEPT ![Pos(k)] = <<k, v>>] ELSE Append(m, <<k, v>>)
  /\ last' = [a |-> "Put", arg |-> [k |-> k, v |-> v], exp |-> [ret |-> v] @@ Proj(m')]

\* operator[] used as a read:  x = map[k]   (default-inserts an absent key)
GetOrInsert(k) ==
  /\ Has(k) \/ Len(m) < MaxSize
  /\ m' = IF Has(k) THEN m ELSE Append(m, <<k, Default>>)
  /\ last' = [a |-> "GetOrInsert", arg |-> [k |-> k],
              exp |-> [ret |-> IF Has(k) THEN m[Pos(k)][2] ELSE Default] @@ Proj(m')]

\* at(k): value, or throws std::out_of_range exactly for absent keys
At(k) ==
  /\ m' = m
  /\ last' = [a |-> "At", arg |-> [k |-> k],
              exp |-> [ret |-> IF Has(k) THEN m[Pos(k)][2] ELSE "throws"] @@ Proj(m)]

\* at(k) = v through the returned reference (present keys only; absent: throws, nothing changes)
AtAssign(k, v) ==
  /\ m' = IF Has(k) THEN [m EXCEPT ![Pos(k)] = <<k, v>>] ELSE m
  /\ last' = [a |-> "AtAssign", arg |-> [k |-> k, v |-> v],
              exp |-> [ret |-> IF Has(k) THEN v ELSE "throws"] @@ Proj(m')]

Contains(k) ==
  /\ m' = m
  /\ last' = [a |-> "Contains", arg |-> [k |-> k], exp |-> [ret |-> Has(k)] @@ Proj(m)]

Erase(k) ==
  /\ m' = SelectNot(k)
  /\ last' = [a |-> "Erase", arg |-> [k |-> k], exp |-> [ret |-> "void"] @@ Proj(m')]

Clear ==
  /\ m' = <<>>
  /\ last' = [a |-> "Clear", arg |-> <<>>, exp |-> [ret |-> "void"] @@ Proj(m')]

\* at_index(i) with 0-based i: the i-th pair in first-insertion order, or throws
AtIndex(i) ==
  /\ m' = m
  /\ last' = [a |-> "AtIndex", arg |-> [i |-> i],
              exp |-> [ret |-> IF i < Len(m) THEN m[i + 1] ELSE "throws"] @@ Proj(m)]

\* reverse iteration (rbegin..rend) and the const iterators
IterRev ==
  /\ m' = m
  /\ last' = [a |-> "IterRev", arg |-> <<>>, exp |-> [ret |-> Rev(m)] @@ Proj(m)]

IterConst ==
  /\ m' = m
  /\ last' = [a |-> "IterConst", arg |-> <<>>, exp |-> [ret |-> m] @@ Proj(m)]

\* reserve(n) must not change anything observable
Reserve(n) ==
  /\ m' = m
  /\ last' = [a |-> "Reserve", arg |-> [n |-> n], exp |-> [ret |-> "void"] @@ Proj(m)]

Next ==
  \/ \E k \in Keys, v \in Vals : Put(k, v) \/ AtAssign(k, v)
  \/ \E k \in Keys : GetOrInsert(k) \/ At(k) \/ Contains(k) \/ Erase(k)
  \/ Clear \/ IterRev \/ IterConst
  \/ \E i \in 0..MaxSize : AtIndex(i)
  \/ \E n \in {0, 7} : Reserve(n)

Spec == Init /\ [][Next]_vars

-------------------------------------------------------------------------------
\* Invariants of the reference itself
UniqueKeys == \A i, j \in DOMAIN m : m[i][1] = m[j][1] => i = j
Bounded    == Len(m) <= MaxSize
LastAgrees == last.exp.items = m /\ last.exp.size = Len(m)
===============================================================================
