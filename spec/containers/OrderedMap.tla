------------------------------ MODULE OrderedMap ------------------------------
(* Insertion-ordered unique-key map: the reference meaning of                  *)
(* rkcommon::containers::FlatMap<KEY,VALUE> (property C10).                    *)
(*                                                                             *)
(* State: m, a sequence of <<key, value>> pairs (the map under test), and s, a *)
(* second map of the same type (copies, assignments and swaps of whole maps,   *)
(* two instances used alternately).  One action per public entry point of      *)
(* FlatMap and per way of reaching it that generic code gets wrong: the key    *)
(* argument may be the key object stored inside the map (EraseAt), values are  *)
(* written through at(), at_index() and iterators, an insertion may fail with  *)
(* an exception of the key / value type (InsertThrows).  Macro actions         *)
(* (PutRange, EraseEvery) stand for whole loops of calls whose content is      *)
(* defined by a formula, so that sizes on both sides of 2^8 / 2^16 are reached *)
(* in one step of a history.                                                   *)
(*                                                                             *)
(* The map operations themselves are the pure operators PutF / InsF / EraseF   *)
(* ... on sequences; the actions apply them to m or s.  The ghost variable     *)
(* `last` records the action just taken, its arguments and every observable    *)
(* the contract constrains after it (return value / "throws", size, full       *)
(* iteration order, or a digest of it for maps too large to print); it is what *)
(* the conformance drivers are compared with and what trace validation binds   *)
(* to.                                                                         *)
EXTENDS Integers, Sequences, FiniteSets, TLC
SX == INSTANCE SequencesExt     \* (named: SequencesExt has a Contains of its own)

CONSTANTS Keys,      \* key universe (integers; drivers map them to int / string / instrumented keys)
          Vals,      \* values written by Put (integers # Default)
          Default,   \* value a default-constructed VALUE() stands for
          MaxSize,   \* bound on Len(m) for model checking (>= Cardinality(Keys) = unbounded)
          Ext,       \* which of the further action groups Next takes: subset of {"write", "cidx", "throw", "two"}
                     \* (values written through at_index / iterators, const operator[], failing insertions, the second map)
          RangeN     \* set of range lengths for the macro actions in Next ({} = none)

VARIABLES m, s, last
vars == <<m, s, last>>

-------------------------------------------------------------------------------
\* The map as a value: pure operators on sequences of <<key, value>>
IdxIn(mm, k)  == {i \in DOMAIN mm : mm[i][1] = k}
HasIn(mm, k)  == IdxIn(mm, k) # {}
PosIn(mm, k)  == CHOOSE i \in IdxIn(mm, k) : TRUE
ValIn(mm, k)  == mm[PosIn(mm, k)][2]
PutF(mm, k, v) == IF HasIn(mm, k) THEN [mm EXCEPT ![PosIn(mm, k)] = <<k, v>>] ELSE Append(mm, <<k, v>>)
InsF(mm, k)   == IF HasIn(mm, k) THEN mm ELSE Append(mm, <<k, Default>>)
EraseF(mm, k) == SelectSeq(mm, LAMBDA p : p[1] # k)
SetValAt(mm, i, v) == [mm EXCEPT ![i] = <<mm[i][1], v>>]
Rev(q)        == [i \in 1..Len(q) |-> q[Len(q) + 1 - i]]
KeySet(mm)    == {mm[i][1] : i \in DOMAIN mm}

Has(k)  == HasIn(m, k)
Pos(k)  == PosIn(m, k)

\* Macro operations: a whole loop of calls, content defined by a formula.
\*   PutRange(lo, n, d):  for k = lo .. lo+n-1 in this order:  map[k] = RV(k, d)
\*   EraseEvery(lo, n, st, r): for k = lo .. lo+n-1 with k % st = r:  map.erase(k)   (any order of the calls gives this)
RV(k, d)  == ((k * 7 + d) % 997) + 1
InRange(k, lo, n) == k >= lo /\ k < lo + n
PutRangeF(mm, lo, n, d) ==
  LET have  == KeySet(mm)
      over  == [i \in DOMAIN mm |-> IF InRange(mm[i][1], lo, n) THEN <<mm[i][1], RV(mm[i][1], d)>> ELSE mm[i]]
      fresh == SelectSeq([i \in 1..n |-> lo + i - 1], LAMBDA k : k \notin have)
  IN  over \o [i \in 1..Len(fresh) |-> <<fresh[i], RV(fresh[i], d)>>]
EraseEveryF(mm, lo, n, st, r) == SelectSeq(mm, LAMBDA p : ~(InRange(p[1], lo, n) /\ p[1] % st = r))

\* the same by iteration of the single-call operators (the law MacroIsIteration below compares the two)
RECURSIVE PutRangeIter(_, _, _, _), EraseEveryIter(_, _, _, _, _)
PutRangeIter(mm, lo, n, d) == IF n = 0 THEN mm ELSE PutRangeIter(PutF(mm, lo, RV(lo, d)), lo + 1, n - 1, d)
EraseEveryIter(mm, lo, n, st, r) ==
  IF n = 0 THEN mm ELSE EraseEveryIter(IF lo % st = r THEN EraseF(mm, lo) ELSE mm, lo + 1, n - 1, st, r)

-------------------------------------------------------------------------------
\* The projection every step is compared on.  Up to ItemsMax entries: the full
\* sequence; beyond: a digest (order-sensitive hash of all entries, the ends,
\* and the entries at the indices next to powers of two).
ItemsMax == 1100
HashMod  == 65521
HashStep(acc, p) == (acc * 31 + (p[1] % HashMod) * 7 + (p[2] % HashMod)) % HashMod
ProbeIdx == <<127, 128, 254, 255, 256, 257, 511, 512, 1023, 1024, 4095, 4096, 65534, 65535, 65536>>   \* 0-based
Min2(a, b) == IF a < b THEN a ELSE b
Max2(a, b) == IF a > b THEN a ELSE b
Digest(mm) ==
  LET n == Len(mm) IN
  [dig_hash   |-> SX!FoldLeft(HashStep, 7, mm),
   dig_head   |-> SubSeq(mm, 1, Min2(3, n)),
   dig_tail   |-> SubSeq(mm, Max2(1, n - 2), n),
   dig_probes |-> [j \in 1..Len(ProbeIdx) |-> IF ProbeIdx[j] < n THEN mm[ProbeIdx[j] + 1] ELSE <<>>]]
Proj(mm) == IF Len(mm) <= ItemsMax
            THEN [size |-> Len(mm), empty |-> (Len(mm) = 0), items |-> mm]
            ELSE [size |-> Len(mm), empty |-> FALSE] @@ Digest(mm)
Obs(mm, ss) == Proj(mm) @@ [items2 |-> ss]

Init == /\ m = <<>> /\ s = <<>>
        /\ last = [a |-> "Init", arg |-> <<>>, exp |-> Obs(<<>>, <<>>)]

ValDom == Vals \cup {Default} \cup 1..997
KeyDom == IF RangeN = {} THEN Keys ELSE Int
TypeOK == /\ m \in Seq(KeyDom \X ValDom)
          /\ s \in Seq(KeyDom \X ValDom)

\* one step: new primary map mm, new second map ss, what the call returned
Step(a, arg, ret, mm, ss) ==
  /\ m' = mm /\ s' = ss
  /\ last' = [a |-> a, arg |-> arg, exp |-> [ret |-> ret] @@ Obs(mm, ss)]
StepC(a, cls, arg, ret, mm, ss) ==
  /\ m' = mm /\ s' = ss
  /\ last' = [a |-> a, cls |-> cls, arg |-> arg, exp |-> [ret |-> ret] @@ Obs(mm, ss)]

-------------------------------------------------------------------------------
\* operator[] followed by assignment:  map[k] = v
Put(k, v) ==
  /\ Has(k) \/ Len(m) < MaxSize
  /\ Step("Put", [k |-> k, v |-> v], v, PutF(m, k, v), s)

\* operator[] used as a read:  x = map[k]   (default-inserts an absent key)
GetOrInsert(k) ==
  /\ Has(k) \/ Len(m) < MaxSize
  /\ Step("GetOrInsert", [k |-> k], IF Has(k) THEN ValIn(m, k) ELSE Default, InsF(m, k), s)

\* at(k), const and non-const: value, or throws std::out_of_range exactly for absent keys
At(k) == Step("At", [k |-> k], IF Has(k) THEN ValIn(m, k) ELSE "throws", m, s)

\* at(k) = v through the returned reference (present keys only; absent: throws, nothing changes)
AtAssign(k, v) ==
  Step("AtAssign", [k |-> k, v |-> v], IF Has(k) THEN v ELSE "throws", IF Has(k) THEN PutF(m, k, v) ELSE m, s)

Contains(k) == Step("Contains", [k |-> k], Has(k), m, s)

Erase(k) == Step("Erase", [k |-> k], "void", EraseF(m, k), s)

\* erase(key) where `key` is the key object stored in the map at 0-based index i:
\*   map.erase(map.at_index(i).first)   /   for (auto &p : map) if (...) { map.erase(p.first); break; }
\* A removal like any other: exactly that key goes, the rest keeps its order.
\* (Input classes: the position of the entry, and whether the entry after it has key 0 - under the drivers' plain key
\*  maps that is the default-constructed key, 0 / the empty string, which is what a moved-from key object looks like.)
EraseAt(i) ==
  IF i < Len(m)
  THEN LET k == m[i + 1][1] IN
       StepC("EraseAt",
             IF i + 1 = Len(m) THEN "key=stored-object,last-entry"
             ELSE IF m[i + 2][1] = 0 THEN "key=stored-object,next-key=0"
             ELSE "key=stored-object,next-key=other",
             [i |-> i, k |-> k], "void", EraseF(m, k), s)
  ELSE StepC("EraseAt", "beyond-the-end", [i |-> i, k |-> -1], "throws", m, s)      \* at_index(i) throws, erase is not reached

Clear == Step("Clear", <<>>, "void", <<>>, s)

\* at_index(i) with 0-based i, const and non-const: the i-th pair in first-insertion order, or throws
AtIndex(i) == Step("AtIndex", [i |-> i], IF i < Len(m) THEN m[i + 1] ELSE "throws", m, s)

\* at_index(i).second = v: overwrites the value of the i-th key (throws and changes nothing beyond the end)
AtIndexAssign(i, v) ==
  Step("AtIndexAssign", [i |-> i, v |-> v, k |-> IF i < Len(m) THEN m[i + 1][1] ELSE -1],
       IF i < Len(m) THEN v ELSE "throws", IF i < Len(m) THEN SetValAt(m, i + 1, v) ELSE m, s)

\* (begin() + i)->second = v through the mutable iterator
IterAssign(i, v) ==
  IF i < Len(m)
  THEN Step("IterAssign", [i |-> i, v |-> v, k |-> m[i + 1][1]], v, SetValAt(m, i + 1, v), s)
  ELSE Step("IterAssign", [i |-> i, v |-> v, k |-> -1], "not-callable", m, s)         \* no such iterator: the driver makes no call

\* reverse iteration (rbegin..rend, const rbegin..rend, crbegin..crend) and the const iterators (begin / cbegin)
IterRev   == Step("IterRev", <<>>, Rev(m), m, s)
IterConst == Step("IterConst", <<>>, m, m, s)

\* operator[] const on a present key (an absent key cannot be inserted into a const map: what happens then is not constrained,
\* the driver asks contains() first and makes no call)
ConstIndex(k) ==
  IF Has(k) THEN Step("ConstIndex", [k |-> k], ValIn(m, k), m, s)
            ELSE Step("ConstIndex", [k |-> k], "not-callable", m, s)                   \* the driver makes no call

\* reserve(n) must not change anything observable
Reserve(n) == Step("Reserve", [n |-> n], "void", m, s)

\* An insertion of an absent key that fails with an exception: the copy of the key throws (w = "key") or the default
\* construction of the value throws (w = "val").  The key was not inserted and no other key was: nothing changes.
InsertThrows(k, w) ==
  IF ~Has(k) THEN StepC("InsertThrows", w, [k |-> k, w |-> w], "throws", m, s)
             ELSE StepC("InsertThrows", "key-present", [k |-> k, w |-> w], "not-callable", m, s)   \* the driver makes no call

\* ---- whole maps -------------------------------------------------------------
CopyTo     == Step("CopyTo", <<>>, "void", m, m)          \* s = map            (copy assignment)
CopyFrom   == Step("CopyFrom", <<>>, "void", s, s)        \* map = s
CopyCtor   == Step("CopyCtor", <<>>, "void", m, m)        \* s replaced by FlatMap(map)
MoveCtor   == Step("MoveCtor", <<>>, "void", <<>>, m)     \* s replaced by FlatMap(std::move(map)); map.clear() afterwards
MoveAssign == Step("MoveAssign", <<>>, "void", <<>>, m)   \* s = std::move(map); map.clear() afterwards
SelfAssign == Step("SelfAssign", <<>>, "void", m, s)      \* map = map
Swap       == Step("Swap", <<>>, "void", s, m)            \* std::swap(map, s)
\* the second instance used between calls on the first one
Put2(k, v) ==
  /\ HasIn(s, k) \/ Len(s) < MaxSize
  /\ Step("Put2", [k |-> k, v |-> v], v, m, PutF(s, k, v))
Erase2(k)  == Step("Erase2", [k |-> k], "void", m, EraseF(s, k))
Clear2     == Step("Clear2", <<>>, "void", m, <<>>)

\* ---- macro actions ------------------------------------------------------------
PutRange(lo, n, d) ==
  /\ lo >= 0 /\ n >= 0
  /\ Cardinality(KeySet(m) \cup lo..(lo + n - 1)) <= MaxSize
  /\ StepC("PutRange", n, [lo |-> lo, n |-> n, d |-> d], "void", PutRangeF(m, lo, n, d), s)

\* how = "key": erase(k) for the keys of the range in ascending order;
\* how = "alias": one pass over the entries, erase(at_index(i).first) for those in the class - the same removals
EraseEvery(lo, n, st, r, how) ==
  /\ lo >= 0 /\ n >= 0 /\ st > 0
  /\ StepC("EraseEvery", how, [lo |-> lo, n |-> n, st |-> st, r |-> r, how |-> how], "void", EraseEveryF(m, lo, n, st, r), s)

Next ==
  \/ \E k \in Keys, v \in Vals : Put(k, v) \/ AtAssign(k, v)
  \/ \E k \in Keys : GetOrInsert(k) \/ At(k) \/ Contains(k) \/ Erase(k)
  \/ Clear \/ IterRev \/ IterConst
  \/ \E i \in 0..MaxSize : AtIndex(i)
  \/ \E i \in 0..(MaxSize - 1) : EraseAt(i)
  \/ \E n \in {0, 7} : Reserve(n)
  \/ /\ "write" \in Ext
     /\ \E i \in 0..MaxSize, v \in Vals : AtIndexAssign(i, v) \/ IterAssign(i, v)
  \/ /\ "cidx" \in Ext
     /\ \E k \in Keys : ConstIndex(k)
  \/ /\ "throw" \in Ext
     /\ \E k \in Keys, w \in {"key", "val"} : InsertThrows(k, w)
  \/ /\ "two" \in Ext
     /\ \/ \E k \in Keys, v \in Vals : Put2(k, v)
        \/ \E k \in Keys : Erase2(k)
        \/ CopyTo \/ CopyFrom \/ CopyCtor \/ MoveCtor \/ MoveAssign \/ SelfAssign \/ Swap \/ Clear2
  \/ \E n \in RangeN, lo \in Keys, d \in Vals :
        \/ PutRange(lo, n, d)
        \/ \E st \in 1..2, r \in 0..1, how \in {"key", "alias"} : EraseEvery(lo, n, st, r, how)

Spec == Init /\ [][Next]_vars

-------------------------------------------------------------------------------
\* Invariants of the reference itself
UniqueKeys == Cardinality(KeySet(m)) = Len(m) /\ Cardinality(KeySet(s)) = Len(s)
Bounded    == Len(m) <= MaxSize /\ Len(s) <= MaxSize
LastAgrees == /\ last.exp.size = Len(m) /\ last.exp.items2 = s
              /\ Len(m) <= ItemsMax => last.exp.items = m
\* a macro action is the iteration of the single calls it stands for
MacroIsIteration ==
  \A n \in RangeN, lo \in Keys, d \in Vals :
     /\ Cardinality(KeySet(m) \cup lo..(lo + n - 1)) <= MaxSize => PutRangeF(m, lo, n, d) = PutRangeIter(m, lo, n, d)
     /\ \A st \in 1..2, r \in 0..1 : EraseEveryF(m, lo, n, st, r) = EraseEveryIter(m, lo, n, st, r)
===============================================================================
