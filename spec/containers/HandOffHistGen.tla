---------------------------- MODULE HandOffHistGen ----------------------------
(* Sequential histories of the HandOff contract (property C12) whose point is   *)
(* the STATE LEFT BEHIND by earlier calls and the objects involved:             *)
(*   "throw"  a push_back(const T&) / assignment whose copy of the payload      *)
(*            throws (payload type with a throwing copy), then ordinary calls:  *)
(*            the containers must keep behaving as specified (no lock left      *)
(*            held, no half-made element, no flag without a value)              *)
(*   "multi"  two instances used by one thread, interleaved, including a long   *)
(*            burst on one of them: instances are independent (nothing static   *)
(*            or thread-local is shared)                                        *)
(*   "from"   tv = other (operator=(const TransactionalValue<T>&)): queues the  *)
(*            value the other instance currently holds                          *)
(* TLC emits the histories (a step names its object "o"); the driver performs   *)
(* them on the real objects; the orchestrator splits the recorded calls by      *)
(* object (instances are independent, so each object's calls are one execution  *)
(* of the contract) and HandOffTrace validates every one.                       *)
EXTENDS Integers, Sequences, FiniteSets, TLC, Json, IOUtils, SequencesExt

St(a, o, p, n, f) == [a |-> a, o |-> o, p |-> p, n |-> n, from |-> f]
A(o)       == St("Assign", o, 0, 1, 0)
AX(o)      == St("AssignThrow", o, 0, 1, 0)
AF(o, f)   == St("AssignFrom", o, 0, 1, f)
B(o, n)    == St("Burst", o, 0, n, 0)
U(o)       == St("Update", o, 0, 0, 0)
G(o)       == St("Get", o, 0, 0, 0)
P(o, p)    == St("Push", o, p, 1, 0)
PX(o, p)   == St("PushThrow", o, p, 1, 0)
BP(o, p, n) == St("BurstPush", o, p, n, 0)
C(o)       == St("Consume", o, 0, 0, 0)
S(o)       == St("Size", o, 0, 0, 0)
E(o)       == St("Empty", o, 0, 0, 0)

ThrowVal == { <<AX(0)>>,
              <<AX(0), U(0), G(0)>>,
              <<A(0), AX(0), U(0), G(0), AX(0), U(0), G(0)>>,
              <<A(0), U(0), G(0), AX(0), A(0), U(0), G(0)>>,
              <<AX(0), AX(0), A(0), AX(0), U(0), G(0), U(0)>>,
              <<B(0, 256), AX(0), U(0), G(0)>> }
ThrowBuf == { <<PX(0, 1)>>,
              <<P(0, 1), PX(0, 1), S(0), C(0)>>,
              <<PX(0, 1), P(0, 1), PX(0, 2), P(0, 2), S(0), E(0), C(0), PX(0, 1), C(0)>>,
              <<PX(0, 1), S(0), E(0), C(0), P(0, 1), S(0)>>,
              <<BP(0, 1, 256), PX(0, 1), S(0), C(0), E(0)>> }
MultiVal == { <<A(0), A(1), A(1), U(0), G(0), G(1), U(1), G(1), U(0), G(0)>>,
              <<B(0, 256), A(1), U(1), G(1), U(0), G(0), U(1), G(1)>>,
              <<A(1), U(1), G(1), B(0, 65536), U(1), G(1), U(0), G(0)>>,
              <<A(0), U(0), G(0), A(1), A(0), U(1), G(1), G(0)>> }
MultiBuf == { <<P(0, 1), P(1, 1), P(0, 1), S(0), S(1), C(1), S(0), E(1), C(0), E(0), E(1)>>,
              <<BP(0, 1, 256), P(1, 1), S(1), E(0), C(1), S(0), C(0), S(1)>>,
              <<P(1, 2), BP(0, 1, 65536), S(1), C(1), E(1), S(0), C(0), E(0)>>,
              <<P(0, 1), C(0), P(1, 1), S(0), E(0), S(1), E(1)>> }
FromVal  == { <<A(1), U(1), AF(0, 1), U(0), G(0)>>,
              <<AF(0, 1), U(0), G(0)>>,                               \* the source still holds its initial value
              <<A(1), AF(0, 1), U(0), G(0), U(1), AF(0, 1), U(0), G(0)>>,   \* a value pending in the source is not what is copied
              <<A(0), A(1), U(1), AF(0, 1), U(0), G(0), A(0), U(0), G(0)>> }

Fam(cls, obj, nobj, hs) == {[cls |-> cls, obj |-> obj, objs |-> nobj, h |-> h] : h \in hs}
Cases == Fam("throw", "val", 1, ThrowVal) \cup Fam("throw", "buf", 1, ThrowBuf)
         \cup Fam("multi", "val", 2, MultiVal) \cup Fam("multi", "buf", 2, MultiBuf)
         \cup Fam("from", "val", 2, FromVal)

ASSUME \A c \in Cases : \A i \in DOMAIN c.h : c.h[i].o < c.objs /\ c.h[i].from < c.objs
ASSUME ndJsonSerialize(IOEnv.OUT, SetToSeq(Cases))

VARIABLE x
Init == x = 0
Next == UNCHANGED x
===============================================================================
