INIT Init
NEXT Next
CONSTANTS
  BurstLens = {1, 2, 127, 128, 129, 255, 256, 257, 383, 384, 511, 512, 513, 768, 1024, 4095, 4096, 4097, 32767, 32768, 65535, 65536, 65537, 131071, 131072, 131073}
CHECK_DEADLOCK FALSE
