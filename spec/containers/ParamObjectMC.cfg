SPECIFICATION SpecH
CONSTANTS
  Names = {1, 2}
  Types = {"int", "float"}
  Vals = {1}
  MaxSize = 2
  Ext = {"alias", "protected"}
  RangeN = {}
  K = 3
INVARIANTS UniqueNames LastAgrees NoneNotQueried AgreesWithHistory
CONSTRAINT HistBound
VIEW View
