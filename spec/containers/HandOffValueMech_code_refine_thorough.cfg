SPECIFICATION Spec
CONSTANTS
  NAssign = 5
  NRounds = 5
  Variant = "code"
INVARIANTS AnnotOK
PROPERTY Refines
CHECK_DEADLOCK FALSE
