--------------------------- MODULE ParamObjectTrace ---------------------------
EXTENDS ParamObject, Json, IOUtils, TLCExt
VARIABLE l
tvars == <<ps, last, l>>
TraceLines == ndJsonDeserialize(IOEnv.TRACE)
N == Len(TraceLines)
Line == TraceLines[l]
ObsMatches == \A f \in DOMAIN last'.exp : f \in DOMAIN Line.obs /\ Line.obs[f] = last'.exp[f]
TInit == Init /\ l = 1
Dispatch ==
  \/ Line.a = "SetParam" /\ SetParam(Line.arg.n, Line.arg.t, Line.arg.v)
  \/ Line.a = "GetParam" /\ GetParam(Line.arg.n, Line.arg.t, Line.arg.d)
  \/ Line.a = "HasParam" /\ HasParam(Line.arg.n)
  \/ Line.a = "RemoveParam" /\ RemoveParam(Line.arg.n)
  \/ Line.a = "ResetQuery" /\ ResetQuery
TStep  == l <= N /\ Line.a # "Reset" /\ Dispatch /\ ObsMatches /\ l' = l + 1
TReset == l <= N /\ Line.a = "Reset" /\ ps' = <<>> /\ last' = [a |-> "Init", arg |-> <<>>, exp |-> Proj(<<>>)] /\ l' = l + 1
TNext  == TStep \/ TReset
TSpec  == TInit /\ [][TNext]_tvars
Accepted == TLCGet("stats").diameter - 1 = N
Post == IF Accepted THEN TRUE
        ELSE PrintT(<<"TRACE-REJECTED-AT-LINE", TLCGet("stats").diameter, "OF", N>>) /\ FALSE
===============================================================================
