--------------------------- MODULE ParamObjectTrace ---------------------------
(* Trace specification: is a recorded execution of the real ParameterizedObject *)
(* a behaviour of ParamObject?  Every recorded line {a, arg, obs} must be the   *)
(* next action with those arguments, and every observable the specification     *)
(* computes for the step must equal what was observed.  SetParamThrows has two  *)
(* admissible successors; TLC follows whichever matches the observation.        *)
EXTENDS ParamObject, Json, IOUtils, TLCExt
VARIABLE l
tvars == <<ps, last, l>>
TraceLines == ndJsonDeserialize(IOEnv.TRACE)
N == Len(TraceLines)
Line == TraceLines[l]
\* (compared through their printed form: TLC refuses to compare values of different kinds, e.g. "throws" with 3;
\*  observables are integers, strings, booleans and tuples of those, whose printed form is canonical)
Same(a, b) == ToString(a) = ToString(b)
ObsMatches == \A f \in DOMAIN last'.exp : f \in DOMAIN Line.obs /\ Same(Line.obs[f], last'.exp[f])
TInit == Init /\ l = 1
Dispatch ==
  \/ Line.a = "SetParam" /\ SetParam(Line.arg.n, Line.arg.t, Line.arg.v)
  \/ Line.a = "GetParam" /\ GetParam(Line.arg.n, Line.arg.t, Line.arg.d)
  \/ Line.a = "HasParam" /\ HasParam(Line.arg.n)
  \/ Line.a = "RemoveParam" /\ RemoveParam(Line.arg.n)
  \/ Line.a = "ResetQuery" /\ ResetQuery
  \/ Line.a = "RemoveParamAt" /\ RemoveParamAt(Line.arg.i)
  \/ Line.a = "SetParamFrom" /\ SetParamFrom(Line.arg.n, Line.arg.n2)
  \/ Line.a = "FindOrAdd" /\ FindOrAdd(Line.arg.n)
  \/ Line.a = "SetParamThrows" /\ SetParamThrows(Line.arg.n)
  \/ Line.a = "SetRange" /\ SetRange(Line.arg.lo, Line.arg.n, Line.arg.t, Line.arg.d)
  \/ Line.a = "GetRange" /\ GetRange(Line.arg.lo, Line.arg.n, Line.arg.t)
  \/ Line.a = "RemoveEvery" /\ RemoveEvery(Line.arg.lo, Line.arg.n, Line.arg.st, Line.arg.r, Line.arg.how)
TStep  == l <= N /\ Line.a # "Reset" /\ Dispatch /\ ObsMatches /\ l' = l + 1
TReset == l <= N /\ Line.a = "Reset" /\ ps' = <<>> /\ last' = [a |-> "Init", arg |-> <<>>, exp |-> Proj(<<>>)] /\ l' = l + 1
TNext  == TStep \/ TReset
TSpec  == TInit /\ [][TNext]_tvars
Accepted == TLCGet("stats").diameter - 1 = N
Post == IF Accepted THEN TRUE
        ELSE PrintT(<<"TRACE-REJECTED-AT-LINE", TLCGet("stats").diameter, "OF", N>>) /\ FALSE
===============================================================================
