----------------------------- MODULE OrderedMapMC -----------------------------
(* Model-checking instance of OrderedMap: adds the history of mutating calls   *)
(* and checks that the operational state `m` is what the *declarative* reading *)
(* of property C10 says it must be after that history:                         *)
(*   - a key is present iff it was inserted and not removed / cleared since,   *)
(*   - it is stored once,                                                      *)
(*   - its value is the last one written since that insertion,                 *)
(*   - iteration order is first-insertion order of the surviving keys.         *)
EXTENDS OrderedMap

CONSTANT K                      \* history length bound
VARIABLE hist
varsH == <<m, last, hist>>

Mutators == {"Put", "AtAssign", "GetOrInsert", "Erase", "Clear"}

InitH == Init /\ hist = <<>>
NextH == Next /\ hist' = IF last'.a \in Mutators THEN Append(hist, [a |-> last'.a, arg |-> last'.arg]) ELSE hist
SpecH == InitH /\ [][NextH]_varsH

MaxOf(S) == CHOOSE x \in S : \A y \in S : y <= x
MinOf(S) == CHOOSE x \in S : \A y \in S : x <= y

IsInsert(i, k) == hist[i].a \in {"Put", "GetOrInsert"} /\ hist[i].arg.k = k
IsKill(i, k)   == hist[i].a = "Clear" \/ (hist[i].a = "Erase" /\ hist[i].arg.k = k)
LastKill(k)    == LET S == {i \in DOMAIN hist : IsKill(i, k)} IN IF S = {} THEN 0 ELSE MaxOf(S)
Births(k)      == {i \in DOMAIN hist : i > LastKill(k) /\ IsInsert(i, k)}
Present        == {k \in Keys : Births(k) # {}}
Birth(k)       == MinOf(Births(k))
Writes(k)      == {i \in DOMAIN hist : i >= Birth(k) /\ hist[i].a \in {"Put", "AtAssign"} /\ hist[i].arg.k = k}
Value(k)       == IF Writes(k) = {} THEN Default ELSE hist[MaxOf(Writes(k))].arg.v
RefSeq         == [i \in 1..Cardinality(Present) |->
                     LET k == CHOOSE kk \in Present : Cardinality({j \in Present : Birth(j) < Birth(kk)}) = i - 1
                     IN <<k, Value(k)>>]

\* the operational model agrees with the declarative reading after every history
AgreesWithHistory == m = RefSeq
HistBound == Len(hist) <= K
View == <<m, hist>>
===============================================================================
