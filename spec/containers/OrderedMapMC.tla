----------------------------- MODULE OrderedMapMC -----------------------------
(* Model-checking instance of OrderedMap: adds the history of mutating calls   *)
(* and checks that the operational state `m` is what the *declarative* reading *)
(* of property C10 says it must be after that history:                         *)
(*   - a key is present iff it was inserted and not removed / cleared since,   *)
(*   - it is stored once,                                                      *)
(*   - its value is the last one written since that insertion,                 *)
(*   - iteration order is first-insertion order of the surviving keys.         *)
(* The history holds single calls only: a removal through the stored key       *)
(* object (EraseAt) is the removal of that key, a write through at_index() or  *)
(* an iterator is a write to the key found there, a failed insertion is no     *)
(* call at all, and a macro action contributes the calls it stands for.        *)
(* (The second map is not used here: Ext must not contain "two".)              *)
EXTENDS OrderedMap

CONSTANT K                      \* history length bound (in steps)
VARIABLES hist, steps
varsH == <<m, s, last, hist, steps>>

ASSUME "two" \notin Ext

InitH == Init /\ hist = <<>> /\ steps = 0

Call(a, arg) == [a |-> a, arg |-> arg]
\* the single calls a step stands for
CallsOf(l) ==
  CASE l.a \in {"Put", "AtAssign"}      -> <<Call(l.a, [k |-> l.arg.k, v |-> l.arg.v])>>
    [] l.a = "GetOrInsert"              -> <<Call("GetOrInsert", [k |-> l.arg.k])>>
    [] l.a = "Erase"                    -> <<Call("Erase", [k |-> l.arg.k])>>
    [] l.a = "EraseAt"                  -> IF l.arg.k = -1 THEN <<>> ELSE <<Call("Erase", [k |-> l.arg.k])>>
    [] l.a = "Clear"                    -> <<Call("Clear", <<>>)>>
    [] l.a \in {"AtIndexAssign", "IterAssign"} ->
          IF l.arg.k = -1 THEN <<>> ELSE <<Call("AtAssign", [k |-> l.arg.k, v |-> l.arg.v])>>
    [] l.a = "PutRange"                 -> [i \in 1..l.arg.n |-> Call("Put", [k |-> l.arg.lo + i - 1, v |-> RV(l.arg.lo + i - 1, l.arg.d)])]
    [] l.a = "EraseEvery"               ->
          LET ks == SelectSeq([i \in 1..l.arg.n |-> l.arg.lo + i - 1], LAMBDA k : k % l.arg.st = l.arg.r)
          IN  [i \in 1..Len(ks) |-> Call("Erase", [k |-> ks[i]])]
    [] OTHER                            -> <<>>

NextH == Next /\ hist' = hist \o CallsOf(last') /\ steps' = steps + (IF CallsOf(last') = <<>> THEN 0 ELSE 1)
SpecH == InitH /\ [][NextH]_varsH

MaxOf(S) == CHOOSE x \in S : \A y \in S : y <= x
MinOf(S) == CHOOSE x \in S : \A y \in S : x <= y

AllKeys        == Keys \cup {hist[i].arg.k : i \in {j \in DOMAIN hist : hist[j].a # "Clear"}}
IsInsert(i, k) == hist[i].a \in {"Put", "GetOrInsert"} /\ hist[i].arg.k = k
IsKill(i, k)   == hist[i].a = "Clear" \/ (hist[i].a = "Erase" /\ hist[i].arg.k = k)
LastKill(k)    == LET S == {i \in DOMAIN hist : IsKill(i, k)} IN IF S = {} THEN 0 ELSE MaxOf(S)
Births(k)      == {i \in DOMAIN hist : i > LastKill(k) /\ IsInsert(i, k)}
Present        == {k \in AllKeys : Births(k) # {}}
Birth(k)       == MinOf(Births(k))
Writes(k)      == {i \in DOMAIN hist : i >= Birth(k) /\ hist[i].a \in {"Put", "AtAssign"} /\ hist[i].arg.k = k}
Value(k)       == IF Writes(k) = {} THEN Default ELSE hist[MaxOf(Writes(k))].arg.v
RefSeq         == [i \in 1..Cardinality(Present) |->
                     LET k == CHOOSE kk \in Present : Cardinality({j \in Present : Birth(j) < Birth(kk)}) = i - 1
                     IN <<k, Value(k)>>]

\* the operational model agrees with the declarative reading after every history
AgreesWithHistory == m = RefSeq
\* (an AtAssign on an absent key is in the history too: at() threw, nothing was written - Writes(k) starts at the birth)
HistBound == steps <= K
View == <<m, hist, steps>>
===============================================================================
