SPECIFICATION Spec
CONSTANTS
  Sizes = {127, 128, 129, 255, 256, 257, 511, 512, 513, 1023, 1024, 1025, 4095, 4096, 4097}
