SPECIFICATION Spec
CONSTANTS
  Producers = {1, 2}
  NPush = 2
  NOps = 2
  Readers = {}
  NReads = 0
  Variant = "nolock_push"
INVARIANTS NoRace

CHECK_DEADLOCK FALSE
