SPECIFICATION Spec
CONSTANTS
  Producers = {}
  NPush = 0
  NOps = 3
  Readers = {10, 11, 12}
  NReads = 2
  Variant = "code"
INVARIANTS NoRace AnnotOK MutexOK
PROPERTY Refines
CHECK_DEADLOCK FALSE
