------------------------------ MODULE AlignedVec ------------------------------
(* rkcommon::containers::AlignedVector<T> = std::vector<T, aligned_allocator<T>> *)
(* as a pair of value sequences (property C14, second sentence).               *)
(*                                                                             *)
(* State: v = <<v1, v2>>, two vectors (two, so that swap and vector-to-vector  *)
(* assignment are expressible).  One action per mutator that can (re)allocate  *)
(* or move storage, plus Allocate: a direct call of the allocator with a       *)
(* request written symbolically (see AllocGuard).  The ghost `last` records    *)
(* the action, its arguments and the observables the property constrains after *)
(* the step:                                                                   *)
(*   items  the full contents of both vectors ("elements survive reallocation  *)
(*          unchanged" = they are what the sequence semantics says they are),  *)
(*   sizes  size() of both,                                                    *)
(*   mod64  data() mod 64 of both - always 0 ("data() is 64-byte aligned after *)
(*          every operation that can (re)allocate"),                           *)
(*   ret / len_err for Allocate,                                               *)
(*   life   (only for a lifetime-instrumented element type, Lifetime = TRUE)   *)
(*          the exactly-once accounting of element objects: after every step   *)
(*          the number of constructed-and-not-destroyed element objects equals *)
(*          size() of both vectors together, no object was constructed on a    *)
(*          slot that holds a live one, none was destroyed or read that is not *)
(*          live, and inside a container call elements are only made by        *)
(*          default / copy / move construction (never by a converting or       *)
(*          initializer-list constructor).                                     *)
(* Elements are copied by: push_back of an lvalue, of an rvalue and of an      *)
(* element of the same vector, insert (front / middle / back), resize(n, x),   *)
(* assign, reallocation (any growth, reserve, shrink_to_fit), copy             *)
(* construction and copy assignment of a whole vector; swap exchanges storage. *)
(* capacity(), and whether data() moved, are not constrained (the statement    *)
(* does not mention them); the drivers report them as coverage only.           *)
EXTENDS Integers, Sequences, FiniteSets, TLC, AllocGuard

CONSTANTS Vals,        \* element values written by the client (integers # Default)
          Default,     \* what a value-initialised element T() stands for
          MaxLen,      \* bound on the length of each vector
          ResizeNs,    \* arguments of resize / assign
          ReserveNs,   \* arguments of reserve
          AllocBelow,  \* offsets d of symbolic Allocate requests: -AllocBelow .. AllocAbove
          AllocAbove,  \* (a cfg file cannot contain a negative number)
          ESize,       \* sizeof(T)  } the element type; every law that depends on the type is a formula in these
          EAlign,      \* alignof(T) } two numbers (AllocGuard: max_size(), requests that must succeed, usable bytes)
          Lifetime     \* TRUE iff the element type reports its construction / destruction accounting

VARIABLES v, last
vars == <<v, last>>

ASSUME ETypeOK([size |-> ESize, align |-> EAlign])
ByteSized == ESize = 1      \* then no request exceeds max_size()
Self      == [size |-> ESize, align |-> EAlign]
\* the types an allocator for T gets rebound to (rebind<U>::other - list / map nodes, control blocks, vector<bool> words):
\* sizes of 1 byte, between multiples of 64, above 64 and not a power of two, over-aligned
RebindTypes == {[size |-> 1, align |-> 1], [size |-> 24, align |-> 8], [size |-> 72, align |-> 8], [size |-> 96, align |-> 32],
                [size |-> 200, align |-> 8], [size |-> 128, align |-> 128]}
GenRebindTypes == {t \in RebindTypes : t.size \in {1, 72, 96}}     \* the ones the generation instance walks through

AllocDs   == (0 - AllocBelow)..AllocAbove
Other(i)  == 3 - i
Rep(n, x) == [k \in 1..n |-> x]
Life(w)   == [live |-> Len(w[1]) + Len(w[2]), ctor_on_live |-> 0, dtor_on_dead |-> 0, use_of_dead |-> 0, conv_ctor |-> 0]
Proj(w)   == [items |-> w, sizes |-> <<Len(w[1]), Len(w[2])>>, mod64 |-> <<0, 0>>]
               @@ (IF Lifetime THEN [life |-> Life(w)] ELSE <<>>)
Set1(i, s) == [v EXCEPT ![i] = s]

Init == v = <<<<>>, <<>>>> /\ last = [a |-> "Init", arg |-> <<>>, cls |-> "", byte_ok |-> TRUE, exp |-> Proj(<<<<>>, <<>>>>)]

TypeOK == v \in Seq(Vals \cup {Default}) \X Seq(Vals \cup {Default})

-------------------------------------------------------------------------------
\* `cls`: the class of the arguments a finding is filed under (only Allocate distinguishes classes)
\* `byte_ok`: would this step also exist for an element type of size 1 (where no request can exceed max_size())?  The
\* generation instance is built once, for the wider alphabet; histories for byte-sized types are those whose steps all say TRUE
StepB(a, arg, w, ret, cls, bo) == v' = w /\ last' = [a |-> a, arg |-> arg, cls |-> cls, byte_ok |-> bo, exp |-> ret @@ Proj(w)]
StepC(a, arg, w, ret, cls) == StepB(a, arg, w, ret, cls, TRUE)
Step(a, arg, w, ret) == StepC(a, arg, w, ret, "")
Void == [ret |-> "void"]

PushBack(i, x) == Len(v[i]) < MaxLen /\ Step("PushBack", [i |-> i, x |-> x], Set1(i, Append(v[i], x)), Void)
\* push_back(T&&): the allocator's construct(p, const T&) still copies
PushBackRv(i, x) == Len(v[i]) < MaxLen /\ Step("PushBackRv", [i |-> i, x |-> x], Set1(i, Append(v[i], x)), Void)
\* v.push_back(v[0]): the argument aliases an element that a reallocation moves
PushBackOwn(i) == Len(v[i]) \in 1..(MaxLen - 1) /\ Step("PushBackOwn", [i |-> i], Set1(i, Append(v[i], v[i][1])), Void)
PopBack(i)     == Len(v[i]) > 0 /\ Step("PopBack", [i |-> i], Set1(i, SubSeq(v[i], 1, Len(v[i]) - 1)), Void)

\* resize(n): shrink to a prefix, or grow by value-initialised elements
Resize(i, n) ==
  /\ n <= MaxLen
  /\ Step("Resize", [i |-> i, n |-> n],
          Set1(i, IF n <= Len(v[i]) THEN SubSeq(v[i], 1, n) ELSE v[i] \o Rep(n - Len(v[i]), Default)), Void)
\* resize(n, x)
ResizeVal(i, n, x) ==
  /\ n <= MaxLen
  /\ Step("ResizeVal", [i |-> i, n |-> n, x |-> x],
          Set1(i, IF n <= Len(v[i]) THEN SubSeq(v[i], 1, n) ELSE v[i] \o Rep(n - Len(v[i]), x)), Void)

\* reserve / shrink_to_fit may move the storage, never the contents
Reserve(i, n)  == Step("Reserve", [i |-> i, n |-> n], v, Void)
ShrinkToFit(i) == Step("ShrinkToFit", [i |-> i], v, Void)

Assign(i, n, x) == n <= MaxLen /\ Step("Assign", [i |-> i, n |-> n, x |-> x], Set1(i, Rep(n, x)), Void)
\* v_i = v_other (copy assignment)
AssignFrom(i)   == Step("AssignFrom", [i |-> i], Set1(i, v[Other(i)]), Void)
\* { AlignedVector<T> tmp(v_other); v_i.swap(tmp); }  (copy construction of a whole vector)
CopyCtor(i)     == Step("CopyCtor", [i |-> i], Set1(i, v[Other(i)]), Void)
\* v_i = std::move(v_other); v_other.clear();   (the moved-from vector is valid but unspecified until cleared)
MoveAssign(i)   == Step("MoveAssign", [i |-> i], [k \in 1..2 |-> IF k = i THEN v[Other(i)] ELSE <<>>], Void)
\* v_i = v_i
SelfAssign(i)   == Step("SelfAssign", [i |-> i], v, Void)
\* v1.swap(v2)
Swap            == Step("Swap", <<>>, <<v[2], v[1]>>, Void)
Clear(i)        == Step("Clear", [i |-> i], Set1(i, <<>>), Void)
\* insert(begin() + pos, x), 0 <= pos <= size()
Insert(i, pos, x) ==
  /\ Len(v[i]) < MaxLen /\ pos \in 0..Len(v[i])
  /\ Step("Insert", [i |-> i, pos |-> pos, x |-> x],
          Set1(i, SubSeq(v[i], 1, pos) \o <<x>> \o SubSeq(v[i], pos + 1, Len(v[i]))), Void)

\* insert(begin() + size() / 2, x)
InsertMid(i, x) ==
  /\ Len(v[i]) < MaxLen
  /\ LET pos == Len(v[i]) \div 2 IN
       Step("InsertMid", [i |-> i, x |-> x],
            Set1(i, SubSeq(v[i], 1, pos) \o <<x>> \o SubSeq(v[i], pos + 1, Len(v[i]))), Void)

\* insert(begin(), back()): the argument aliases an element that the insertion shifts (or a reallocation moves)
InsertOwn(i) ==
  /\ Len(v[i]) \in 1..(MaxLen - 1)
  /\ Step("InsertOwn", [i |-> i], Set1(i, <<v[i][Len(v[i])]>> \o v[i]), Void)
\* resize(n, v[0]): the fill value aliases an element
ResizeValOwn(i, n) ==
  /\ Len(v[i]) >= 1 /\ n <= MaxLen
  /\ Step("ResizeValOwn", [i |-> i, n |-> n],
          Set1(i, IF n <= Len(v[i]) THEN SubSeq(v[i], 1, n) ELSE v[i] \o Rep(n - Len(v[i]), v[i][1])), Void)

\* An element copy threw inside a call that promises "no effects" in that case (push_back, reserve, shrink_to_fit,
\* copy construction of a temporary): nothing changes, and (Lifetime) the accounting is balanced again.  Whether a
\* given call copies enough elements to reach the armed copy is the implementation's business, so this is an
\* alternative outcome of those calls, used by the trace specification only.
StrongOps == {"PushBack", "PushBackRv", "PushBackOwn", "Reserve", "ShrinkToFit", "CopyCtor"}
Failed(a, arg) == a \in StrongOps /\ StepC(a, arg, v, [ret |-> "threw"], "copy-throws")

\* aligned_allocator<T>().allocate(n) with a symbolic n; a successful request is filled and deallocated again.
\*   beyond max_size()           : must throw std::length_error                       (the clause of the property)
\*   small positive (n * sizeof <= SmallBytes): memory, 64-byte aligned, n * sizeof bytes of it written
\*   anything else (0, or huge but within max_size()): not length_error; null / memory / bad_alloc are all fine
\* how: "plain" allocate(n); "hint" the allocate(n, hint) overload; "rebind" through rebind<T>::other of another
\* allocator; "traits" through std::allocator_traits<aligned_allocator<T>>::rebind_alloc<T> (the allocator type a
\* std::vector really allocates through) - the four must agree;
\* "rebind_to": through std::allocator_traits<aligned_allocator<T>>::rebind_alloc<U> for ANOTHER type U = `to`
\* (what node-based containers do) - the same laws with sizeof(U) / alignof(U) in the place of sizeof(T) / alignof(T).
\* Besides the outcome the step states what the formulas of AllocGuard give for the type the allocator is bound
\* to (exp.ty for T itself, exp.rty for U): sizeof, alignof, max_size() and the request n as 64-bit numbers, the bytes made
\* usable.  (A generation instance knows one T: exp.ty of its histories holds for element types with that sizeof / alignof.)
AllocHows == {"plain", "hint", "rebind", "traits"}
TyCls(t)  == "size=" \o ToString(t.size) \o ",align=" \o ToString(t.align)
AllocateTy(how, t, arg, self, bo) ==
  LET rel == arg.rel
      d   == arg.d
      small == SmallRequest(t.size, rel, d)
      info  == [size |-> t.size, align |-> t.align, max_size |-> MaxSize64(t.size), n |-> Request64(t.size, rel, d),
                bytes |-> IF small THEN d * t.size ELSE 0]
  IN
  /\ ETypeOK(t)
  /\ Representable(t.size = 1, rel, d)
  /\ StepB("Allocate", arg, v,
           (IF MustThrow(rel, d) THEN [ret |-> "length_error", len_err |-> TRUE]
            ELSE IF small THEN [ret |-> "ok", amod64 |-> 0, len_err |-> FALSE]
            ELSE [len_err |-> FALSE]) @@ (IF self THEN [ty |-> info] ELSE [rty |-> info]),
           (IF how = "plain" THEN "" ELSE IF self THEN how \o "," ELSE how \o "(" \o TyCls(t) \o "),") \o
             (IF MustThrow(rel, d) THEN "n>max_size" ELSE IF small THEN "n=small" ELSE IF rel = "abs" /\ d = 0 THEN "n=0" ELSE "n<=max_size"),
           bo)
Allocate(how, rel, d) ==
  how \in AllocHows /\ AllocateTy(how, Self, [how |-> how, rel |-> rel, d |-> d], TRUE, Representable(TRUE, rel, d))
AllocateTo(to, rel, d) ==
  AllocateTy("rebind_to", to, [how |-> "rebind_to", to |-> [size |-> to.size, align |-> to.align], rel |-> rel, d |-> d], FALSE, TRUE)

Next ==
  \/ \E i \in 1..2, x \in Vals : PushBack(i, x) \/ PushBackRv(i, x) \/ InsertMid(i, x)
  \/ \E i \in 1..2 : PopBack(i) \/ ShrinkToFit(i) \/ AssignFrom(i) \/ Clear(i) \/ CopyCtor(i) \/ PushBackOwn(i)
                      \/ MoveAssign(i) \/ SelfAssign(i) \/ InsertOwn(i)
  \/ \E i \in 1..2, n \in ResizeNs : ResizeValOwn(i, n)
  \/ \E i \in 1..2, n \in ResizeNs : Resize(i, n)
  \/ \E i \in 1..2, n \in ResizeNs, x \in Vals : ResizeVal(i, n, x) \/ Assign(i, n, x)
  \/ \E i \in 1..2, n \in ReserveNs : Reserve(i, n)
  \/ Swap
  \/ \E i \in 1..2, pos \in 0..MaxLen, x \in Vals : Insert(i, pos, x)
  \* (the overload / rebind flavours do not depend on the vectors: explored from the empty state only)
  \/ \E d \in AllocDs, how \in AllocHows :
        /\ how = "plain" \/ v = <<<<>>, <<>>>>
        /\ (d >= 0 /\ Allocate(how, "abs", d)) \/ Allocate(how, "max", d) \/ (d > 0 /\ Allocate(how, "ovf", d))
  \/ \E to \in GenRebindTypes :
        /\ v = <<<<>>, <<>>>>
        /\ AllocateTo(to, "abs", 1) \/ (\E d \in {-1, 0, 1} : AllocateTo(to, "max", d)) \/ AllocateTo(to, "ovf", 1)

Spec == Init /\ [][Next]_vars

-------------------------------------------------------------------------------
Bounded    == Len(v[1]) <= MaxLen /\ Len(v[2]) <= MaxLen
LastAgrees == last.exp.items = v /\ last.exp.sizes = <<Len(v[1]), Len(v[2])>> /\ last.exp.mod64 = <<0, 0>>

\* "elements survive": declarative action properties of the sequence semantics
Min(a, b) == IF a < b THEN a ELSE b
Target    == IF last'.a \in {"Swap", "Allocate", "Init"} THEN 0 ELSE last'.arg.i
\* operations that only append / truncate / move storage keep the common prefix of the vector they act on
KeepsPrefix ==
  [][last'.a \in {"PushBack", "PushBackRv", "PushBackOwn", "PopBack", "ResizeValOwn", "SelfAssign", "Resize", "ResizeVal", "Reserve", "ShrinkToFit"} =>
       \A k \in 1..Min(Len(v[Target]), Len(v'[Target])) : v'[Target][k] = v[Target][k]]_vars
\* storage-only operations change nothing
StorageOnly == [][last'.a \in {"Reserve", "ShrinkToFit", "Allocate", "SelfAssign"} => v' = v]_vars
\* an operation on one vector never changes the other one
OtherUntouched == [][Target # 0 /\ last'.a # "MoveAssign" => v'[Other(Target)] = v[Other(Target)]]_vars
\* a move hands the elements over: nothing is lost, nothing is duplicated
MoveHandsOver  == [][last'.a = "MoveAssign" => v'[Target] = v[Other(Target)] /\ v'[Other(Target)] = <<>>]_vars
\* swap exchanges, twice is the identity
SwapExchanges == [][last'.a = "Swap" => v'[1] = v[2] /\ v'[2] = v[1]]_vars
\* insert keeps everything, shifted
InsertShifts ==
  [][last'.a = "Insert" =>
       LET i == last'.arg.i  p == last'.arg.pos IN
         /\ Len(v'[i]) = Len(v[i]) + 1
         /\ \A k \in 1..Len(v[i]) : v'[i][IF k <= p THEN k ELSE k + 1] = v[i][k]
         /\ v'[i][p + 1] = last'.arg.x]_vars
\* whole-vector copies reproduce the source, which stays as it was
CopiesWhole == [][last'.a \in {"AssignFrom", "CopyCtor"} => v'[Target] = v[Other(Target)] /\ v'[Other(Target)] = v[Other(Target)]]_vars
\* every element of the result is an element value that existed before the step, an argument, or T()
NoNewValues ==
  [][\A i \in 1..2 : \A k \in 1..Len(v'[i]) :
        \/ \E j \in 1..2 : \E m \in 1..Len(v[j]) : v'[i][k] = v[j][m]
        \/ v'[i][k] = Default
        \/ (last'.a \in {"PushBack", "PushBackRv", "ResizeVal", "Assign", "Insert", "InsertMid"} /\ v'[i][k] = last'.arg.x)]_vars
\* the lifetime accounting the specification expects is balanced
LifeBalanced == Lifetime => (last.exp.life.live = Len(v[1]) + Len(v[2]))
\* the length_error clause: thrown exactly for requests beyond max_size()
ThrowsIffBeyond == [][last'.a = "Allocate" => (last'.exp.len_err <=> MustThrow(last'.arg.rel, last'.arg.d))]_vars
\* the type laws, whatever the type: what must succeed is aligned to 64 and never what must throw; max_size() is tight
TypeLaws ==
  [][last'.a = "Allocate" =>
       LET e == last'.exp
           t == IF "ty" \in DOMAIN e THEN e.ty ELSE e.rty IN
         /\ (t.bytes > 0 => e.ret = "ok" /\ e.amod64 = 0 /\ ~e.len_err /\ t.bytes % t.size = 0 /\ t.bytes <= SmallBytes)
         /\ t.max_size = MaxSize64(t.size)
         /\ (last'.arg.rel = "max" /\ last'.arg.d = 0 => t.n = t.max_size /\ ~e.len_err)
         /\ (last'.arg.how # "rebind_to" <=> "ty" \in DOMAIN e) /\ ("ty" \in DOMAIN e => t.size = ESize /\ t.align = EAlign)]_vars
===============================================================================
