SPECIFICATION Spec
CONSTANTS
  Vals = {1}
  Default = 0
  MaxLen = 3
  ResizeNs = {0, 2, 3}
  ReserveNs = {5}
  AllocBelow = 1
  AllocAbove = 1
  ByteSized = TRUE
INVARIANTS TypeOK Bounded LastAgrees
