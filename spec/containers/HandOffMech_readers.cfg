SPECIFICATION Spec
CONSTANTS
  Producers = {1}
  NPush = 2
  NOps = 2
  Readers = {10, 11}
  NReads = 2
  Variant = "code"
INVARIANTS NoRace AnnotOK MutexOK
PROPERTY Refines
CHECK_DEADLOCK FALSE
