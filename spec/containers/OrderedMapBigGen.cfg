SPECIFICATION Spec
CONSTANTS
  Sizes = {255, 256, 257}
  SmallMax = 1025
