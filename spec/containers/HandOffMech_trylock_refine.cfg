SPECIFICATION Spec
CONSTANTS
  Producers = {1}
  NPush = 1
  NOps = 2
  Readers = {10}
  NReads = 1
  Variant = "trylock_empty"
INVARIANTS MutexOK
PROPERTY Refines
CHECK_DEADLOCK FALSE
