--------------------------- MODULE HandOffBurstGen ---------------------------
(* Sequential histories with LONG BURSTS between consumer calls, for the        *)
(* HandOff contract (property C12).  The statement quantifies over every        *)
(* history; an implementation that counts pending work in a narrow counter      *)
(* (8 or 16 bits) is wrong only when the number of producer calls between two   *)
(* consumer calls hits a multiple of 2^8 / 2^16, so the burst lengths below sit *)
(* on, just below and just above those boundaries.                              *)
(*                                                                              *)
(* A burst is ONE step of a history - Burst(n) / BurstPush(p, n), the macro     *)
(* actions VBurst_ / BBurst_ of HandOff.tla - so TLC enumerates histories of a  *)
(* dozen steps, not of 65537; the driver performs the n real calls.  TLC emits  *)
(* the histories; what the real objects return is validated by HandOffTrace     *)
(* (every call of a single-threaded history is made while the producers are     *)
(* stopped, so update() must install the last value and consume() must take     *)
(* everything: VUpdateQ_ / BConsumeQ_).                                         *)
EXTENDS Integers, Sequences, FiniteSets, TLC, Json, IOUtils, SequencesExt

CONSTANTS BurstLens

St(a, p, n, f) == [a |-> a, p |-> p, n |-> n, ref |-> f]
A       == St("Assign", 0, 1, FALSE)
B(n)    == St("Burst", 0, n, FALSE)
U       == St("Update", 0, 0, FALSE)
G       == St("Get", 0, 0, FALSE)
Gr      == St("Get", 0, 0, TRUE)         \* through ref()
P(p)    == St("Push", p, 1, FALSE)
BP(p, n) == St("BurstPush", p, n, FALSE)
C       == St("Consume", 0, 0, FALSE)
S       == St("Size", 0, 0, FALSE)
E       == St("Empty", 0, 0, FALSE)

\* (the driver appends the closing calls of every execution: update() + get(), resp. consume() + size() + empty())
ValShape(k, n) ==
  CASE k = 1 -> <<B(n)>>                                          \* the producer stops exactly at the boundary
    [] k = 2 -> <<B(n), U, G, U, G>>                              \* poll: TRUE and the last value; again: FALSE
    [] k = 3 -> <<B(n), A, U, Gr>>                                \* one more assignment after the boundary
    [] k = 4 -> <<A, U, G, B(n), U, Gr, B(n), U, G, U, G>>        \* bursts starting from a state that is not the initial one
    [] k = 5 -> <<B(n), U, G, B(n)>>                              \* a second burst, then the producer stops at the boundary
    [] k = 6 -> <<A, B(n), U, G, A, A, U, G>>                     \* boundary + 1 pending assignments in one poll interval
BufShape(k, n) ==
  CASE k = 1 -> <<BP(1, n)>>                                      \* the closing consume() must return all of them
    [] k = 2 -> <<S, E, BP(1, n), S, E, C, S, E>>                 \* size()/empty() before and after
    [] k = 3 -> <<BP(1, n), P(1), S, C, S>>                       \* one more push after the boundary
    [] k = 4 -> <<P(2), BP(1, n), S, C, E, BP(1, n), P(2), S, C>> \* two producers, two bursts
    [] k = 5 -> <<BP(1, n), S, BP(2, n), S, E, C, E>>             \* bursts of two producers in one batch

Cases == {[obj |-> "val", cls |-> n, shape |-> k, h |-> ValShape(k, n)] : n \in BurstLens, k \in 1..6}
         \cup {[obj |-> "buf", cls |-> n, shape |-> k, h |-> BufShape(k, n)] : n \in BurstLens, k \in 1..5}

\* every class in both families, every history contains its burst
ASSUME \A c \in Cases : \E i \in DOMAIN c.h : c.h[i].a \in {"Burst", "BurstPush"} /\ c.h[i].n = c.cls
ASSUME ndJsonSerialize(IOEnv.OUT, SetToSeq(Cases))

VARIABLE x
Init == x = 0
Next == UNCHANGED x
===============================================================================
