--------------------------- MODULE ParamObjectBigGen ---------------------------
(* Call sequences that take a ParameterizedObject ACROSS A SIZE BOUNDARY N      *)
(* (property C10): N - 1, N and N + 1 parameters, reads with the exact and with *)
(* another type over the whole range, removal of the first / last / every       *)
(* second parameter (by name and through the stored name object), re-setting    *)
(* with another type, reset of the query status.  A range of calls is one step  *)
(* (macro actions of ParamObject.tla).  This module only emits the sequences;   *)
(* what the real object shows after every step is validated by ParamObjectTrace.*)
EXTENDS Integers, Sequences, FiniteSets, TLC, Json, IOUtils, SequencesExt

CONSTANTS Sizes

A(a, arg) == [a |-> a, arg |-> arg]
SR(lo, n, t, d)       == A("SetRange", [lo |-> lo, n |-> n, t |-> t, d |-> d])
GR(lo, n, t)          == A("GetRange", [lo |-> lo, n |-> n, t |-> t])
RE(lo, n, st, r, how) == A("RemoveEvery", [lo |-> lo, n |-> n, st |-> st, r |-> r, how |-> how])
S(n, t, v)  == A("SetParam", [n |-> n, t |-> t, v |-> v])
G(n, t)     == A("GetParam", [n |-> n, t |-> t, d |-> 99])
H(n)        == A("HasParam", [n |-> n])
RM(n)       == A("RemoveParam", [n |-> n])
RA(i)       == A("RemoveParamAt", [i |-> i])
SF(n, n2)   == A("SetParamFrom", [n |-> n, n2 |-> n2])
FA(n)       == A("FindOrAdd", [n |-> n])
RQ          == A("ResetQuery", <<>>)

Shape(k, N) ==
  CASE k = 1 ->   \* exactly N parameters; the ends; reads with the exact type and with a near miss; reset
         <<SR(1, N, "int", 1), H(N), H(N + 1), G(N, "int"), G(N, "uint"), G(N + 1, "int"), GR(1, N, "uint"), GR(1, N, "int"),
           RQ, G(1, "int"), RM(1), G(1, "int"), S(1, "str", 2), G(1, "str"), RA(0), RA(N - 2), H(1), H(N), S(N + 1, "float", 3)>>
    [] k = 2 ->   \* one by one across the boundary and back; a new name set from the value of the first / the last one
         <<SR(1, N - 1, "float", 1), S(N, "float", 2), S(N + 1, "float", 3), H(N + 1), SF(N + 2, 1), SF(N + 3, N + 2), SF(1, 1),
           RM(N + 1), RM(N), RA(N), RA(N - 1), H(N + 3), FA(N), G(N, "float"), S(N, "float", 4), G(N, "float")>>
    [] k = 3 ->   \* every second one removed, the range set again with another type: survivors keep place and flag
         <<SR(0, N, "int", 1), GR(0, N, "int"), RE(0, N, 2, 0, "name"), SR(0, N, "str", 2), GR(0, N, "int"), RE(0, N, 2, 1, "alias"),
           GR(0, N, "str"), RQ, GR(0, N, "str"), RE(0, N, 1, 0, "alias"), H(0), SR(1, N, "i64", 3), GR(1, N, "int"), GR(1, N, "i64")>>

Cases == {[cls |-> N, shape |-> k, h |-> Shape(k, N)] : N \in Sizes, k \in 1..3}

ASSUME \A c \in Cases : \E i \in DOMAIN c.h : c.h[i].a = "SetRange" /\ c.h[i].arg.n \in {c.cls - 1, c.cls}
ASSUME \A N \in Sizes : N >= 4
ASSUME ndJsonSerialize(IOEnv.OUT, SetToSeq(Cases))

VARIABLE x
Init == x = 0
Next == UNCHANGED x
Spec == Init /\ [][Next]_x
===============================================================================
