------------------------------ MODULE HandOffMech ------------------------------
(* Mechanism model of rkcommon::containers::TransactionalBuffer<T>             *)
(* (rkcommon/containers/TransactionalBuffer.h), transcribed statement by       *)
(* statement: one PlusCal label per access of a shared variable, each label    *)
(* annotated with the accesses it performs and the locks the code holds there. *)
(*                                                                             *)
(*   push_back(v): lock_guard(bufferMutex); buffer.push_back(v);               *)
(*   consume()   : lock_guard(bufferMutex); return std::move(buffer);          *)
(*   size()      : lock_guard(bufferMutex); return buffer.size();              *)
(*   empty()     : lock_guard(bufferMutex); return buffer.empty();             *)
(*                                                                             *)
(* TLC checks, for Producers x NPush pushes and a consumer doing NOps arbitrary *)
(* calls concurrently plus the final consume() after the producers stopped,    *)
(* under every interleaving:                                                   *)
(*   Refines   the model implements the HandOff contract (Strict = TRUE): every*)
(*             step is a contract step at its linearisation point or a stutter *)
(*   NoRace    never two threads about to perform conflicting accesses (at     *)
(*             least one write) of the same plain variable without a common    *)
(*             lock - under this sequentially consistent exploration exactly a *)
(*             C++ data race of lock-disciplined code                          *)
(*   AnnotOK   the lock annotation of every label agrees with the lock state   *)
(* Variant = "code" is the header as it is; Variant = "nolock_push" is the     *)
(* negative control (push_back without the lock_guard) which TLC must refute   *)
(* on both Refines and NoRace.                                                 *)
(* Readers: NReads calls of size() / empty() each by threads that do nothing   *)
(* else, concurrently with everything (observers contending with observers).   *)
(* Variant = "trylock_empty" is the negative control of that family: empty()   *)
(* with std::try_to_lock answering "not empty" when the mutex is taken ("who    *)
(* holds it must be pushing") - TLC must refute Refines: the holder may be     *)
(* another observer, and empty() = FALSE on an empty buffer is a torn answer.  *)
EXTENDS Integers, Sequences, FiniteSets, TLC

CONSTANTS Producers,   \* producer thread ids (positive integers)
          NPush,       \* pushes per producer
          NOps,        \* concurrent consumer calls before the final consume()
          Variant,     \* "code" | "nolock_push" | "trylock_empty"
          Readers,     \* ids of threads that only call size() / empty() (observers; disjoint from Producers and {0})
          NReads       \* calls per reader

Consumer == 0
Free     == -1
Threads  == Producers \cup {Consumer} \cup Readers
Locking  == Variant # "nolock_push"
TryLock  == Variant = "trylock_empty"

(* --algorithm BufMech {
  variables buffer = <<>>,       \* std::vector<T> buffer                       (plain)
            mutex  = Free,       \* std::mutex bufferMutex: Free or its holder
            last   = [op |-> "init", arg |-> <<>>, res |-> <<>>],   \* ghost: call linearised by the last step
            done   = {};         \* producers that returned from their last push_back (what join() waits for)

  process (prod \in Producers)
    variables k = 0, tmp = <<>>;
  {
   p_loop:   while (k < NPush) {
   p_lock:     if (Locking) { await mutex = Free; mutex := self; };          \* std::lock_guard<std::mutex> lock(bufferMutex);
   p_rd:       tmp := buffer;                                                \* buffer.push_back(v): reads end / capacity
   p_wr:       buffer := Append(tmp, <<self, k + 1>>);                       \*                      writes element and end
               last := [op |-> "push", arg |-> <<self, k + 1>>, res |-> <<>>];
   p_unlock:   if (Locking) { mutex := Free; };                              \* ~lock_guard
               k := k + 1;
             };
   p_done:   done := done \cup {self};
  }

  process (cons = Consumer)
    variables ops = 0;
  {
   c_loop:   while (ops < NOps) {
               either {
   c_lock:       await mutex = Free; mutex := Consumer;                          \* consume(): lock_guard
   c_move:       last := [op |-> "consume", arg |-> <<>>, res |-> buffer];   \*   return std::move(buffer);
                 buffer := <<>>;
   c_unlock:     mutex := Free;
               } or {
   s_lock:       await mutex = Free; mutex := Consumer;                          \* size(): lock_guard
   s_size:       last := [op |-> "size", arg |-> <<>>, res |-> Len(buffer)]; \*   return buffer.size();
   s_unlock:     mutex := Free;
               } or {
   e_lock:       if (TryLock) {                                              \* empty(): lock_guard   (negative control: try_to_lock)
                   if (mutex = Free) { mutex := Consumer; }
                   else { last := [op |-> "empty", arg |-> <<>>, res |-> FALSE]; goto c_next; };
                 } else { await mutex = Free; mutex := Consumer; };
   e_empty:      last := [op |-> "empty", arg |-> <<>>, res |-> (Len(buffer) = 0)];
   e_unlock:     mutex := Free;
               };
   c_next:     ops := ops + 1;
             };
   f_join:   await done = Producers;                                         \* the producers have stopped
   f_lock:   await mutex = Free; mutex := Consumer;                              \* one more consume()
   f_move:   last := [op |-> "consume", arg |-> <<>>, res |-> buffer];
             buffer := <<>>;
   f_unlock: mutex := Free;
   f_end:    last := [op |-> "end", arg |-> "buf", res |-> <<>>];            \* end of the execution
  }

  process (reader \in Readers)
    variables rk = 0;
  {
   r_loop:   while (rk < NReads) {
               either {
   rs_lock:      await mutex = Free; mutex := self;                             \* size(): lock_guard
   rs_size:      last := [op |-> "size", arg |-> <<>>, res |-> Len(buffer)];
   rs_unlock:    mutex := Free;
               } or {
   re_lock:      if (TryLock) {                                                  \* empty(): lock_guard   (negative control: try_to_lock)
                   if (mutex = Free) { mutex := self; }
                   else { last := [op |-> "empty", arg |-> <<>>, res |-> FALSE]; goto r_next; };
                 } else { await mutex = Free; mutex := self; };
   re_empty:     last := [op |-> "empty", arg |-> <<>>, res |-> (Len(buffer) = 0)];
   re_unlock:    mutex := Free;
               };
   r_next:     rk := rk + 1;
             };
  }
} *)
\* BEGIN TRANSLATION
VARIABLES pc, buffer, mutex, last, done, k, tmp, ops, rk

vars == << pc, buffer, mutex, last, done, k, tmp, ops, rk >>

ProcSet == (Producers) \cup {Consumer} \cup (Readers)

Init == (* Global variables *)
        /\ buffer = <<>>
        /\ mutex = Free
        /\ last = [op |-> "init", arg |-> <<>>, res |-> <<>>]
        /\ done = {}
        (* Process prod *)
        /\ k = [self \in Producers |-> 0]
        /\ tmp = [self \in Producers |-> <<>>]
        (* Process cons *)
        /\ ops = 0
        (* Process reader *)
        /\ rk = [self \in Readers |-> 0]
        /\ pc = [self \in ProcSet |-> CASE self \in Producers -> "p_loop"
                                        [] self = Consumer -> "c_loop"
                                        [] self \in Readers -> "r_loop"]

p_loop(self) == /\ pc[self] = "p_loop"
                /\ IF k[self] < NPush
                      THEN /\ pc' = [pc EXCEPT ![self] = "p_lock"]
                      ELSE /\ pc' = [pc EXCEPT ![self] = "p_done"]
                /\ UNCHANGED << buffer, mutex, last, done, k, tmp, ops, rk >>

p_lock(self) == /\ pc[self] = "p_lock"
                /\ IF Locking
                      THEN /\ mutex = Free
                           /\ mutex' = self
                      ELSE /\ TRUE
                           /\ mutex' = mutex
                /\ pc' = [pc EXCEPT ![self] = "p_rd"]
                /\ UNCHANGED << buffer, last, done, k, tmp, ops, rk >>

p_rd(self) == /\ pc[self] = "p_rd"
              /\ tmp' = [tmp EXCEPT ![self] = buffer]
              /\ pc' = [pc EXCEPT ![self] = "p_wr"]
              /\ UNCHANGED << buffer, mutex, last, done, k, ops, rk >>

p_wr(self) == /\ pc[self] = "p_wr"
              /\ buffer' = Append(tmp[self], <<self, k[self] + 1>>)
              /\ last' = [op |-> "push", arg |-> <<self, k[self] + 1>>, res |-> <<>>]
              /\ pc' = [pc EXCEPT ![self] = "p_unlock"]
              /\ UNCHANGED << mutex, done, k, tmp, ops, rk >>

p_unlock(self) == /\ pc[self] = "p_unlock"
                  /\ IF Locking
                        THEN /\ mutex' = Free
                        ELSE /\ TRUE
                             /\ mutex' = mutex
                  /\ k' = [k EXCEPT ![self] = k[self] + 1]
                  /\ pc' = [pc EXCEPT ![self] = "p_loop"]
                  /\ UNCHANGED << buffer, last, done, tmp, ops, rk >>

p_done(self) == /\ pc[self] = "p_done"
                /\ done' = (done \cup {self})
                /\ pc' = [pc EXCEPT ![self] = "Done"]
                /\ UNCHANGED << buffer, mutex, last, k, tmp, ops, rk >>

prod(self) == p_loop(self) \/ p_lock(self) \/ p_rd(self) \/ p_wr(self)
                 \/ p_unlock(self) \/ p_done(self)

c_loop == /\ pc[Consumer] = "c_loop"
          /\ IF ops < NOps
                THEN /\ \/ /\ pc' = [pc EXCEPT ![Consumer] = "c_lock"]
                        \/ /\ pc' = [pc EXCEPT ![Consumer] = "s_lock"]
                        \/ /\ pc' = [pc EXCEPT ![Consumer] = "e_lock"]
                ELSE /\ pc' = [pc EXCEPT ![Consumer] = "f_join"]
          /\ UNCHANGED << buffer, mutex, last, done, k, tmp, ops, rk >>

c_next == /\ pc[Consumer] = "c_next"
          /\ ops' = ops + 1
          /\ pc' = [pc EXCEPT ![Consumer] = "c_loop"]
          /\ UNCHANGED << buffer, mutex, last, done, k, tmp, rk >>

c_lock == /\ pc[Consumer] = "c_lock"
          /\ mutex = Free
          /\ mutex' = Consumer
          /\ pc' = [pc EXCEPT ![Consumer] = "c_move"]
          /\ UNCHANGED << buffer, last, done, k, tmp, ops, rk >>

c_move == /\ pc[Consumer] = "c_move"
          /\ last' = [op |-> "consume", arg |-> <<>>, res |-> buffer]
          /\ buffer' = <<>>
          /\ pc' = [pc EXCEPT ![Consumer] = "c_unlock"]
          /\ UNCHANGED << mutex, done, k, tmp, ops, rk >>

c_unlock == /\ pc[Consumer] = "c_unlock"
            /\ mutex' = Free
            /\ pc' = [pc EXCEPT ![Consumer] = "c_next"]
            /\ UNCHANGED << buffer, last, done, k, tmp, ops, rk >>

s_lock == /\ pc[Consumer] = "s_lock"
          /\ mutex = Free
          /\ mutex' = Consumer
          /\ pc' = [pc EXCEPT ![Consumer] = "s_size"]
          /\ UNCHANGED << buffer, last, done, k, tmp, ops, rk >>

s_size == /\ pc[Consumer] = "s_size"
          /\ last' = [op |-> "size", arg |-> <<>>, res |-> Len(buffer)]
          /\ pc' = [pc EXCEPT ![Consumer] = "s_unlock"]
          /\ UNCHANGED << buffer, mutex, done, k, tmp, ops, rk >>

s_unlock == /\ pc[Consumer] = "s_unlock"
            /\ mutex' = Free
            /\ pc' = [pc EXCEPT ![Consumer] = "c_next"]
            /\ UNCHANGED << buffer, last, done, k, tmp, ops, rk >>

e_lock == /\ pc[Consumer] = "e_lock"
          /\ IF TryLock
                THEN /\ IF mutex = Free
                           THEN /\ mutex' = Consumer
                                /\ pc' = [pc EXCEPT ![Consumer] = "e_empty"]
                                /\ last' = last
                           ELSE /\ last' = [op |-> "empty", arg |-> <<>>, res |-> FALSE]
                                /\ pc' = [pc EXCEPT ![Consumer] = "c_next"]
                                /\ mutex' = mutex
                ELSE /\ mutex = Free
                     /\ mutex' = Consumer
                     /\ pc' = [pc EXCEPT ![Consumer] = "e_empty"]
                     /\ last' = last
          /\ UNCHANGED << buffer, done, k, tmp, ops, rk >>

e_empty == /\ pc[Consumer] = "e_empty"
           /\ last' = [op |-> "empty", arg |-> <<>>, res |-> (Len(buffer) = 0)]
           /\ pc' = [pc EXCEPT ![Consumer] = "e_unlock"]
           /\ UNCHANGED << buffer, mutex, done, k, tmp, ops, rk >>

e_unlock == /\ pc[Consumer] = "e_unlock"
            /\ mutex' = Free
            /\ pc' = [pc EXCEPT ![Consumer] = "c_next"]
            /\ UNCHANGED << buffer, last, done, k, tmp, ops, rk >>

f_join == /\ pc[Consumer] = "f_join"
          /\ done = Producers
          /\ pc' = [pc EXCEPT ![Consumer] = "f_lock"]
          /\ UNCHANGED << buffer, mutex, last, done, k, tmp, ops, rk >>

f_lock == /\ pc[Consumer] = "f_lock"
          /\ mutex = Free
          /\ mutex' = Consumer
          /\ pc' = [pc EXCEPT ![Consumer] = "f_move"]
          /\ UNCHANGED << buffer, last, done, k, tmp, ops, rk >>

f_move == /\ pc[Consumer] = "f_move"
          /\ last' = [op |-> "consume", arg |-> <<>>, res |-> buffer]
          /\ buffer' = <<>>
          /\ pc' = [pc EXCEPT ![Consumer] = "f_unlock"]
          /\ UNCHANGED << mutex, done, k, tmp, ops, rk >>

f_unlock == /\ pc[Consumer] = "f_unlock"
            /\ mutex' = Free
            /\ pc' = [pc EXCEPT ![Consumer] = "f_end"]
            /\ UNCHANGED << buffer, last, done, k, tmp, ops, rk >>

f_end == /\ pc[Consumer] = "f_end"
         /\ last' = [op |-> "end", arg |-> "buf", res |-> <<>>]
         /\ pc' = [pc EXCEPT ![Consumer] = "Done"]
         /\ UNCHANGED << buffer, mutex, done, k, tmp, ops, rk >>

cons == c_loop \/ c_next \/ c_lock \/ c_move \/ c_unlock \/ s_lock
           \/ s_size \/ s_unlock \/ e_lock \/ e_empty \/ e_unlock \/ f_join
           \/ f_lock \/ f_move \/ f_unlock \/ f_end

r_loop(self) == /\ pc[self] = "r_loop"
                /\ IF rk[self] < NReads
                      THEN /\ \/ /\ pc' = [pc EXCEPT ![self] = "rs_lock"]
                              \/ /\ pc' = [pc EXCEPT ![self] = "re_lock"]
                      ELSE /\ pc' = [pc EXCEPT ![self] = "Done"]
                /\ UNCHANGED << buffer, mutex, last, done, k, tmp, ops, rk >>

r_next(self) == /\ pc[self] = "r_next"
                /\ rk' = [rk EXCEPT ![self] = rk[self] + 1]
                /\ pc' = [pc EXCEPT ![self] = "r_loop"]
                /\ UNCHANGED << buffer, mutex, last, done, k, tmp, ops >>

rs_lock(self) == /\ pc[self] = "rs_lock"
                 /\ mutex = Free
                 /\ mutex' = self
                 /\ pc' = [pc EXCEPT ![self] = "rs_size"]
                 /\ UNCHANGED << buffer, last, done, k, tmp, ops, rk >>

rs_size(self) == /\ pc[self] = "rs_size"
                 /\ last' = [op |-> "size", arg |-> <<>>, res |-> Len(buffer)]
                 /\ pc' = [pc EXCEPT ![self] = "rs_unlock"]
                 /\ UNCHANGED << buffer, mutex, done, k, tmp, ops, rk >>

rs_unlock(self) == /\ pc[self] = "rs_unlock"
                   /\ mutex' = Free
                   /\ pc' = [pc EXCEPT ![self] = "r_next"]
                   /\ UNCHANGED << buffer, last, done, k, tmp, ops, rk >>

re_lock(self) == /\ pc[self] = "re_lock"
                 /\ IF TryLock
                       THEN /\ IF mutex = Free
                                  THEN /\ mutex' = self
                                       /\ pc' = [pc EXCEPT ![self] = "re_empty"]
                                       /\ last' = last
                                  ELSE /\ last' = [op |-> "empty", arg |-> <<>>, res |-> FALSE]
                                       /\ pc' = [pc EXCEPT ![self] = "r_next"]
                                       /\ mutex' = mutex
                       ELSE /\ mutex = Free
                            /\ mutex' = self
                            /\ pc' = [pc EXCEPT ![self] = "re_empty"]
                            /\ last' = last
                 /\ UNCHANGED << buffer, done, k, tmp, ops, rk >>

re_empty(self) == /\ pc[self] = "re_empty"
                  /\ last' = [op |-> "empty", arg |-> <<>>, res |-> (Len(buffer) = 0)]
                  /\ pc' = [pc EXCEPT ![self] = "re_unlock"]
                  /\ UNCHANGED << buffer, mutex, done, k, tmp, ops, rk >>

re_unlock(self) == /\ pc[self] = "re_unlock"
                   /\ mutex' = Free
                   /\ pc' = [pc EXCEPT ![self] = "r_next"]
                   /\ UNCHANGED << buffer, last, done, k, tmp, ops, rk >>

reader(self) == r_loop(self) \/ r_next(self) \/ rs_lock(self)
                   \/ rs_size(self) \/ rs_unlock(self) \/ re_lock(self)
                   \/ re_empty(self) \/ re_unlock(self)

(* Allow infinite stuttering to prevent deadlock on termination. *)
Terminating == /\ \A self \in ProcSet: pc[self] = "Done"
               /\ UNCHANGED vars

Next == cons
           \/ (\E self \in Producers: prod(self))
           \/ (\E self \in Readers: reader(self))
           \/ Terminating

Spec == Init /\ [][Next]_vars

Termination == <>(\A self \in ProcSet: pc[self] = "Done")

\* END TRANSLATION

-------------------------------------------------------------------------------
\* accesses of plain (non-atomic) shared variables performed by the step a thread is about to take
Acc(t) == CASE pc[t] = "p_rd"                 -> {<<"buffer", "r">>}
            [] pc[t] = "p_wr"                 -> {<<"buffer", "w">>}
            [] pc[t] \in {"c_move", "f_move"} -> {<<"buffer", "r">>, <<"buffer", "w">>}
            [] pc[t] \in {"s_size", "e_empty", "rs_size", "re_empty"} -> {<<"buffer", "r">>}
            [] OTHER                          -> {}

\* locks held there according to the source (scope of the lock_guard)
Held(t) == IF pc[t] \in {"p_rd", "p_wr"} THEN (IF Locking THEN {"bufferMutex"} ELSE {})
           ELSE IF pc[t] \in {"c_move", "f_move", "s_size", "e_empty", "rs_size", "re_empty"} THEN {"bufferMutex"}
           ELSE {}

Conflict(a, b) == a[1] = b[1] /\ "w" \in {a[2], b[2]}
Race == \E t1, t2 \in Threads : /\ t1 # t2
                                /\ \E a \in Acc(t1), b \in Acc(t2) : Conflict(a, b)
                                /\ Held(t1) \cap Held(t2) = {}
NoRace  == ~Race
AnnotOK == \A t \in Threads : Acc(t) # {} => (("bufferMutex" \in Held(t)) <=> (mutex = t))
MutexOK == mutex \in Threads \cup {Free}

\* refinement: the abstract buffer state is the content of `buffer`, per producer
PendOf == [p \in Producers |-> SelectSeq(buffer, LAMBDA e : e[1] = p)]
C == INSTANCE HandOff WITH Strict <- TRUE, InitVal <- 0, Vals <- {}, MaxAssign <- 0,
                           Elems <- {<<p, s>> : p \in Producers, s \in 1..NPush},
                           pend <- PendOf, asg <- <<>>, cur <- 0, last <- last
Refines == C!ObsSpec
===============================================================================
