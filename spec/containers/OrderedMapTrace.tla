---------------------------- MODULE OrderedMapTrace ----------------------------
(* Trace specification: is a recorded execution of the real FlatMap a          *)
(* behaviour of OrderedMap?  Each recorded line {a, arg, obs} must be the next *)
(* action of the specification with those arguments, and every observable the  *)
(* specification computes for that step (last'.exp) must equal what was        *)
(* observed.  Executions are separated by {"a":"Reset"} lines.  The arguments  *)
(* the specification derives itself (the key found at an index: arg.k of       *)
(* EraseAt / AtIndexAssign / IterAssign) are not taken from the trace.         *)
EXTENDS OrderedMap, Json, IOUtils, TLCExt

VARIABLE l
tvars == <<m, s, last, l>>

TraceLines == ndJsonDeserialize(IOEnv.TRACE)
N == Len(TraceLines)
Line == TraceLines[l]

\* (compared through their printed form: TLC refuses to compare values of different kinds, e.g. "throws" with 3;
\*  observables are integers, strings, booleans and tuples of those, whose printed form is canonical)
Same(a, b) == ToString(a) = ToString(b)
ObsMatches == \A f \in DOMAIN last'.exp : f \in DOMAIN Line.obs /\ Same(Line.obs[f], last'.exp[f])

TInit == Init /\ l = 1

Dispatch ==
  \/ Line.a = "Put" /\ Put(Line.arg.k, Line.arg.v)
  \/ Line.a = "AtAssign" /\ AtAssign(Line.arg.k, Line.arg.v)
  \/ Line.a = "GetOrInsert" /\ GetOrInsert(Line.arg.k)
  \/ Line.a = "At" /\ At(Line.arg.k)
  \/ Line.a = "Contains" /\ Contains(Line.arg.k)
  \/ Line.a = "Erase" /\ Erase(Line.arg.k)
  \/ Line.a = "Clear" /\ Clear
  \/ Line.a = "IterRev" /\ IterRev
  \/ Line.a = "IterConst" /\ IterConst
  \/ Line.a = "AtIndex" /\ AtIndex(Line.arg.i)
  \/ Line.a = "Reserve" /\ Reserve(Line.arg.n)
  \/ Line.a = "EraseAt" /\ EraseAt(Line.arg.i)
  \/ Line.a = "AtIndexAssign" /\ AtIndexAssign(Line.arg.i, Line.arg.v)
  \/ Line.a = "IterAssign" /\ IterAssign(Line.arg.i, Line.arg.v)
  \/ Line.a = "ConstIndex" /\ ConstIndex(Line.arg.k)
  \/ Line.a = "InsertThrows" /\ InsertThrows(Line.arg.k, Line.arg.w)
  \/ Line.a = "CopyTo" /\ CopyTo
  \/ Line.a = "CopyFrom" /\ CopyFrom
  \/ Line.a = "CopyCtor" /\ CopyCtor
  \/ Line.a = "MoveCtor" /\ MoveCtor
  \/ Line.a = "MoveAssign" /\ MoveAssign
  \/ Line.a = "SelfAssign" /\ SelfAssign
  \/ Line.a = "Swap" /\ Swap
  \/ Line.a = "Put2" /\ Put2(Line.arg.k, Line.arg.v)
  \/ Line.a = "Erase2" /\ Erase2(Line.arg.k)
  \/ Line.a = "Clear2" /\ Clear2
  \/ Line.a = "PutRange" /\ PutRange(Line.arg.lo, Line.arg.n, Line.arg.d)
  \/ Line.a = "EraseEvery" /\ EraseEvery(Line.arg.lo, Line.arg.n, Line.arg.st, Line.arg.r, Line.arg.how)

TStep  == l <= N /\ Line.a # "Reset" /\ Dispatch /\ ObsMatches /\ l' = l + 1
TReset == l <= N /\ Line.a = "Reset" /\ m' = <<>> /\ s' = <<>> /\ last' = [a |-> "Init", arg |-> <<>>, exp |-> Obs(<<>>, <<>>)] /\ l' = l + 1
TNext  == TStep \/ TReset
TSpec  == TInit /\ [][TNext]_tvars

\* acceptance: the search reached the end of the trace (one state per line + the initial one)
Accepted == TLCGet("stats").diameter - 1 = N
Post == IF Accepted THEN TRUE
        ELSE /\ PrintT(<<"TRACE-REJECTED-AT-LINE", TLCGet("stats").diameter, "OF", N>>)
             /\ FALSE
===============================================================================
