---------------------------- MODULE OrderedMapTrace ----------------------------
(* Trace specification: is a recorded execution of the real FlatMap a          *)
(* behaviour of OrderedMap?  Each recorded line {a, arg, obs} must be the next *)
(* action of the specification with those arguments, and every observable the  *)
(* specification computes for that step (last'.exp) must equal what was        *)
(* observed.  Executions are separated by {"a":"Reset"} lines.                 *)
EXTENDS OrderedMap, Json, IOUtils, TLCExt

VARIABLE l
tvars == <<m, last, l>>

TraceLines == ndJsonDeserialize(IOEnv.TRACE)
N == Len(TraceLines)
Line == TraceLines[l]

ObsMatches == \A f \in DOMAIN last'.exp : f \in DOMAIN Line.obs /\ Line.obs[f] = last'.exp[f]

TInit == Init /\ l = 1

Dispatch ==
  \/ Line.a = "Put" /\ Put(Line.arg.k, Line.arg.v)
  \/ Line.a = "AtAssign" /\ AtAssign(Line.arg.k, Line.arg.v)
  \/ Line.a = "GetOrInsert" /\ GetOrInsert(Line.arg.k)
  \/ Line.a = "At" /\ At(Line.arg.k)
  \/ Line.a = "Contains" /\ Contains(Line.arg.k)
  \/ Line.a = "Erase" /\ Erase(Line.arg.k)
  \/ Line.a = "Clear" /\ Clear
  \/ Line.a = "IterRev" /\ IterRev
  \/ Line.a = "IterConst" /\ IterConst
  \/ Line.a = "AtIndex" /\ AtIndex(Line.arg.i)
  \/ Line.a = "Reserve" /\ Reserve(Line.arg.n)

TStep  == l <= N /\ Line.a # "Reset" /\ Dispatch /\ ObsMatches /\ l' = l + 1
TReset == l <= N /\ Line.a = "Reset" /\ m' = <<>> /\ last' = [a |-> "Init", arg |-> <<>>, exp |-> Proj(<<>>)] /\ l' = l + 1
TNext  == TStep \/ TReset
TSpec  == TInit /\ [][TNext]_tvars

\* acceptance: the search reached the end of the trace (one state per line + the initial one)
Accepted == TLCGet("stats").diameter - 1 = N
Post == IF Accepted THEN TRUE
        ELSE /\ PrintT(<<"TRACE-REJECTED-AT-LINE", TLCGet("stats").diameter, "OF", N>>)
             /\ FALSE
===============================================================================
