SPECIFICATION SpecH
CONSTANTS
  Names = {0, 1, 2}
  Types = {"int", "float"}
  Vals = {1}
  MaxSize = 4
  Ext = {}
  RangeN = {0, 2, 3}
  K = 1
INVARIANTS UniqueNames LastAgrees NoneNotQueried AgreesWithHistory MacroIsIteration
CONSTRAINT HistBound
VIEW View
