SPECIFICATION Spec
CONSTANTS
  NAssign = 3
  NRounds = 3
  Variant = "nolock_update"
INVARIANTS NoRace

CHECK_DEADLOCK FALSE
