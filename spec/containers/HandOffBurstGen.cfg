INIT Init
NEXT Next
CONSTANTS
  BurstLens = {0, 1, 2, 127, 128, 255, 256, 257, 511, 512, 513, 1023, 1024, 1025, 4095, 4096, 4097, 65535, 65536, 65537}
CHECK_DEADLOCK FALSE
