INIT Init
NEXT Next
CONSTANTS
  BurstLens = {1, 2, 127, 128, 255, 256, 257, 511, 512, 513, 1024, 65535, 65536, 65537}
CHECK_DEADLOCK FALSE
