------------------------------ MODULE HandOffMC ------------------------------
(* Model-checking instance of the HandOff contract.  Ghost variables record    *)
(* the whole history (what each producer pushed, the batches consumed, the     *)
(* values assigned and the values the consumer saw) and the invariants below   *)
(* are the clauses of property C12 in declarative form, stated over that       *)
(* history - TLC checks that the operational contract (one atomic step per     *)
(* call) implies them after every bounded history, for Strict = FALSE (the     *)
(* statement) and Strict = TRUE (the documented behaviour), and that           *)
(* Strict = TRUE refines Strict = FALSE.                                       *)
EXTENDS HandOff

CONSTANTS NPush,       \* pushes per producer
          MaxConsume,  \* bound on the number of consume() calls
          MaxGets      \* bound on the number of update()/get() rounds

VARIABLES pushed,      \* [Producers -> sequence of elements pushed, in push order]
          batches,     \* sequence of the batches returned by consume()
          seen,        \* sequence of <<value before, update() result, value after>> of every update()+get() round
          ended        \* the End action was taken

mcvars == <<pend, asg, cur, last, pushed, batches, seen, ended>>

MCInit == Init /\ pushed = [p \in Producers |-> <<>>] /\ batches = <<>> /\ seen = <<>> /\ ended = FALSE

NextElem(p) == <<p, Len(pushed[p]) + 1>>

MCBNext ==
  /\ ~ended
  /\ \/ \E p \in Producers : /\ Len(pushed[p]) < NPush
                             /\ BPush(p, NextElem(p))
                             /\ pushed' = [pushed EXCEPT ![p] = Append(@, NextElem(p))]
                             /\ UNCHANGED <<batches, seen, ended>>
     \/ \E batch \in Batches : /\ Len(batches) < MaxConsume
                               /\ BConsume(batch)
                               /\ batches' = Append(batches, batch)
                               /\ UNCHANGED <<pushed, seen, ended>>
     \/ \E n \in 0..Cardinality(Elems) : BSize(n) /\ UNCHANGED <<pushed, batches, seen, ended>>
     \/ \E b \in BOOLEAN : BEmpty(b) /\ UNCHANGED <<pushed, batches, seen, ended>>
     \/ BEnd /\ ended' = TRUE /\ UNCHANGED <<pushed, batches, seen>>

\* one consumer round = update() immediately followed by get() (two contract steps, folded for the ghost)
MCVNext ==
  /\ ~ended
  /\ \/ \E v \in Vals : /\ Len(asg) < MaxAssign
                        /\ v = Len(asg) + 1                      \* the producer assigns 1, 2, 3, ... (distinct, so order is observable)
                        /\ VAssign(v)
                        /\ UNCHANGED <<pushed, batches, seen, ended>>
     \/ \E r \in BOOLEAN : /\ Len(seen) < MaxGets
                           /\ VUpdate(r)
                           /\ seen' = Append(seen, <<ValAt(cur), r, IF cur' = 0 THEN InitVal ELSE asg[cur']>>)
                           /\ UNCHANGED <<pushed, batches, ended>>
     \/ \E v \in Vals \cup {InitVal} : VGet(v) /\ UNCHANGED <<pushed, batches, seen, ended>>
     \/ VEnd /\ ended' = TRUE /\ UNCHANGED <<pushed, batches, seen>>

MCBufSpec == MCInit /\ [][MCBNext]_mcvars

\* ... plus runs of observer calls (made by any thread, by any number of threads at once: the caller is not part of the
\* contract state, the steps of several observers simply interleave).  A separate relation, so that the state graph the
\* sequential histories are generated from (MCBufSpec) is unchanged.
MCBObsNext ==
  \/ MCBNext
  \/ ~ended /\ \E n \in 0..Cardinality(Elems), k \in 1..2 : BSizeRun(n, k) /\ UNCHANGED <<pushed, batches, seen, ended>>
  \/ ~ended /\ \E b \in BOOLEAN, k \in 1..2 : BEmptyRun(b, k) /\ UNCHANGED <<pushed, batches, seen, ended>>
MCBufObsSpec == MCInit /\ [][MCBObsNext]_mcvars
MCValSpec == MCInit /\ [][MCVNext]_mcvars

-------------------------------------------------------------------------------
\* Declarative reading of the statement, over the recorded history

\* number of occurrences of element e in all consumed batches
RECURSIVE OccIn(_, _, _)
OccIn(e, bs, i) == IF i > Len(bs) THEN 0
                   ELSE Cardinality({j \in DOMAIN bs[i] : bs[i][j] = e}) + OccIn(e, bs, i + 1)
Occ(e) == OccIn(e, batches, 1)
IsPending(e) == \E j \in DOMAIN pend[e[1]] : pend[e[1]][j] = e
WasPushed(e) == \E j \in DOMAIN pushed[e[1]] : pushed[e[1]][j] = e

\* "every pushed element appears in exactly one consumed batch, exactly once" (or is still pending);
\* nothing that was not pushed appears
ExactlyOnce == \A e \in Elems : Occ(e) + (IF IsPending(e) THEN 1 ELSE 0) = (IF WasPushed(e) THEN 1 ELSE 0)

\* "in its producer's push order": across and inside batches the elements of one producer come in push order
RECURSIVE Flat(_, _)
Flat(bs, i) == IF i > Len(bs) THEN <<>> ELSE bs[i] \o Flat(bs, i + 1)
InPushOrder == \A p \in Producers : ProjP(Flat(batches, 1), p) \o pend[p] = pushed[p]

\* "size()/empty() never observe a torn state": the result is pushed - consumed of the current atomic state
Consumed == Len(Flat(batches, 1))
Pushed   == SumLen(pushed, Producers)
SizeNotTorn  == last.op \in {"size", "sizes"}    => last.res = Pushed - Consumed
EmptyNotTorn == last.op \in {"empty", "empties"} => last.res = (Pushed = Consumed)

\* OBSERVER LAWS (any number of threads inside size() / empty()):
\* an observer step changes nothing - so observers commute with each other and k of them at one state are one
ObserverIsReadOnly == [][last'.op \in {"size", "sizes", "empty", "empties"} => UNCHANGED <<pend, asg, cur, pushed, batches>>]_mcvars
\* mutators quiescent on a drained buffer (nothing pushed since the last consume() took everything): every observer
\* answers "empty" / 0
DrainedObservers == (Pushed = Consumed /\ last.op \in {"size", "sizes", "empty", "empties"})
                      => last.res = (IF last.op \in {"size", "sizes"} THEN 0 ELSE TRUE)
\* the poll loop: under the documented behaviour a consume() that takes effect right after the consumer's empty() = FALSE /
\* size() > 0 (pushes in between only add) returns a non-empty batch
SawSome(r) == (r.op \in {"empty", "empties"} /\ r.res = FALSE) \/ (r.op \in {"size", "sizes"} /\ r.res > 0)
PollThenConsume == [][(Strict /\ last'.op = "consume" /\ SawSome(last)) => last'.res # <<>>]_mcvars

\* at the end of an execution every pushed element is in exactly one batch
NothingLost == ended /\ last.arg = "buf" => \A e \in Elems : WasPushed(e) => Occ(e) = 1

\* TransactionalValue (the producer assigns 1, 2, 3, ...: a value is its own position in asg)
SeenAssigned == \A i \in DOMAIN seen : seen[i][3] = InitVal \/ \E j \in DOMAIN asg : asg[j] = seen[i][3]
SeenInOrder  == \A i \in DOMAIN seen : /\ seen[i][1] <= seen[i][3]
                                       /\ i > 1 => seen[i][1] = seen[i - 1][3]
TrueIffNewer == \A i \in DOMAIN seen : seen[i][2] <=> (seen[i][3] > seen[i][1])
GetIsCurrent == last.op = "get" => last.res = ValAt(cur) /\ (last.res = InitVal \/ \E j \in DOMAIN asg : asg[j] = last.res)
LastObtained == ended /\ last.arg = "val" => ValAt(cur) = (IF asg = <<>> THEN InitVal ELSE asg[Len(asg)])

\* only for Strict = TRUE (documented behaviour): a consume leaves nothing behind, update() installs the newest value
StrictTakesAll == Strict /\ last.op = "consume" => Pending = 0
StrictNewest   == Strict /\ last.op = "update" => cur = Len(asg)

\* Strict = TRUE refines Strict = FALSE (the documented behaviour satisfies the statement)
Lib == INSTANCE HandOff WITH Strict <- FALSE
RefinesStatementBuf == Lib!BufSpec
RefinesStatementVal == Lib!ValSpec

\* LAWS of the macro actions (checked by TLC as ASSUMEs on every run of this module): a burst is exactly
\* its single steps, for every short prefix state and every burst of up to 3 pushes / 4 assignments
SmallSeqs(S, n) == UNION {[1..k -> S] : k \in 0..n}
ElemsOfP(p) == {<<p, s>> : s \in 1..NPush}
ASSUME BurstIsItsSinglePushes ==
  \A p \in Producers : \A pre \in SmallSeqs(ElemsOfP(p), 2) : \A other \in SmallSeqs({<<0, 1>>}, 1) : \A vs \in SmallSeqs(ElemsOfP(p), 3) :
    LET pd == [q \in Producers |-> IF q = p THEN pre ELSE other]
    IN BurstPushF(pd, p, vs) = FoldPush(pd, p, vs)
ASSUME BurstIsItsSingleAssigns ==
  \A a \in SmallSeqs(1..MaxAssign, 2) : \A vs \in SmallSeqs(1..MaxAssign, 4) : BurstAssignF(a, vs) = FoldAssign(a, vs)

\* finite universes for the cfg files (sequences cannot be written there)
MCElems == {<<p, s>> : p \in Producers, s \in 1..NPush}
MCVals  == 1..MaxAssign
===============================================================================
