SPECIFICATION Spec
CONSTANTS
  NAssign = 3
  NRounds = 3
  Variant = "nolock_update"
INVARIANTS AnnotOK
PROPERTY Refines
CHECK_DEADLOCK FALSE
