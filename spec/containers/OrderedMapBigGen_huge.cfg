SPECIFICATION Spec
CONSTANTS
  Sizes = {65535, 65536, 65537}
  SmallMax = 1025
