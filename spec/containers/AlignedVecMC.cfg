SPECIFICATION Spec
CONSTANTS
  Vals = {1, 2}
  Default = 0
  MaxLen = 3
  ResizeNs = {0, 1, 2, 3}
  ReserveNs = {0, 5}
  AllocBelow = 1
  AllocAbove = 2
  ESize = 8
  EAlign = 8
  Lifetime = TRUE
INVARIANTS TypeOK Bounded LastAgrees LifeBalanced
PROPERTIES MoveHandsOver CopiesWhole NoNewValues KeepsPrefix StorageOnly OtherUntouched SwapExchanges InsertShifts ThrowsIffBeyond TypeLaws
