SPECIFICATION Spec
CONSTANTS
  Producers = {1, 2}
  NPush = 2
  NOps = 2
  Variant = "code"
INVARIANTS NoRace AnnotOK MutexOK
PROPERTY Refines
CHECK_DEADLOCK FALSE
