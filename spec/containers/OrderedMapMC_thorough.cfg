SPECIFICATION SpecH
CONSTANTS
  Keys = {1, 2, 3}
  Vals = {1, 2}
  Default = 0
  MaxSize = 3
  K = 4
INVARIANTS TypeOK UniqueKeys Bounded LastAgrees AgreesWithHistory
CONSTRAINT HistBound
VIEW View
