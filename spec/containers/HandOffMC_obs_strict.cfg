SPECIFICATION MCBufObsSpec
CONSTANTS
  Producers = {1, 2}
  InitVal = 0
  Strict = TRUE
  Elems <- MCElems
  Vals <- MCVals
  MaxAssign = 3
  NPush = 2
  MaxConsume = 3
  MaxGets = 4
INVARIANTS ExactlyOnce InPushOrder SizeNotTorn EmptyNotTorn NothingLost StrictTakesAll DrainedObservers
PROPERTIES RefinesStatementBuf ObserverIsReadOnly PollThenConsume
CHECK_DEADLOCK FALSE
