SPECIFICATION Spec
CONSTANTS
  Producers = {1, 2, 3}
  NPush = 2
  NOps = 3
  Readers = {}
  NReads = 0
  Variant = "code"
INVARIANTS NoRace AnnotOK MutexOK
PROPERTY Refines
CHECK_DEADLOCK FALSE
