------------------------------- MODULE DoubleBuf -------------------------------
(* rkcommon/utility/DoubleBufferedValue.h: "two values which are double          *)
(* buffered ... the caller can swap() the front and back values, where front()   *)
(* and back() references will be exchanged."                                     *)
(*                                                                             *)
(* State: two cells and which of them is the front.  References handed out by    *)
(* front() / back() designate a CELL: after swap() a reference taken from        *)
(* front() reads and writes what back() now designates (the documented caveat:   *)
(* "any references to front() and back() must be synchronized with swap()").     *)
(* swap() exchanges designations, it moves no value.                             *)
EXTENDS Integers, Sequences, FiniteSets, TLC

CONSTANTS Vals,     \* values written (integers # Default)
          Default,  \* value of a value-initialised T
          NRefs     \* references the driver keeps

Refs == 1..NRefs
VARIABLES cell,   \* <<value of cell 1, value of cell 2>>
          f,      \* which cell front() designates (1 or 2); back() designates the other
          ref,    \* Refs -> 0 (unbound) or the cell the reference designates
          last
vars == <<cell, f, ref, last>>

B(ff) == 3 - ff
Side(c, ff) == IF c = 0 THEN "none" ELSE IF c = ff THEN "front" ELSE "back"
Proj(c, ff, r) == [front |-> c[ff], back |-> c[B(ff)], cfront |-> c[ff], cback |-> c[B(ff)],
                   distinct |-> TRUE, caddr |-> TRUE, refs |-> [i \in Refs |-> Side(r[i], ff)]]
Step(a, arg, ret) == [a |-> a, arg |-> arg, exp |-> [ret |-> ret] @@ Proj(cell', f', ref')]

Init == /\ cell = <<Default, Default>> /\ f = 1 /\ ref = [i \in Refs |-> 0]
        /\ last = [a |-> "Init", arg |-> <<>>, exp |-> [ret |-> "void"] @@ Proj(<<Default, Default>>, 1, [i \in Refs |-> 0])]

TypeOK == cell \in Seq(Vals \cup {Default}) /\ Len(cell) = 2 /\ f \in {1, 2} /\ ref \in [Refs -> {0, 1, 2}]

WriteFront(v) == /\ cell' = [cell EXCEPT ![f] = v] /\ UNCHANGED <<f, ref>> /\ last' = Step("WriteFront", [v |-> v], "void")
WriteBack(v)  == /\ cell' = [cell EXCEPT ![B(f)] = v] /\ UNCHANGED <<f, ref>> /\ last' = Step("WriteBack", [v |-> v], "void")
ReadFront     == /\ UNCHANGED <<cell, f, ref>> /\ last' = Step("ReadFront", <<>>, cell[f])
ReadBack      == /\ UNCHANGED <<cell, f, ref>> /\ last' = Step("ReadBack", <<>>, cell[B(f)])
Swap          == /\ f' = B(f) /\ UNCHANGED <<cell, ref>> /\ last' = Step("Swap", <<>>, "void")
TakeRef(r, side) == /\ ref' = [ref EXCEPT ![r] = IF side = "front" THEN f ELSE B(f)]
                    /\ UNCHANGED <<cell, f>> /\ last' = Step("TakeRef", [r |-> r, side |-> side], "void")
WriteRef(r, v) == /\ ref[r] # 0 /\ cell' = [cell EXCEPT ![ref[r]] = v]
                  /\ UNCHANGED <<f, ref>> /\ last' = Step("WriteRef", [r |-> r, v |-> v], "void")
ReadRef(r)     == /\ ref[r] # 0 /\ UNCHANGED <<cell, f, ref>> /\ last' = Step("ReadRef", [r |-> r], cell[ref[r]])

Next ==
  \/ \E v \in Vals : WriteFront(v) \/ WriteBack(v)
  \/ ReadFront \/ ReadBack \/ Swap
  \/ \E r \in Refs, side \in {"front", "back"} : TakeRef(r, side)
  \/ \E r \in Refs, v \in Vals : WriteRef(r, v)
  \/ \E r \in Refs : ReadRef(r)

Spec == Init /\ [][Next]_vars

-------------------------------------------------------------------------------
LastAgrees == last.exp.front = cell[f] /\ last.exp.back = cell[B(f)]
\* swap() moves no value and rebinds no reference; nothing but swap() changes the designation
SwapMovesNothing == [][last'.a = "Swap" => cell' = cell /\ ref' = ref /\ f' # f]_vars
OnlySwapSwaps    == [][last'.a # "Swap" => f' = f]_vars
\* a write through front() / back() / a reference changes exactly one cell
OneCellPerWrite  == [][Cardinality({i \in {1, 2} : cell'[i] # cell[i]}) <= 1]_vars
\* a reference keeps its cell until it is taken again
RefsAreStable    == [][\A r \in Refs : (last'.a # "TakeRef" \/ last'.arg.r # r) => ref'[r] = ref[r]]_vars
===============================================================================
