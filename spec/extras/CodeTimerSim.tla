------------------------------ MODULE CodeTimerSim ------------------------------
(* Simulation instance of CodeTimer: TLC -simulate walks the specification at random  *)
(* (enabled actions only) and prints the actions of every walk of SIM_LEN steps; *)
(* the driver executes them on the real code and CodeTimerTrace validates what was    *)
(* observed.  Nothing here is an expectation: only actions and arguments leave.  *)
EXTENDS CodeTimer, Json, IOUtils

CONSTANT StartFirst   \* TRUE: walks in which stop() is never called before the first start() (the smoothed average stays meaningful)
VARIABLE hist
varsS == <<vars, hist>>
L == atoi(IOEnv.SIM_LEN)
InitS == Init /\ hist = <<>>
NextS == /\ Len(hist) < L /\ Next /\ hist' = Append(hist, [a |-> last'.a, arg |-> last'.arg])
         /\ (StartFirst /\ last'.a = "Stop" => s # -1)
SpecS == InitS /\ [][NextS]_varsS
Emit == Len(hist) = L => PrintT("@H@" \o ToJson(hist))
=============================================================================
