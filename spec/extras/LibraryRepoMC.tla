----------------------------- MODULE LibraryRepoMC -----------------------------
(* Model-checking instance of LibraryRepo: a history of the calls that can       *)
(* change something, and the DECLARATIVE reading checked against the operational *)
(* state after every history up to K calls:                                      *)
(*  - a name is in the repo iff a successful add of it happened after the last   *)
(*    remove(name) / cleanup, and the repo order is the order of those adds;     *)
(*  - a library is mapped iff it has an owner, and the balance of static         *)
(*    constructor / destructor runs reported so far is 1 for mapped libraries    *)
(*    and 0 for the others (released exactly when the last owner goes away);     *)
(*  - getSymbol answers with the earliest such add that exports the symbol.      *)
EXTENDS LibraryRepo

CONSTANT K
VARIABLES hist, bal
varsH == <<repo, direct, last, hist, bal>>

Mutators == {"Add", "Remove", "Cleanup", "LibNew", "LibDelete"}
Count(seq, l) == Cardinality({i \in DOMAIN seq : seq[i] = l})

InitH == Init /\ hist = <<>> /\ bal = [l \in Libs |-> 0]
NextH == /\ Next
         /\ hist' = IF last'.a \in Mutators THEN Append(hist, [a |-> last'.a, arg |-> last'.arg, ret |-> last'.exp.ret]) ELSE hist
         /\ bal' = [l \in Libs |-> bal[l] + Count(last'.exp.ctors, l) - Count(last'.exp.dtors, l)]
SpecH == InitH /\ [][NextH]_varsH

MaxOf(S) == CHOOSE x \in S : \A y \in S : y <= x
MinOf(S) == CHOOSE x \in S : \A y \in S : x <= y
IsKill(i, n)  == hist[i].a = "Cleanup" \/ (hist[i].a = "Remove" /\ hist[i].arg.name = n)
LastKill(n)   == LET S == {i \in DOMAIN hist : IsKill(i, n)} IN IF S = {} THEN 0 ELSE MaxOf(S)
GoodAdds(n)   == {i \in DOMAIN hist : /\ i > LastKill(n) /\ hist[i].a = "Add" /\ hist[i].arg.name = n
                                       /\ Load(hist[i].arg.anchor, n, hist[i].arg.ver) = "ok"}
Present       == {n \in Names : GoodAdds(n) # {}}
Birth(n)      == MinOf(GoodAdds(n))
RefRepo       == [i \in 1..Cardinality(Present) |->
                    CHOOSE n \in Present : Cardinality({x \in Present : Birth(x) < Birth(n)}) = i - 1]

AgreesWithHistory == repo = RefRepo
Balance  == \A l \in Libs : bal[l] = IF Loaded(l) THEN 1 ELSE 0
\* stated on the state (not on `last`, which the VIEW leaves out): for every symbol the search answers with the
\* earliest surviving successful add that exports it, and with no library only if none exports it
FirstWins == \A y \in Syms : LET r == Lookup(repo, y) IN
               IF r \in Libs THEN /\ r \in Present /\ y \in Exports(r)
                                   /\ \A n \in Present : y \in Exports(n) => Birth(r) <= Birth(n)
               ELSE \A n \in Present : y \notin Exports(n)
HistBound == Len(hist) <= K
View == <<repo, direct, hist, bal>>
===============================================================================
