SPECIFICATION Spec
CONSTANTS
  Vals = {1, 2}
  Default = 0
  NRefs = 2
INVARIANTS TypeOK LastAgrees
CHECK_DEADLOCK FALSE
