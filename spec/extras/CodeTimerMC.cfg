SPECIFICATION Spec
CONSTANTS
  MaxT = 3
INVARIANTS TypeOK Causal LastInterval
PROPERTIES QueriesArePure Readings
CHECK_DEADLOCK FALSE
