SPECIFICATION SpecS
CONSTANTS
  NSlots = 2
INVARIANTS Emit
CHECK_DEADLOCK FALSE
