SPECIFICATION Spec
CONSTANTS
  Ids = {1, 2}
  MaxDepth = 3
  MaxGuards = 3
  AllowEmpty = FALSE
INVARIANTS TypeOK Bounded
CHECK_DEADLOCK FALSE
