SPECIFICATION SpecS
CONSTANTS
  MaxT = 1000000
  StartFirst = FALSE
INVARIANTS Emit
CHECK_DEADLOCK FALSE
