SPECIFICATION TSpec
CONSTANTS
  Ids = {1, 2, 3, 4, 5}
  MaxDepth = 6
  MaxGuards = 4
  AllowEmpty = FALSE
INVARIANTS Bounded
POSTCONDITION Post
CHECK_DEADLOCK FALSE
