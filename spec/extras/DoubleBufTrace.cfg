SPECIFICATION TSpec
CONSTANTS
  Vals = {1, 2, 3, 4, 5, 6, 7}
  Default = 0
  NRefs = 3
INVARIANTS LastAgrees
POSTCONDITION Post
CHECK_DEADLOCK FALSE
