SPECIFICATION Spec
CONSTANTS
  NSlots = 2
INVARIANTS TypeOK UniqueNames LastAgrees StepShape
CHECK_DEADLOCK FALSE
