------------------------------- MODULE CodeTimer -------------------------------
(* rkcommon/utility/CodeTimer.h: "helper class that assists with timing a        *)
(* region of code".  start() and stop() take a reading of a monotone clock;      *)
(* seconds() / milliseconds() are (stop reading - start reading) of the LAST     *)
(* start and the LAST stop (an interval, not an accumulation), perSecond() its   *)
(* reciprocal; stop() also feeds an exponentially smoothed average               *)
(* (nom = 0.8 nom + seconds(), den = 0.8 den + 1) read by the ...Smoothed()      *)
(* members.                                                                      *)
(*                                                                             *)
(* This module is the LOGICAL part: a clock that only Sleep advances, and the    *)
(* sign / class of every answer (what can be said without looking at a real      *)
(* clock).  CodeTimerTrace adds the quantitative part: every call is bracketed   *)
(* by readings of the same clock and every value must lie in the interval the    *)
(* brackets allow.                                                               *)
(*                                                                             *)
(* Deliberate deviations (modelled as the code behaves, printed by the runner):  *)
(*  D1 a reading never taken is the clock's epoch: stop() without start() makes  *)
(*     seconds() the time since the epoch (large, positive); start() without a   *)
(*     later stop() makes it negative (old stop reading - new start reading);    *)
(*     a fresh timer answers exactly 0 and perSecond() is +infinity;             *)
(*  D2 the smoothed members are NaN before the first stop();                     *)
(*  D3 nothing accumulates in seconds(): a second stop() replaces the first.     *)
EXTENDS Integers, Sequences, FiniteSets, TLC

CONSTANT MaxT     \* bound on the logical clock

VARIABLES now,   \* logical clock: number of Sleep steps so far
          s, e,  \* logical time of the last start() / stop(); -1 = never (the clock's epoch)
          sm,    \* smoothed average: "none" (no stop yet), "pos" (some stop measured a surely positive interval), "any"
          last
vars == <<now, s, e, sm, last>>

Init == now = 0 /\ s = -1 /\ e = -1 /\ sm = "none" /\ last = [a |-> "Init", arg |-> <<>>, exp |-> [q |-> "Init"]]
TypeOK == now \in 0..MaxT /\ s \in -1..MaxT /\ e \in -1..MaxT /\ sm \in {"none", "pos", "any"}

\* class of (stop reading - start reading); "open" = not determined by the logical clock (same tick)
Diff == IF s = -1 /\ e = -1 THEN "zero"
        ELSE IF e = -1 THEN "neg"        \* epoch - a real reading
        ELSE IF s = -1 THEN "pos"        \* a real reading - epoch
        ELSE IF e > s THEN "pos" ELSE IF e < s THEN "neg" ELSE "open"
Cls(c) == IF c = "open" THEN <<>> ELSE [cls |-> c]
Recip(c) == IF c = "zero" THEN "inf" ELSE c
Smooth == IF sm = "none" THEN "nan" ELSE IF sm = "pos" THEN "pos" ELSE "open"

Act(a) == [a |-> a, arg |-> <<>>, exp |-> [q |-> a]]
Query(a, c) == /\ UNCHANGED <<now, s, e, sm>> /\ last' = [a |-> a, arg |-> <<>>, exp |-> [q |-> a] @@ Cls(c)]

Sleep == now < MaxT /\ now' = now + 1 /\ UNCHANGED <<s, e, sm>> /\ last' = Act("Sleep")
Start == s' = now /\ UNCHANGED <<now, e, sm>> /\ last' = Act("Start")
Stop  == /\ e' = now /\ UNCHANGED <<now, s>>
         /\ sm' = IF s = -1 \/ now > s THEN "pos" ELSE IF sm = "pos" THEN "pos" ELSE "any"
         /\ last' = Act("Stop")

Seconds      == Query("Seconds", Diff)
Milliseconds == Query("Milliseconds", Diff)
PerSecond    == Query("PerSecond", Recip(Diff))
SecondsSmoothed      == Query("SecondsSmoothed", Smooth)
MillisecondsSmoothed == Query("MillisecondsSmoothed", Smooth)
PerSecondSmoothed    == Query("PerSecondSmoothed", Smooth)

Next == \/ Sleep \/ Start \/ Stop \/ Seconds \/ Milliseconds \/ PerSecond
        \/ SecondsSmoothed \/ MillisecondsSmoothed \/ PerSecondSmoothed
Spec == Init /\ [][Next]_vars

-------------------------------------------------------------------------------
\* the readings are readings of the clock: never in the future
Causal == s <= now /\ e <= now
\* queries change nothing; only stop() moves the stop reading, only start() the start reading
QueriesArePure == [][last'.a \notin {"Sleep", "Start", "Stop"} => UNCHANGED <<now, s, e, sm>>]_vars
Readings == [][(s' # s => last'.a = "Start") /\ (e' # e => last'.a = "Stop")]_vars
\* the interval is that of the LAST start and LAST stop (D3): after start; sleep; stop the answer is positive whatever happened before
LastInterval == (last.a = "Stop" /\ s # -1 /\ s < now) => Diff = "pos"
\* negative control (TLC must refute it): "seconds() is never negative"
NegNeverNegative == Diff # "neg"
===============================================================================
