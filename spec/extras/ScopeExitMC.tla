------------------------------ MODULE ScopeExitMC ------------------------------
(* Model-checking instance of ScopeExit.  Every guard OBJECT gets a serial       *)
(* number when it is constructed; the instance keeps the serial numbers of the   *)
(* guards of the open scopes and the log of the serial numbers whose function    *)
(* has run, and checks the declarative reading of "runs exactly once, at scope   *)
(* exit, in reverse order of construction" against the operational model:        *)
(*   ExactlyOnce   every constructed guard is either still in an open scope (not *)
(*                 run) or out of scope (run exactly once) - never both/neither  *)
(*   Lifo          what a step runs is a strictly decreasing run of serial       *)
(*                 numbers (global last-in first-out), and it is exactly what    *)
(*                 `last.exp.ran` names, function by function                    *)
EXTENDS ScopeExit

CONSTANT MaxMade   \* bound on the number of guards constructed in one behaviour

VARIABLES serials,  \* same shape as scopes: serial numbers
          made,     \* number of guards constructed so far
          fnOf,     \* sequence: serial -> function id
          ranlog,   \* serial numbers in the order their function ran
          seg       \* the part of ranlog appended by the last step
varsH == <<scopes, dead, last, serials, made, fnOf, ranlog, seg>>

InitH == Init /\ serials = <<>> /\ made = 0 /\ fnOf = <<>> /\ ranlog = <<>> /\ seg = <<>>

Pushing == last'.a \in {"Guard", "Copy", "Empty"}
NextH ==
  /\ Next
  /\ IF last'.a = "Open" THEN serials' = Append(serials, <<>>) /\ UNCHANGED <<made, fnOf, ranlog>> /\ seg' = <<>>
     ELSE IF Pushing THEN /\ made' = made + 1
                          /\ serials' = [serials EXCEPT ![Len(serials)] = Append(@, made + 1)]
                          /\ fnOf' = Append(fnOf, scopes'[Len(scopes')][Len(scopes'[Len(scopes')])])
                          /\ UNCHANGED ranlog /\ seg' = <<>>
     ELSE LET k == Len(serials) - Len(scopes')          \* Close / Throw: k scopes are gone
              gone == Flat(SubSeq(serials, Len(serials) - k + 1, Len(serials)))
          IN /\ serials' = SubSeq(serials, 1, Len(serials) - k)
             /\ seg' = IF dead' THEN <<>> ELSE Rev(gone)
             /\ ranlog' = ranlog \o seg'
             /\ UNCHANGED <<made, fnOf>>
SpecH == InitH /\ [][NextH]_varsH

InScope == {Flat(serials)[i] : i \in DOMAIN Flat(serials)}
HasRun  == {ranlog[i] : i \in DOMAIN ranlog}
ExactlyOnce == ~dead => /\ InScope \cup HasRun = 1..made
                        /\ InScope \cap HasRun = {}
                        /\ \A i, j \in DOMAIN ranlog : ranlog[i] = ranlog[j] => i = j
Lifo == ~dead => /\ \A i \in 1..(Len(seg) - 1) : seg[i] > seg[i + 1]
                 /\ \A s \in InScope : \A i \in DOMAIN seg : s < seg[i]     \* everything still in scope is older than what just ran
                 /\ last.exp.ran = [i \in DOMAIN seg |-> fnOf[seg[i]]]
ShapeAgrees == ~dead => /\ Len(serials) = Len(scopes)
                        /\ \A i \in DOMAIN scopes : Len(serials[i]) = Len(scopes[i])
                        /\ \A i \in DOMAIN scopes : \A j \in DOMAIN scopes[i] : fnOf[serials[i][j]] = scopes[i][j]
Budget == made <= MaxMade
===============================================================================
