------------------------------ MODULE DeletedPtr ------------------------------
(* rkcommon/memory/DeletedUniquePtr.h: DeletedUniquePtr<T> =                     *)
(* a std::unique_ptr whose deleter type is a std::function taking the raw       *)
(* pointer, and make_deleted_unique<T>[deleter, args...].                        *)
(*                                                                             *)
(* Meant behaviour: the deleter that came with an object is called exactly once  *)
(* with exactly that object's pointer when the owning pointer gives the object   *)
(* up (reset, assignment over it, destruction); ownership and deleter travel     *)
(* together (move, swap); never for a null pointer, never for a released one.    *)
(* The deleter is responsible for destroying the object (the driver's deleters   *)
(* log the call and delete).                                                     *)
(*                                                                             *)
(* Deliberate deviations / caveats (named, not explored):                        *)
(*  D1 a default-constructed or moved-from DeletedUniquePtr has an EMPTY         *)
(*     std::function as deleter: reset(p) on it followed by giving p up throws   *)
(*     std::bad_function_call inside a noexcept function (std::terminate).  The  *)
(*     model keeps `del = 0` for such pointers and never adopts a raw pointer    *)
(*     into them (ResetTo requires del # 0).                                     *)
(*  D2 make_deleted_unique copies the deleter (it is passed on as an lvalue).    *)
EXTENDS Integers, Sequences, FiniteSets, TLC

CONSTANTS NSlots,   \* pointer objects the driver holds
          Dels,     \* deleter identities (positive integers)
          Vals,     \* constructor arguments forwarded to the object
          MaxObj    \* bound on the number of objects created in one behaviour

Slots == 1..NSlots
VARIABLES slot,      \* Slots -> [obj |-> 0 (null) or object id, del |-> 0 (empty function) or deleter id]
          val,       \* sequence: object id -> value it was constructed with
          alive,     \* set of object ids not destroyed yet
          released,  \* set of object ids handed out by release()
          last
vars == <<slot, val, alive, released, last>>

Null == [obj |-> 0, del |-> 0]
NObj == Len(val)
Proj(sl, al) == [slots |-> [s \in Slots |-> sl[s].obj], nalive |-> Cardinality(al)]
\* giving up what pointer p owns: one call of its deleter with its object, or nothing for null
GiveUp(p) == IF p.obj = 0 THEN <<>> ELSE <<[d |-> p.del, o |-> p.obj]>>
Gone(calls) == {calls[i].o : i \in DOMAIN calls}
Step(a, arg, ret, calls) == [a |-> a, arg |-> arg, exp |-> [ret |-> ret, calls |-> calls] @@ Proj(slot', alive')]

Init == /\ slot = [s \in Slots |-> Null] /\ val = <<>> /\ alive = {} /\ released = {}
        /\ last = [a |-> "Init", arg |-> <<>>, exp |-> [ret |-> "void", calls |-> <<>>] @@ Proj([s \in Slots |-> Null], {})]

TypeOK == /\ slot \in [Slots -> [obj : 0..MaxObj, del : Dels \cup {0}]]
          /\ alive \subseteq 1..NObj /\ released \subseteq alive

\* slot = make_deleted_unique<Obj>(deleter d, id, v): move assignment gives up the old object with the OLD deleter
Make(s, d, v) ==
  LET o == NObj + 1  calls == GiveUp(slot[s])
  IN /\ NObj < MaxObj
     /\ val' = Append(val, v)
     /\ slot' = [slot EXCEPT ![s] = [obj |-> o, del |-> d]]
     /\ alive' = (alive \cup {o}) \ Gone(calls)
     /\ UNCHANGED released
     /\ last' = Step("Make", [s |-> s, d |-> d, v |-> v], o, calls)

\* slot.reset(new Obj(id, v)): the pointer's current deleter stays and now guards the new object      (D1)
ResetTo(s, v) ==
  LET o == NObj + 1  calls == GiveUp(slot[s])
  IN /\ NObj < MaxObj /\ slot[s].del # 0
     /\ val' = Append(val, v)
     /\ slot' = [slot EXCEPT ![s].obj = o]
     /\ alive' = (alive \cup {o}) \ Gone(calls)
     /\ UNCHANGED released
     /\ last' = Step("ResetTo", [s |-> s, v |-> v], o, calls)

ResetNone(s) ==
  LET calls == GiveUp(slot[s])
  IN /\ slot' = [slot EXCEPT ![s].obj = 0]
     /\ alive' = alive \ Gone(calls)
     /\ UNCHANGED <<val, released>>
     /\ last' = Step("ResetNone", [s |-> s], "void", calls)

\* release(): the caller gets the raw pointer, no deleter call now or later
Release(s) ==
  /\ slot' = [slot EXCEPT ![s].obj = 0]
  /\ released' = IF slot[s].obj = 0 THEN released ELSE released \cup {slot[s].obj}
  /\ UNCHANGED <<val, alive>>
  /\ last' = Step("Release", [s |-> s], slot[s].obj, <<>>)

\* to = std::move(from): `to` gives up its object with its own deleter, then takes object AND deleter of `from`
Move(from, to) ==
  LET calls == GiveUp(slot[to])
  IN /\ from # to
     /\ slot' = [slot EXCEPT ![to] = slot[from], ![from] = Null]
     /\ alive' = alive \ Gone(calls)
     /\ UNCHANGED <<val, released>>
     /\ last' = Step("Move", [from |-> from, to |-> to], "void", calls)

\* a new pointer move-constructed from `from` replaces the pointer object in `to` (which is destroyed)
MoveConstruct(from, to) ==
  LET calls == GiveUp(slot[to])
  IN /\ from # to
     /\ slot' = [slot EXCEPT ![to] = slot[from], ![from] = Null]
     /\ alive' = alive \ Gone(calls)
     /\ UNCHANGED <<val, released>>
     /\ last' = Step("MoveConstruct", [from |-> from, to |-> to], "void", calls)

Swap(x, y) ==
  /\ x # y
  /\ slot' = [slot EXCEPT ![x] = slot[y], ![y] = slot[x]]
  /\ UNCHANGED <<val, alive, released>>
  /\ last' = Step("Swap", [x |-> x, y |-> y], "void", <<>>)

\* the pointer object is destroyed (and a fresh default-constructed one takes the slot)
Destroy(s) ==
  LET calls == GiveUp(slot[s])
  IN /\ slot' = [slot EXCEPT ![s] = Null]
     /\ alive' = alive \ Gone(calls)
     /\ UNCHANGED <<val, released>>
     /\ last' = Step("Destroy", [s |-> s], "void", calls)

\* get() / operator->: identity and constructor argument of the owned object
Get(s) ==
  /\ UNCHANGED <<slot, val, alive, released>>
  /\ last' = Step("Get", [s |-> s], IF slot[s].obj = 0 THEN 0 ELSE <<slot[s].obj, val[slot[s].obj]>>, <<>>)

Next ==
  \/ \E s \in Slots, d \in Dels, v \in Vals : Make(s, d, v)
  \/ \E s \in Slots, v \in Vals : ResetTo(s, v)
  \/ \E s \in Slots : ResetNone(s) \/ Release(s) \/ Destroy(s) \/ Get(s)
  \/ \E x, y \in Slots : Move(x, y) \/ MoveConstruct(x, y) \/ Swap(x, y)

Spec == Init /\ [][Next]_vars

-------------------------------------------------------------------------------
Owned == {slot[s].obj : s \in Slots} \ {0}
\* single ownership; owned objects are alive and guarded by a callable deleter; nothing leaks unless released
SingleOwner  == \A s, t \in Slots : slot[s].obj # 0 /\ slot[s].obj = slot[t].obj => s = t
OwnedAlive   == Owned \subseteq alive /\ \A s \in Slots : slot[s].obj # 0 => slot[s].del # 0
NoLeak       == alive = Owned \cup released
Disjoint     == Owned \cap released = {}
NeverNull    == \A i \in DOMAIN last.exp.calls : last.exp.calls[i].o # 0 /\ last.exp.calls[i].d # 0
===============================================================================
