--------------------------- MODULE LibraryRepoTrace ---------------------------
(* Trace specification: is a recorded execution of the real LibraryRepository / *)
(* Library objects a behaviour of LibraryRepo?  Every recorded line             *)
(* {a, arg, obs} must be the next action of the specification with those        *)
(* arguments, and every observable the specification computes for that step     *)
(* must equal what was observed.  Executions are separated by {"a":"Reset"}.    *)
EXTENDS LibraryRepo, Json, IOUtils, TLCExt

VARIABLE l
tvars == <<repo, direct, last, l>>

TraceLines == ndJsonDeserialize(IOEnv.TRACE)
N == Len(TraceLines)
Line == TraceLines[l]

ObsMatches == \A f \in DOMAIN last'.exp : f \in DOMAIN Line.obs /\ Line.obs[f] = last'.exp[f]

TInit == Init /\ l = 1

Dispatch ==
  \/ Line.a = "Add" /\ Add(Line.arg.anchor, Line.arg.name, Line.arg.ver)
  \/ Line.a = "Remove" /\ Remove(Line.arg.name)
  \/ Line.a = "Exists" /\ Exists(Line.arg.name)
  \/ Line.a = "GetSymbol" /\ GetSymbol(Line.arg.sym)
  \/ Line.a = "Cleanup" /\ Cleanup
  \/ Line.a = "LibNew" /\ LibNew(Line.arg.slot, Line.arg.anchor, Line.arg.name, Line.arg.ver)
  \/ Line.a = "LibDelete" /\ LibDelete(Line.arg.slot)
  \/ Line.a = "LibGetSymbol" /\ LibGetSymbol(Line.arg.slot, Line.arg.sym)

TStep  == l <= N /\ Line.a # "Reset" /\ Dispatch /\ ObsMatches /\ l' = l + 1
TReset == /\ l <= N /\ Line.a = "Reset"
          /\ repo' = <<>> /\ direct' = [s \in Slots |-> "none"]
          /\ last' = [a |-> "Init", arg |-> <<>>, exp |-> [ret |-> "void", ctors |-> <<>>, dtors |-> <<>>] @@ Proj(<<>>, [s \in Slots |-> "none"])]
          /\ l' = l + 1
TNext  == TStep \/ TReset
TSpec  == TInit /\ [][TNext]_tvars

Accepted == TLCGet("stats").diameter - 1 = N
Post == IF Accepted THEN TRUE
        ELSE /\ PrintT(<<"TRACE-REJECTED-AT-LINE", TLCGet("stats").diameter, "OF", N>>)
             /\ FALSE
===============================================================================
