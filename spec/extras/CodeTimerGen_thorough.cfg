SPECIFICATION Spec
CONSTANTS
  MaxT = 3
INVARIANTS TypeOK Causal
CHECK_DEADLOCK FALSE
