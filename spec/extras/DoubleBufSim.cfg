SPECIFICATION SpecS
CONSTANTS
  Vals = {1, 2, 3, 4, 5, 6, 7}
  Default = 0
  NRefs = 3
INVARIANTS Emit
CHECK_DEADLOCK FALSE
