SPECIFICATION SpecS
CONSTANTS
  Ids = {1, 2, 3, 4, 5}
  MaxDepth = 6
  MaxGuards = 4
  AllowEmpty = FALSE
INVARIANTS Emit
CHECK_DEADLOCK FALSE
