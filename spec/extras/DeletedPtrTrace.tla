---------------------------- MODULE DeletedPtrTrace ----------------------------
(* Trace specification for DeletedPtr: recorded executions of real               *)
(* DeletedUniquePtr objects, lines {a, arg, obs}, separated by {"a":"Reset"}.    *)
EXTENDS DeletedPtr, Json, IOUtils, TLCExt

VARIABLE l
tvars == <<slot, val, alive, released, last, l>>

TraceLines == ndJsonDeserialize(IOEnv.TRACE)
N == Len(TraceLines)
Line == TraceLines[l]

ObsMatches == \A k \in DOMAIN last'.exp : k \in DOMAIN Line.obs /\ Line.obs[k] = last'.exp[k]

TInit == Init /\ l = 1

Dispatch ==
  \/ Line.a = "Make" /\ Make(Line.arg.s, Line.arg.d, Line.arg.v)
  \/ Line.a = "ResetTo" /\ ResetTo(Line.arg.s, Line.arg.v)
  \/ Line.a = "ResetNone" /\ ResetNone(Line.arg.s)
  \/ Line.a = "Release" /\ Release(Line.arg.s)
  \/ Line.a = "Destroy" /\ Destroy(Line.arg.s)
  \/ Line.a = "Get" /\ Get(Line.arg.s)
  \/ Line.a = "Move" /\ Move(Line.arg.from, Line.arg.to)
  \/ Line.a = "MoveConstruct" /\ MoveConstruct(Line.arg.from, Line.arg.to)
  \/ Line.a = "Swap" /\ Swap(Line.arg.x, Line.arg.y)

TStep  == l <= N /\ Line.a # "Reset" /\ Dispatch /\ ObsMatches /\ l' = l + 1
TReset == /\ l <= N /\ Line.a = "Reset"
          /\ slot' = [s \in Slots |-> Null] /\ val' = <<>> /\ alive' = {} /\ released' = {}
          /\ last' = [a |-> "Init", arg |-> <<>>, exp |-> [ret |-> "void", calls |-> <<>>] @@ Proj([s \in Slots |-> Null], {})]
          /\ l' = l + 1
TNext  == TStep \/ TReset
TSpec  == TInit /\ [][TNext]_tvars

Accepted == TLCGet("stats").diameter - 1 = N
Post == IF Accepted THEN TRUE
        ELSE /\ PrintT(<<"TRACE-REJECTED-AT-LINE", TLCGet("stats").diameter, "OF", N>>)
             /\ FALSE
===============================================================================
