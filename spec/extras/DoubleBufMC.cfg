SPECIFICATION SpecH
CONSTANTS
  Vals = {1, 2}
  Default = 0
  NRefs = 2
INVARIANTS TypeOK LastAgrees Parity RefSide ValueLaw
PROPERTIES SwapMovesNothing OnlySwapSwaps OneCellPerWrite RefsAreStable
CHECK_DEADLOCK FALSE
