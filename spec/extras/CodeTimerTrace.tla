----------------------------- MODULE CodeTimerTrace -----------------------------
(* Trace specification for CodeTimer.  Lines {a, arg, obs}; obs carries          *)
(*   t0, t1   readings of the timer's clock taken just before / after the call,  *)
(*            as [s |-> whole seconds, u |-> micro seconds] since the clock's    *)
(*            epoch (micro seconds since the epoch do not fit TLC's integers);   *)
(*   cls      "zero" | "pos" | "neg" | "nan" | "inf" | "-inf"                    *)
(*   val      the answer in seconds as such a pair (rounded to 1 us), if finite  *)
(*   pc       a rate in 1/100 per second (rounded), if finite and < 2e7 /s       *)
(* Logical part: the line must be the next action of CodeTimer and the fields    *)
(* CodeTimer determines (q, cls) must match.  Quantitative part, decided here:   *)
(*   start()/stop() take their reading between t0 and t1 of their own call, so   *)
(*   seconds() lies in [stopLo - startHi, stopHi - startLo] (never-taken         *)
(*   readings are the epoch [0,0]); milliseconds()/1000 lies in the same         *)
(*   interval; perSecond() times that interval contains 1; the smoothed average  *)
(*   lies between interval bounds propagated through nom' = 0.8 nom + x,         *)
(*   den' = 0.8 den + 1 in integer arithmetic with outward rounding.             *)
EXTENDS CodeTimer, Json, IOUtils, TLCExt

VARIABLES l,
          sLo, sHi, eLo, eHi,       \* brackets of the start / stop readings (pairs)
          nomLo, nomHi,             \* bounds of smooth_nom in ticks of 10 us
          denLo, denHi,             \* bounds of smooth_den in 1/100
          smOK                      \* the bounds are meaningful (every interval fed so far was below 5 s)
qvars == <<sLo, sHi, eLo, eHi, nomLo, nomHi, denLo, denHi, smOK>>
tvars == <<now, s, e, sm, last, l, sLo, sHi, eLo, eHi, nomLo, nomHi, denLo, denHi, smOK>>

TraceLines == ndJsonDeserialize(IOEnv.TRACE)
N == Len(TraceLines)
Line == TraceLines[l]
Obs == Line.obs

\* ---- arithmetic on [s, u] pairs, 0 <= u < 10^6
M == 1000000
Zero == [s |-> 0, u |-> 0]
Norm(p) == IF p.u < 0 THEN [s |-> p.s - 1, u |-> p.u + M] ELSE IF p.u >= M THEN [s |-> p.s + 1, u |-> p.u - M] ELSE p
Sub(a, b) == Norm([s |-> a.s - b.s, u |-> a.u - b.u])
AddU(a, k) == Norm([s |-> a.s, u |-> a.u + k])          \* |k| < 10^6
Leq(a, b) == a.s < b.s \/ (a.s = b.s /\ a.u <= b.u)
IsPair(p) == DOMAIN p = {"s", "u"} /\ p.u \in 0..(M - 1)
SmallNonNeg(p) == p.s \in 0..4                           \* 0 <= value < 5 s: micro seconds fit
Micro(p) == p.s * M + p.u

ObsMatches == \A k \in DOMAIN last'.exp : k \in DOMAIN Obs /\ Obs[k] = last'.exp[k]
Stamped == /\ "t0" \in DOMAIN Obs /\ "t1" \in DOMAIN Obs /\ IsPair(Obs.t0) /\ IsPair(Obs.t1) /\ Leq(Obs.t0, Obs.t1)

\* interval that (stop reading - start reading) lies in, widened by 2 us for the roundings of the report
DLo == AddU(Sub(eLo, sHi), -2)
DHi == AddU(Sub(eHi, sLo), 2)

InInterval == /\ "val" \in DOMAIN Obs /\ IsPair(Obs.val)
              /\ Leq(DLo, Obs.val) /\ Leq(Obs.val, DHi)

\* rate * interval contains 1 (checked when the interval is between 50 us and 2 s and tight enough for 32-bit products)
RateOK == LET lo == Sub(eLo, sHi)  hi == Sub(eHi, sLo) IN
          IF lo.s = 0 /\ hi.s \in 0..1 /\ Micro(lo) >= 50 /\ Micro(hi) <= 2 * Micro(lo)
          THEN /\ "pc" \in DOMAIN Obs /\ Obs.pc >= 0
               /\ Obs.pc <= (102000000 \div Micro(lo)) + 1
               /\ Obs.pc * Micro(hi) >= 98000000 - Micro(hi)
          ELSE TRUE

\* smoothed average in ticks = 100 * nom / den
SmoothedOK == IF smOK /\ sm # "none"
              THEN /\ "val" \in DOMAIN Obs /\ IsPair(Obs.val) /\ SmallNonNeg(Obs.val)
                   /\ (Micro(Obs.val) \div 10) * denLo <= 100 * nomHi + denLo
                   /\ ((Micro(Obs.val) + 9) \div 10) * denHi >= 100 * nomLo - denHi
              ELSE TRUE
SmoothedRateOK == IF smOK /\ sm # "none" /\ nomLo >= 100 /\ nomHi <= 2 * nomLo
                  THEN /\ "pc" \in DOMAIN Obs /\ Obs.pc >= 0
                       /\ Obs.pc <= ((denHi * 100000) \div nomLo) + 1
                       /\ Obs.pc * nomHi >= denLo * 100000 - nomHi
                  ELSE TRUE

TInit == /\ Init /\ l = 1
         /\ sLo = Zero /\ sHi = Zero /\ eLo = Zero /\ eHi = Zero
         /\ nomLo = 0 /\ nomHi = 0 /\ denLo = 0 /\ denHi = 0 /\ smOK = TRUE

OnStart == /\ Start /\ sLo' = Obs.t0 /\ sHi' = Obs.t1
           /\ UNCHANGED <<eLo, eHi, nomLo, nomHi, denLo, denHi, smOK>>
OnStop  == LET xLo == Sub(Obs.t0, sHi)  xHi == Sub(Obs.t1, sLo) IN
           /\ Stop /\ eLo' = Obs.t0 /\ eHi' = Obs.t1 /\ UNCHANGED <<sLo, sHi>>
           /\ IF smOK /\ SmallNonNeg(xLo) /\ SmallNonNeg(xHi)
              THEN /\ smOK' = TRUE
                   /\ nomLo' = ((4 * nomLo) \div 5) + (Micro(xLo) \div 10)
                   /\ nomHi' = ((4 * nomHi + 4) \div 5) + ((Micro(xHi) + 9) \div 10) + 1
                   /\ denLo' = ((4 * denLo) \div 5) + 100
                   /\ denHi' = ((4 * denHi + 4) \div 5) + 101
              ELSE /\ smOK' = FALSE /\ UNCHANGED <<nomLo, nomHi, denLo, denHi>>

Dispatch ==
  \/ Line.a = "Sleep" /\ Sleep /\ UNCHANGED qvars
  \/ Line.a = "Start" /\ OnStart
  \/ Line.a = "Stop" /\ OnStop
  \/ Line.a = "Seconds" /\ Seconds /\ InInterval /\ UNCHANGED qvars
  \/ Line.a = "Milliseconds" /\ Milliseconds /\ InInterval /\ UNCHANGED qvars
  \/ Line.a = "PerSecond" /\ PerSecond /\ RateOK /\ UNCHANGED qvars
  \/ Line.a = "SecondsSmoothed" /\ SecondsSmoothed /\ SmoothedOK /\ UNCHANGED qvars
  \/ Line.a = "MillisecondsSmoothed" /\ MillisecondsSmoothed /\ SmoothedOK /\ UNCHANGED qvars
  \/ Line.a = "PerSecondSmoothed" /\ PerSecondSmoothed /\ SmoothedRateOK /\ UNCHANGED qvars

TStep  == l <= N /\ Line.a # "Reset" /\ Stamped /\ Dispatch /\ ObsMatches /\ l' = l + 1
TReset == /\ l <= N /\ Line.a = "Reset"
          /\ now' = 0 /\ s' = -1 /\ e' = -1 /\ sm' = "none" /\ last' = [a |-> "Init", arg |-> <<>>, exp |-> [q |-> "Init"]]
          /\ sLo' = Zero /\ sHi' = Zero /\ eLo' = Zero /\ eHi' = Zero
          /\ nomLo' = 0 /\ nomHi' = 0 /\ denLo' = 0 /\ denHi' = 0 /\ smOK' = TRUE
          /\ l' = l + 1
TNext  == TStep \/ TReset
TSpec  == TInit /\ [][TNext]_tvars

\* the clock the brackets come from is monotone: brackets are ordered like the logical readings
BracketsOrdered == /\ Leq(sLo, sHi) /\ Leq(eLo, eHi)
                   /\ (s # -1 /\ e # -1 /\ s < e => Leq(sHi, eLo))

Accepted == TLCGet("stats").diameter - 1 = N
Post == IF Accepted THEN TRUE
        ELSE /\ PrintT(<<"TRACE-REJECTED-AT-LINE", TLCGet("stats").diameter, "OF", N>>)
             /\ FALSE
===============================================================================
