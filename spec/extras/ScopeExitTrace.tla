---------------------------- MODULE ScopeExitTrace ----------------------------
(* Trace specification: is a recorded execution of real scopes guarded by real  *)
(* OnScopeExit objects a behaviour of ScopeExit?  Lines {a, arg, obs};          *)
(* executions separated by {"a":"Reset"}.                                       *)
EXTENDS ScopeExit, Json, IOUtils, TLCExt

VARIABLE l
tvars == <<scopes, dead, last, l>>

TraceLines == ndJsonDeserialize(IOEnv.TRACE)
N == Len(TraceLines)
Line == TraceLines[l]

ObsMatches == \A f \in DOMAIN last'.exp : f \in DOMAIN Line.obs /\ Line.obs[f] = last'.exp[f]

TInit == Init /\ l = 1

Dispatch ==
  \/ Line.a = "Open" /\ Open
  \/ Line.a = "Guard" /\ Guard(Line.arg.id, Line.arg.kind)
  \/ Line.a = "Copy" /\ Copy(Line.arg.j)
  \/ Line.a = "Empty" /\ Empty
  \/ Line.a = "Close" /\ Close
  \/ Line.a = "Throw" /\ Throw(Line.arg.k)

TStep  == l <= N /\ Line.a # "Reset" /\ Dispatch /\ ObsMatches /\ l' = l + 1
TReset == /\ l <= N /\ Line.a = "Reset"
          /\ scopes' = <<>> /\ dead' = FALSE /\ last' = Quiet("Init", <<>>, <<>>)
          /\ l' = l + 1
TNext  == TStep \/ TReset
TSpec  == TInit /\ [][TNext]_tvars

Accepted == TLCGet("stats").diameter - 1 = N
Post == IF Accepted THEN TRUE
        ELSE /\ PrintT(<<"TRACE-REJECTED-AT-LINE", TLCGet("stats").diameter, "OF", N>>)
             /\ FALSE
===============================================================================
