---------------------------- MODULE DoubleBufTrace ----------------------------
(* Trace specification for DoubleBuf: recorded executions of the real            *)
(* DoubleBufferedValue, lines {a, arg, obs}, separated by {"a":"Reset"}.         *)
EXTENDS DoubleBuf, Json, IOUtils, TLCExt

VARIABLE l
tvars == <<cell, f, ref, last, l>>

TraceLines == ndJsonDeserialize(IOEnv.TRACE)
N == Len(TraceLines)
Line == TraceLines[l]

ObsMatches == \A k \in DOMAIN last'.exp : k \in DOMAIN Line.obs /\ Line.obs[k] = last'.exp[k]

TInit == Init /\ l = 1

Dispatch ==
  \/ Line.a = "WriteFront" /\ WriteFront(Line.arg.v)
  \/ Line.a = "WriteBack" /\ WriteBack(Line.arg.v)
  \/ Line.a = "ReadFront" /\ ReadFront
  \/ Line.a = "ReadBack" /\ ReadBack
  \/ Line.a = "Swap" /\ Swap
  \/ Line.a = "TakeRef" /\ TakeRef(Line.arg.r, Line.arg.side)
  \/ Line.a = "WriteRef" /\ WriteRef(Line.arg.r, Line.arg.v)
  \/ Line.a = "ReadRef" /\ ReadRef(Line.arg.r)

TStep  == l <= N /\ Line.a # "Reset" /\ Dispatch /\ ObsMatches /\ l' = l + 1
TReset == /\ l <= N /\ Line.a = "Reset"
          /\ cell' = <<Default, Default>> /\ f' = 1 /\ ref' = [i \in Refs |-> 0]
          /\ last' = [a |-> "Init", arg |-> <<>>, exp |-> [ret |-> "void"] @@ Proj(<<Default, Default>>, 1, [i \in Refs |-> 0])]
          /\ l' = l + 1
TNext  == TStep \/ TReset
TSpec  == TInit /\ [][TNext]_tvars

Accepted == TLCGet("stats").diameter - 1 = N
Post == IF Accepted THEN TRUE
        ELSE /\ PrintT(<<"TRACE-REJECTED-AT-LINE", TLCGet("stats").diameter, "OF", N>>)
             /\ FALSE
===============================================================================
