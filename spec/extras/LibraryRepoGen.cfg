SPECIFICATION Spec
CONSTANTS
  NSlots = 1
INVARIANTS TypeOK UniqueNames LastAgrees StepShape
CHECK_DEADLOCK FALSE
