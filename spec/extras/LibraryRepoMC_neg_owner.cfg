SPECIFICATION SpecH
CONSTANTS
  NSlots = 1
  K = 3
INVARIANTS NegLoadedIffInRepo
CONSTRAINT HistBound
VIEW View
CHECK_DEADLOCK FALSE
