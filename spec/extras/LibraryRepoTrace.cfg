SPECIFICATION TSpec
CONSTANTS
  NSlots = 2
INVARIANTS UniqueNames LastAgrees StepShape
POSTCONDITION Post
CHECK_DEADLOCK FALSE
