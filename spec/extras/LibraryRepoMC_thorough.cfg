SPECIFICATION SpecH
CONSTANTS
  NSlots = 1
  K = 3
INVARIANTS TypeOK UniqueNames LastAgrees StepShape AgreesWithHistory Balance FirstWins
PROPERTY ThrowKeeps
CONSTRAINT HistBound
VIEW View
CHECK_DEADLOCK FALSE
