SPECIFICATION SpecH
CONSTANTS
  Vals = {1, 2}
  Default = 0
  NRefs = 2
INVARIANTS NegRefFollowsFront
CHECK_DEADLOCK FALSE
