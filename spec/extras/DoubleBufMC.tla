------------------------------ MODULE DoubleBufMC ------------------------------
(* Model-checking instance of DoubleBuf with history variables: where each       *)
(* reference was taken from and how many swaps happened since.  Declarative      *)
(* reading checked against the operational model:                                *)
(*   Parity     front() designates the initial front cell iff the number of      *)
(*              swaps so far is even (two swaps are the identity);               *)
(*   RefSide    a reference taken from front() designates what front() now       *)
(*              designates iff an even number of swaps happened since (otherwise *)
(*              it designates what back() designates), and symmetrically;        *)
(*   ValueLaw   what front() / back() read is the last value written to that     *)
(*              CELL by any route (front, back, reference), Default if none.     *)
EXTENDS DoubleBuf

VARIABLES swaps,      \* parity of the number of swaps so far
          takenFrom,  \* Refs -> "none" | "front" | "back"
          since,      \* Refs -> parity of the number of swaps since the reference was taken
          lastWrite   \* <<last value written to cell 1, to cell 2>>
varsH == <<cell, f, ref, last, swaps, takenFrom, since, lastWrite>>

InitH == /\ Init /\ swaps = 0 /\ takenFrom = [r \in Refs |-> "none"] /\ since = [r \in Refs |-> 0]
         /\ lastWrite = <<Default, Default>>
Target(a, arg) == IF a = "WriteFront" THEN f ELSE IF a = "WriteBack" THEN B(f) ELSE ref[arg.r]
NextH ==
  /\ Next
  /\ swaps' = IF last'.a = "Swap" THEN 1 - swaps ELSE swaps
  /\ takenFrom' = IF last'.a = "TakeRef" THEN [takenFrom EXCEPT ![last'.arg.r] = last'.arg.side] ELSE takenFrom
  /\ since' = IF last'.a = "TakeRef" THEN [since EXCEPT ![last'.arg.r] = 0]
              ELSE IF last'.a = "Swap" THEN [r \in Refs |-> 1 - since[r]] ELSE since
  /\ lastWrite' = IF last'.a \in {"WriteFront", "WriteBack", "WriteRef"}
                  THEN [lastWrite EXCEPT ![Target(last'.a, last'.arg)] = last'.arg.v] ELSE lastWrite
SpecH == InitH /\ [][NextH]_varsH

Other(side) == IF side = "front" THEN "back" ELSE "front"
Parity   == f = 1 + swaps
RefSide  == \A r \in Refs : takenFrom[r] # "none" =>
              Side(ref[r], f) = IF since[r] = 0 THEN takenFrom[r] ELSE Other(takenFrom[r])
ValueLaw == cell = lastWrite
\* negative control (TLC must refute it): "a reference taken from front() keeps designating what front() designates"
NegRefFollowsFront == \A r \in Refs : takenFrom[r] = "front" => ref[r] = f
===============================================================================
