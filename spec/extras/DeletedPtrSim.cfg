SPECIFICATION SpecS
CONSTANTS
  NSlots = 3
  Dels = {1, 2, 3}
  Vals = {7, 8}
  MaxObj = 100000
INVARIANTS Emit
CHECK_DEADLOCK FALSE
