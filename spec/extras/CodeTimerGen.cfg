SPECIFICATION Spec
CONSTANTS
  MaxT = 2
INVARIANTS TypeOK Causal
CHECK_DEADLOCK FALSE
