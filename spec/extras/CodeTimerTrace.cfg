SPECIFICATION TSpec
CONSTANTS
  MaxT = 1000000
INVARIANTS Causal BracketsOrdered
POSTCONDITION Post
CHECK_DEADLOCK FALSE
