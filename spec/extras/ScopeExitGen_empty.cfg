SPECIFICATION Spec
CONSTANTS
  Ids = {1}
  MaxDepth = 2
  MaxGuards = 2
  AllowEmpty = TRUE
INVARIANTS TypeOK Bounded
CHECK_DEADLOCK FALSE
