------------------------------ MODULE DeletedPtrSim ------------------------------
(* Simulation instance of DeletedPtr: TLC -simulate walks the specification at random  *)
(* (enabled actions only) and prints the actions of every walk of SIM_LEN steps; *)
(* the driver executes them on the real code and DeletedPtrTrace validates what was    *)
(* observed.  Nothing here is an expectation: only actions and arguments leave.  *)
EXTENDS DeletedPtr, Json, IOUtils

VARIABLE hist
varsS == <<vars, hist>>
L == atoi(IOEnv.SIM_LEN)
InitS == Init /\ hist = <<>>
NextS == Len(hist) < L /\ Next /\ hist' = Append(hist, [a |-> last'.a, arg |-> last'.arg])
SpecS == InitS /\ [][NextS]_varsS
Emit == Len(hist) = L => PrintT("@H@" \o ToJson(hist))
=============================================================================
