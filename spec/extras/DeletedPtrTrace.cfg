SPECIFICATION TSpec
CONSTANTS
  NSlots = 3
  Dels = {1, 2, 3}
  Vals = {7, 8}
  MaxObj = 100000
INVARIANTS SingleOwner OwnedAlive NoLeak Disjoint NeverNull
POSTCONDITION Post
CHECK_DEADLOCK FALSE
