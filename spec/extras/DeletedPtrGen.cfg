SPECIFICATION Spec
CONSTANTS
  NSlots = 2
  Dels = {1, 2}
  Vals = {7}
  MaxObj = 3
INVARIANTS TypeOK SingleOwner OwnedAlive NoLeak Disjoint NeverNull
CHECK_DEADLOCK FALSE
