SPECIFICATION SpecS
CONSTANTS
  MaxT = 1000000
  StartFirst = TRUE
INVARIANTS Emit
CHECK_DEADLOCK FALSE
