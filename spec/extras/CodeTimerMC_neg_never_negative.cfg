SPECIFICATION Spec
CONSTANTS
  MaxT = 3
INVARIANTS NegNeverNegative
CHECK_DEADLOCK FALSE
