------------------------------- MODULE ScopeExit -------------------------------
(* rkcommon/utility/OnScopeExit.h: "Execute a given function when a scope        *)
(* exits".  A program over nested scopes: guards are constructed in the          *)
(* innermost open scope, a scope is left normally (Close) or by an exception     *)
(* that propagates through k scopes before it is caught (Throw(k)).              *)
(*                                                                             *)
(* Meant behaviour: the function of a guard runs exactly once, when the guard's  *)
(* scope is left (either way) and not before; the guards of a scope run in       *)
(* reverse order of construction, inner scopes before outer ones, and everything *)
(* has run when the catch handler is entered.                                    *)
(*                                                                             *)
(* Deliberate deviations (modelled as the code behaves, printed by the runner):  *)
(*  D1 OnScopeExit is copyable (implicit copy constructor, selected only for a   *)
(*     const lvalue source; a non-const lvalue or an rvalue picks the template   *)
(*     constructor and does not compile): a copy is a guard of its own, so the   *)
(*     function runs once per copy;                                              *)
(*  D2 a guard built from an empty std::function throws std::bad_function_call   *)
(*     from its (noexcept) destructor: the process ends in std::terminate at the *)
(*     scope exit, normal or exceptional.                                        *)
EXTENDS Integers, Sequences, FiniteSets, TLC

CONSTANTS Ids,         \* function identities (positive integers); 0 stands for the empty std::function
          MaxDepth,    \* bound on nesting
          MaxGuards,   \* bound on guards per scope
          AllowEmpty   \* whether guards from an empty std::function are explored

VARIABLES scopes,   \* stack (outermost first) of sequences of function ids: the guards of each open scope
          dead,     \* the process has terminated
          last
vars == <<scopes, dead, last>>

Rev(s) == [i \in 1..Len(s) |-> s[Len(s) + 1 - i]]
Depth  == Len(scopes)
Top    == scopes[Depth]
RECURSIVE Flat(_)
Flat(ss) == IF ss = <<>> THEN <<>> ELSE Flat(SubSeq(ss, 1, Len(ss) - 1)) \o ss[Len(ss)]
HasEmpty(s) == \E i \in DOMAIN s : s[i] = 0

Quiet(a, arg, sc) == [a |-> a, arg |-> arg, exp |-> [outcome |-> "ok", ran |-> <<>>, late |-> <<>>, depth |-> Len(sc)]]

Init == scopes = <<>> /\ dead = FALSE /\ last = Quiet("Init", <<>>, <<>>)

TypeOK == /\ scopes \in Seq(Seq(Ids \cup {0})) /\ dead \in BOOLEAN

Open ==
  /\ ~dead /\ Depth < MaxDepth
  /\ scopes' = Append(scopes, <<>>)
  /\ UNCHANGED dead
  /\ last' = Quiet("Open", <<>>, scopes')

Push(f) == [scopes EXCEPT ![Depth] = Append(@, f)]
CanPush == ~dead /\ Depth > 0 /\ Len(Top) < MaxGuards

\* OnScopeExit g(<lambda>) / OnScopeExit g(<non-empty std::function>): nothing runs at construction
Guard(id, kind) ==
  /\ CanPush
  /\ scopes' = Push(id)
  /\ UNCHANGED dead
  /\ last' = Quiet("Guard", [id |-> id, kind |-> kind], scopes')

\* OnScopeExit g(<const reference to the j-th guard of this scope>)            (D1)
Copy(j) ==
  /\ CanPush /\ j \in DOMAIN Top
  /\ scopes' = Push(Top[j])
  /\ UNCHANGED dead
  /\ last' = Quiet("Copy", [j |-> j], scopes')

Empty ==
  /\ AllowEmpty /\ CanPush
  /\ scopes' = Push(0)
  /\ UNCHANGED dead
  /\ last' = Quiet("Empty", <<>>, scopes')

\* leaving the innermost k scopes: their guards run last-constructed first
Leave(a, arg, k, outcome) ==
  LET gone == Flat(SubSeq(scopes, Depth - k + 1, Depth))
      rest == SubSeq(scopes, 1, Depth - k)
  IN IF HasEmpty(gone)
     THEN /\ dead' = TRUE /\ scopes' = <<>>                                     \* D2
          /\ last' = [a |-> a, arg |-> arg, exp |-> [outcome |-> "terminate"]]
     ELSE /\ UNCHANGED dead /\ scopes' = rest
          /\ last' = [a |-> a, arg |-> arg, exp |-> [outcome |-> outcome, ran |-> Rev(gone), late |-> <<>>, depth |-> Len(rest)]]

Close    == ~dead /\ Depth > 0 /\ Leave("Close", <<>>, 1, "ok")
Throw(k) == ~dead /\ k \in 1..Depth /\ Leave("Throw", [k |-> k], k, "caught")

Next ==
  \/ Open \/ Close \/ Empty
  \/ \E id \in Ids, kind \in {"lambda", "function"} : Guard(id, kind)
  \/ \E j \in 1..MaxGuards : Copy(j)
  \/ \E k \in 1..MaxDepth : Throw(k)

Spec == Init /\ [][Next]_vars

Bounded == Depth <= MaxDepth /\ \A i \in DOMAIN scopes : Len(scopes[i]) <= MaxGuards
DeadIsFinal == [][dead => FALSE]_vars          \* no step is taken once the process has terminated
\* negative control (TLC must refute it): "a function id runs at most once per scope exit" - false because of copies (D1)
NegOncePerId == "ran" \in DOMAIN last.exp => \A i, j \in DOMAIN last.exp.ran : last.exp.ran[i] = last.exp.ran[j] => i = j
===============================================================================
