SPECIFICATION SpecH
CONSTANTS
  Ids = {1, 2}
  MaxDepth = 3
  MaxGuards = 2
  AllowEmpty = TRUE
  MaxMade = 4
INVARIANTS TypeOK Bounded ExactlyOnce Lifo ShapeAgrees
PROPERTY DeadIsFinal
CONSTRAINT Budget
CHECK_DEADLOCK FALSE
