SPECIFICATION SpecH
CONSTANTS
  NSlots = 2
  Dels = {1, 2}
  Vals = {7, 8}
  MaxObj = 4
INVARIANTS TypeOK SingleOwner OwnedAlive NoLeak Disjoint NeverNull ExactlyOnce BoundDeleter
CHECK_DEADLOCK FALSE
