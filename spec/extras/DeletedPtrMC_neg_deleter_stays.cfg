SPECIFICATION SpecH
CONSTANTS
  NSlots = 2
  Dels = {1, 2}
  Vals = {7}
  MaxObj = 3
INVARIANTS NegDeleterStaysWithSlot
CHECK_DEADLOCK FALSE
