------------------------------ MODULE LibraryRepo ------------------------------
(* rkcommon/os/library.h: LibraryRepository (a process-wide list of loaded      *)
(* shared libraries) and directly constructed Library objects.  Beyond the      *)
(* listed properties ("extras" suite): deviations are reported as notes.        *)
(*                                                                             *)
(* What the code is documented / evidently meant to do                          *)
(*   add(anchor, name, version)  loads lib<name>.so<.v1.v2...> once; adding a    *)
(*                               name that is already in the repo is a no-op;    *)
(*                               a file that cannot be loaded: std::runtime_error*)
(*                               and the repo is unchanged                       *)
(*   remove(name)                forgets (and releases) that library             *)
(*   libraryExists(name)         membership by name                              *)
(*   getSymbol(sym)              first library in insertion order that has it    *)
(*   cleanupInstance()           releases everything, last loaded first          *)
(*   Library(anchor, name, ver)  the same load, owned by the object              *)
(* A shared object stays mapped exactly as long as at least one owner (a repo    *)
(* entry or a Library object) holds a handle: its static constructors run when   *)
(* the first handle is taken, its static destructors when the last is released.  *)
(*                                                                             *)
(* Deliberate deviations from what a reader might expect (modelled as the code   *)
(* behaves, named here and printed by the runner):                               *)
(*  D1 an anchored load looks ONLY in the directory of the object that contains  *)
(*     the anchor address; there is no fall-back to the loader's search path     *)
(*     (and an unanchored load never looks next to the executable);              *)
(*  D2 the repo is keyed by name only: add(name, other version) is a no-op when  *)
(*     the name is present, whatever version / anchor is given, even if that     *)
(*     load would have failed;                                                   *)
(*  D3 getSymbol searches the repo's libraries and (dlsym semantics) their       *)
(*     dependencies, never the process itself: a libc symbol is found exactly    *)
(*     when the repo is non-empty, a symbol of the executable never; there is no *)
(*     "default library" entry in this version;                                  *)
(*  D4 an anchor address that belongs to no file makes add throw                 *)
(*     std::runtime_error (wrapped library_location() failure).                  *)
(*                                                                             *)
(* The fixture (harness/drivers/extras/CMakeLists.txt) is part of the model:     *)
(* which files exist where, and which symbols they export.                       *)
EXTENDS Integers, Sequences, FiniteSets, TLC

CONSTANTS NSlots          \* number of directly constructed Library objects the driver can hold

Names   == {"vx_a", "vx_b", "vx_c", "vx_d", "vx_none"}
Libs    == {"vx_a", "vx_b", "vx_c", "vx_d"}          \* names for which some file exists
Vers    == {<<>>, <<1, 2>>}
Anchors == {"exe", "null", "heap"}    \* address inside the driver executable / nullptr / address inside no file
Syms    == {"vx_common", "vx_only_a", "vx_only_b", "vx_only_c", "vx_only_d", "vx_event", "getpid", "vx_nosuch"}
Slots   == 1..NSlots

RECURSIVE VerStr(_)
VerStr(v) == IF v = <<>> THEN "" ELSE "." \o ToString(Head(v)) \o VerStr(Tail(v))
FileName(name, ver) == "lib" \o name \o ".so" \o VerStr(ver)

\* the fixture
ExeDir  == {"libvx_a.so", "libvx_b.so", "libvx_c.so.1.2"}   \* next to the driver executable
PathDir == {"libvx_d.so"}                                    \* in a directory on LD_LIBRARY_PATH only
Exports(lib) == {"vx_common", "vx_only_" \o SubSeq(lib, 4, 4)}
DepSyms == {"getpid"}                                        \* exported by a dependency (libc) of every fixture library

\* argument combinations explored: every class of load (right / wrong directory, right / wrong / missing
\* version suffix, missing file, unusable anchor) for every anchor kind, without the redundant rest of the product
LoadArgs == ({"exe"} \X Names \X {<<>>}) \cup ({"null"} \X {"vx_a", "vx_d", "vx_none"} \X {<<>>})
            \cup ({"exe"} \X {"vx_a", "vx_c"} \X {<<1, 2>>}) \cup {<<"null", "vx_c", <<1, 2>>>>, <<"heap", "vx_a", <<>>>>}

\* outcome of the load itself: "ok" or the exception
Load(anchor, name, ver) ==
  CASE anchor = "heap" -> "throws:runtime_error"
    [] anchor = "exe"  -> IF FileName(name, ver) \in ExeDir THEN "ok" ELSE "throws:runtime_error"
    [] anchor = "null" -> IF FileName(name, ver) \in PathDir THEN "ok" ELSE "throws:runtime_error"

\* argument classes (signatures of deviation notes are per class)
LoadClass(anchor, name, ver, present) ==
  IF present THEN "name=present" ELSE IF Load(anchor, name, ver) = "ok" THEN "name=absent,file=found" ELSE "name=absent,file=" \o
     (IF anchor = "heap" THEN "anchor-in-no-file" ELSE IF name = "vx_none" THEN "nowhere"
      ELSE IF FileName(name, ver) \in ExeDir \cup PathDir THEN "other-directory" ELSE "other-version")
SymClass(sym) == IF sym = "vx_common" THEN "sym=in-every-library" ELSE IF sym \in DepSyms THEN "sym=in-dependency"
                 ELSE IF sym = "vx_event" THEN "sym=in-executable" ELSE IF sym = "vx_nosuch" THEN "sym=nowhere" ELSE "sym=in-one-library"

VARIABLES repo,     \* sequence of names, insertion order
          direct,   \* Slots -> name of the library the Library object in that slot holds, or "none"
          last
vars == <<repo, direct, last>>

InRepo(n)   == \E i \in DOMAIN repo : repo[i] = n
Owners(l, r, d) == Cardinality({i \in DOMAIN r : r[i] = l}) + Cardinality({s \in Slots : d[s] = l})
Loaded(l)   == Owners(l, repo, direct) > 0
Rev(s)      == [i \in 1..Len(s) |-> s[Len(s) + 1 - i]]

\* constructors / destructors that run when the owner sets change from (r,d) to (r2,d2);
\* `order` lists the candidates in the order the code releases / acquires them
Became(order, r, d, r2, d2, up) ==
  SelectSeq(order, LAMBDA l : IF up THEN Owners(l, r, d) = 0 /\ Owners(l, r2, d2) > 0
                                    ELSE Owners(l, r, d) > 0 /\ Owners(l, r2, d2) = 0)

Proj(r, d) == [exists |-> [n \in Names |-> \E i \in DOMAIN r : r[i] = n],
               loaded |-> [l \in Libs |-> Owners(l, r, d) > 0]]

Exp(ret, order, r2, d2) ==
  [ret |-> ret, ctors |-> Became(order, repo, direct, r2, d2, TRUE),
   dtors |-> Became(order, repo, direct, r2, d2, FALSE)] @@ Proj(r2, d2)

Init == /\ repo = <<>>
        /\ direct = [s \in Slots |-> "none"]
        /\ last = [a |-> "Init", arg |-> <<>>, exp |-> [ret |-> "void", ctors |-> <<>>, dtors |-> <<>>] @@ Proj(<<>>, [s \in Slots |-> "none"])]

TypeOK == /\ repo \in Seq(Libs)
          /\ direct \in [Slots -> Libs \cup {"none"}]

-------------------------------------------------------------------------------
Add(anchor, name, ver) ==
  LET out == IF InRepo(name) THEN "void"                         \* D2: checked before anything else
             ELSE IF Load(anchor, name, ver) = "ok" THEN "void" ELSE Load(anchor, name, ver)
      r2  == IF ~InRepo(name) /\ Load(anchor, name, ver) = "ok" THEN Append(repo, name) ELSE repo
  IN /\ repo' = r2
     /\ UNCHANGED direct
     /\ last' = [a |-> "Add", arg |-> [anchor |-> anchor, name |-> name, ver |-> ver], cls |-> LoadClass(anchor, name, ver, InRepo(name)),
                 exp |-> Exp(out, <<name>>, r2, direct)]

Remove(name) ==
  LET r2 == SelectSeq(repo, LAMBDA n : n # name)
  IN /\ repo' = r2
     /\ UNCHANGED direct
     /\ last' = [a |-> "Remove", arg |-> [name |-> name], cls |-> IF InRepo(name) THEN "present" ELSE "absent",
                 exp |-> Exp("void", <<name>>, r2, direct)]

Exists(name) ==
  /\ UNCHANGED <<repo, direct>>
  /\ last' = [a |-> "Exists", arg |-> [name |-> name], exp |-> Exp(InRepo(name), <<>>, repo, direct)]

\* the answer of a search through a sequence of libraries, first match wins
Lookup(libs, sym) ==
  LET hits == SelectSeq(libs, LAMBDA l : sym \in Exports(l))
  IN IF hits # <<>> THEN hits[1]
     ELSE IF sym \in DepSyms /\ libs # <<>> THEN "dep"            \* D3
     ELSE "null"

GetSymbol(sym) ==
  /\ UNCHANGED <<repo, direct>>
  /\ last' = [a |-> "GetSymbol", arg |-> [sym |-> sym], cls |-> SymClass(sym), exp |-> Exp(Lookup(repo, sym), <<>>, repo, direct)]

\* cleanupInstance(): the repository is destroyed, libraries are released last-in first-out
Cleanup ==
  /\ repo' = <<>>
  /\ UNCHANGED direct
  /\ last' = [a |-> "Cleanup", arg |-> <<>>, exp |-> Exp("void", Rev(repo), <<>>, direct)]

\* new Library(anchor, name, version) into an empty slot
LibNew(s, anchor, name, ver) ==
  LET ok == Load(anchor, name, ver) = "ok"
      d2 == IF ok THEN [direct EXCEPT ![s] = name] ELSE direct
  IN /\ direct[s] = "none"
     /\ direct' = d2
     /\ UNCHANGED repo
     /\ last' = [a |-> "LibNew", arg |-> [slot |-> s, anchor |-> anchor, name |-> name, ver |-> ver], cls |-> LoadClass(anchor, name, ver, FALSE),
                 exp |-> Exp(IF ok THEN "void" ELSE Load(anchor, name, ver), <<name>>, repo, d2)]

LibDelete(s) ==
  LET d2 == [direct EXCEPT ![s] = "none"]
  IN /\ direct[s] # "none"
     /\ direct' = d2
     /\ UNCHANGED repo
     /\ last' = [a |-> "LibDelete", arg |-> [slot |-> s], exp |-> Exp("void", <<direct[s]>>, repo, d2)]

LibGetSymbol(s, sym) ==
  /\ direct[s] # "none"
  /\ UNCHANGED <<repo, direct>>
  /\ last' = [a |-> "LibGetSymbol", arg |-> [slot |-> s, sym |-> sym],
              exp |-> Exp(Lookup(<<direct[s]>>, sym), <<>>, repo, direct)]

Next ==
  \/ \E t \in LoadArgs : Add(t[1], t[2], t[3])
  \/ \E n \in Names : Remove(n) \/ Exists(n)
  \/ \E y \in Syms : GetSymbol(y)
  \/ Cleanup
  \/ \E s \in Slots, t \in LoadArgs : LibNew(s, t[1], t[2], t[3])
  \/ \E s \in Slots : LibDelete(s)
  \/ \E s \in Slots, y \in Syms : LibGetSymbol(s, y)

Spec == Init /\ [][Next]_vars

-------------------------------------------------------------------------------
\* invariants of the model itself
UniqueNames == \A i, j \in DOMAIN repo : repo[i] = repo[j] => i = j
LastAgrees  == /\ \A n \in Names : last.exp.exists[n] = InRepo(n)
               /\ \A l \in Libs : last.exp.loaded[l] = Loaded(l)
\* nothing is ever constructed and destroyed in the same step, at most one library is constructed per step
StepShape   == /\ Len(last.exp.ctors) <= 1
               /\ ~(last.exp.ctors # <<>> /\ last.exp.dtors # <<>>)
\* a load that throws changes nothing
ThrowKeeps  == [][(last'.a \in {"Add", "LibNew"} /\ last'.exp.ret # "void") => UNCHANGED <<repo, direct>>]_vars

\* negative controls (each must be refuted by TLC)
NegLoadedIffInRepo == \A l \in Libs : Loaded(l) <=> InRepo(l)                  \* false: Library objects own handles too
NegLastWins == Len(repo) >= 2 => Lookup(repo, "vx_common") = repo[Len(repo)]
===============================================================================
