----------------------------- MODULE DeletedPtrMC -----------------------------
(* Model-checking instance of DeletedPtr with history: the deleter each object   *)
(* was bound to when the pointer acquired it, and the log of deleter calls.      *)
(*   ExactlyOnce   an object is dead iff its deleter was called for it, exactly  *)
(*                 once; objects handed out by release() are never in the log    *)
(*   BoundDeleter  every call used the deleter the object was acquired with      *)
(*                 (ownership and deleter travel together through move / swap)   *)
EXTENDS DeletedPtr

VARIABLES bound,   \* sequence: object id -> deleter id it was acquired with
          log      \* all deleter calls so far
varsH == <<slot, val, alive, released, last, bound, log>>

InitH == Init /\ bound = <<>> /\ log = <<>>
NextH == /\ Next
         /\ log' = log \o last'.exp.calls
         /\ bound' = IF last'.a \in {"Make", "ResetTo"} THEN Append(bound, slot'[last'.arg.s].del) ELSE bound
SpecH == InitH /\ [][NextH]_varsH

Called(o) == {i \in DOMAIN log : log[i].o = o}
ExactlyOnce  == \A o \in 1..NObj : /\ Cardinality(Called(o)) = IF o \in alive THEN 0 ELSE 1
                                   /\ o \in released => Called(o) = {}
BoundDeleter == \A i \in DOMAIN log : log[i].d = bound[log[i].o]
\* negative control (TLC must refute it): "the deleter belongs to the pointer object: slot s always calls the deleter it was first given"
NegDeleterStaysWithSlot == \A s \in Slots : \A i \in DOMAIN last.exp.calls :
                             last.a \in {"ResetNone", "Destroy"} /\ last.arg.s = s => last.exp.calls[i].d = s
===============================================================================
