INIT Init
NEXT Next
CONSTANTS
  B = 3
  CompExts <- CompQuick
  NSlices = 3
CHECK_DEADLOCK FALSE
