-------------------------------- MODULE Limbs --------------------------------
(* Natural numbers beyond TLC's 32-bit integers: little-endian sequences of    *)
(* digits in base 2^15 ("limbs"), canonical form = at least one digit and no   *)
(* zero as most significant digit unless the number is <<0>>.  Every           *)
(* intermediate value of the operators below stays below 2^31:                 *)
(*   digit * digit + carry <= (2^15-1)^2 + 2^15 < 2^30 + 2^15.                 *)
(* Used by IndexMapsBig to compute flat indices of extents whose products      *)
(* exceed 2^31 and 2^32; the drivers convert their size_t results to the same  *)
(* representation.                                                             *)
EXTENDS Integers, Sequences

BASE == 32768

IsLimbs(a) == /\ Len(a) >= 1
              /\ \A i \in 1..Len(a) : a[i] \in 0..(BASE - 1)
              /\ (Len(a) > 1 => a[Len(a)] # 0)

RECURSIVE Strip(_)
Strip(a) == IF Len(a) > 1 /\ a[Len(a)] = 0 THEN Strip(SubSeq(a, 1, Len(a) - 1)) ELSE a

RECURSIVE FromInt(_)
FromInt(n) == IF n < BASE THEN <<n>> ELSE <<n % BASE>> \o FromInt(n \div BASE)

\* only for values known to be below 2^31
RECURSIVE ToInt(_)
ToInt(a) == IF Len(a) = 1 THEN a[1] ELSE a[1] + BASE * ToInt(Tail(a))
FitsInt(a) == Len(a) <= 2 \/ (Len(a) = 3 /\ a[3] <= 1)     \* < 2^31

Digit(a, i) == IF i <= Len(a) THEN a[i] ELSE 0
MaxLen(a, b) == IF Len(a) > Len(b) THEN Len(a) ELSE Len(b)

RECURSIVE AddFrom(_, _, _, _)
AddFrom(a, b, i, carry) ==
  IF i > MaxLen(a, b) THEN (IF carry = 0 THEN <<>> ELSE <<carry>>)
  ELSE LET s == Digit(a, i) + Digit(b, i) + carry
       IN <<s % BASE>> \o AddFrom(a, b, i + 1, s \div BASE)
Add(a, b) == Strip(AddFrom(a, b, 1, 0))

RECURSIVE MulDigitFrom(_, _, _, _)
MulDigitFrom(a, k, i, carry) ==
  IF i > Len(a) THEN (IF carry = 0 THEN <<>> ELSE <<carry>>)
  ELSE LET p == a[i] * k + carry
       IN <<p % BASE>> \o MulDigitFrom(a, k, i + 1, p \div BASE)
MulDigit(a, k) == Strip(MulDigitFrom(a, k, 1, 0))

ShiftUp(a, n) == [i \in 1..n |-> 0] \o a

RECURSIVE MulFrom(_, _, _)
MulFrom(a, b, j) == IF j > Len(b) THEN <<0>>
                    ELSE Add(Strip(ShiftUp(MulDigit(a, b[j]), j - 1)), MulFrom(a, b, j + 1))
Mul(a, b) == MulFrom(a, b, 1)

\* comparison of canonical numbers
RECURSIVE LessFrom(_, _, _)
LessFrom(a, b, i) == IF i = 0 THEN FALSE
                     ELSE IF a[i] # b[i] THEN a[i] < b[i]
                     ELSE LessFrom(a, b, i - 1)
Less(a, b) == IF Len(a) # Len(b) THEN Len(a) < Len(b) ELSE LessFrom(a, b, Len(a))

Zero == <<0>>
One  == <<1>>
Two64 == <<0, 0, 0, 0, 16>>        \* 2^64 = 16 * (2^15)^4

\* c[1] + d[1] * (c[2] + d[2] * c[3]) and d[1] * d[2] * d[3] on limb numbers
LFlatten3(d, c) == Add(c[1], Mul(d[1], Add(c[2], Mul(d[2], c[3]))))
LFlatten2(d, c) == Add(c[1], Mul(d[1], c[2]))
LTotal3(d) == Mul(Mul(d[1], d[2]), d[3])
LTotal2(d) == Mul(d[1], d[2])
LInside(d, c) == \A i \in 1..Len(d) : Less(c[i], d[i])
===============================================================================
