SPECIFICATION Spec
CONSTANTS
  Exts <- GenExts
  Vals = {1, 2}
  Margin = 1
  MaxSlices = 2
  Sparse = TRUE
INVARIANTS TypeOK LastAgrees
