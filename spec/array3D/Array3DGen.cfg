SPECIFICATION Spec
CONSTANTS
  Exts <- GenExts
  Vals = {0, 1}
  Margin = 1
  MaxSlices = 2
  Sparse = TRUE
INVARIANTS TypeOK LastAgrees
