INIT Init
NEXT Next
CONSTANTS
  BS = 5
  FNEG = 1
  FHI = 4
CHECK_DEADLOCK FALSE
