INIT Init
NEXT Next
CONSTANTS
  BS = 5
  FLO = -1
  FHI = 4
CHECK_DEADLOCK FALSE
