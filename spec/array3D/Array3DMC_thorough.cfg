SPECIFICATION SpecH
CONSTANTS
  Exts <- MCExts
  Vals = {1, 2}
  Margin = 1
  MaxSlices = 3
  Sparse = FALSE
  K = 5
INVARIANTS TypeOK LastAgrees AgreesWithHistory
CONSTRAINT HistBound
VIEW MCView
