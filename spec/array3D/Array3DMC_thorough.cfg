SPECIFICATION SpecH
CONSTANTS
  Exts <- MCExts
  Vals = {0, 1}
  Margin = 1
  MaxSlices = 3
  Sparse = TRUE
  K = 5
INVARIANTS TypeOK LastAgrees AgreesWithHistory
CONSTRAINT HistBound
VIEW MCView
