SPECIFICATION SpecH
CONSTANTS
  Exts <- MCExts
  Vals = {1, 2}
  Margin = 1
  MaxSlices = 2
  Sparse = FALSE
  K = 4
INVARIANTS TypeOK LastAgrees AgreesWithHistory
CONSTRAINT HistBound
VIEW MCView
