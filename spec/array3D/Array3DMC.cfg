SPECIFICATION SpecH
CONSTANTS
  Exts <- MCExts
  Vals = {0, 1}
  Margin = 1
  MaxSlices = 2
  Sparse = TRUE
  K = 4
INVARIANTS TypeOK LastAgrees AgreesWithHistory
CONSTRAINT HistBound
VIEW MCView
