SPECIFICATION TSpec
CONSTANTS
  Exts = {}
  Vals = {}
  Margin = 0
  MaxSlices = 3
  Sparse = FALSE
INVARIANTS TypeOK LastAgrees
POSTCONDITION Post
CHECK_DEADLOCK FALSE
