SPECIFICATION Spec
CONSTANTS
  BM = 3
  BR = 0
INVARIANTS NegSwappedInverse
CHECK_DEADLOCK FALSE
