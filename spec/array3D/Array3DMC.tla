------------------------------- MODULE Array3DMC -------------------------------
(* Model-checking instance of Array3D: adds the history of mutating calls and  *)
(* checks that the operational state agrees with the DECLARATIVE reading of    *)
(* the property after every history: the value at c is the value of the last   *)
(* Set at c or Clear since construction, else the initial content; and that    *)
(* every view satisfies the adaptor laws of Array3DOps in every reached state. *)
EXTENDS Array3DLaws

CONSTANT K
VARIABLE hist
varsH == <<arr, made, extmem, last, hist>>


Mutators == {"New", "Set", "Clear", "Poke"}
InitH == Init /\ hist = <<>>
\* the reading actions change neither arr nor hist (their results are functions of arr that
\* the invariants below state for every reached arr), so only the mutators are explored here
NextH == NextMut /\ hist' = Append(hist, [a |-> last'.a, arg |-> last'.arg])
SpecH == InitH /\ [][NextH]_varsH

\* the rank of c in flattened order (IndexMapsMC: LongIndex(c, d) = Rank3(d, c) for every extent; the formula is cheaper here)
FlatRank(c) == LongIndex(c, hist[1].arg.d)
\* a write to the external memory at offset o is a write to the cell whose rank in flattened order is o
Writes(c)  == {i \in DOMAIN hist : \/ hist[i].a = "Clear"
                                     \/ (hist[i].a = "Set" /\ hist[i].arg.c = c)
                                     \/ (hist[i].a = "Poke" /\ hist[i].arg.o = FlatRank(c))}
InitialAt(c) == IF hist[1].arg.mode = "own" THEN OwnInit ELSE ExtInit(FlatRank(c) + 1)
LastSet(c) == IF Writes(c) = {} THEN InitialAt(c) ELSE hist[SetMax(Writes(c))].arg.v

\* get(c) returns the value last set at c - for every coordinate, clamped when outside
AgreesWithHistory ==
  made => /\ arr.size = hist[1].arg.d
          /\ \A c \in Window(arr.size) : ActualGet(arr, c) = LastSet(ClampC(c, arr.size))
HistBound == Len(hist) <= K
MCView == <<arr, made, extmem, hist>>
===============================================================================
