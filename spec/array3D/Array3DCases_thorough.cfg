INIT Init
NEXT Next
CONSTANTS
  B = 3
  CompExts <- CompThorough
  NSlices = 3
CHECK_DEADLOCK FALSE
