------------------------------ MODULE IndexMaps ------------------------------
(* Index maps of rkcommon (property C17, functional part).                     *)
(*                                                                             *)
(*   multidim_index_sequence<2>/<3>:  flatten, reshape, total_indices,         *)
(*                                    iteration begin()..end()                 *)
(*   array3D (for_each.h):            longProduct, longIndex, coordsOf,        *)
(*                                    for_each over a region [lo, hi)          *)
(*                                                                             *)
(* Extents and coordinates are sequences <<x, y>> / <<x, y, z>> of naturals.   *)
(* "Flattened order" is the order in which the first coordinate runs fastest   *)
(* and the last one slowest (Before2 / Before3); the flat index of a           *)
(* coordinate is its rank in that order (Rank2 / Rank3).  The arithmetic       *)
(* definitions below are the ones the drivers are compared with; the laws at   *)
(* the end of the module (checked by TLC in IndexMapsMC for every extent of    *)
(* the bounded domain) say that they are what the property states: mutually    *)
(* inverse bijections between the coordinates inside the extent and            *)
(* 0..total-1, and iteration orders that visit every coordinate of the region  *)
(* exactly once in increasing flattened order.                                 *)
EXTENDS Integers, Sequences, FiniteSets

Max0(n) == IF n > 0 THEN n ELSE 0

-------------------------------------------------------------------------------
\* coordinates inside an extent, total number of cells
Coords2(d) == {<<x, y>> : x \in 0..(d[1] - 1), y \in 0..(d[2] - 1)}
Coords3(d) == {<<x, y, z>> : x \in 0..(d[1] - 1), y \in 0..(d[2] - 1), z \in 0..(d[3] - 1)}
Total2(d)  == d[1] * d[2]
Total3(d)  == d[1] * d[2] * d[3]

\* flattened order (declarative): x fastest, then y, then z
Before2(a, b) == a[2] < b[2] \/ (a[2] = b[2] /\ a[1] < b[1])
Before3(a, b) == a[3] < b[3] \/ (a[3] = b[3] /\ Before2(a, b))
Rank2(d, c)   == Cardinality({e \in Coords2(d) : Before2(e, c)})
Rank3(d, c)   == Cardinality({e \in Coords3(d) : Before3(e, c)})

-------------------------------------------------------------------------------
\* multidim_index_sequence<N>::flatten / reshape / total_indices
Flatten2(d, c) == c[1] + d[1] * c[2]
Flatten3(d, c) == c[1] + d[1] * (c[2] + d[2] * c[3])
Reshape2(d, i) == <<i % d[1], i \div d[1]>>
Reshape3(d, i) == LET z == i \div (d[1] * d[2])
                      r == i - z * d[1] * d[2]
                  IN <<r % d[1], r \div d[1], z>>

\* array3D::longProduct / longIndex / coordsOf  (note the argument order of the C++ functions)
LongProduct(d)   == Total3(d)
LongIndex(c, d)  == c[1] + d[1] * (c[2] + d[2] * c[3])
CoordsOf(i, d)   == <<i % d[1], (i \div d[1]) % d[2], (i \div d[1]) \div d[2]>>

\* iteration of a sequence: for (auto c : multidim_index_sequence<N>(d))
IterSeq2(d) == [k \in 1..Total2(d) |-> Reshape2(d, k - 1)]
IterSeq3(d) == [k \in 1..Total3(d) |-> Reshape3(d, k - 1)]

\* successor in flattened order (used for iteration windows of huge extents,
\* where the index itself does not fit a TLC integer)
Succ3(d, c) == IF c[1] + 1 < d[1] THEN <<c[1] + 1, c[2], c[3]>>
               ELSE IF c[2] + 1 < d[2] THEN <<0, c[2] + 1, c[3]>>
               ELSE <<0, 0, c[3] + 1>>
Succ2(d, c) == IF c[1] + 1 < d[1] THEN <<c[1] + 1, c[2]>> ELSE <<0, c[2] + 1>>
RECURSIVE Walk3(_, _, _)
Walk3(d, c, n) == IF n = 0 THEN <<>> ELSE <<c>> \o Walk3(d, Succ3(d, c), n - 1)
RECURSIVE Walk2(_, _, _)
Walk2(d, c, n) == IF n = 0 THEN <<>> ELSE <<c>> \o Walk2(d, Succ2(d, c), n - 1)

\* array3D::for_each(lo, hi, f): the region [lo, hi) and the order of the calls of f
RegionSize(lo, hi) == <<Max0(hi[1] - lo[1]), Max0(hi[2] - lo[2]), Max0(hi[3] - lo[3])>>
Region(lo, hi)     == {<<x, y, z>> : x \in lo[1]..(hi[1] - 1), y \in lo[2]..(hi[2] - 1), z \in lo[3]..(hi[3] - 1)}
ForEachSeq(lo, hi) == LET s == RegionSize(lo, hi)
                      IN [k \in 1..Total3(s) |->
                            LET r == Reshape3(s, k - 1) IN <<lo[1] + r[1], lo[2] + r[2], lo[3] + r[3]>>]

-------------------------------------------------------------------------------
\* THE ITERATOR of a sequence as an abstract object: multidim_index_iterator<N> = an extent and a
\* position 0..total in flattened order; begin() is position 0, end() is position total.
\*   *it        the coordinate at the position (positions below total only)
\*   ++it       advances it; its VALUE designates the NEW position
\*   it++       advances it; its VALUE designates the OLD position
\*   a == b     same extent and same position; a != b the negation
\* (what an iterator over a flattened sequence must do for "iteration visits every coordinate exactly
\*  once in flattened order" to hold in every way of writing the loop, not only in range-for)
TotalOf(d)  == IF Len(d) = 2 THEN Total2(d) ELSE Total3(d)
ItAt(d, i)  == [d |-> d, i |-> i]
ItBegin(d)  == ItAt(d, 0)
ItEnd(d)    == ItAt(d, TotalOf(d))
Deref(it)   == IF Len(it.d) = 2 THEN Reshape2(it.d, it.i) ELSE Reshape3(it.d, it.i)
Advanced(it) == [it EXCEPT !.i = @ + 1]
PreInc(it)  == [it |-> Advanced(it), val |-> Advanced(it)]
PostInc(it) == [it |-> Advanced(it), val |-> it]
ItEq(a, b)  == a.d = b.d /\ a.i = b.i
ItNe(a, b)  == ~ItEq(a, b)

\* the ways of writing the loop; each yields the sequence of coordinates handed to the body
\*   for (it = begin; it != end; ++it) body(*it)     - also range-for and std::for_each
RECURSIVE WalkFor(_, _)
WalkFor(it, e) == IF ItEq(it, e) THEN <<>> ELSE <<Deref(it)>> \o WalkFor(PreInc(it).it, e)
\*   for (it = begin; it != end; it++) body(*it)
RECURSIVE WalkForPost(_, _)
WalkForPost(it, e) == IF ItEq(it, e) THEN <<>> ELSE <<Deref(it)>> \o WalkForPost(PostInc(it).it, e)
\*   it = begin; while (++it != end) body(*it)         - the VALUE of ++it is compared (non-empty sequences)
RECURSIVE WalkWhilePre(_, _)
WalkWhilePre(it, e) == LET p == PreInc(it) IN IF ItEq(p.val, e) THEN <<>> ELSE <<Deref(p.it)>> \o WalkWhilePre(p.it, e)
\*   it = begin; do body(*it); while (++it != end);    - non-empty sequences
RECURSIVE WalkDoWhile(_, _)
WalkDoWhile(it, e) == LET p == PreInc(it) IN <<Deref(it)>> \o (IF ItEq(p.val, e) THEN <<>> ELSE WalkDoWhile(p.it, e))
\*   it = begin; n times: body(*++it)                   - the VALUE of ++it is dereferenced
RECURSIVE WalkDerefPre(_, _)
WalkDerefPre(it, n) == IF n = 0 THEN <<>> ELSE LET p == PreInc(it) IN <<Deref(p.val)>> \o WalkDerefPre(p.it, n - 1)
\*   n times: (++it == it)  and the position current() of the value of ++it
RECURSIVE PreIncEqualsIt(_, _)
PreIncEqualsIt(it, n) == IF n = 0 THEN <<>> ELSE LET p == PreInc(it) IN <<ItEq(p.val, p.it)>> \o PreIncEqualsIt(p.it, n - 1)
RECURSIVE PreIncValueIndex(_, _)
PreIncValueIndex(it, n) == IF n = 0 THEN <<>> ELSE LET p == PreInc(it) IN <<p.val.i>> \o PreIncValueIndex(p.it, n - 1)
\*   while (it != end) body(*it++)                      - the VALUE of it++ is dereferenced
RECURSIVE WalkDerefPost(_, _)
WalkDerefPost(it, e) == IF ItEq(it, e) THEN <<>> ELSE LET p == PostInc(it) IN <<Deref(p.val)>> \o WalkDerefPost(p.it, e)
\*   n times: old = it; v = it++;  (v == old), (v != it), current() of v
RECURSIVE PostIncValueIsOld(_, _)
PostIncValueIsOld(it, n) == IF n = 0 THEN <<>> ELSE LET p == PostInc(it) IN <<ItEq(p.val, it) /\ ItNe(p.val, p.it)>> \o PostIncValueIsOld(p.it, n - 1)
RECURSIVE PostIncValueIndex(_, _)
PostIncValueIndex(it, n) == IF n = 0 THEN <<>> ELSE LET p == PostInc(it) IN <<p.val.i>> \o PostIncValueIndex(p.it, n - 1)

IterSeqOf(d) == IF Len(d) = 2 THEN IterSeq2(d) ELSE IterSeq3(d)
TailOrEmpty(q) == IF Len(q) = 0 THEN <<>> ELSE Tail(q)
\* every way of writing the loop visits every coordinate exactly once in flattened order (the styles that
\* start with ++it leave out the first one; they are only meaningful on non-empty sequences)
WalkStyleLaws(d) ==
  LET b == ItBegin(d)  e == ItEnd(d)  n == TotalOf(d)  q == IterSeqOf(d) IN
  /\ WalkFor(b, e) = q /\ WalkForPost(b, e) = q /\ WalkDerefPost(b, e) = q
  /\ n >= 1 => /\ WalkDoWhile(b, e) = q /\ WalkWhilePre(b, e) = Tail(q) /\ WalkDerefPre(b, n - 1) = Tail(q)
  /\ PreIncEqualsIt(b, n) = [k \in 1..n |-> TRUE] /\ PreIncValueIndex(b, n) = [k \in 1..n |-> k]
  /\ PostIncValueIsOld(b, n) = [k \in 1..n |-> TRUE] /\ PostIncValueIndex(b, n) = [k \in 1..n |-> k - 1]

-------------------------------------------------------------------------------
\* LAWS (what property C17 states about the maps), one operator per clause.

\* the flat index is the rank in flattened order
FlattenIsRank2(d) == \A c \in Coords2(d) : Flatten2(d, c) = Rank2(d, c)
FlattenIsRank3(d) == \A c \in Coords3(d) : Flatten3(d, c) = Rank3(d, c) /\ LongIndex(c, d) = Rank3(d, c)

\* flatten maps the coordinates of the extent into 0..total-1 and reshape undoes it
ReshapeAfterFlatten2(d) == \A c \in Coords2(d) : Flatten2(d, c) \in 0..(Total2(d) - 1) /\ Reshape2(d, Flatten2(d, c)) = c
ReshapeAfterFlatten3(d) == \A c \in Coords3(d) : Flatten3(d, c) \in 0..(Total3(d) - 1) /\ Reshape3(d, Flatten3(d, c)) = c
CoordsAfterIndex(d)     == \A c \in Coords3(d) : LongIndex(c, d) \in 0..(LongProduct(d) - 1) /\ CoordsOf(LongIndex(c, d), d) = c

\* reshape maps 0..total-1 into the extent and flatten undoes it
FlattenAfterReshape2(d) == \A i \in 0..(Total2(d) - 1) : Reshape2(d, i) \in Coords2(d) /\ Flatten2(d, Reshape2(d, i)) = i
FlattenAfterReshape3(d) == \A i \in 0..(Total3(d) - 1) : Reshape3(d, i) \in Coords3(d) /\ Flatten3(d, Reshape3(d, i)) = i
IndexAfterCoords(d)     == \A i \in 0..(LongProduct(d) - 1) : CoordsOf(i, d) \in Coords3(d) /\ LongIndex(CoordsOf(i, d), d) = i

\* hence bijections; stated directly as well
Bijection2(d) == /\ Cardinality(Coords2(d)) = Total2(d)
                 /\ {Flatten2(d, c) : c \in Coords2(d)} = 0..(Total2(d) - 1)
                 /\ {Reshape2(d, i) : i \in 0..(Total2(d) - 1)} = Coords2(d)
Bijection3(d) == /\ Cardinality(Coords3(d)) = Total3(d)
                 /\ {Flatten3(d, c) : c \in Coords3(d)} = 0..(Total3(d) - 1)
                 /\ {Reshape3(d, i) : i \in 0..(Total3(d) - 1)} = Coords3(d)
                 /\ {LongIndex(c, d) : c \in Coords3(d)} = 0..(Total3(d) - 1)
                 /\ {CoordsOf(i, d) : i \in 0..(Total3(d) - 1)} = Coords3(d)

\* both 3D pairs of maps are the same maps
SameMaps(d) == /\ \A c \in Coords3(d) : LongIndex(c, d) = Flatten3(d, c)
               /\ \A i \in 0..(Total3(d) - 1) : CoordsOf(i, d) = Reshape3(d, i)

\* a sequence visits every element of S exactly once
ExactlyOnce(seq, S) == /\ Len(seq) = Cardinality(S)
                       /\ {seq[k] : k \in 1..Len(seq)} = S

\* iteration visits every coordinate exactly once, the k-th visited has flat index k-1
IterLaw2(d) == /\ ExactlyOnce(IterSeq2(d), Coords2(d))
               /\ \A k \in 1..Total2(d) : Flatten2(d, IterSeq2(d)[k]) = k - 1
               /\ \A k \in 1..(Total2(d) - 1) : Before2(IterSeq2(d)[k], IterSeq2(d)[k + 1]) /\ Succ2(d, IterSeq2(d)[k]) = IterSeq2(d)[k + 1]
IterLaw3(d) == /\ ExactlyOnce(IterSeq3(d), Coords3(d))
               /\ \A k \in 1..Total3(d) : Flatten3(d, IterSeq3(d)[k]) = k - 1
               /\ \A k \in 1..(Total3(d) - 1) : Before3(IterSeq3(d)[k], IterSeq3(d)[k + 1]) /\ Succ3(d, IterSeq3(d)[k]) = IterSeq3(d)[k + 1]

\* for_each over [lo, hi) visits every coordinate of the region exactly once, in
\* flattened order - of the order itself and of every array extent d that contains the region
ForEachLaw(d, lo, hi) ==
  LET seq == ForEachSeq(lo, hi) IN
  /\ ExactlyOnce(seq, Region(lo, hi))
  /\ \A k \in 1..(Len(seq) - 1) : Before3(seq[k], seq[k + 1])
  /\ (Region(lo, hi) \subseteq Coords3(d)) =>
        \A k \in 1..(Len(seq) - 1) : LongIndex(seq[k], d) < LongIndex(seq[k + 1], d)
\* for_each(size, f) is for_each over the whole extent and equals the iteration of the sequence
ForEachWhole(d) == ForEachSeq(<<0, 0, 0>>, d) = IterSeq3(d)
===============================================================================
