SPECIFICATION Spec
CONSTANTS
  BM = 6
  BR = 4
INVARIANTS MapLaws2 MapLaws3 RegionLaws
CHECK_DEADLOCK FALSE
