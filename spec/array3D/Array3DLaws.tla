------------------------------ MODULE Array3DLaws ------------------------------
(* Instance of Array3D without the reading steps: TLC visits every array state *)
(* reachable by New / Set / Clear over the small extents below and checks the  *)
(* adaptor laws of Array3DOps (ViewLaws) in each of them: a shift permutes the *)
(* cells and composes additively, sub-boxes name the cells of their box and    *)
(* compose, the planes of an array re-assemble it through MultiSlice,          *)
(* getValueRange is tight for every box, clamping picks a nearest cell.        *)
EXTENDS Array3D, Sequences

MCExts == {<<2, 1, 2>>, <<1, 2, 1>>, <<2, 2, 1>>}
MCExtsThorough == {<<2, 1, 2>>, <<1, 2, 1>>, <<2, 2, 1>>, <<1, 3, 2>>, <<3, 1, 1>>}
LawsView == <<arr, made, extmem>>
GenExts == {<<2, 1, 2>>, <<1, 2, 1>>}
GenExtsThorough == {<<2, 1, 2>>, <<1, 2, 1>>, <<1, 2, 2>>}
\* negative control (must be VIOLATED): reading a negative z of a MultiSlice over all planes as the LAST
\* slice (an unsigned wrap-around) is not the clamping the definitions state - the laws can tell the two apart
NegSliceWrap ==
  (made /\ arr.size[3] >= 2) =>
     \A c \in Around(arr.size, 2) :
        ActualGet(arr, <<c[1], c[2], IF c[3] < 0 THEN arr.size[3] - 1 ELSE c[3]>>)
          = GetE(SlicesE([p \in 1..arr.size[3] |-> SubE(<<0, 0, p - 1>>, <<arr.size[1], arr.size[2], p>>, ArrLeaf(arr))]), c)
===============================================================================
