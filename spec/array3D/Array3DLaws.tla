------------------------------ MODULE Array3DLaws ------------------------------
(* Instance of Array3D without the reading steps: TLC visits every array state *)
(* reachable by New / Set / Clear over the small extents below and checks the  *)
(* adaptor laws of Array3DOps (ViewLaws) in each of them: a shift permutes the *)
(* cells and composes additively, sub-boxes name the cells of their box and    *)
(* compose, the planes of an array re-assemble it through MultiSlice,          *)
(* getValueRange is tight for every box, clamping picks a nearest cell.        *)
EXTENDS Array3D, Sequences

MCExts == {<<2, 1, 2>>, <<1, 2, 1>>, <<2, 2, 1>>}
MCExtsThorough == {<<2, 1, 2>>, <<1, 2, 1>>, <<2, 2, 1>>, <<1, 3, 2>>, <<3, 1, 1>>}
LawsView == <<arr, made>>
GenExts == {<<2, 1, 2>>, <<1, 2, 1>>}
GenExtsThorough == {<<2, 1, 2>>, <<1, 2, 1>>, <<1, 2, 2>>}
===============================================================================
