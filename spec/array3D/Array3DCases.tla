------------------------------ MODULE Array3DCases ------------------------------
(* Case generation for the adaptor half of C17: for EVERY extent up to B per    *)
(* axis an ActualArray3D filled with distinct, non-monotone values, and         *)
(*   - the clamped get at every coordinate of a window around the extent plus   *)
(*     far-away coordinates (2^31-1),                                           *)
(*   - getValueRange of every region of the extent,                             *)
(*   - the complete table of IndexShiftedArray3D for every shift -ext..ext,     *)
(*   - of SubBoxArray3D for every clip box, of Array3DAccessor for several      *)
(*     element types, of MultiSliceArray3D for 1..3 slices,                     *)
(*   - of compositions of two adaptors over the extents in CompExts.            *)
(* An adaptor expression is a tree  [k |-> kind, ..., of |-> subtree(s)]; Eval  *)
(* gives its denotation with the operators of Array3DOps.  Expected values are  *)
(* computed by TLC; the driver builds the same tree out of the real classes.    *)
EXTENDS Array3DOps, TLC, Json, IOUtils, SequencesExt

CONSTANTS B,          \* extents 1..B per axis
          CompExts,   \* extents for compositions of two adaptors
          NSlices     \* MultiSlice: 1..NSlices slices

Big == 2147483647
E3 == (1..B) \X (1..B) \X (1..B)

\* leaves: the driver fills an ActualArray3D cell by cell with set() ("set": list of
\* <<coordinate, value>>) or hands it external memory with the given content ("ext")
Leaf(d, off, fill) ==
  LET A == FillArr(d, off) IN
  [k |-> "actual", d |-> d, fill |-> fill, mem |-> A.val,
   cells |-> [i \in 1..Total3(d) |-> <<CoordsOf(Total3(d) - i, d), A.val[Total3(d) - i + 1]>>]]

\* coordinates OUTSIDE the size of an adaptor (and inside, for good measure): the window -2 .. size+1 per
\* axis - every sign combination - restricted to the coordinates the definitions give a meaning
\* (DefinedE: a shift must not be handed a negative sum), plus coordinates near +-2^31 where no adaptor
\* on the way does arithmetic on them
FarCoords == {-Big, Big} \X {-Big, 0, Big} \X {-Big, -1, 1, Big}
OutProbes(e) == SetToSeq({c \in Around(SizeE(e), 2) : DefinedE(e, c)} \cup (IF NoArithmeticE(e) THEN FarCoords ELSE {}))
\* getValueRange over regions that start below 0 / end beyond the size: the corner below, the corner
\* above, and one slab per axis reaching from -2 to 1; kept only if every cell is defined
OutRegionCandidates(d) ==
  << <<<<-2, -2, -2>>, <<1, 1, 1>>>>, <<<<d[1] - 1, d[2] - 1, d[3] - 1>>, <<d[1] + 2, d[2] + 2, d[3] + 2>>>>,
     <<<<-2, 0, 0>>, <<1, d[2], d[3]>>>>, <<<<0, -2, 0>>, <<d[1], 1, d[3]>>>>, <<<<0, 0, -2>>, <<d[1], d[2], 1>>>>,
     <<<<0, 0, d[3] - 1>>, <<d[1], d[2], d[3] + 2>>>> >>
OutRegions(e) == SelectSeq(OutRegionCandidates(SizeE(e)), LAMBDA b : RegionDefinedE(e, b[1], b[2]))
ViewExp(V) == [vsize |-> V.size, vn |-> NumElements(V), table |-> V.val, vrange |-> RangeAll(V)]

\* arg / exp records of a case (P, R evaluated once)
OutArgOf(e, P, R) == [e |-> e, probes |-> P, oregions |-> R]
OutExpOf(e, P, R) == [outside |-> [i \in 1..Len(P) |-> GetE(e, P[i])],
                      oranges |-> [i \in 1..Len(R) |-> RangeE(e, R[i][1], R[i][2])]]
\* V is the table denotation computed with the View operators; TableE(e) = V is asserted below (Consistent)
ViewCase(cls, e, V) == LET P == OutProbes(e)  R == OutRegions(e) IN
                       [a |-> "View", cls |-> cls, arg |-> OutArgOf(e, P, R), exp |-> ViewExp(V) @@ OutExpOf(e, P, R)]
Fills == {"set", "ext"}

-------------------------------------------------------------------------------
\* ActualArray3D: get everywhere (clamped), numElements, size
Probes(d) == LET W == ((-2)..(d[1] + 1)) \X ((-2)..(d[2] + 1)) \X ((-2)..(d[3] + 1))
                 Far == {-Big, -1, 0, Big} \X {-Big, 0, Big} \X {-Big, 0, 1, Big}
             IN SetToSeq(W \cup Far)
ActualCase(d, fill) ==
  LET l == Leaf(d, 0, fill)  A == LeafArr(l)  P == Probes(d) IN
  [a |-> "Actual", cls |-> fill, arg |-> [e |-> l, probes |-> P],
   exp |-> [vsize |-> d, vn |-> Total3(d), table |-> A.val, vrange |-> RangeAll(A),
            clamped |-> [i \in 1..Len(P) |-> ActualGet(A, P[i])],
            index_of |-> [i \in 1..Len(l.cells) |-> LongIndex(l.cells[i][1], d)]]]    \* ActualArray3D::indexOf, in the order of l.cells

\* getValueRange of every region; empty regions are outside what the statement constrains
\* (no value to bound): they are emitted with class "empty" and NO expectation
AllRegions(d) == SetToSeq({b \in (Coords3(Plus(d, <<1, 1, 1>>)) \X Coords3(Plus(d, <<1, 1, 1>>))) : RegionInside(d, b[1], b[2])})
NonEmpty(d)   == SelectSeq(AllRegions(d), LAMBDA b : InsideBox(d, b[1], b[2]))
EmptyOnes(d)  == SelectSeq(AllRegions(d), LAMBDA b : ~InsideBox(d, b[1], b[2]))
\* ... followed by regions that start below 0 / end beyond the extent (get() clamps there)
RangeCase(d, fill) ==
  LET l == Leaf(d, 0, fill)  A == LeafArr(l)  R == NonEmpty(d)  O == OutRegionCandidates(d) IN
  [a |-> "Ranges", cls |-> "non-empty", arg |-> [e |-> l, regions |-> R \o O],
   exp |-> [ranges |-> [i \in 1..Len(R) |-> RangeOf(A, R[i][1], R[i][2])] \o [i \in 1..Len(O) |-> RangeE(l, O[i][1], O[i][2])]]]
EmptyRangeCase(d) ==
  [a |-> "Ranges", cls |-> "empty", arg |-> [e |-> Leaf(d, 0, "set"), regions |-> EmptyOnes(d)], exp |-> [count |-> Len(EmptyOnes(d))]]

-------------------------------------------------------------------------------

ShiftCasesOf(d) == {ViewCase("shift", ShiftE(s, Leaf(d, 0, "set")), ShiftView(FillArr(d, 0), s)) : s \in Shifts(d, 1)}
\* positive shifts beyond the extent are inside the claimed domain (where + size + shift >= 0)
ShiftFarOf(d)   == {ViewCase("shift>ext", ShiftE(s, Leaf(d, 0, "ext")), ShiftView(FillArr(d, 0), s)) :
                       s \in {<<2 * d[1] + 1, d[2] + 1, 0>>, <<0, 3 * d[2] + 2, 5 * d[3] + 1>>, <<7, 8, 9>>,
                             <<2 * d[1], 3 * d[2], d[3]>>, <<d[1], 2 * d[2] - 1, 4 * d[3]>>}}
\* shifts more negative than the extent: C++ % yields a negative coordinate (outside the claimed domain, recorded only)
ShiftNegOf(d)   == {ViewCase("shift<-ext", ShiftE(s, Leaf(d, 0, "ext")), ShiftView(FillArr(d, 0), s)) :
                       s \in {<<-d[1] - 1, 0, 0>>, <<0, -2 * d[2] - 1, 0>>, <<-1, -1, -3 * d[3] - 1>>}}
SubCasesOf(d)   == {ViewCase("sub", SubE(b[1], b[2], Leaf(d, 0, "set")), SubView(FillArr(d, 0), b[1], b[2])) : b \in Boxes(d)}
AccTypes == {"u8", "i16", "f32", "f64", "i32"}
AccCasesOf(d)   == {ViewCase("acc", AccE(t, Leaf(d, 0, f)), AccView(FillArr(d, 0))) : t \in AccTypes, f \in Fills}
\* n slices of size (d1, d2, d3): only their z = 0 plane is named
SliceLeaves(d, n) == [j \in 1..n |-> Leaf(d, 40 * (j - 1), IF j % 2 = 1 THEN "set" ELSE "ext")]
\* (for slices thicker than one plane the statement says nothing about numElements():
\*  the code counts whole slices there; vn = -1 means "not constrained": the orchestrator drops the field)
SliceCasesOf(d)  == {LET V == SliceView([j \in 1..n |-> LeafArr(SliceLeaves(d, n)[j])])
                         e == SlicesE(SliceLeaves(d, n)) IN
                     IF d[3] = 1 THEN ViewCase("slices", e, V)
                     ELSE LET P == OutProbes(e)  R == OutRegions(e) IN
                          [a |-> "View", cls |-> "slices(thick)", arg |-> OutArgOf(e, P, R),
                           exp |-> [vsize |-> V.size, vn |-> -1, table |-> V.val, vrange |-> RangeAll(V)] @@ OutExpOf(e, P, R)] : n \in 1..NSlices}

\* compositions of two adaptors
SmallShifts == {-1, 0, 1} \X {-1, 0, 1} \X {-1, 0, 1}
Comp1(d) == {ViewCase("shift.sub", ShiftE(s, SubE(b[1], b[2], Leaf(d, 0, "ext"))), ShiftView(SubView(FillArr(d, 0), b[1], b[2]), s)) :
                s \in SmallShifts, b \in Boxes(d)}
Comp2(d) == {ViewCase("sub.shift", SubE(b[1], b[2], ShiftE(s, Leaf(d, 0, "ext"))), SubView(ShiftView(FillArr(d, 0), s), b[1], b[2])) :
                s \in SmallShifts, b \in Boxes(d)}
Comp3Of(d) == UNION {{ViewCase("sub.sub", SubE(c[1], c[2], SubE(b[1], b[2], Leaf(d, 0, "set"))), SubView(SubView(FillArr(d, 0), b[1], b[2]), c[1], c[2])) :
                c \in Boxes(Minus(b[2], b[1]))} : b \in Boxes(d)}
Comp4(d) == {ViewCase("shift.shift", ShiftE(t, ShiftE(s, Leaf(d, 0, "set"))), ShiftView(ShiftView(FillArr(d, 0), s), t)) :
                s \in Shifts(d, 1), t \in {<<1, 0, -1>>, <<-1, 1, 0>>}}
\* MultiSlice over the planes of one array (sub-box views), in any order with repetition
PlaneE(l, p)  == SubE(<<0, 0, p>>, <<l.d[1], l.d[2], p + 1>>, l)
Comp5(d) == {ViewCase("slices.sub", SlicesE([j \in 1..Len(ps) |-> PlaneE(Leaf(d, 0, "ext"), ps[j])]),
                      SliceView([j \in 1..Len(ps) |-> PlaneOf(FillArr(d, 0), ps[j])])) :
                ps \in UNION {[1..n -> 0..(d[3] - 1)] : n \in 1..NSlices}}
Comp6(d) == {ViewCase("acc.shift", AccE("f32", ShiftE(s, Leaf(d, 0, "set"))), AccView(ShiftView(FillArr(d, 0), s))) : s \in Shifts(d, 1)}
Comp7(d) == {ViewCase("shift.slices", ShiftE(s, SlicesE(SliceLeaves(<<d[1], d[2], 1>>, d[3]))),
                      ShiftView(SliceView([j \in 1..d[3] |-> LeafArr(SliceLeaves(<<d[1], d[2], 1>>, d[3])[j])]), s)) : s \in Shifts(d, 1)}


-------------------------------------------------------------------------------
\* NUMERIC BOUNDARIES: an axis of 255 / 256 / 257 cells; shifts, clip boxes and slice counts around them
\* (a coordinate, a shift or a slice index kept in 8 bits somewhere would show).  Values injective up to 1021 cells.
WideValue(k) == (((k - 1) * 37 + 11) % 1021) + 1
WideArr(d)   == [size |-> d, val |-> [k \in 1..Total3(d) |-> WideValue(k)]]
WideLeaf(d, fill) == [k |-> "actual", d |-> d, fill |-> fill, mem |-> WideArr(d).val,
                      cells |-> [i \in 1..Total3(d) |-> <<CoordsOf(Total3(d) - i, d), WideArr(d).val[Total3(d) - i + 1]>>]]
\* probes for wide views: per axis the marks around 0 and around the size and 254..258
WideMarks(n) == {-2, -1, 0, 1, 127, 128, 254, 255, 256, 257, 258, n - 1, n, n + 1}
WideProbes(e) == LET d == SizeE(e) IN
                 SetToSeq({c \in ({v \in WideMarks(d[1]) : v <= d[1] + 1} \X {v \in WideMarks(d[2]) : v <= d[2] + 1} \X {v \in WideMarks(d[3]) : v <= d[3] + 1}) : DefinedE(e, c)})
WideCase(cls, e, V) == LET P == WideProbes(e)  R == OutRegions(e) IN
                       [a |-> "View", cls |-> cls, arg |-> OutArgOf(e, P, R), exp |-> ViewExp(V) @@ OutExpOf(e, P, R)]
AxisVec(i, v) == [j \in 1..3 |-> IF j = i THEN v ELSE 0]
WideDims == {<<257, 1, 2>>, <<1, 256, 1>>, <<2, 1, 257>>, <<255, 2, 1>>}
WideAxis(d) == CHOOSE i \in 1..3 : d[i] >= 255
WideShiftCases == UNION {{WideCase("shift(wide)", ShiftE(AxisVec(WideAxis(d), v), WideLeaf(d, "ext")), ShiftView(WideArr(d), AxisVec(WideAxis(d), v))) :
                            v \in {127, 128, 129, 254, 255, 256, 257, 258, 511, 512, 513, 514, -1, -127, -128, -129, -254, -255, -256, -257} \cap ((-d[WideAxis(d)])..600)} : d \in WideDims}
WideSubCases == UNION {{LET i == WideAxis(d)
                            lo == AxisVec(i, b[1])
                            hi == [j \in 1..3 |-> IF j = i THEN b[2] ELSE d[j]] IN
                        WideCase("sub(wide)", SubE(lo, hi, WideLeaf(d, "set")), SubView(WideArr(d), lo, hi)) :
                            b \in {bb \in {<<0, 255>>, <<0, 256>>, <<1, 257>>, <<127, 129>>, <<128, 256>>, <<254, 255>>, <<255, 256>>, <<255, 257>>, <<256, 257>>, <<129, 255>>} : bb[2] <= d[WideAxis(d)]}} : d \in WideDims}
\* MultiSlice with 255 / 256 / 257 slices (each 2 x 1 x 1, distinct values)
ManyLeaves(n) == [j \in 1..n |-> [k |-> "actual", d |-> <<2, 1, 1>>, fill |-> IF j % 2 = 1 THEN "ext" ELSE "set",
                                   mem |-> <<WideValue(2 * j - 1), WideValue(2 * j)>>,
                                   cells |-> << <<<<1, 0, 0>>, WideValue(2 * j)>>, <<<<0, 0, 0>>, WideValue(2 * j - 1)>> >>]]
WideSliceCases == {WideCase("slices(wide)", SlicesE(ManyLeaves(n)), SliceView([j \in 1..n |-> LeafArr(ManyLeaves(n)[j])])) : n \in {127, 128, 129, 255, 256, 257}}

\* VALUE CLASSES: element values at the ends of each element type (sign, 0x80 bytes, INT_MIN / INT_MAX, floats that are
\* exact integers), read through Array3DAccessor<T, int>, through a shift, and bounded by getValueRange
IMAX   == 2147483647
IMIN   == -2147483647 - 1
ValuesOf(t) == CASE t = "u8"  -> <<0, 1, 127, 128, 200, 255, 129, 254>>
                 [] t = "i8"  -> <<-128, -1, 0, 127, -127, 1, 100, -100>>
                 [] t = "i16" -> <<-32768, -1, 0, 32767, -32767, 255, 256, -256>>
                 [] t = "u16" -> <<0, 255, 256, 32767, 32768, 65535, 65534, 1>>
                 [] t = "i32" -> <<IMIN, -1, 0, IMAX, -IMAX, 65536, -65536, 1>>
                 [] t = "i64" -> <<IMIN, -2, 0, IMAX, -IMAX, 65537, -65537, 2>>
                 [] t = "f32" -> <<-16777216, -3, 0, 16777216, -1, 1, 255, -65536>>
                 [] t = "f64" -> <<IMIN, IMAX, 0, -1, 1, 16777217, -16777217, 3>>
ValueTypes == {"u8", "i8", "i16", "u16", "i32", "i64", "f32", "f64"}
ValArr(t, d)  == [size |-> d, val |-> ValuesOf(t)]
ValLeaf(t, d, fill) == [k |-> "actual", d |-> d, fill |-> fill, mem |-> ValuesOf(t),
                        cells |-> [i \in 1..8 |-> <<CoordsOf(8 - i, d), ValuesOf(t)[8 - i + 1]>>]]
ValDims == {<<2, 2, 2>>, <<8, 1, 1>>, <<1, 4, 2>>}
ValueCases == {ViewCase("acc(values)", AccE(t, ValLeaf(t, d, f)), AccView(ValArr(t, d))) : t \in ValueTypes, d \in ValDims, f \in Fills}
              \cup {ViewCase("acc.shift(values)", AccE(t, ShiftE(<<1, 0, 1>>, ValLeaf("i32", d, "ext") )), AccView(ShiftView(ValArr("i32", d), <<1, 0, 1>>))) : t \in {"i32", "i64", "f64"}, d \in ValDims}
              \cup {ViewCase("sub(values)", SubE(<<0, 0, 0>>, d, ValLeaf("i32", d, f)), ValArr("i32", d)) : d \in ValDims, f \in Fills}
ValueRangeCases == {LET l == ValLeaf("i32", d, "set")  R == NonEmpty(d) IN
                    [a |-> "Ranges", cls |-> "non-empty(values)", arg |-> [e |-> l, regions |-> R],
                     exp |-> [ranges |-> [i \in 1..Len(R) |-> RangeOf(ValArr("i32", d), R[i][1], R[i][2])]]] : d \in ValDims}

\* (Arrays with an extent of 0 are not emitted: whether an ActualArray3D without cells can be constructed is nothing
\*  the statement talks about; empty extents are covered for the index maps, empty boxes for for_each.)

\* outside the statement, recorded only: Array3DRepeater
RepeatE(rs, e) == [k |-> "repeat", size |-> rs, of |-> e]
RepeatSizes(d) == {d, <<2 * d[1], d[2], d[3]>>, <<2 * d[1] + 1, 3 * d[2], d[3] + 1>>}
RepeatCasesOf(d) == {[a |-> "View", cls |-> "repeat", arg |-> [e |-> RepeatE(rs, Leaf(d, 0, "set"))],
                      exp |-> [vsize |-> rs, table |-> RepeatView(FillArr(d, 0), rs).val]] : rs \in RepeatSizes(d)}
RepeatClampOf(d) == {[a |-> "View", cls |-> "repeat-as-clamp", arg |-> [e |-> RepeatE(rs, Leaf(d, 0, "set"))],
                      exp |-> [vsize |-> rs, table |-> ClampView(FillArr(d, 0), rs).val]] : rs \in RepeatSizes(d)}
ASSUME \A d \in E3 : RepeatView(FillArr(d, 0), d) = FillArr(d, 0)

\* the general definition (GetE) agrees with the table operators inside the size, for every emitted case
Consistent(S) == \A c \in S : (c.a = "View" /\ c.cls \notin {"repeat", "repeat-as-clamp"}) => TableE(c.arg.e).val = c.exp.table
Out(name, S) == Consistent(S) /\ ndJsonSerialize(IOEnv.OUT \o "-" \o name, SetToSeq(S))

ASSUME Out("actual", {ActualCase(d, f) : d \in E3, f \in Fills})
ASSUME Out("ranges", {RangeCase(d, f) : d \in E3, f \in Fills})
ASSUME Out("ranges-empty", {EmptyRangeCase(d) : d \in E3})
ASSUME Out("shift", UNION {ShiftCasesOf(d) : d \in E3})
ASSUME Out("shiftfar", UNION {ShiftFarOf(d) : d \in E3})
ASSUME Out("shiftneg", UNION {ShiftNegOf(d) : d \in E3})
ASSUME Out("sub", UNION {SubCasesOf(d) : d \in E3})
ASSUME Out("acc", UNION {AccCasesOf(d) : d \in E3})
ASSUME Out("slices", UNION {SliceCasesOf(d) : d \in E3})
ASSUME Out("wide-shift", WideShiftCases)
ASSUME Out("wide-sub", WideSubCases)
ASSUME Out("wide-slices", WideSliceCases)
ASSUME Out("values", ValueCases)
ASSUME Out("values-ranges", ValueRangeCases)
ASSUME \A t \in ValueTypes : Len(ValuesOf(t)) = 8
ASSUME Out("repeat", UNION {RepeatCasesOf(d) : d \in E3})
ASSUME Out("repeat-clamp", UNION {RepeatClampOf(d) : d \in E3})
ASSUME Out("comp1", UNION {Comp1(d) : d \in CompExts})
ASSUME Out("comp2", UNION {Comp2(d) : d \in CompExts})
ASSUME Out("comp3", UNION {Comp3Of(d) : d \in CompExts})
ASSUME Out("comp4", UNION {Comp4(d) : d \in CompExts})
ASSUME Out("comp5", UNION {Comp5(d) : d \in CompExts})
ASSUME Out("comp6", UNION {Comp6(d) : d \in CompExts})
ASSUME Out("comp7", UNION {Comp7(d) : d \in CompExts})

\* the fill values are distinct (so that a wrong cell is always a wrong value)
ASSUME \A d \in E3 : Cardinality({FillArr(d, 0).val[k] : k \in 1..Total3(d)}) = Total3(d)

CompQuick    == {<<3, 2, 2>>}
CompThorough == {<<3, 2, 2>>, <<2, 3, 1>>, <<1, 2, 3>>, <<2, 2, 3>>}

VARIABLE x
Init == x = 0
Next == UNCHANGED x
===============================================================================
