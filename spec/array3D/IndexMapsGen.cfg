INIT Init
NEXT Next
CONSTANTS
  BS = 4
  FNEG = 0
  FHI = 3
CHECK_DEADLOCK FALSE
