INIT Init
NEXT Next
CONSTANTS
  BS = 4
  FLO = 0
  FHI = 3
CHECK_DEADLOCK FALSE
