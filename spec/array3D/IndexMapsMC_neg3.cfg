SPECIFICATION Spec
CONSTANTS
  BM = 3
  BR = 0
INVARIANTS NegPreIncValueOld
CHECK_DEADLOCK FALSE
