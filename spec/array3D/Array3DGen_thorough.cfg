SPECIFICATION Spec
CONSTANTS
  Exts <- GenExtsThorough
  Vals = {0, 1}
  Margin = 1
  MaxSlices = 3
  Sparse = TRUE
INVARIANTS TypeOK LastAgrees
