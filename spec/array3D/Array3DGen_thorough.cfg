SPECIFICATION Spec
CONSTANTS
  Exts <- GenExtsThorough
  Vals = {1, 2}
  Margin = 1
  MaxSlices = 3
  Sparse = TRUE
INVARIANTS TypeOK LastAgrees
