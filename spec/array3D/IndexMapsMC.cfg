SPECIFICATION Spec
CONSTANTS
  BM = 4
  BR = 3
INVARIANTS MapLaws2 MapLaws3 RegionLaws
CHECK_DEADLOCK FALSE
