SPECIFICATION Spec
CONSTANTS
  BM = 3
  BR = 0
INVARIANTS NegTransposedIsRank
CHECK_DEADLOCK FALSE
