SPECIFICATION SpecMut
CONSTANTS
  Exts <- MCExts
  Vals = {1, 2}
  Margin = 2
  MaxSlices = 2
  Sparse = FALSE
INVARIANTS NegSliceWrap
VIEW LawsView
