----------------------------- MODULE IndexMapsTrace -----------------------------
(* Code -> spec for the index maps: the driver evaluated, for seeded random      *)
(* extents beyond the exhaustively enumerated ones, the complete tables of       *)
(* flatten / reshape / longIndex / coordsOf and the complete iteration and       *)
(* for_each sequences of the real code; each recorded line is accepted iff the   *)
(* OBSERVED tables satisfy the clauses of property C17 (stated on the            *)
(* observations themselves: a bijection onto 0..total-1, mutually inverse,       *)
(* every coordinate exactly once in increasing observed flat index) and agree    *)
(* with the definitions of IndexMaps.                                            *)
EXTENDS IndexMaps, Json, IOUtils, TLCExt, TLC

VARIABLE l
TraceLines == ndJsonDeserialize(IOEnv.TRACE)
N == Len(TraceLines)
Line == TraceLines[l]

Pos(seq, v) == CHOOSE k \in 1..Len(seq) : seq[k] = v
Range(seq)  == {seq[k] : k \in 1..Len(seq)}

\* the clauses of the property on observed tables: coords[k] |-> fl[k], idxs[k] |-> rs[k]
ObservedBijection(C, total, coords, fl, idxs, rs) ==
  /\ Len(fl) = Len(coords) /\ Len(rs) = Len(idxs)
  /\ Range(coords) = C /\ Range(idxs) = 0..(total - 1)            \* the tables are complete
  /\ Range(fl) = 0..(total - 1) /\ Len(fl) = total                  \* flatten: bijection onto 0..total-1
  /\ Range(rs) = C /\ Len(rs) = total                               \* reshape: bijection onto the extent
  /\ \A k \in 1..Len(coords) : rs[Pos(idxs, fl[k])] = coords[k]    \* reshape(flatten(c)) = c
  /\ \A k \in 1..Len(idxs) : fl[Pos(coords, rs[k])] = idxs[k]      \* flatten(reshape(i)) = i
ObservedIteration(C, coords, fl, it) ==
  /\ ExactlyOnce(it, C)
  /\ \A k \in 1..Len(it) : fl[Pos(coords, it[k])] = k - 1          \* k-th visited has observed flat index k-1

\* every way of writing the loop (random extents are non-empty)
WalksOK(d, o) ==
  LET b == ItBegin(d)  e == ItEnd(d)  n == TotalOf(d) IN
  /\ o.walk_range_for = WalkFor(b, e) /\ o.walk_for_pre = WalkFor(b, e) /\ o.walk_std_for_each = WalkFor(b, e)
  /\ o.walk_for_post = WalkForPost(b, e)
  /\ o.walk_while_pre = WalkWhilePre(b, e) /\ o.walk_do_while_pre = WalkDoWhile(b, e) /\ o.walk_deref_preinc = WalkDerefPre(b, n - 1)
  /\ o.preinc_equals_it = PreIncEqualsIt(b, n) /\ o.preinc_value_index = PreIncValueIndex(b, n)
  /\ o.begin_is_end = ItEq(b, e) /\ o.begin_ne_end = ItNe(b, e)
  \* stated on the observations: each complete style visits every coordinate exactly once, the ++it-first styles all but the first
  /\ ExactlyOnce(o.walk_do_while_pre, Range(o.iter)) /\ o.walk_while_pre = Tail(o.iter) /\ o.walk_deref_preinc = Tail(o.iter)

Seq2OK(a, o) ==
  LET d == a.d IN
  /\ o.total = Total2(d) /\ o.dims = d
  /\ ObservedBijection(Coords2(d), Total2(d), a.coords, o.flatten, a.idxs, o.reshape)
  /\ ObservedIteration(Coords2(d), a.coords, o.flatten, o.iter)
  /\ o.iter_manual = o.iter /\ o.iter_index = [k \in 1..Total2(d) |-> k - 1]
  /\ \A k \in 1..Len(a.coords) : o.flatten[k] = Flatten2(d, a.coords[k])
  /\ \A k \in 1..Len(a.idxs) : o.reshape[k] = Reshape2(d, a.idxs[k])
  /\ o.iter = IterSeq2(d)
  /\ WalksOK(d, o)
Seq3OK(a, o) ==
  LET d == a.d IN
  /\ o.total = Total3(d) /\ o.dims = d
  /\ ObservedBijection(Coords3(d), Total3(d), a.coords, o.flatten, a.idxs, o.reshape)
  /\ ObservedIteration(Coords3(d), a.coords, o.flatten, o.iter)
  /\ o.iter_manual = o.iter /\ o.iter_index = [k \in 1..Total3(d) |-> k - 1]
  /\ \A k \in 1..Len(a.coords) : o.flatten[k] = Flatten3(d, a.coords[k])
  /\ \A k \in 1..Len(a.idxs) : o.reshape[k] = Reshape3(d, a.idxs[k])
  /\ o.iter = IterSeq3(d)
  /\ WalksOK(d, o)
Arr3OK(a, o) ==
  LET d == a.d IN
  /\ o.product = LongProduct(d)
  /\ ObservedBijection(Coords3(d), Total3(d), a.coords, o.index, a.idxs, o.coords)
  /\ ObservedIteration(Coords3(d), a.coords, o.index, o.each_size)
  /\ \A k \in 1..Len(a.coords) : o.index[k] = LongIndex(a.coords[k], d)
  /\ \A k \in 1..Len(a.idxs) : o.coords[k] = CoordsOf(a.idxs[k], d)
  /\ o.each_size = ForEachSeq(<<0, 0, 0>>, d)
ForEachOK(a, o) ==
  /\ ExactlyOnce(o.lohi, Region(a.lo, a.hi))
  /\ \A k \in 1..(Len(o.lohi) - 1) : Before3(o.lohi[k], o.lohi[k + 1])
  /\ o.lohi = ForEachSeq(a.lo, a.hi) /\ o.box = o.lohi /\ o.count = Len(o.lohi)

LineOK == \/ Line.a = "Seq2" /\ Seq2OK(Line.arg, Line.obs)
          \/ Line.a = "Seq3" /\ Seq3OK(Line.arg, Line.obs)
          \/ Line.a = "Arr3" /\ Arr3OK(Line.arg, Line.obs)
          \/ Line.a = "ForEach" /\ ForEachOK(Line.arg, Line.obs)
          \/ Line.a = "Reset"

TInit == l = 1
TNext == l <= N /\ LineOK /\ l' = l + 1
TSpec == TInit /\ [][TNext]_l

Accepted == TLCGet("stats").diameter - 1 = N
Post == IF Accepted THEN TRUE
        ELSE /\ PrintT(<<"TRACE-REJECTED-AT-LINE", TLCGet("stats").diameter, "OF", N>>)
             /\ FALSE
===============================================================================
