---------------------------- MODULE IndexMapsGen ----------------------------
(* Case generation for the drivers: for every extent of the bounded domain    *)
(* the complete tables of the maps (every coordinate -> index, every index -> *)
(* coordinate), the complete iteration sequence, and for every region the     *)
(* complete for_each sequence, as {a, arg, cls, exp} records (ndjson).  Every *)
(* expected value is evaluated by TLC from the definitions of IndexMaps.      *)
(* Coordinates are handed to the driver in an order that differs from the     *)
(* flattened one (last coordinate fastest), so an expected table is never     *)
(* just 0, 1, 2, ...                                                          *)
EXTENDS IndexMaps, TLC, Json, IOUtils, SequencesExt

CONSTANTS BS,    \* extents 0..BS per axis for the tables of the maps
          FNEG,  \* for_each: region bounds range from -FNEG ...
          FHI    \* for_each: highest value of a region bound

Class(n) == IF n = 0 THEN "empty" ELSE IF n = 1 THEN "single" ELSE "many"

\* enumeration of the coordinates with the LAST coordinate fastest
In2(d) == [k \in 1..Total2(d) |-> <<(k - 1) \div d[2], (k - 1) % d[2]>>]
In3(d) == [k \in 1..Total3(d) |-> <<(k - 1) \div (d[2] * d[3]), ((k - 1) \div d[3]) % d[2], (k - 1) % d[3]>>]
Idx(n) == [k \in 1..n |-> n - k]            \* indices, descending

\* every way of writing the loop over the iterators (IndexMaps: WalkFor ... PreIncValueIndex); the styles that begin
\* with ++it are only run on non-empty sequences (arg.nonempty), their expectation is empty otherwise
WalkExp(d) ==
  LET b == ItBegin(d)  e == ItEnd(d)  n == TotalOf(d) IN
  [walk_range_for |-> WalkFor(b, e), walk_for_pre |-> WalkFor(b, e), walk_std_for_each |-> WalkFor(b, e),
   walk_for_post |-> WalkForPost(b, e),
   walk_while_pre |-> IF n >= 1 THEN WalkWhilePre(b, e) ELSE <<>>,
   walk_do_while_pre |-> IF n >= 1 THEN WalkDoWhile(b, e) ELSE <<>>,
   walk_deref_preinc |-> IF n >= 1 THEN WalkDerefPre(b, n - 1) ELSE <<>>,
   preinc_equals_it |-> PreIncEqualsIt(b, n), preinc_value_index |-> PreIncValueIndex(b, n),
   begin_is_end |-> ItEq(b, e), begin_ne_end |-> ItNe(b, e)]
\* the VALUE of the postfix increment (kept in cases of their own: see c17.py)
PostExp(d) ==
  LET b == ItBegin(d)  e == ItEnd(d)  n == TotalOf(d) IN
  [walk_deref_postinc |-> WalkDerefPost(b, e), postinc_value_is_old |-> PostIncValueIsOld(b, n), postinc_value_index |-> PostIncValueIndex(b, n)]
IterPostCase(d) == [a |-> IF Len(d) = 2 THEN "IterPost2" ELSE "IterPost3", cls |-> Class(TotalOf(d)), arg |-> [d |-> d], exp |-> PostExp(d)]

Seq2Case(d) ==
  [a |-> "Seq2", cls |-> Class(Total2(d)),
   arg |-> [d |-> d, coords |-> In2(d), idxs |-> Idx(Total2(d)), nonempty |-> (Total2(d) >= 1)],
   exp |-> [total |-> Total2(d), dims |-> d,
            flatten |-> [k \in 1..Total2(d) |-> Flatten2(d, In2(d)[k])],
            reshape |-> [k \in 1..Total2(d) |-> Reshape2(d, Idx(Total2(d))[k])],
            iter |-> IterSeq2(d), iter_manual |-> IterSeq2(d),
            iter_index |-> [k \in 1..Total2(d) |-> k - 1]] @@ WalkExp(d)]

Seq3Case(d) ==
  [a |-> "Seq3", cls |-> Class(Total3(d)),
   arg |-> [d |-> d, coords |-> In3(d), idxs |-> Idx(Total3(d)), nonempty |-> (Total3(d) >= 1)],
   exp |-> [total |-> Total3(d), dims |-> d,
            flatten |-> [k \in 1..Total3(d) |-> Flatten3(d, In3(d)[k])],
            reshape |-> [k \in 1..Total3(d) |-> Reshape3(d, Idx(Total3(d))[k])],
            iter |-> IterSeq3(d), iter_manual |-> IterSeq3(d),
            iter_index |-> [k \in 1..Total3(d) |-> k - 1]] @@ WalkExp(d)]

Arr3Case(d) ==
  [a |-> "Arr3", cls |-> Class(Total3(d)),
   arg |-> [d |-> d, coords |-> In3(d), idxs |-> Idx(Total3(d))],
   exp |-> [product |-> LongProduct(d),
            index |-> [k \in 1..Total3(d) |-> LongIndex(In3(d)[k], d)],
            coords |-> [k \in 1..Total3(d) |-> CoordsOf(Idx(Total3(d))[k], d)],
            each_size |-> ForEachSeq(<<0, 0, 0>>, d)]]

ForEachCase(lo, hi) ==
  LET s == ForEachSeq(lo, hi) IN
  [a |-> "ForEach", cls |-> Class(Len(s)),
   arg |-> [lo |-> lo, hi |-> hi],
   exp |-> [lohi |-> s, box |-> s, count |-> Len(s)]]

E2 == (0..BS) \X (0..BS)
E3 == (0..BS) \X (0..BS) \X (0..BS)
F3 == ((-FNEG)..FHI) \X ((-FNEG)..FHI) \X ((-FNEG)..FHI)

\* complete tables for extents with an axis around a power of two (coordinates kept in 8 / 16 bits would show here)
XE2 == {<<257, 2>>, <<2, 257>>, <<256, 3>>, <<129, 2>>, <<1, 513>>}
XE3 == {<<257, 2, 1>>, <<1, 2, 257>>, <<2, 129, 2>>, <<128, 1, 3>>, <<3, 256, 1>>}
\* for_each regions with bounds around powers of two and at the ends of int
IMAX == 2147483647
FB == { << <<254, 0, 65535>>, <<258, 1, 65537>> >>, << <<127, 255, 0>>, <<129, 257, 2>> >>, << <<0, 32767, 4095>>, <<1, 32769, 4097>> >>,
        << <<IMAX - 2, -IMAX, 0>>, <<IMAX, -IMAX + 2, 1>> >>, << <<-IMAX, IMAX - 1, -1>>, <<-IMAX + 1, IMAX, 1>> >>,
        << <<IMAX, 0, 0>>, <<IMAX, 1, 1>> >>, << <<IMAX - 1, IMAX - 1, IMAX - 1>>, <<IMAX, IMAX, IMAX>> >>,
        << <<-IMAX, -IMAX, -IMAX>>, <<-IMAX + 1, -IMAX + 2, -IMAX + 1>> >>, << <<0, 0, 0>>, <<300, 1, 1>> >>, << <<0, 0, 0>>, <<1, 1, 300>> >>,
        << <<-2, -2, -2>>, <<2, 2, 2>> >>, << <<-IMAX, -1, 0>>, <<-IMAX + 2, 1, 2>> >>, << <<-3, IMAX - 1, -1>>, <<1, IMAX, 0>> >> }

\* two sequences / two extents used ALTERNATELY by one thread (a cache of the last extent inside the code would show):
\* the driver advances two iterators in turn and alternates flatten / reshape / longIndex / coordsOf between them
IL == { << <<2, 3, 2>>, <<3, 2, 4>> >>, << <<4, 1, 2>>, <<1, 4, 3>> >>, << <<1, 1, 5>>, <<5, 1, 1>> >>, << <<3, 3, 1>>, <<3, 3, 2>> >>, << <<3, 2, 2>>, <<3, 4, 2>> >>, << <<2, 6, 1>>, <<4, 3, 2>> >> }
InterleaveCase(d, e) ==
  [a |-> "Interleave3", cls |-> "", arg |-> [d |-> d, e |-> e, coords_d |-> In3(d), coords_e |-> In3(e)],
   exp |-> [iter_d |-> IterSeq3(d), iter_e |-> IterSeq3(e),
            flatten_d |-> [k \in 1..Total3(d) |-> Flatten3(d, In3(d)[k])], flatten_e |-> [k \in 1..Total3(e) |-> Flatten3(e, In3(e)[k])],
            index_d |-> [k \in 1..Total3(d) |-> LongIndex(In3(d)[k], d)], index_e |-> [k \in 1..Total3(e) |-> LongIndex(In3(e)[k], e)],
            reshape_d |-> [k \in 1..Total3(d) |-> Reshape3(d, k - 1)], reshape_e |-> [k \in 1..Total3(e) |-> Reshape3(e, k - 1)],
            coords_d |-> [k \in 1..Total3(d) |-> CoordsOf(k - 1, d)], coords_e |-> [k \in 1..Total3(e) |-> CoordsOf(k - 1, e)]]]

Cases2  == {Seq2Case(d) : d \in E2 \cup XE2}
Cases3  == {Seq3Case(d) : d \in E3 \cup XE3}
CasesA  == {Arr3Case(d) : d \in E3 \cup XE3}
CasesF  == {ForEachCase(lo, hi) : lo \in F3, hi \in F3} \cup {ForEachCase(b[1], b[2]) : b \in FB}
CasesI  == {InterleaveCase(p[1], p[2]) : p \in IL} \cup {InterleaveCase(p[2], p[1]) : p \in IL}
ASSUME \A b \in FB : LET q == ForEachSeq(b[1], b[2]) IN ExactlyOnce(q, Region(b[1], b[2])) /\ \A k \in 1..(Len(q) - 1) : Before3(q[k], q[k + 1])

ASSUME ndJsonSerialize(IOEnv.OUT \o "-seq2", SetToSeq(Cases2))
ASSUME ndJsonSerialize(IOEnv.OUT \o "-seq3", SetToSeq(Cases3))
ASSUME ndJsonSerialize(IOEnv.OUT \o "-arr3", SetToSeq(CasesA))
ASSUME ndJsonSerialize(IOEnv.OUT \o "-foreach", SetToSeq(CasesF))
ASSUME ndJsonSerialize(IOEnv.OUT \o "-interleave", SetToSeq(CasesI))
ASSUME ndJsonSerialize(IOEnv.OUT \o "-iterpost", SetToSeq({IterPostCase(d) : d \in E2 \cup E3}))
ASSUME PrintT(<<"cases", Cardinality(Cases2), Cardinality(Cases3), Cardinality(CasesA), Cardinality(CasesF)>>)

VARIABLE x
Init == x = 0
Next == UNCHANGED x
=============================================================================
