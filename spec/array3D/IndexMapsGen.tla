---------------------------- MODULE IndexMapsGen ----------------------------
(* Case generation for the drivers: for every extent of the bounded domain    *)
(* the complete tables of the maps (every coordinate -> index, every index -> *)
(* coordinate), the complete iteration sequence, and for every region the     *)
(* complete for_each sequence, as {a, arg, cls, exp} records (ndjson).  Every *)
(* expected value is evaluated by TLC from the definitions of IndexMaps.      *)
(* Coordinates are handed to the driver in an order that differs from the     *)
(* flattened one (last coordinate fastest), so an expected table is never     *)
(* just 0, 1, 2, ...                                                          *)
EXTENDS IndexMaps, TLC, Json, IOUtils, SequencesExt

CONSTANTS BS,    \* extents 0..BS per axis for the tables of the maps
          FNEG,  \* for_each: region bounds range from -FNEG ...
          FHI    \* for_each: highest value of a region bound

Class(n) == IF n = 0 THEN "empty" ELSE IF n = 1 THEN "single" ELSE "many"

\* enumeration of the coordinates with the LAST coordinate fastest
In2(d) == [k \in 1..Total2(d) |-> <<(k - 1) \div d[2], (k - 1) % d[2]>>]
In3(d) == [k \in 1..Total3(d) |-> <<(k - 1) \div (d[2] * d[3]), ((k - 1) \div d[3]) % d[2], (k - 1) % d[3]>>]
Idx(n) == [k \in 1..n |-> n - k]            \* indices, descending

Seq2Case(d) ==
  [a |-> "Seq2", cls |-> Class(Total2(d)),
   arg |-> [d |-> d, coords |-> In2(d), idxs |-> Idx(Total2(d))],
   exp |-> [total |-> Total2(d), dims |-> d,
            flatten |-> [k \in 1..Total2(d) |-> Flatten2(d, In2(d)[k])],
            reshape |-> [k \in 1..Total2(d) |-> Reshape2(d, Idx(Total2(d))[k])],
            iter |-> IterSeq2(d), iter_manual |-> IterSeq2(d),
            iter_index |-> [k \in 1..Total2(d) |-> k - 1]]]

Seq3Case(d) ==
  [a |-> "Seq3", cls |-> Class(Total3(d)),
   arg |-> [d |-> d, coords |-> In3(d), idxs |-> Idx(Total3(d))],
   exp |-> [total |-> Total3(d), dims |-> d,
            flatten |-> [k \in 1..Total3(d) |-> Flatten3(d, In3(d)[k])],
            reshape |-> [k \in 1..Total3(d) |-> Reshape3(d, Idx(Total3(d))[k])],
            iter |-> IterSeq3(d), iter_manual |-> IterSeq3(d),
            iter_index |-> [k \in 1..Total3(d) |-> k - 1]]]

Arr3Case(d) ==
  [a |-> "Arr3", cls |-> Class(Total3(d)),
   arg |-> [d |-> d, coords |-> In3(d), idxs |-> Idx(Total3(d))],
   exp |-> [product |-> LongProduct(d),
            index |-> [k \in 1..Total3(d) |-> LongIndex(In3(d)[k], d)],
            coords |-> [k \in 1..Total3(d) |-> CoordsOf(Idx(Total3(d))[k], d)],
            each_size |-> ForEachSeq(<<0, 0, 0>>, d)]]

ForEachCase(lo, hi) ==
  LET s == ForEachSeq(lo, hi) IN
  [a |-> "ForEach", cls |-> Class(Len(s)),
   arg |-> [lo |-> lo, hi |-> hi],
   exp |-> [lohi |-> s, box |-> s, count |-> Len(s)]]

E2 == (0..BS) \X (0..BS)
E3 == (0..BS) \X (0..BS) \X (0..BS)
F3 == ((-FNEG)..FHI) \X ((-FNEG)..FHI) \X ((-FNEG)..FHI)

Cases2  == {Seq2Case(d) : d \in E2}
Cases3  == {Seq3Case(d) : d \in E3}
CasesA  == {Arr3Case(d) : d \in E3}
CasesF  == {ForEachCase(lo, hi) : lo \in F3, hi \in F3}

ASSUME ndJsonSerialize(IOEnv.OUT \o "-seq2", SetToSeq(Cases2))
ASSUME ndJsonSerialize(IOEnv.OUT \o "-seq3", SetToSeq(Cases3))
ASSUME ndJsonSerialize(IOEnv.OUT \o "-arr3", SetToSeq(CasesA))
ASSUME ndJsonSerialize(IOEnv.OUT \o "-foreach", SetToSeq(CasesF))
ASSUME PrintT(<<"cases", Cardinality(Cases2), Cardinality(Cases3), Cardinality(CasesA), Cardinality(CasesF)>>)

VARIABLE x
Init == x = 0
Next == UNCHANGED x
=============================================================================
