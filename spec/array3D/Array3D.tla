-------------------------------- MODULE Array3D --------------------------------
(* State machine of one rkcommon::array3D::ActualArray3D<int> together with    *)
(* adaptor views of it (property C17): "An ActualArray3D returns from get(c)   *)
(* the value last set at c (clamping coordinates outside the extent), and the  *)
(* shifted, sub-box, accessor and multi-slice adaptors return exactly the      *)
(* value of the underlying cell their definition names; getValueRange bounds   *)
(* every value in the region tightly."                                         *)
(*                                                                             *)
(* State: arr (denotation of the array, see Array3DOps) and made (constructed  *)
(* yet?).  New constructs the array either on its own memory (the driver then  *)
(* calls clear(OwnInit), so that no indeterminate value is ever read) or on    *)
(* external memory the driver filled with ExtInit(k) in memory order - which   *)
(* also pins the layout: cell c lives at offset LongIndex(c, size).  The       *)
(* adaptor views are objects of the real code created once per parameter       *)
(* tuple and kept, so a later Set must be visible through them.                *)
(* Ghost `last` = action, arguments, class and the observables the contract    *)
(* constrains after the step.                                                  *)
EXTENDS Array3DOps, TLC

CONSTANTS Exts,     \* extents New may choose (set of <<x, y, z>>, all components >= 1)
          Vals,     \* values written by Set / Clear
          Margin,   \* Get probes coordinates from -Margin to size-1+Margin per axis
          MaxSlices,\* MultiSlice views are built from 1..MaxSlices planes of the array
          Sparse    \* TRUE: the reading steps of Next use a sample of their parameter sets (generation
                    \* instance: the ghost `last` makes the graph quadratic in the number of labels;
                    \* the complete parameter sets are covered by Array3DCases and by ViewLaws)

VARIABLES arr, made, extmem, last
vars == <<arr, made, extmem, last>>

OwnInit    == 0
ExtInit(k) == 100 + k          \* content of the external memory at offset k-1

\* what every step is compared on: size, numElements, get at every cell, and - for an array on external
\* memory - the raw content of that memory (cell c lives at offset LongIndex(c, size), nothing else is touched)
Proj2(A, x) == [size |-> A.size, n |-> NumElements(A), dump |-> A.val, mem |-> IF x THEN A.val ELSE <<>>]
NoArr   == [size |-> <<0, 0, 0>>, val |-> <<>>]

Init == arr = NoArr /\ made = FALSE /\ extmem = FALSE /\ last = [a |-> "Init", arg |-> <<>>, cls |-> "", exp |-> Proj2(NoArr, FALSE)]

TypeOK == /\ made \in BOOLEAN /\ extmem \in BOOLEAN
          /\ IsArray(arr)
          /\ made => \A i \in 1..3 : arr.size[i] >= 1

Window(d) == ((-Margin)..(d[1] - 1 + Margin)) \X ((-Margin)..(d[2] - 1 + Margin)) \X ((-Margin)..(d[3] - 1 + Margin))

-------------------------------------------------------------------------------
New(d, mode) ==
  /\ ~made
  /\ made' = TRUE /\ extmem' = (mode = "ext")
  /\ arr' = [size |-> d, val |-> [k \in 1..Total3(d) |-> IF mode = "own" THEN OwnInit ELSE ExtInit(k)]]
  /\ last' = [a |-> "New", arg |-> [d |-> d, mode |-> mode, mem |-> arr'.val], cls |-> mode, exp |-> Proj2(arr', extmem')]

\* set(c, v), c inside the extent ("'where' MUST be a valid cell location")
Set(c, v) ==
  /\ made /\ c \in Coords3(arr.size)
  /\ arr' = WithCell(arr, c, v) /\ UNCHANGED <<made, extmem>>
  /\ last' = [a |-> "Set", arg |-> [c |-> c, v |-> v], cls |-> "", exp |-> Proj2(arr', extmem')]

Clear(v) ==
  /\ made
  /\ arr' = Filled(arr, v) /\ UNCHANGED <<made, extmem>>
  /\ last' = [a |-> "Clear", arg |-> [v |-> v], cls |-> "", exp |-> Proj2(arr', extmem')]

\* the user writes v into the external memory at offset o (0-based): it is the cell whose flat index is o
Poke(o, v) ==
  /\ made /\ extmem /\ o \in 0..(Len(arr.val) - 1)
  /\ arr' = [arr EXCEPT !.val[o + 1] = v] /\ UNCHANGED <<made, extmem>>
  /\ last' = [a |-> "Poke", arg |-> [o |-> o, v |-> v], cls |-> "", exp |-> Proj2(arr', extmem')]

\* get(c) for any coordinate: the value last set at the clamped coordinate
Get(c) ==
  /\ made
  /\ UNCHANGED <<arr, made, extmem>>
  /\ last' = [a |-> "Get", arg |-> [c |-> c], cls |-> IF c \in Coords3(arr.size) THEN "inside" ELSE "outside",
              exp |-> [v |-> ActualGet(arr, c)] @@ Proj2(arr, extmem)]

\* getValueRange(lo, hi) for a non-empty region inside the extent
Range(lo, hi) ==
  /\ made /\ InsideBox(arr.size, lo, hi)
  /\ UNCHANGED <<arr, made, extmem>>
  /\ last' = [a |-> "Range", arg |-> [lo |-> lo, hi |-> hi], cls |-> "non-empty",
              exp |-> [range |-> RangeOf(arr, lo, hi)] @@ Proj2(arr, extmem)]

\* getValueRange()
RangeWhole ==
  /\ made
  /\ UNCHANGED <<arr, made, extmem>>
  /\ last' = [a |-> "RangeWhole", arg |-> <<>>, cls |-> "", exp |-> [range |-> RangeAll(arr)] @@ Proj2(arr, extmem)]

\* the complete table of a view (get at every coordinate of the view's size, in flattened order)
\* and get at the given probe coordinates, which may lie outside the view's size (GetE of Array3DOps:
\* sub-box and accessor forward to the clamping array, MultiSlice clamps z, a shift wraps)
ViewExp(V) == [vsize |-> V.size, vn |-> NumElements(V), table |-> V.val, vrange |-> RangeAll(V)]
OutExp(e, P) == [outside |-> [i \in 1..Len(P) |-> GetE(e, P[i])]]
AllDefined(e, P) == \A i \in 1..Len(P) : Len(P[i]) = 3 /\ DefinedE(e, P[i])
SlicesOf(ps) == SlicesE([i \in 1..Len(ps) |-> SubE(<<0, 0, ps[i]>>, <<arr.size[1], arr.size[2], ps[i] + 1>>, ArrLeaf(arr))])

ViewShift(s, P) ==
  /\ made /\ ShiftClaimed(arr.size, s) /\ AllDefined(ShiftE(s, ArrLeaf(arr)), P)
  /\ UNCHANGED <<arr, made, extmem>>
  /\ last' = [a |-> "ViewShift", arg |-> [s |-> s, probes |-> P], cls |-> "",
              exp |-> ViewExp(ShiftView(arr, s)) @@ OutExp(ShiftE(s, ArrLeaf(arr)), P) @@ Proj2(arr, extmem)]

ViewSub(lo, hi, P) ==
  /\ made /\ InsideBox(arr.size, lo, hi) /\ AllDefined(SubE(lo, hi, ArrLeaf(arr)), P)
  /\ UNCHANGED <<arr, made, extmem>>
  /\ last' = [a |-> "ViewSub", arg |-> [lo |-> lo, hi |-> hi, probes |-> P], cls |-> "",
              exp |-> ViewExp(SubView(arr, lo, hi)) @@ OutExp(SubE(lo, hi, ArrLeaf(arr)), P) @@ Proj2(arr, extmem)]

ViewAcc(P) ==
  /\ made /\ AllDefined(AccE("f64", ArrLeaf(arr)), P)
  /\ UNCHANGED <<arr, made, extmem>>
  /\ last' = [a |-> "ViewAcc", arg |-> [probes |-> P], cls |-> "",
              exp |-> ViewExp(AccView(arr)) @@ OutExp(AccE("f64", ArrLeaf(arr)), P) @@ Proj2(arr, extmem)]

\* MultiSliceArray3D whose slices are the z-planes ps[1], ps[2], ... of the array (SubBox views)
ViewSlices(ps, P) ==
  /\ made /\ Len(ps) >= 1 /\ \A i \in 1..Len(ps) : ps[i] \in 0..(arr.size[3] - 1)
  /\ AllDefined(SlicesOf(ps), P)
  /\ UNCHANGED <<arr, made, extmem>>
  /\ last' = [a |-> "ViewSlices", arg |-> [ps |-> ps, probes |-> P], cls |-> "",
              exp |-> ViewExp(SliceView([i \in 1..Len(ps) |-> PlaneOf(arr, ps[i])])) @@ OutExp(SlicesOf(ps), P) @@ Proj2(arr, extmem)]

\* the probes Next uses: every coordinate from -Margin to size-1+Margin per axis that the view gives a meaning
\* (Sparse: only the coordinates with every component at an end of that range, or exactly one component
\*  outside and the others 0 - every sign combination, small enough for the ghost variable)
SparseProbe(d, c) == \/ \A i \in 1..3 : c[i] \in {-Margin, d[i] - 1 + Margin}
                     \/ \E i \in 1..3 : c[i] \in {-Margin, d[i] - 1 + Margin} /\ \A j \in (1..3) \ {i} : c[j] = 0
ProbeSeq(e) == SelectSeq(AroundSeq(SizeE(e), Margin),
                         LAMBDA c : DefinedE(e, c) /\ (Sparse => SparseProbe(SizeE(e), c)))

PlaneSeqs(d) == UNION {[1..n -> 0..(d[3] - 1)] : n \in 1..MaxSlices}
Corners(d)   == Coords3(d) \X Coords3(Plus(d, <<1, 1, 1>>))

NextMut ==
  \/ \E d \in Exts, mode \in {"own", "ext"} : New(d, mode)
  \/ \E c \in Coords3(arr.size), v \in Vals : Set(c, v)
  \/ \E v \in Vals : Clear(v)
  \/ \E o \in (IF Sparse THEN {0, Len(arr.val) - 1} ELSE 0..(Len(arr.val) - 1)), v \in Vals : Poke(o, v)
GetSet(d)   == IF Sparse THEN Coords3(d) \cup {c \in Window(d) : \A i \in 1..3 : c[i] \in {-Margin, d[i] - 1 + Margin}}
               ELSE Window(d)
ShiftSet(d) == IF Sparse THEN {Minus(<<0, 0, 0>>, d), d, <<1, 0, 0>>, <<0, 1, 0>>, <<0, 0, 1>>, <<-1, -1, -1>>}
               ELSE Shifts(d, 1)
SubSet(d)   == IF Sparse THEN {b \in Corners(d) : b[1] = <<0, 0, 0>> \/ b[2] = d} ELSE Corners(d)
NextRead ==
  \/ \E c \in GetSet(arr.size) : Get(c)
  \/ \E b \in Corners(arr.size) : Range(b[1], b[2])
  \/ \E b \in SubSet(arr.size) : InsideBox(arr.size, b[1], b[2]) /\ ViewSub(b[1], b[2], ProbeSeq(SubE(b[1], b[2], ArrLeaf(arr))))
  \/ RangeWhole \/ ViewAcc(ProbeSeq(AccE("f64", ArrLeaf(arr))))
  \/ \E s \in ShiftSet(arr.size) : ViewShift(s, ProbeSeq(ShiftE(s, ArrLeaf(arr))))
  \/ \E ps \in PlaneSeqs(arr.size) : ViewSlices(ps, ProbeSeq(SlicesOf(ps)))
Next == NextMut \/ NextRead

Spec == Init /\ [][Next]_vars
SpecMut == Init /\ [][NextMut]_vars     \* every array state, without the reading steps

-------------------------------------------------------------------------------
LastAgrees == last.exp.dump = arr.val /\ last.exp.size = arr.size /\ (extmem => last.exp.mem = arr.val)
ViewLaws   == made => LawShift(arr) /\ LawSub(arr) /\ LawSlices(arr) /\ LawRange(arr) /\ LawClamp(arr) /\ LawOutside(arr)
===============================================================================
