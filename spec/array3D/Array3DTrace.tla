------------------------------ MODULE Array3DTrace ------------------------------
(* Trace specification: is a recorded execution of a real ActualArray3D<int>    *)
(* (with its live adaptor views) a behaviour of Array3D?  Each recorded line    *)
(* {a, arg, obs} must be the next action of the specification with those        *)
(* arguments, and every observable the specification computes for that step     *)
(* (last'.exp: result, tables of the view, size, numElements, complete dump)    *)
(* must equal what was observed.  Executions are separated by {"a":"Reset"}.    *)
EXTENDS Array3D, Json, IOUtils, TLCExt, Sequences

VARIABLE l
tvars == <<arr, made, extmem, last, l>>

TraceLines == ndJsonDeserialize(IOEnv.TRACE)
N == Len(TraceLines)
Line == TraceLines[l]

ObsMatches == \A f \in DOMAIN last'.exp : f \in DOMAIN Line.obs /\ Line.obs[f] = last'.exp[f]

TInit == Init /\ l = 1

Dispatch ==
  \/ Line.a = "New" /\ New(Line.arg.d, Line.arg.mode) /\ Line.arg.mem = arr'.val
  \/ Line.a = "Set" /\ Set(Line.arg.c, Line.arg.v)
  \/ Line.a = "Clear" /\ Clear(Line.arg.v)
  \/ Line.a = "Poke" /\ Poke(Line.arg.o, Line.arg.v)
  \/ Line.a = "Get" /\ Get(Line.arg.c)
  \/ Line.a = "Range" /\ Range(Line.arg.lo, Line.arg.hi)
  \/ Line.a = "RangeWhole" /\ RangeWhole
  \/ Line.a = "ViewShift" /\ ViewShift(Line.arg.s, Line.arg.probes)
  \/ Line.a = "ViewSub" /\ ViewSub(Line.arg.lo, Line.arg.hi, Line.arg.probes)
  \/ Line.a = "ViewAcc" /\ ViewAcc(Line.arg.probes)
  \/ Line.a = "ViewSlices" /\ ViewSlices(Line.arg.ps, Line.arg.probes)

TStep  == l <= N /\ Line.a # "Reset" /\ Dispatch /\ ObsMatches /\ l' = l + 1
TReset == l <= N /\ Line.a = "Reset" /\ arr' = NoArr /\ made' = FALSE /\ extmem' = FALSE
          /\ last' = [a |-> "Init", arg |-> <<>>, cls |-> "", exp |-> Proj2(NoArr, FALSE)] /\ l' = l + 1
TNext  == TStep \/ TReset
TSpec  == TInit /\ [][TNext]_tvars

Accepted == TLCGet("stats").diameter - 1 = N
Post == IF Accepted THEN TRUE
        ELSE /\ PrintT(<<"TRACE-REJECTED-AT-LINE", TLCGet("stats").diameter, "OF", N>>)
             /\ FALSE
===============================================================================
