---------------------------- MODULE IndexMapsMC ----------------------------
(* Model-checking instance of IndexMaps: every state is one point of the      *)
(* bounded input domain - an extent (kind "maps": 2D extents are the states   *)
(* with d[3] = 1) or an extent together with a region [lo, hi) of it (kind    *)
(* "region", inverted and empty regions included) - and the invariants are    *)
(* the laws of IndexMaps evaluated at that point.  TLC therefore checks the   *)
(* laws for EVERY extent in 0..BM per axis (non-cubic ones, extents with a 1  *)
(* and empty extents included) and every region of every extent in 0..BR.     *)
EXTENDS IndexMaps, TLC

CONSTANTS BM,   \* bound of the extents for the laws of the maps
          BR    \* bound of the extents for the laws of for_each regions

VARIABLES kind, d, lo, hi
vars == <<kind, d, lo, hi>>

Ext(b)   == (0..b) \X (0..b) \X (0..b)
Upto(e)  == (0..e[1]) \X (0..e[2]) \X (0..e[3])

Init == \/ kind = "maps" /\ d \in Ext(BM) /\ lo = <<0, 0, 0>> /\ hi = <<0, 0, 0>>
        \/ kind = "region" /\ d \in Ext(BR) /\ lo \in Upto(d) /\ hi \in Upto(d)
Next == UNCHANGED vars
Spec == Init /\ [][Next]_vars

d2 == <<d[1], d[2]>>

MapLaws2 == (kind = "maps" /\ d[3] = 1) =>
              /\ FlattenIsRank2(d2) /\ ReshapeAfterFlatten2(d2) /\ FlattenAfterReshape2(d2)
              /\ Bijection2(d2) /\ IterLaw2(d2) /\ WalkStyleLaws(d2)
MapLaws3 == (kind = "maps") =>
              /\ FlattenIsRank3(d) /\ ReshapeAfterFlatten3(d) /\ FlattenAfterReshape3(d)
              /\ CoordsAfterIndex(d) /\ IndexAfterCoords(d)
              /\ Bijection3(d) /\ SameMaps(d) /\ IterLaw3(d) /\ ForEachWhole(d) /\ WalkStyleLaws(d)
RegionLaws == (kind = "region") => ForEachLaw(d, lo, hi)

\* negative controls (must be VIOLATED: they show that the laws are not vacuous):
\* a transposed flatten is not the rank for non-square extents
TransposedFlatten2(dd, c) == c[2] + dd[2] * c[1]
NegTransposedIsRank == (kind = "maps" /\ d[3] = 1) => \A c \in Coords2(d2) : TransposedFlatten2(d2, c) = Rank2(d2, c)
\* coordsOf with x and y extents swapped does not invert longIndex
SwappedCoordsOf(i, dd) == <<i % dd[2], (i \div dd[2]) % dd[1], (i \div dd[2]) \div dd[1]>>
NegSwappedInverse == (kind = "maps" /\ Total3(d) > 0) => \A c \in Coords3(d) : SwappedCoordsOf(LongIndex(c, d), d) = c
\* an operator++() whose value stays at the OLD position (while the iterator advances) breaks the loops that use the value
RECURSIVE WalkWhilePreOld(_, _)
WalkWhilePreOld(it, e) == IF ItEq(it, e) THEN <<>> ELSE <<Deref(Advanced(it))>> \o WalkWhilePreOld(Advanced(it), e)
NegPreIncValueOld == (kind = "maps" /\ Total3(d) >= 1) => WalkWhilePreOld(ItBegin(d), ItEnd(d)) = Tail(IterSeq3(d))
=============================================================================
