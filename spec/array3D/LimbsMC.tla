------------------------------- MODULE LimbsMC -------------------------------
(* Laws of the limb arithmetic, checked by TLC as ASSUMEs over a sample that  *)
(* crosses every digit boundary below 2^31, plus algebraic laws on numbers    *)
(* far beyond 2^32 (where no integer oracle exists inside TLC).               *)
EXTENDS Limbs, TLC, FiniteSets

Near(n) == {m \in (n - 2)..(n + 2) : m >= 0}
Small == Near(0) \cup Near(BASE) \cup Near(2 * BASE) \cup Near(46340) \cup {12345, 65535, 65536, 99999}
Mid   == Near(BASE * BASE) \cup Near(1000000000) \cup {BASE * BASE - 1 + BASE, 2147483647 - 70000, 123456789}

ASSUME \A n \in Small \cup Mid \cup {2147483647} : IsLimbs(FromInt(n)) /\ FitsInt(FromInt(n)) /\ ToInt(FromInt(n)) = n
ASSUME \A x \in Small \cup Mid, y \in Small \cup Mid :
          x <= 2147483647 - y => (IsLimbs(Add(FromInt(x), FromInt(y))) /\ ToInt(Add(FromInt(x), FromInt(y))) = x + y)
ASSUME \A x \in Small, y \in Small :
          x <= 2147483647 \div (y + 1) => (IsLimbs(Mul(FromInt(x), FromInt(y))) /\ ToInt(Mul(FromInt(x), FromInt(y))) = x * y)
ASSUME \A x \in Small \cup Mid, y \in Small \cup Mid : Less(FromInt(x), FromInt(y)) <=> x < y

\* anchors beyond 32 bits
ASSUME Mul(FromInt(65536), FromInt(65536)) = <<0, 0, 4>>                     \* 2^32
ASSUME Mul(FromInt(46341), FromInt(46341)) = Add(<<0, 0, 2>>, FromInt(4633))  \* 46341^2 = 2^31 + 4633
ASSUME Mul(Mul(FromInt(65536), FromInt(65536)), Mul(FromInt(65536), FromInt(65536))) = Two64
ASSUME Add(<<BASE - 1, BASE - 1, BASE - 1>>, One) = <<0, 0, 0, 1>>
\* (2^31-1)^2 = 2^62 - 2^32 + 1, stated without subtraction:
ASSUME Add(Mul(FromInt(2147483647), FromInt(2147483647)), <<0, 0, 4>>) = Add(<<0, 0, 0, 0, 4>>, One)

Big == {Mul(FromInt(x), FromInt(y)) : x \in {65536, 2147483647, 70000, 99999}, y \in {65537, 2147483647, 3, 1}}
ASSUME \A a \in Big, b \in Big : IsLimbs(Add(a, b)) /\ IsLimbs(Mul(a, b)) /\ Add(a, b) = Add(b, a) /\ Mul(a, b) = Mul(b, a)
ASSUME \A a \in Big, b \in Big, c \in {FromInt(7), FromInt(2147483647), <<0, 0, 4>>} :
          /\ Mul(Add(a, b), c) = Add(Mul(a, c), Mul(b, c))
          /\ Add(Add(a, b), c) = Add(a, Add(b, c))
          /\ Mul(Mul(a, b), c) = Mul(a, Mul(b, c))
          /\ Less(a, Add(a, c)) /\ ~Less(Add(a, c), a)
ASSUME PrintT(<<"limb-laws-checked", Cardinality(Small \cup Mid), Cardinality(Big)>>)

VARIABLE x
Init == x = 0
Next == UNCHANGED x
=============================================================================
