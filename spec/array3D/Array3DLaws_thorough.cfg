SPECIFICATION SpecMut
CONSTANTS
  Exts <- MCExtsThorough
  Vals = {1, 2}
  Margin = 2
  MaxSlices = 3
  Sparse = FALSE
INVARIANTS TypeOK LastAgrees ViewLaws
VIEW LawsView
