------------------------------ MODULE Array3DOps ------------------------------
(* Denotation of rkcommon::array3D::Array3D<T> objects (property C17, second   *)
(* half): an array is what get() returns for every coordinate inside its       *)
(* size,                                                                       *)
(*     A == [size |-> <<x, y, z>>, val |-> <<v_0, ..., v_(n-1)>>]              *)
(* with val listed in flattened order (val[LongIndex(c, size) + 1] is the      *)
(* value at c).  The adaptors are defined by the cell of the underlying array  *)
(* they name:                                                                  *)
(*   IndexShiftedArray3D(A, s).get(c)  = A.get((c + s) mod size)      (cyclic) *)
(*   SubBoxArray3D(A, [lo,hi)).get(c)  = A.get(c + lo),  size hi - lo          *)
(*   Array3DAccessor<in,out>(A).get(c) = (out) A.get(c)                        *)
(*   MultiSliceArray3D(S).get(x,y,z)   = S[z].get(x, y, 0), size (sx, sy, |S|) *)
(*   getValueRange(lo, hi)             = [min, max] of the values in [lo, hi)  *)
(* Coordinates OUTSIDE size(): ActualArray3D clamps to the nearest cell; the    *)
(* adaptors do what their definition in the code says (second half of the      *)
(* module, expression trees and GetE):                                         *)
(*   - SubBoxArray3D and Array3DAccessor do not clamp themselves: they forward *)
(*     c + lo / c to the underlying array (a sub-box therefore shows the cells *)
(*     of the underlying array around its clip box, and the clamping of the    *)
(*     ActualArray3D at the bottom applies);                                   *)
(*   - MultiSliceArray3D clamps z itself to the slice range 0..|S|-1 and       *)
(*     forwards (x, y, 0) to the chosen slice;                                 *)
(*   - IndexShiftedArray3D wraps: it forwards (c + size + s) mod size, which   *)
(*     is what C++ % computes as long as c + size + s >= 0; below that C++ %   *)
(*     is negative and the result is left UNCONSTRAINED here (DefinedE false), *)
(*     as are coordinates so large that c + size + s overflows an int.         *)
EXTENDS IndexMaps

SetMin(S) == CHOOSE x \in S : \A y \in S : x <= y
SetMax(S) == CHOOSE x \in S : \A y \in S : y <= x
Clamp1(v, lo, hi) == IF v < lo THEN lo ELSE IF v > hi THEN hi ELSE v
ClampC(c, d) == <<Clamp1(c[1], 0, d[1] - 1), Clamp1(c[2], 0, d[2] - 1), Clamp1(c[3], 0, d[3] - 1)>>
Plus(a, b)  == <<a[1] + b[1], a[2] + b[2], a[3] + b[3]>>
Minus(a, b) == <<a[1] - b[1], a[2] - b[2], a[3] - b[3]>>
ModC(a, d)  == <<a[1] % d[1], a[2] % d[2], a[3] % d[3]>>       \* TLA+ %: result in 0..d-1 also for negative a

IsArray(A) == /\ Len(A.size) = 3 /\ \A i \in 1..3 : A.size[i] >= 0
              /\ Len(A.val) = Total3(A.size)

\* value at a coordinate inside the size
Cell(A, c) == A.val[LongIndex(c, A.size) + 1]
\* ActualArray3D::get: clamps coordinates outside the extent
ActualGet(A, c) == Cell(A, ClampC(c, A.size))
\* ActualArray3D::set / clear
WithCell(A, c, v) == [A EXCEPT !.val[LongIndex(c, A.size) + 1] = v]
Filled(A, v)      == [A EXCEPT !.val = [k \in 1..Len(A.val) |-> v]]
NumElements(A)    == Total3(A.size)

\* an array given by its size and its cell function
View(size, F(_)) == [size |-> size, val |-> [k \in 1..Total3(size) |-> F(CoordsOf(k - 1, size))]]

ShiftView(A, s)    == View(A.size, LAMBDA c : Cell(A, ModC(Plus(c, s), A.size)))
SubView(A, lo, hi) == View(Minus(hi, lo), LAMBDA c : Cell(A, Plus(c, lo)))
AccView(A)         == View(A.size, LAMBDA c : Cell(A, c))          \* value conversion is exact on the model's integers
SliceView(S)       == View(<<S[1].size[1], S[1].size[2], Len(S)>>, LAMBDA c : Cell(S[c[3] + 1], <<c[1], c[2], 0>>))
PlaneOf(A, p)      == SubView(A, <<0, 0, p>>, <<A.size[1], A.size[2], p + 1>>)

\* Array3DRepeater(A, rs) - NOT part of property C17, specified for the record: "generates an
\* artificially larger data set by simply repeating the given input"; the structure of the code
\* (odd repetitions flipped) says mirrored repetition with the period of the input's size
Mirror1(v, n)      == IF (v \div n) % 2 = 1 THEN n - 1 - (v % n) ELSE v % n
RepeatView(A, rs)  == View(rs, LAMBDA c : Cell(A, <<Mirror1(c[1], A.size[1]), Mirror1(c[2], A.size[2]), Mirror1(c[3], A.size[3])>>))
\* what a repeater that only ever sees coordinates inside rs does if it divides by rs instead: plain clamping
ClampView(A, rs)   == View(rs, LAMBDA c : ActualGet(A, c))

\* getValueRange(lo, hi) for a non-empty region inside the size
RegionValues(A, lo, hi) == {Cell(A, c) : c \in Region(lo, hi)}
RangeOf(A, lo, hi)      == [lo |-> SetMin(RegionValues(A, lo, hi)), hi |-> SetMax(RegionValues(A, lo, hi))]
RangeAll(A)             == RangeOf(A, <<0, 0, 0>>, A.size)

\* "bounds every value in the region tightly"
BoundsTightly(r, V) == /\ \A v \in V : r.lo <= v /\ v <= r.hi
                       /\ r.lo \in V /\ r.hi \in V

\* legal parameters
InsideBox(d, lo, hi)  == \A i \in 1..3 : 0 <= lo[i] /\ lo[i] < hi[i] /\ hi[i] <= d[i]     \* non-empty box inside d
RegionInside(d, lo, hi) == \A i \in 1..3 : 0 <= lo[i] /\ lo[i] <= hi[i] /\ hi[i] <= d[i]  \* possibly empty
ShiftClaimed(d, s)    == \A i \in 1..3 : s[i] >= -d[i]       \* the domain in which C++'s % agrees with mod

\* arrays as the drivers fill them: distinct, non-monotone values
FillValue(k, off) == (((k - 1) * 7 + 3) % 31) + 1 + off          \* injective for k in 1..31
FillArr(d, off)   == [size |-> d, val |-> [k \in 1..Total3(d) |-> FillValue(k, off)]]
IdArr(d)          == [size |-> d, val |-> [k \in 1..Total3(d) |-> k]]

-------------------------------------------------------------------------------
\* Laws of the adaptors (checked in Array3DMC for every array state reached)
Shifts(d, m) == ((-m * d[1])..(m * d[1])) \X ((-m * d[2])..(m * d[2])) \X ((-m * d[3])..(m * d[3]))
Boxes(d)     == {b \in (Coords3(d) \X Coords3(Plus(d, <<1, 1, 1>>))) : InsideBox(d, b[1], b[2])}

LawShift(A) ==
  LET d == A.size IN
  /\ \A s \in Shifts(d, 1) :
        /\ ShiftView(A, s).size = d
        \* a cyclic shift permutes the cells
        /\ LET P == ShiftView(IdArr(d), s).val IN {P[k] : k \in 1..Len(P)} = 1..Total3(d)
        /\ ShiftView(ShiftView(A, s), Minus(<<0, 0, 0>>, s)) = A
        /\ \A c \in Coords3(d) : Cell(ShiftView(A, s), c) = Cell(A, ModC(Plus(c, s), d))
  /\ ShiftView(A, <<0, 0, 0>>) = A /\ ShiftView(A, d) = A /\ ShiftView(A, Minus(<<0, 0, 0>>, d)) = A
  /\ \A s \in Shifts(d, 1), t \in {<<1, 0, 0>>, <<0, 1, 1>>, <<-1, -1, 0>>} :
        ShiftView(ShiftView(A, s), t) = ShiftView(A, Plus(s, t))
LawSub(A) ==
  LET d == A.size IN
  /\ SubView(A, <<0, 0, 0>>, d) = A
  /\ \A b \in Boxes(d) :
        LET S == SubView(A, b[1], b[2]) IN
        /\ IsArray(S) /\ NumElements(S) = Cardinality(Region(b[1], b[2]))
        /\ \A c \in Coords3(S.size) : Cell(S, c) = Cell(A, Plus(c, b[1]))
        /\ {Cell(S, c) : c \in Coords3(S.size)} = RegionValues(A, b[1], b[2])
        /\ RangeAll(S) = RangeOf(A, b[1], b[2])
LawSlices(A) ==
  LET d == A.size IN
  /\ SliceView([p \in 1..d[3] |-> PlaneOf(A, p - 1)]) = A
  /\ \A p \in 0..(d[3] - 1) : SliceView(<<PlaneOf(A, p)>>) = PlaneOf(A, p)
LawRange(A) ==
  LET d == A.size IN
  /\ \A b \in Boxes(d) : BoundsTightly(RangeOf(A, b[1], b[2]), RegionValues(A, b[1], b[2]))
  /\ BoundsTightly(RangeAll(A), {A.val[k] : k \in 1..Len(A.val)})
LawClamp(A) ==
  LET d == A.size IN
  \A c \in ((-2)..(d[1] + 1)) \X ((-2)..(d[2] + 1)) \X ((-2)..(d[3] + 1)) :
     /\ ClampC(c, d) \in Coords3(d)
     /\ (c \in Coords3(d) => ClampC(c, d) = c)
     \* the clamped cell is a nearest cell of the extent
     /\ \A e \in Coords3(d) : \A i \in 1..3 :
           (IF c[i] > ClampC(c, d)[i] THEN c[i] - ClampC(c, d)[i] ELSE ClampC(c, d)[i] - c[i])
             <= (IF c[i] > e[i] THEN c[i] - e[i] ELSE e[i] - c[i])

-------------------------------------------------------------------------------
\* Adaptor expressions and get() at ARBITRARY coordinates.
\* An expression is a tree [k |-> kind, ..., of |-> subtree(s)]:
\*   [k |-> "actual", d, mem, ...]    an ActualArray3D of size d whose memory holds mem
\*   [k |-> "shift", s, of]   [k |-> "sub", lo, hi, of]   [k |-> "acc", t, of]   [k |-> "slices", of |-> <<e1, ..., en>>]
ShiftE(s, e)      == [k |-> "shift", s |-> s, of |-> e]
SubE(lo, hi, e)   == [k |-> "sub", lo |-> lo, hi |-> hi, of |-> e]
AccE(t, e)        == [k |-> "acc", t |-> t, of |-> e]
SlicesE(es)       == [k |-> "slices", of |-> es]
LeafArr(l)        == [size |-> l.d, val |-> l.mem]

RECURSIVE SizeE(_)
SizeE(e) == CASE e.k = "actual" -> e.d
              [] e.k = "shift"  -> SizeE(e.of)
              [] e.k = "sub"    -> Minus(e.hi, e.lo)
              [] e.k = "acc"    -> SizeE(e.of)
              [] e.k = "slices" -> <<SizeE(e.of[1])[1], SizeE(e.of[1])[2], Len(e.of)>>

\* the coordinate a shifted array hands to its underlying array (before the modulo)
ShiftArg(e, c)  == Plus(Plus(c, SizeE(e.of)), e.s)
NonNeg(v)       == \A i \in 1..3 : v[i] >= 0
SliceIndex(e, c) == Clamp1(c[3], 0, Len(e.of) - 1) + 1

\* is get(c) of the expression given a meaning by the code's definitions (see the module comment)?
RECURSIVE DefinedE(_, _)
DefinedE(e, c) == CASE e.k = "actual" -> TRUE
                    [] e.k = "shift"  -> NonNeg(ShiftArg(e, c)) /\ DefinedE(e.of, ModC(ShiftArg(e, c), SizeE(e.of)))
                    [] e.k = "sub"    -> DefinedE(e.of, Plus(c, e.lo))
                    [] e.k = "acc"    -> DefinedE(e.of, c)
                    [] e.k = "slices" -> DefinedE(e.of[SliceIndex(e, c)], <<c[1], c[2], 0>>)

\* get(c) for any coordinate with DefinedE(e, c): the value of the underlying cell the definitions name
RECURSIVE GetE(_, _)
GetE(e, c) == CASE e.k = "actual" -> ActualGet(LeafArr(e), c)
                [] e.k = "shift"  -> GetE(e.of, ModC(ShiftArg(e, c), SizeE(e.of)))
                [] e.k = "sub"    -> GetE(e.of, Plus(c, e.lo))
                [] e.k = "acc"    -> GetE(e.of, c)
                [] e.k = "slices" -> GetE(e.of[SliceIndex(e, c)], <<c[1], c[2], 0>>)

\* may coordinates near +-2^31 be probed?  Only where no adaptor does arithmetic on them
RECURSIVE NoArithmeticE(_)
NoArithmeticE(e) == CASE e.k = "actual" -> TRUE
                      [] e.k = "shift"  -> FALSE
                      [] e.k = "sub"    -> FALSE
                      [] e.k = "acc"    -> NoArithmeticE(e.of)
                      [] e.k = "slices" -> \A i \in 1..Len(e.of) : NoArithmeticE(e.of[i])

\* the table of an expression (get at every coordinate inside its size, flattened order)
TableE(e) == View(SizeE(e), LAMBDA c : GetE(e, c))

\* coordinates around the size: -m .. size-1+m per axis
Around(d, m) == ((-m)..(d[1] - 1 + m)) \X ((-m)..(d[2] - 1 + m)) \X ((-m)..(d[3] - 1 + m))
\* the same coordinates as a sequence (flattened order of the enlarged box)
AroundSeq(d, m) == LET dd == <<d[1] + 2 * m, d[2] + 2 * m, d[3] + 2 * m>>
                   IN [k \in 1..Total3(dd) |-> Minus(CoordsOf(k - 1, dd), <<m, m, m>>)]
\* getValueRange(lo, hi) of an expression over a non-empty region all of whose cells are defined
RegionDefinedE(e, lo, hi) == \A c \in Region(lo, hi) : DefinedE(e, c)
RangeE(e, lo, hi) == LET V == {GetE(e, c) : c \in Region(lo, hi)} IN [lo |-> SetMin(V), hi |-> SetMax(V)]

\* Laws that tie the out-of-extent behaviour of the adaptors to the clamping of the array below
\* (checked in Array3DLaws for every reachable array state; l is the state's array as a leaf)
ArrLeaf(A) == [k |-> "actual", d |-> A.size, mem |-> A.val]
LawOutside(A) ==
  LET l == ArrLeaf(A)  d == A.size  W == Around(d, 2) IN
  \* an accessor, the full sub-box and the MultiSlice of all planes behave like the array itself EVERYWHERE
  /\ \A c \in W : /\ GetE(AccE("i32", l), c) = ActualGet(A, c)
                   /\ GetE(SubE(<<0, 0, 0>>, d, l), c) = ActualGet(A, c)
                   /\ GetE(SlicesE([p \in 1..d[3] |-> SubE(<<0, 0, p - 1>>, <<d[1], d[2], p>>, l)]), c) = ActualGet(A, c)
  \* a sub-box forwards: outside its own size it shows the neighbouring cells of the array
  /\ \A b \in Boxes(d) : \A c \in Around(Minus(b[2], b[1]), 1) :
        GetE(SubE(b[1], b[2], l), c) = ActualGet(A, Plus(c, b[1]))
  \* a MultiSlice of one plane repeated: z is irrelevant, below 0 it is the FIRST slice, above the LAST
  /\ d[3] >= 2 =>
        LET e == SlicesE(<<SubE(<<0, 0, 0>>, <<d[1], d[2], 1>>, l), SubE(<<0, 0, d[3] - 1>>, <<d[1], d[2], d[3]>>, l)>>) IN
        \A c \in Around(<<d[1], d[2], 2>>, 2) :
           GetE(e, c) = ActualGet(A, <<c[1], c[2], IF c[3] <= 0 THEN 0 ELSE d[3] - 1>>)
  \* a shift wraps whatever coordinate it is given (where the C++ remainder is a modulo)
  /\ \A s \in {<<0, 0, 0>>, <<1, 0, 1>>, <<-1, -1, 0>>} : \A c \in W :
        DefinedE(ShiftE(s, l), c) => /\ GetE(ShiftE(s, l), c) = Cell(A, ModC(Plus(c, s), d))
                                     /\ GetE(ShiftE(s, l), c) = GetE(ShiftE(s, l), ModC(c, d))
  \* inside the size the general definition is the table definition
  /\ \A s \in Shifts(d, 1) : TableE(ShiftE(s, l)) = ShiftView(A, s)
  /\ \A b \in Boxes(d) : TableE(SubE(b[1], b[2], l)) = SubView(A, b[1], b[2])
===============================================================================
