---------------------------- MODULE IndexMapsBig ----------------------------
(* "computed in 64 bits without overflow": flat indices of extents whose      *)
(* products exceed 2^31 and 2^32 (up to just below 2^64), computed by TLC     *)
(* with the limb arithmetic of module Limbs from the same formulas as in      *)
(* IndexMaps, for a fixed list of extents and for the seeded random extents   *)
(* the orchestrator passes in IOEnv.BIGIN (inputs only: extents and           *)
(* coordinates as limb numbers; TLC checks that they are canonical, that the  *)
(* coordinate is inside the extent and that the total fits 64 bits).          *)
(*                                                                            *)
(* API domain: multidim_index_sequence takes vec_t<size_t,N> extents and      *)
(* coordinates (components up to 2^64-1); array3D::longIndex / coordsOf /     *)
(* longProduct and ActualArray3D take vec3i (components below 2^31) and       *)
(* return size_t.  Cases stay inside: components of "Arr" cases are below     *)
(* 2^31, every total is below 2^64.                                           *)
EXTENDS IndexMaps, Limbs, TLC, Json, IOUtils, SequencesExt, FiniteSets

L(n)  == FromInt(n)
L3(v) == <<L(v[1]), L(v[2]), L(v[3])>>
L2(v) == <<L(v[1]), L(v[2])>>

\* the limb formulas are the IndexMaps formulas (checked where both can be evaluated)
ASSUME \A d \in (1..4) \X (1..3) \X (1..4) : \A c \in Coords3(d) :
          /\ LFlatten3(L3(d), L3(c)) = L(Flatten3(d, c))
          /\ LFlatten3(L3(d), L3(c)) = L(LongIndex(c, d))
          /\ LTotal3(L3(d)) = L(Total3(d))
ASSUME \A d \in (1..5) \X (1..4) : \A c \in Coords2(d) :
          LFlatten2(L2(d), L2(c)) = L(Flatten2(d, c)) /\ LTotal2(L2(d)) = L(Total2(d))

-------------------------------------------------------------------------------
\* fixed extents with int-sized components (usable by both APIs)
Ext3 == << <<2048, 2048, 1024>>,        \* 2^32
           <<2048, 2048, 512>>,         \* 2^31
           <<1291, 1291, 1291>>,        \* just above 2^31
           <<1626, 1626, 1626>>,        \* just above 2^32
           <<70000, 70000, 1>>,         \* 4.9e9
           <<46341, 46341, 1>>,         \* 2^31 + 4633
           <<1, 46341, 46341>>,
           <<65536, 65536, 2>>,         \* 2^33
           <<2147483647, 1, 3>>,
           <<3, 1, 2147483647>>,
           <<1, 2147483647, 2>>,
           <<7, 1000000000, 13>>,
           <<100000, 100000, 100000>>,  \* 1e15
           <<2097152, 2097152, 2097152>>,       \* 2^63
           <<2147483647, 2147483647, 4>> >>     \* 2^64 - 2^34 + 4
Ext2 == << <<65536, 65536>>, <<46341, 46341>>, <<70000, 70000>>, <<2147483647, 3>>, <<3, 2147483647>>,
           <<2147483647, 2147483647>>, <<1, 2147483647>> >>
Pow2(n) == [i \in 1..(n \div 15) |-> 0] \o <<2 ^ (n % 15)>>
\* extents with components beyond 2^32 (size_t API only), as limb numbers
FiveE9 == Mul(L(50000), L(100000))
Two40  == <<0, 0, 1024>>
FiveE9m1 == Add(Mul(L(49999), L(100000)), L(99999))      \* 5e9 - 1
Two40m1  == <<BASE - 1, BASE - 1, 1023>>                  \* 2^40 - 1
\* <<extent, coordinate>> pairs
BPairs3 == { << <<FiveE9, L(3), L(1)>>, <<FiveE9m1, L(2), L(0)>> >>,
             << <<FiveE9, L(3), L(1)>>, <<Pow2(32), L(1), L(0)>> >>,
             << <<L(3), FiveE9, L(2)>>, <<L(2), FiveE9m1, L(1)>> >>,
             << <<L(3), FiveE9, L(2)>>, <<L(1), Pow2(31), L(0)>> >>,
             << <<L(1), L(2), Two40>>, <<L(0), L(1), Two40m1>> >>,
             << <<Two40, L(4096), L(4095)>>, <<Two40m1, L(4095), L(4094)>> >>,
             << <<Two40, L(4096), L(4095)>>, <<L(5), L(0), L(1)>> >> }
BPairs2 == { << <<FiveE9, L(3)>>, <<FiveE9m1, L(2)>> >>,
             << <<L(3), FiveE9>>, <<L(2), FiveE9m1>> >>,
             << <<Two40, L(16777215)>>, <<Two40m1, L(16777214)>> >>,
             << <<Two40, L(16777215)>>, <<Pow2(33), L(1)>> >> }

\* coordinates probed for an extent d (ints): far corner, middle, the end of every axis, the unit steps
Probe3(d) == { <<d[1] - 1, d[2] - 1, d[3] - 1>>, <<d[1] \div 2, d[2] \div 2, d[3] \div 2>>,
               <<d[1] - 1, 0, 0>>, <<0, d[2] - 1, 0>>, <<0, 0, d[3] - 1>>, <<0, 0, 0>>,
               <<d[1] \div 3, d[2] - 1, d[3] - 1>>, <<d[1] - 1, d[2] \div 3, d[3] - 1>>, <<d[1] - 1, d[2] - 1, d[3] \div 3>> }
Probe2(d) == { <<d[1] - 1, d[2] - 1>>, <<d[1] \div 2, d[2] \div 2>>, <<d[1] - 1, 0>>, <<0, d[2] - 1>>, <<0, 0>>,
               <<d[1] \div 3, d[2] - 1>>, <<d[1] - 1, d[2] \div 3>> }


-------------------------------------------------------------------------------
\* NUMERIC BOUNDARIES (hidden casts and counters: 8 / 16 / 31 / 32 / 64 bit)
\* extents with an axis just below / at / just above a power of two, and extents whose partial
\* products (row length x rows, rows x planes) sit at 2^31 / 2^32
MedExt3 == << <<127, 128, 129>>, <<255, 256, 257>>, <<257, 3, 2>>, <<2, 3, 257>>, <<511, 513, 2>>, <<1023, 1025, 3>>,
              <<4097, 4095, 1>>, <<65537, 2, 1>>, <<1, 65535, 3>>, <<3, 2, 65536>>, <<65535, 65537, 1>>, <<65537, 65537, 1>>,
              <<65536, 65536, 4>>, <<2, 65536, 65536>>, <<1, 65536, 65536>>, <<32768, 65536, 3>>, <<3, 32768, 65536>> >>
MedExt2 == << <<255, 257>>, <<257, 255>>, <<65535, 65537>>, <<65537, 65537>>, <<1, 65536>>, <<65536, 1>>, <<4097, 3>> >>
Marks == {0, 1, 2, 127, 128, 129, 255, 256, 257, 511, 512, 513, 1023, 1024, 1025, 4095, 4096, 4097, 32767, 32768, 65535, 65536}
Cap(v, n) == IF v < n THEN v ELSE n - 1
MarkProbes3(d) == {<<Cap(v, d[1]), Cap(v, d[2]), Cap(v, d[3])>> : v \in Marks}
                  \cup {<<Cap(v, d[1]), 0, d[3] - 1>> : v \in Marks}
                  \cup {<<d[1] - 1, Cap(v, d[2]), 0>> : v \in Marks}
                  \cup {<<0, d[2] - 1, Cap(v, d[3])>> : v \in Marks}
MarkProbes2(d) == {<<Cap(v, d[1]), Cap(v, d[2])>> : v \in Marks} \cup {<<Cap(v, d[1]), 0>> : v \in Marks} \cup {<<d[1] - 1, Cap(v, d[2])>> : v \in Marks}

\* coordinates whose flat index is EXACTLY 2^31-1, 2^31, 2^31+1, 2^32-1, 2^32, 2^32+1  (<<extent, coordinate, index>>)
N31m == <<32767, 32767, 1>>   N31 == <<0, 0, 2>>   N31p == <<1, 0, 2>>
N32m == <<32767, 32767, 3>>   N32 == <<0, 0, 4>>   N32p == <<1, 0, 4>>
Hits3 == { << <<65536, 65536, 4>>, <<65535, 32767, 0>>, N31m >>, << <<65536, 65536, 4>>, <<0, 32768, 0>>, N31 >>,
           << <<65536, 65536, 4>>, <<1, 32768, 0>>, N31p >>,     << <<65536, 65536, 4>>, <<65535, 65535, 0>>, N32m >>,
           << <<65536, 65536, 4>>, <<0, 0, 1>>, N32 >>,          << <<65536, 65536, 4>>, <<1, 0, 1>>, N32p >>,
           \* elongated: the row number idx / dims.x crosses 2^30 / 2^31 here
           << <<2, 65536, 65536>>, <<1, 65535, 16383>>, N31m >>, << <<2, 65536, 65536>>, <<0, 0, 16384>>, N31 >>,
           << <<2, 65536, 65536>>, <<1, 65535, 32767>>, N32m >>, << <<2, 65536, 65536>>, <<0, 0, 32768>>, N32 >>,
           << <<2, 65536, 65536>>, <<1, 0, 32768>>, N32p >>,
           << <<1, 65536, 65536>>, <<0, 65535, 32767>>, N31m >>, << <<1, 65536, 65536>>, <<0, 0, 32768>>, N31 >>,
           << <<1, 65536, 65536>>, <<0, 65535, 65535>>, N32m >>,
           << <<65537, 65537, 1>>, <<0, 65535, 0>>, N32m >>,     << <<65537, 65537, 1>>, <<1, 65535, 0>>, N32 >>,
           << <<65537, 65537, 1>>, <<2, 65535, 0>>, N32p >>,
           << <<3, 32768, 65536>>, <<1, 10922, 21845>>, N31m >> }
Hits2 == { << <<65536, 65536>>, <<65535, 32767>>, N31m >>, << <<65536, 65536>>, <<0, 32768>>, N31 >>, << <<65536, 65536>>, <<1, 32768>>, N31p >>,
           << <<65536, 65536>>, <<65535, 65535>>, N32m >>, << <<65537, 65537>>, <<0, 65535>>, N32m >>, << <<65537, 65537>>, <<1, 65535>>, N32 >>,
           << <<65537, 65537>>, <<2, 65535>>, N32p >> }
ASSUME \A t \in Hits3 : LFlatten3(L3(t[1]), L3(t[2])) = t[3]
ASSUME \A t \in Hits2 : LFlatten2(L2(t[1]), L2(t[2])) = t[3]
ASSUME N31 = Pow2(31) /\ N32 = Pow2(32) /\ Add(N31m, One) = N31 /\ Add(N31, One) = N31p /\ Add(N32m, One) = N32 /\ Add(N32, One) = N32p

\* SIZE_MAX neighbourhood (size_t API): (2^32 - 1) * (2^32 + 1) = 2^64 - 1 cells, far corner at index 2^64 - 2
P32m1 == N32m   P32p1 == N32p   P32m2 == <<32766, 32767, 3>>
Max64 == <<32767, 32767, 32767, 32767, 15>>          \* 2^64 - 1
ASSUME LTotal2(<<P32m1, P32p1>>) = Max64 /\ Add(Max64, One) = Two64
ASSUME Add(LFlatten2(<<P32m1, P32p1>>, <<P32m2, N32>>), <<2>>) = Two64
EdgePairs2 == { << <<P32m1, P32p1>>, <<P32m2, N32>> >>, << <<P32p1, P32m1>>, <<N32, P32m2>> >>, << <<P32m1, P32p1>>, <<L(0), L(1)>> >>,
                << <<Pow2(63), L(1)>>, <<N32p, L(0)>> >>, << <<L(1), Pow2(63)>>, <<L(0), N32p>> >> }
EdgePairs3 == { << <<P32m1, P32p1, L(1)>>, <<P32m2, N32, L(0)>> >>, << <<L(1), P32m1, P32p1>>, <<L(0), P32m2, N32>> >>,
                << <<P32p1, L(1), P32m1>>, <<N32, L(0), P32m2>> >>, << <<Pow2(32), Pow2(31), L(1)>>, <<N32m, N31m, L(0)>> >>,
                << <<L(1), Pow2(31), Pow2(32)>>, <<L(0), N31m, N32m>> >> }

\* iteration windows that cross 2^31 / 2^32 (and a row / plane end at the same time)
CrossStarts == { << <<65536, 65536, 4>>, <<65534, 32767, 0>> >>, << <<65536, 65536, 4>>, <<65534, 65535, 0>> >>,
                 << <<2, 65536, 65536>>, <<0, 65535, 32767>> >>, << <<65537, 65537, 1>>, <<65536, 65534, 0>> >>,
                 << <<257, 3, 2>>, <<255, 2, 0>> >>, << <<2, 3, 257>>, <<1, 2, 255>> >>, << <<65537, 2, 1>>, <<65535, 0, 0>> >> }

MemLimit == Pow2(33)        \* arrays up to 2^33 one-byte cells are mapped (lazily) by the driver

Valid3(d, c) == /\ \A i \in 1..3 : IsLimbs(d[i]) /\ IsLimbs(c[i])
                /\ LInside(d, c)
                /\ Less(LTotal3(d), Two64)
                /\ Less(LFlatten3(d, c), LTotal3(d))
Valid2(d, c) == /\ \A i \in 1..2 : IsLimbs(d[i]) /\ IsLimbs(c[i])
                /\ LInside(d, c)
                /\ Less(LTotal2(d), Two64)
                /\ Less(LFlatten2(d, c), LTotal2(d))

ClassOf(t) == IF Less(t, Pow2(31)) THEN "below2^31" ELSE IF Less(t, Pow2(32)) THEN "2^31..2^32" ELSE "above2^32"

BigSeq3(d, c) == [a |-> "BigSeq3", cls |-> ClassOf(LTotal3(d)),
                  arg |-> [d |-> d, c |-> c, idx |-> LFlatten3(d, c)],
                  exp |-> [total |-> LTotal3(d), dims |-> d, idx |-> LFlatten3(d, c), c |-> c]]
BigSeq2(d, c) == [a |-> "BigSeq2", cls |-> ClassOf(LTotal2(d)),
                  arg |-> [d |-> d, c |-> c, idx |-> LFlatten2(d, c)],
                  exp |-> [total |-> LTotal2(d), dims |-> d, idx |-> LFlatten2(d, c), c |-> c]]
BigArr3(d, c) == LET mem == ~Less(MemLimit, LTotal3(d)) IN
                 [a |-> "BigArr3", cls |-> ClassOf(LTotal3(d)),
                  arg |-> [d |-> d, c |-> c, idx |-> LFlatten3(d, c), mem |-> mem],
                  exp |-> [product |-> LTotal3(d), idx |-> LFlatten3(d, c), c |-> c, num_elements |-> LTotal3(d), index_of |-> LFlatten3(d, c)]
                          @@ (IF mem THEN [set_offset |-> LFlatten3(d, c), get_back |-> TRUE] ELSE <<>>)]

\* iteration windows: start at coordinate c (ints), n steps; the start index is handed over as limbs
Inside3(d, c) == \A i \in 1..3 : c[i] >= 0 /\ c[i] < d[i]
RECURSIVE WalkIn3(_, _, _)
WalkIn3(d, c, n) == IF n = 0 \/ ~Inside3(d, c) THEN <<>> ELSE <<c>> \o WalkIn3(d, Succ3(d, c), n - 1)
BigIter3(d, c, n) == LET w == WalkIn3(d, c, n) IN
                     [a |-> "BigIter3", cls |-> ClassOf(LTotal3(L3(d))),
                      arg |-> [d |-> L3(d), start |-> LFlatten3(L3(d), L3(c)), n |-> Len(w)],
                      exp |-> [walk |-> w]]
IterStarts(d) == { <<d[1] - 2, d[2] - 1, d[3] \div 2>>, <<d[1] - 1, d[2] - 1, d[3] - 1>>, <<d[1] - 1, d[2] - 1, (d[3] - 1) \div 2>>,
                   <<d[1] \div 2, d[2] \div 2, d[3] \div 2>> }

-------------------------------------------------------------------------------
Rand == ndJsonDeserialize(IOEnv.BIGIN)      \* lines {k: "seq3"|"seq2"|"arr3", d: [...limbs...], c: [...limbs...]}
RandOf(k) == {i \in 1..Len(Rand) : Rand[i].k = k}

Pairs3 == UNION {{<<L3(Ext3[i]), L3(c)>> : c \in {p \in Probe3(Ext3[i]) : Inside3(Ext3[i], p)}} : i \in 1..Len(Ext3)}
          \cup UNION {{<<L3(MedExt3[i]), L3(c)>> : c \in Probe3(MedExt3[i]) \cup MarkProbes3(MedExt3[i])} : i \in 1..Len(MedExt3)}
          \cup {<<L3(t[1]), L3(t[2])>> : t \in Hits3}
Pairs2 == UNION {{<<L2(Ext2[i]), L2(c)>> : c \in {p \in Probe2(Ext2[i]) : p[1] >= 0 /\ p[2] >= 0}} : i \in 1..Len(Ext2)}
          \cup UNION {{<<L2(MedExt2[i]), L2(c)>> : c \in Probe2(MedExt2[i]) \cup MarkProbes2(MedExt2[i])} : i \in 1..Len(MedExt2)}
          \cup {<<L2(t[1]), L2(t[2])>> : t \in Hits2}

AllSeq3 == Pairs3 \cup BPairs3 \cup EdgePairs3 \cup {<<Rand[i].d, Rand[i].c>> : i \in RandOf("seq3")}
AllSeq2 == Pairs2 \cup BPairs2 \cup EdgePairs2 \cup {<<Rand[i].d, Rand[i].c>> : i \in RandOf("seq2")}
AllArr3 == Pairs3 \cup {<<Rand[i].d, Rand[i].c>> : i \in RandOf("arr3")}
Below31(d) == \A i \in 1..3 : Less(d[i], Pow2(31))

ASSUME \A p \in AllSeq3 : Valid3(p[1], p[2])
ASSUME \A p \in AllSeq2 : Valid2(p[1], p[2])
ASSUME \A p \in AllArr3 : Valid3(p[1], p[2]) /\ Below31(p[1])
\* the fixed list really is beyond 32 bits
ASSUME Cardinality({p \in Pairs3 : ~Less(LTotal3(p[1]), Pow2(32))}) >= 20
ASSUME Cardinality({p \in Pairs3 : ~Less(LFlatten3(p[1], p[2]), Pow2(32))}) >= 20

CasesS3 == {BigSeq3(p[1], p[2]) : p \in AllSeq3}
CasesS2 == {BigSeq2(p[1], p[2]) : p \in AllSeq2}
CasesA3 == {BigArr3(p[1], p[2]) : p \in AllArr3}
CasesI3 == UNION {{BigIter3(Ext3[i], c, 5) : c \in {s \in IterStarts(Ext3[i]) : Inside3(Ext3[i], s)}} : i \in 1..Len(Ext3)}
           \cup {BigIter3(t[1], t[2], 6) : t \in CrossStarts}

ASSUME ndJsonSerialize(IOEnv.OUT \o "-bigseq3", SetToSeq(CasesS3))
ASSUME ndJsonSerialize(IOEnv.OUT \o "-bigseq2", SetToSeq(CasesS2))
ASSUME ndJsonSerialize(IOEnv.OUT \o "-bigarr3", SetToSeq(CasesA3))
ASSUME ndJsonSerialize(IOEnv.OUT \o "-bigiter3", SetToSeq(CasesI3))
ASSUME PrintT(<<"bigcases", Cardinality(CasesS3), Cardinality(CasesS2), Cardinality(CasesA3), Cardinality(CasesI3), "random", Len(Rand)>>)

VARIABLE x
Init == x = 0
Next == UNCHANGED x
=============================================================================
