------------------------------ MODULE XmlJudge ------------------------------
(* Code -> spec direction for property C16.  The driver gave files to the     *)
(* REAL readXML and recorded, per file, how the call ended and the tree it    *)
(* returned; TLC judges every recorded line against XmlDoc:                   *)
(*                                                                             *)
(*  kind "tree"  (seeded random documents of the subset, laid out at random):  *)
(*      the strict reference parser must accept the document (otherwise the    *)
(*      orchestrator's generator is wrong: "bad-input"), the call must have    *)
(*      returned, and the returned tree must be ParseDoc(doc).tree;            *)
(*  kind "safe"  (any other file): the way the call ended must be one of       *)
(*      SafeOutcomes; ReaderLexClass names the input class for the signature   *)
(*      (xcls: the same under XML's reading, for information).                 *)
(*                                                                             *)
(* Line:    {id, kind, doc, nul, obs: {outcome[, tree]}}   doc, nul and every  *)
(*          string of the tree: sequences of one-character strings             *)
(* Verdict: {id, ok, field, cls[, exp]}                                        *)
(* Lines are dealt to W slices (one initial state each) so that TLC's workers  *)
(* judge them in parallel.                                                     *)
EXTENDS XmlDoc, TLC, Json, IOUtils, SequencesExt

CONSTANT W
VARIABLE slice

Lines == ndJsonDeserialize(IOEnv.OBS)

Verdict(L) ==
  IF L.kind = "tree" THEN
    LET p == ParseDoc(L.doc)
        e == [outcome |-> "ok", tree |-> p.tree]
        bad == IF ~p.ok THEN "bad-input"
               ELSE IF L.obs.outcome # "ok" THEN "outcome"
               ELSE IF "tree" \notin DOMAIN L.obs \/ L.obs.tree # p.tree THEN "tree"
               ELSE IF "fd_delta" \in DOMAIN L.obs /\ L.obs.fd_delta # FdDelta THEN "fd_delta"       \* fds' = fds
               ELSE ""
    IN [id |-> L.id, ok |-> bad = "", field |-> bad, cls |-> DocClass(p, L.doc), exp |-> e]
  ELSE
    LET o == L.obs.outcome
        good == o \in SafeOutcomes
    IN [id |-> L.id, ok |-> good, field |-> IF good THEN "" ELSE IF o \in {"crash", "timeout"} THEN o ELSE "outcome",
        cls |-> ReaderLexClass(L.doc, IF L.nul = <<>> THEN "" ELSE L.nul[1]), xcls |-> LexClass(L.doc, IF L.nul = <<>> THEN "" ELSE L.nul[1])]

Do(k) == ndJsonSerialize(IOEnv.OUT \o "-" \o ToString(k), SetToSeq({Verdict(Lines[i]) : i \in {j \in DOMAIN Lines : j % W = k - 1}}))

Init == slice \in 1..W
Next == \/ slice > 0 /\ Do(slice) /\ slice' = 0 - slice
        \/ slice < 0 /\ UNCHANGED slice
=============================================================================
