------------------------------- MODULE XmlDoc -------------------------------
(* The XML subset that rkcommon/xml/XML.{h,cpp} reads (property C16).         *)
(*                                                                             *)
(* A document is a sequence of one-character strings.  A tree is              *)
(*     [name, props, content, child]                                           *)
(* name / content: character sequences; props: a finite map written as a      *)
(* sequence of <<name, value>> pairs strictly ascending by name (the canonical *)
(* form of a map - the reader keeps a std::map); child: sequence of trees.     *)
(*                                                                             *)
(* The module defines, independently of each other,                            *)
(*   Render(t, c)  - the documents generated from tree t; the choice record c  *)
(*                   fixes everything the tree does not: header, quote style,  *)
(*                   order of the attributes, <a/> versus <a></a>, whitespace  *)
(*                   at every place the grammar allows it, comments, where the *)
(*                   text run stands among the children;                       *)
(*   ParseDoc(s)   - a strict reference recogniser / parser of the same subset *)
(*                   (recursive descent over the character sequence);          *)
(*   LexClass(s)   - a tolerant lexical scan naming the context in which an    *)
(*                   arbitrary character sequence ends (laws), and its         *)
(*                   mechanism-shaped twin ReaderLexClass (names the input     *)
(*                   class of a robustness failure).                           *)
(* The subset, as a grammar (S = one or more of space, tab, CR, LF):           *)
(*   Doc     ::= Header? Misc* Element Misc*                                   *)
(*   Header  ::= "<?xml" (S Attr)* S? "?>"                                     *)
(*   Misc    ::= S | Comment                                                   *)
(*   Comment ::= "<!--" body "-->"     the comment ends at the FIRST "-->" that  *)
(*                                     begins at or after the end of the opener *)
(*                                     (dash runs in the body are body; "--->"  *)
(*                                     ends the comment at its last two dashes) *)
(*   Element ::= "<" Name (S Attr)* S? "/>"                                    *)
(*             | "<" Name (S Attr)* S? ">" Content "</" Name S? ">"            *)
(*   Attr    ::= Name S? "=" S? ( '"' [^"<&\]* '"' | "'" [^'<&\]* "'" )        *)
(*   Content ::= (S | Comment | Element | Text)*    at most one Text           *)
(*   Text    ::= maximal run without "<" and "&" that is not all whitespace    *)
(*   Name    ::= [A-Za-z_][A-Za-z0-9_.]*        (the reader's identifiers)     *)
(* Attribute names of one tag are distinct.  The content of a node is its      *)
(* text run without leading and trailing whitespace ("" if there is none).     *)
(* Not in the subset: entity references, CDATA, DOCTYPE, processing            *)
(* instructions, names with '-' or ':', backslashes in attribute values, a     *)
(* text run split by a comment or child, control characters other than the     *)
(* four white space ones (the bytes 0x7F..0xFF are ordinary text characters).  *)
EXTENDS Integers, Sequences, FiniteSets, IOUtils, Json

\* ---------------------------------------------------------------------------
\* characters
\* ---------------------------------------------------------------------------
WS    == {" ", "\t", "\n", "\r"}
Lower == {"a","b","c","d","e","f","g","h","i","j","k","l","m","n","o","p","q","r","s","t","u","v","w","x","y","z"}
Upper == {"A","B","C","D","E","F","G","H","I","J","K","L","M","N","O","P","Q","R","S","T","U","V","W","X","Y","Z"}
Digit == {"0","1","2","3","4","5","6","7","8","9"}
Punct == {"!","\"","#","$","%","&","'","(",")","*","+",",","-",".","/",":",";","<","=",">","?","@","[","\\","]","^","_","`","{","|","}","~"}
Char  == WS \cup Lower \cup Upper \cup Digit \cup Punct          \* printable ASCII and the four XML whitespace characters

NameStart == Lower \cup Upper \cup {"_"}
NameChar  == NameStart \cup Digit \cup {"."}
\* The bytes 0x7F..0xFF (DEL, UTF-8 lead and continuation bytes, Latin-1 letters, NBSP ...) are ordinary characters of text,
\* attribute values and comments: no white space, no markup, no name characters.  They cannot be written portably in a TLA+
\* string literal; the orchestrator hands a table code -> character for the codes 33..255 in the ndjson file named by the
\* environment variable XML_BYTES ({"codes": [33, ...], "chars": ["!", ...]}); without it the class is empty.
ByteTab  == IF "XML_BYTES" \in DOMAIN IOEnv THEN ndJsonDeserialize(IOEnv.XML_BYTES)[1] ELSE [codes |-> <<>>, chars |-> <<>>]
ChrOf(code) == ByteTab.chars[code - 32]                    \* (the table starts at code 33; checked by XmlDocGen)
ByteChar == {ByteTab.chars[i] : i \in {j \in DOMAIN ByteTab.chars : ByteTab.codes[j] >= 127}}
AnyChar   == Char \cup ByteChar
TextChar  == AnyChar \ {"<", "&"}
ValueChar(q) == AnyChar \ {q, "<", "&", "\\"}
DQ == "\""
SQ == "'"

\* ASCII order (names are compared as std::string compares them)
Ascii == <<"\t","\n","\r"," ","!","\"","#","$","%","&","'","(",")","*","+",",","-",".","/",
           "0","1","2","3","4","5","6","7","8","9",":",";","<","=",">","?","@",
           "A","B","C","D","E","F","G","H","I","J","K","L","M","N","O","P","Q","R","S","T","U","V","W","X","Y","Z",
           "[","\\","]","^","_","`",
           "a","b","c","d","e","f","g","h","i","j","k","l","m","n","o","p","q","r","s","t","u","v","w","x","y","z",
           "{","|","}","~">>
Ord == [c \in Char |-> CHOOSE i \in DOMAIN Ascii : Ascii[i] = c]

RECURSIVE LexLess(_, _)
LexLess(a, b) ==                      \* a < b, lexicographically
  IF b = <<>> THEN FALSE
  ELSE IF a = <<>> THEN TRUE
  ELSE IF a[1] = b[1] THEN LexLess(Tail(a), Tail(b))
  ELSE Ord[a[1]] < Ord[b[1]]

\* (both by halving: the recursion depth stays logarithmic in the length)
RECURSIVE Concat(_)
Concat(ss) == IF ss = <<>> THEN <<>> ELSE IF Len(ss) = 1 THEN ss[1]
              ELSE LET h == Len(ss) \div 2 IN Concat(SubSeq(ss, 1, h)) \o Concat(SubSeq(ss, h + 1, Len(ss)))
RECURSIVE Join(_)
Join(s) == IF s = <<>> THEN "" ELSE IF Len(s) = 1 THEN s[1]
           ELSE LET h == Len(s) \div 2 IN Join(SubSeq(s, 1, h)) \o Join(SubSeq(s, h + 1, Len(s)))
Rev(s) == [i \in 1..Len(s) |-> s[Len(s) + 1 - i]]
Chars(s) == {s[i] : i \in DOMAIN s}

\* ---------------------------------------------------------------------------
\* trees
\* ---------------------------------------------------------------------------
Node(n, ps, ct, ch) == [name |-> n, props |-> ps, content |-> ct, child |-> ch]
DocNode(roots) == Node(<<>>, <<>>, <<>>, roots)       \* what readXML returns: an unnamed node holding the root element

IsName(n) == n # <<>> /\ n[1] \in NameStart /\ \A i \in DOMAIN n : n[i] \in NameChar
IsValue(v) == (\A i \in DOMAIN v : v[i] \in AnyChar \ {"<", "&", "\\"}) /\ ~(DQ \in Chars(v) /\ SQ \in Chars(v))
IsText(t) == t = <<>> \/ ((\A i \in DOMAIN t : t[i] \in TextChar) /\ t[1] \notin WS /\ t[Len(t)] \notin WS)
IsProps(ps) == /\ \A i \in DOMAIN ps : IsName(ps[i][1]) /\ IsValue(ps[i][2])
               /\ \A i \in 1..(Len(ps) - 1) : LexLess(ps[i][1], ps[i + 1][1])

RECURSIVE IsTree(_)
IsTree(t) == /\ IsName(t.name) /\ IsProps(t.props) /\ IsText(t.content)
             /\ \A i \in DOMAIN t.child : IsTree(t.child[i])

RECURSIVE Nodes(_)
Nodes(t) == {t} \cup UNION {Nodes(t.child[i]) : i \in DOMAIN t.child}          \* all nodes of a tree
MaxProps(t) == LET K == {Len(x.props) : x \in Nodes(t)} IN CHOOSE m \in K : \A k \in K : k <= m
IsBare(t) == t.child = <<>> /\ t.content = <<>>                      \* may be written <a/>

\* ---------------------------------------------------------------------------
\* Render: tree + choices -> document
\* ---------------------------------------------------------------------------
\* choice record c:
\*   hdr   0 none | 1 <?xml version="1.0"?> | 2 <?xml version='1.0' encoding="UTF-8"?> + newline | 3 <?xml?>
\*         (whitespace inside the header as chosen by wt)
\*   q1,q2 preferred quote of the first / every further attribute of a tag ("d" or "s"; a value containing the
\*         preferred quote is written with the other one)
\*   rev   attributes in descending instead of ascending name order
\*   selfc bare nodes as <a/> (TRUE) or <a></a> (FALSE)
\*   wt    whitespace inside tags: 0 minimal | 1 spaces around '=' and before '>' '/>' | 2 tab / CR LF / newline
\*   we    whitespace before the '>' of an end tag: 0 none | 1 space
\*   wc    whitespace in content and between top-level items: 0 none | 1 one space | 2 newline + indentation
\*   cm    comments: 0 none | 1 before the first and after the last item | 2 between items (and inside bare
\*         <a></a>) | 3 everywhere | 4 everywhere, with bodies that begin with ">" or "->" | 5 everywhere, with bodies that hold
\*         dash runs (in the middle, and at the end so that 4 or 5 dashes stand before the closing '>')
\*   tp    position of the text run among the children: 0 first | 1 last | 2 after the first child
ChoiceSpace == [hdr : 0..3, q1 : {"d", "s"}, q2 : {"d", "s"}, rev : BOOLEAN, selfc : BOOLEAN,
            wt : 0..2, we : 0..1, wc : 0..2, cm : 0..5, tp : 0..2]
Plain == [hdr |-> 0, q1 |-> "d", q2 |-> "d", rev |-> FALSE, selfc |-> TRUE, wt |-> 0, we |-> 0, wc |-> 0, cm |-> 0, tp |-> 0]

\* the k-th comment of a document (bodies chosen to look like markup, to hold dashes and quotes)
CommentBodies == << <<" ","c"," ">>, <<"<","b","/",">">>, <<>>, <<"a","-","b"," ",">","\"","'">>, <<"<","/","a",">">> >>
GtBodies == << <<">">>, <<"-", ">", " ", "x">> >>
DashBodies == << <<"-","-","x","-","-","-">>,              \* banner style: with the "-->" an odd run of 5 dashes closes the comment
                 <<"y"," ","-","-"," ","z","-","-">>,      \* "--" inside the body, an even run of 4 dashes at the end
                 <<"-">>,                                  \* <!----->
                 <<"x","-",">","y","-","-","-">> >>        \* "->" inside, odd run at the end
Comment(c, k) == <<"<","!","-","-">> \o (CASE c.cm = 4 -> GtBodies[1 + (k % Len(GtBodies))] [] c.cm = 5 -> DashBodies[1 + (k % Len(DashBodies))]
                                               [] OTHER -> CommentBodies[1 + (k % Len(CommentBodies))])
                 \o <<"-","-",">">>

Indent(d) == [i \in 1..(2 * d) |-> " "]
ContWs(c, d) == CASE c.wc = 0 -> <<>> [] c.wc = 1 -> <<" ">> [] c.wc = 2 -> <<"\n">> \o Indent(d)
TagSep(c)  == IF c.wt = 2 THEN <<"\n","\t">> ELSE <<" ">>                 \* required whitespace before an attribute
EqL(c)     == CASE c.wt = 0 -> <<>> [] c.wt = 1 -> <<" ">> [] c.wt = 2 -> <<"\t">>
EqR(c)     == CASE c.wt = 0 -> <<>> [] c.wt = 1 -> <<" ">> [] c.wt = 2 -> <<"\r","\n">>
TagTail(c) == CASE c.wt = 0 -> <<>> [] c.wt = 1 -> <<" ">> [] c.wt = 2 -> <<"\n">>
EndWs(c)   == IF c.we = 1 THEN <<" ">> ELSE <<>>

\* the header; its whitespace follows the in-tag whitespace choice wt
Header(c) ==
  LET xml == <<"<","?","x","m","l">>
      ver(q) == <<"v","e","r","s","i","o","n">> \o EqL(c) \o <<"=">> \o EqR(c) \o <<q,"1",".","0",q>>
      enc == <<"e","n","c","o","d","i","n","g">> \o EqL(c) \o <<"=">> \o EqR(c) \o <<DQ,"U","T","F","-","8",DQ>>
  IN CASE c.hdr = 0 -> <<>>
       [] c.hdr = 1 -> xml \o TagSep(c) \o ver(DQ) \o TagTail(c) \o <<"?",">">>
       [] c.hdr = 2 -> xml \o TagSep(c) \o ver(SQ) \o TagSep(c) \o enc \o TagTail(c) \o <<"?",">","\n">>
       [] c.hdr = 3 -> xml \o <<"?",">">>

QuoteFor(v, pref) == LET q == IF pref = "d" THEN DQ ELSE SQ IN
                     IF q \in Chars(v) THEN (IF q = DQ THEN SQ ELSE DQ) ELSE q
RenderAttr(p, pref, c) == LET q == QuoteFor(p[2], pref) IN p[1] \o EqL(c) \o <<"=">> \o EqR(c) \o <<q>> \o p[2] \o <<q>>

\* items (rendered children and the text run) of a node, in document order
Items(t, kids, c) ==
  IF t.content = <<>> THEN kids
  ELSE IF kids = <<>> \/ c.tp = 0 THEN <<t.content>> \o kids
  ELSE IF c.tp = 1 THEN kids \o <<t.content>>
  ELSE <<kids[1], t.content>> \o Tail(kids)

\* whitespace and comments around items: before item 1, between items, after the last one (d = depth, k = comment counter)
Body(items, c, d, k) ==
  LET n == Len(items)
      w == ContWs(c, d)
      cmt(j) == Comment(c, k + j) \o w
      lead  == IF c.cm \in {1, 3, 4, 5} THEN w \o cmt(0) ELSE w
      mid(j) == IF c.cm \in {2, 3, 4, 5} THEN w \o cmt(j) ELSE w
      trail == (IF c.cm \in {1, 3, 4, 5} THEN w \o Comment(c, k + n) ELSE <<>>) \o (IF d > 0 THEN ContWs(c, d - 1) ELSE ContWs(c, 0))
  IN IF n = 0 THEN (IF c.cm \in {2, 3, 4, 5} THEN w \o Comment(c, k) \o ContWs(c, IF d > 0 THEN d - 1 ELSE 0) ELSE IF c.wc = 0 THEN <<>> ELSE ContWs(c, IF d > 0 THEN d - 1 ELSE 0))
     ELSE lead \o Concat([j \in 1..n |-> (IF j = 1 THEN <<>> ELSE mid(j)) \o items[j]]) \o trail

RECURSIVE RenderNode(_, _, _)
RenderNode(t, c, d) ==
  LET ps    == IF c.rev THEN Rev(t.props) ELSE t.props
      attrs == Concat([i \in DOMAIN ps |-> TagSep(c) \o RenderAttr(ps[i], IF i = 1 THEN c.q1 ELSE c.q2, c)])
      open  == <<"<">> \o t.name \o attrs \o TagTail(c)
      kids  == [i \in DOMAIN t.child |-> RenderNode(t.child[i], c, d + 1)]
  IN IF IsBare(t) /\ c.selfc THEN open \o <<"/", ">">>
     ELSE open \o <<">">> \o Body(Items(t, kids, c), c, d + 1, d + Len(t.name)) \o <<"<", "/">> \o t.name \o EndWs(c) \o <<">">>

\* the whole document: header, then the root element as the only item of the top level
Render(t, c) == Header(c) \o Body(<<RenderNode(t, c, 0)>>, c, 0, 0)

\* choices that cannot change the document of tree t are fixed, so that (nearly) every (t, c) kept yields its own document
Relevant(t, c) ==
  LET N == Nodes(t) IN
  /\ (MaxProps(t) < 2 => c.q2 = "d" /\ ~c.rev)
  /\ (MaxProps(t) < 1 => c.q1 = "d")
  /\ ((\A x \in N : ~IsBare(x)) => c.selfc)
  /\ ((\A x \in N : IsBare(x) /\ c.selfc) => c.we = 0)                        \* no end tag is written
  /\ ((\A x \in N : x.content = <<>> \/ x.child = <<>>) => c.tp = 0)
  /\ ((\A x \in N : x.content = <<>> \/ Len(x.child) < 2) => c.tp # 2)
  \* the two constructs that get an input class of their own (DocClass) are not combined in one document, so that a
  \* reader that rejects one of them fails one class only
  /\ (c.cm \in {4, 5} => c.we = 0)

\* ---------------------------------------------------------------------------
\* ParseDoc: strict recogniser / parser of the subset
\* ---------------------------------------------------------------------------
EOF == ""                                  \* not a character
At(s, i) == IF i >= 1 /\ i <= Len(s) THEN s[i] ELSE EOF
HasAt(s, i, lit) == i + Len(lit) - 1 <= Len(s) /\ \A k \in DOMAIN lit : s[i + k - 1] = lit[k]
Fail == [ok |-> FALSE, i |-> 0, v |-> <<>>, ew |-> FALSE]

RECURSIVE SkipWs(_, _)
SkipWs(s, i) == IF At(s, i) \in WS THEN SkipWs(s, i + 1) ELSE i
RECURSIVE NameEnd(_, _)
NameEnd(s, i) == IF At(s, i) \in NameChar THEN NameEnd(s, i + 1) ELSE i       \* first index that is no name character
RECURSIVE ValueEnd(_, _, _)
ValueEnd(s, i, q) ==                        \* index of the closing quote, 0 if the value is not a value of the subset
  LET c == At(s, i) IN
  IF c = q THEN i ELSE IF c \in AnyChar /\ c \notin {"<", "&", "\\"} THEN ValueEnd(s, i + 1, q) ELSE 0
RECURSIVE RunEnd(_, _)
RunEnd(s, i) == IF i > Len(s) \/ s[i] = "<" THEN i ELSE RunEnd(s, i + 1)        \* end of character data
RECURSIVE CommentEnd(_, _)
CommentEnd(s, i) ==                         \* i: first index after the opener "<!--"; result: index after the first "-->" that
  IF i > Len(s) \/ s[i] \notin AnyChar THEN 0 \* begins at an index >= i; 0 if there is none (or a character outside AnyChar comes first)
  ELSE IF s[i] = "-" /\ At(s, i + 1) = "-" /\ At(s, i + 2) = ">" THEN i + 3
  ELSE CommentEnd(s, i + 1)

TrimL(r) == LET K == {k \in DOMAIN r : r[k] \notin WS} IN
            IF K = {} THEN <<>> ELSE SubSeq(r, CHOOSE k \in K : \A j \in K : k <= j, Len(r))
TrimR(r) == LET K == {k \in DOMAIN r : r[k] \notin WS} IN
            IF K = {} THEN <<>> ELSE SubSeq(r, 1, CHOOSE k \in K : \A j \in K : j <= k)
Trim(r) == TrimR(TrimL(r))

\* insert into a sorted association list; ok = FALSE on a duplicate name
RECURSIVE InsertProp(_, _, _)
InsertProp(ps, n, v) ==
  IF ps = <<>> THEN [ok |-> TRUE, v |-> << <<n, v>> >>]
  ELSE IF ps[1][1] = n THEN [ok |-> FALSE, v |-> <<>>]
  ELSE IF LexLess(n, ps[1][1]) THEN [ok |-> TRUE, v |-> << <<n, v>> >> \o ps]
  ELSE LET r == InsertProp(Tail(ps), n, v) IN [ok |-> r.ok, v |-> <<ps[1]>> \o r.v]

\* (S Attr)* S?  from index i; result .i is the index after the optional trailing whitespace
RECURSIVE PAttrs(_, _, _)
PAttrs(s, i, acc) ==
  LET j == SkipWs(s, i) IN
  IF j > i /\ At(s, j) \in NameStart THEN
    LET e == NameEnd(s, j + 1)
        k == SkipWs(s, e)
        q == SkipWs(s, k + 1)
        z == ValueEnd(s, q + 1, At(s, q))
        ins == InsertProp(acc, SubSeq(s, j, e - 1), SubSeq(s, q + 1, z - 1))
    IN IF At(s, k) # "=" \/ At(s, q) \notin {DQ, SQ} THEN Fail
       ELSE IF z = 0 \/ ~ins.ok THEN Fail
       ELSE PAttrs(s, z + 1, ins.v)
  ELSE [ok |-> TRUE, i |-> j, v |-> acc, ew |-> FALSE]

RECURSIVE PElement(_, _), PContent(_, _, _, _, _, _)
\* content of a node from index i up to (not including) the "</" that ends it
PContent(s, i, txt, hasTxt, kids, ew) ==
  IF HasAt(s, i, <<"<", "/">>) THEN [ok |-> TRUE, i |-> i, v |-> [content |-> txt, child |-> kids], ew |-> ew]
  ELSE IF HasAt(s, i, <<"<", "!", "-", "-">>) THEN
    LET e == CommentEnd(s, i + 4) IN IF e = 0 THEN Fail ELSE PContent(s, e, txt, hasTxt, kids, ew)
  ELSE IF At(s, i) = "<" THEN
    LET r == PElement(s, i) IN IF ~r.ok THEN Fail ELSE PContent(s, r.i, txt, hasTxt, Append(kids, r.v), ew \/ r.ew)
  ELSE IF i > Len(s) THEN Fail
  ELSE
    LET k == RunEnd(s, i)
        run == SubSeq(s, i, k - 1)
    IN IF \E j \in DOMAIN run : run[j] \notin TextChar THEN Fail
       ELSE IF \A j \in DOMAIN run : run[j] \in WS THEN PContent(s, k, txt, hasTxt, kids, ew)
       ELSE IF hasTxt THEN Fail
       ELSE PContent(s, k, Trim(run), TRUE, kids, ew)

PElement(s, i) ==
  IF At(s, i) # "<" \/ At(s, i + 1) \notin NameStart THEN Fail
  ELSE
    LET e == NameEnd(s, i + 2)
        n == SubSeq(s, i + 1, e - 1)
        a == PAttrs(s, e, <<>>)
    IN IF ~a.ok THEN Fail
       ELSE IF HasAt(s, a.i, <<"/", ">">>) THEN [ok |-> TRUE, i |-> a.i + 2, v |-> Node(n, a.v, <<>>, <<>>), ew |-> FALSE]
       ELSE IF At(s, a.i) # ">" THEN Fail
       ELSE
         LET c  == PContent(s, a.i + 1, <<>>, FALSE, <<>>, FALSE)
             e2 == c.i + 2 + Len(n)                      \* index after the name of the end tag
             g  == SkipWs(s, e2)
         IN IF ~c.ok THEN Fail
            ELSE IF ~HasAt(s, c.i + 2, n) \/ At(s, e2) \in NameChar \/ At(s, g) # ">" THEN Fail
            ELSE [ok |-> TRUE, i |-> g + 1, v |-> Node(n, a.v, c.v.content, c.v.child), ew |-> c.ew \/ g > e2]

RECURSIVE PMisc(_, _)
PMisc(s, i) ==                               \* (S | Comment)*; 0 if a comment is malformed
  IF At(s, i) \in WS THEN PMisc(s, i + 1)
  ELSE IF HasAt(s, i, <<"<", "!", "-", "-">>) THEN LET e == CommentEnd(s, i + 4) IN IF e = 0 THEN 0 ELSE PMisc(s, e)
  ELSE i

PHeader(s) ==                                \* index after the header (1 if there is none), 0 if malformed
  IF HasAt(s, 1, <<"<", "?">>) THEN
    IF ~HasAt(s, 1, <<"<", "?", "x", "m", "l">>) THEN 0
    ELSE LET a == PAttrs(s, 6, <<>>) IN IF ~a.ok \/ ~HasAt(s, a.i, <<"?", ">">>) THEN 0 ELSE a.i + 2
  ELSE 1

NotXml == [ok |-> FALSE, tree |-> DocNode(<<>>), ew |-> FALSE]
ParseDoc(s) ==
  LET h == PHeader(s)
      m == PMisc(s, h)
      r == PElement(s, m)
      z == PMisc(s, r.i)
  IN IF h = 0 THEN NotXml ELSE IF m = 0 THEN NotXml ELSE IF ~r.ok THEN NotXml
     ELSE IF z # Len(s) + 1 THEN NotXml
     ELSE [ok |-> TRUE, tree |-> DocNode(<<r.v>>), ew |-> r.ew]

\* input class of a document s of the subset (p = ParseDoc(s)); the comment-related parts are lexical (exact for the generated
\* documents, whose comment bodies do not contain "<!--").
GtComment(s) == \E i \in DOMAIN s : HasAt(s, i, <<"<","!","-","-",">">>) \/ HasAt(s, i, <<"<","!","-","-","-",">">>)
\* three or more dashes directly before a '>' that are not (partly) the dashes of an opener: a comment closed by a dash run
OpenerAt(s, j) == j >= 1 /\ HasAt(s, j, <<"<","!","-","-">>)
DashEnd(s) == \E i \in DOMAIN s : HasAt(s, i, <<"-","-","-",">">>) /\ ~OpenerAt(s, i - 2) /\ ~OpenerAt(s, i - 3)
DocClass(p, s) == "subset" \o (IF p.ew THEN ",ws-in-end-tag" ELSE "") \o (IF GtComment(s) THEN ",comment-begins-with-gt" ELSE "")
                  \o (IF DashEnd(s) THEN ",comment-ends-with-dash-run" ELSE "")

\* ---------------------------------------------------------------------------
\* LexClass: where does an arbitrary character sequence end?  A tolerant lexical scan; only the part before the first
\* NUL counts (the reader works on a NUL-terminated copy of the file; the NUL character cannot be written in a TLA+
\* string literal, so the caller passes it).  Two readings:
\*   rd = FALSE  XML's: "<!--" opens a comment, any other "<!" a declaration, a backslash is an ordinary character
\*               (used in the laws of XmlDocGen);
\*   rd = TRUE   mechanism-shaped, the way XML.cpp tokenises today: every "<!" opens a comment whose end is looked for
\*               right after the "!", and inside a quoted value a backslash makes the scan step over the next
\*               character.  It only NAMES the input class of a robustness failure (the scanning loop the reader is
\*               in when the input ends), so that one defect is one signature; no verdict depends on it.
\* ---------------------------------------------------------------------------
RECURSIVE Lex(_, _, _, _, _)
\* st: "text" | "tag" | "pi" (after "<?") | "comment" | "decl" (rd = FALSE: after a "<!" that is not "<!--") | "dq-value" | "sq-value";
\* ret: state a quoted value returns to
Lex(s, i, st, ret, rd) ==
  IF i > Len(s) THEN st
  ELSE LET c == s[i] IN
    CASE st = "text" ->
           IF c = "<" THEN (IF rd /\ At(s, i + 1) = "!" THEN Lex(s, i + 2, "comment", ret, rd)
                            ELSE IF HasAt(s, i, <<"<", "!", "-", "-">>) THEN Lex(s, i + 4, "comment", ret, rd)
                            ELSE IF At(s, i + 1) = "!" THEN Lex(s, i + 2, "decl", ret, rd)
                            ELSE IF At(s, i + 1) = "?" THEN Lex(s, i + 2, "pi", ret, rd)
                            ELSE Lex(s, i + 1, "tag", ret, rd))
           ELSE Lex(s, i + 1, st, ret, rd)
      [] st = "tag" ->
           IF c = ">" THEN Lex(s, i + 1, "text", ret, rd)
           ELSE IF c = DQ THEN Lex(s, i + 1, "dq-value", "tag", rd)
           ELSE IF c = SQ THEN Lex(s, i + 1, "sq-value", "tag", rd)
           ELSE Lex(s, i + 1, st, ret, rd)
      [] st = "pi" ->
           IF c = "?" /\ At(s, i + 1) = ">" THEN Lex(s, i + 2, "text", ret, rd)
           ELSE IF c = DQ THEN Lex(s, i + 1, "dq-value", "pi", rd)
           ELSE IF c = SQ THEN Lex(s, i + 1, "sq-value", "pi", rd)
           ELSE Lex(s, i + 1, st, ret, rd)
      [] st = "decl" -> IF c = ">" THEN Lex(s, i + 1, "text", ret, rd) ELSE Lex(s, i + 1, st, ret, rd)
      [] st = "comment" ->
           IF c = "-" /\ At(s, i + 1) = "-" /\ At(s, i + 2) = ">" THEN Lex(s, i + 3, "text", ret, rd)
           ELSE Lex(s, i + 1, st, ret, rd)
      [] st \in {"dq-value", "sq-value"} ->
           IF c = (IF st = "dq-value" THEN DQ ELSE SQ) THEN Lex(s, i + 1, ret, ret, rd)
           ELSE IF rd /\ c = "\\" THEN (IF i = Len(s) THEN st \o ",after-backslash" ELSE Lex(s, i + 2, st, ret, rd))
           ELSE Lex(s, i + 1, st, ret, rd)

BeforeNul(s, nul) == LET K == {k \in DOMAIN s : s[k] = nul} IN
                     IF K = {} THEN s ELSE SubSeq(s, 1, (CHOOSE k \in K : \A j \in K : k <= j) - 1)
LexClass(s, nul)       == "eof-in=" \o Lex(BeforeNul(s, nul), 1, "text", "text", FALSE)
\* (a second part of the class: does the input, up to the first NUL, hold a control character other than the four
\*  XML whitespace characters - e.g. the vertical tab and form feed that isspace() accepts and the reader's isWhite() does not)
OddChar(s) == \E i \in DOMAIN s : s[i] \notin AnyChar
ReaderLexClass(s, nul) == LET b == BeforeNul(s, nul)
                              ctx == Lex(b, 1, "text", "text", TRUE)
                          IN "eof-in=" \o ctx \o (IF ctx = "text" /\ OddChar(b) THEN ",ctl-byte" ELSE "")   \* (inputs that end inside a tag / value / comment keep one class)

\* ---------------------------------------------------------------------------
\* what a call of readXML may end in, whatever the bytes of the file are
\* ---------------------------------------------------------------------------
SafeOutcomes == {"ok", "runtime_error"}

\* Resource clause of the reader contract: a call of readXML, whether it returns a document or throws, leaves the set of
\* open files of the process as it found it:  fds' = fds.  Otherwise the answer to a later call would depend on how many
\* calls went before (a process has a bounded number of descriptors), i.e. not on the bytes of its file alone.
FdsAfterCall(fds, outcome) == fds
FdDelta == 0                               \* |fds'| - |fds|, what the drivers observe per call (and over any batch of calls)
=============================================================================
