----------------------------- MODULE XmlDocGen -----------------------------
(* Laws of XmlDoc checked by TLC on bounded domains, and generation of the    *)
(* conformance cases for readXML (property C16).                               *)
(*                                                                             *)
(* The work is cut into slices; a slice is one initial state, and the step     *)
(* that leaves it checks the laws of the slice and writes its cases (TLC's     *)
(* workers do the slices in parallel; a slice whose law fails has no successor *)
(* and TLC stops with the offending tree / choices / string printed).          *)
(*                                                                             *)
(*  "styles" a small set of trees that together use every construct (two      *)
(*           attributes with both quote characters inside values, bare child,  *)
(*           text beside two children, depth 3) x ALL relevant choice vectors  *)
(*           (one slice per header form x comment form: 24 slices);                       *)
(*  "trees"  ALL trees of depth <= 2, fan-out <= 2 over 2 names, <= 2          *)
(*           attributes, 3 contents (children from the leaf set KIDS)          *)
(*           x the style profiles (one slice per root name x attribute list);  *)
(*  "prefix" the trees of "styles" x the profiles: laws about every prefix;    *)
(*  "short"  EVERY string of length <= N over the 8 symbols < > / = " a space  *)
(*           ! (one slice per first symbol, or per first two symbols);         *)
(*  "content" EVERY character-data run of length <= 3 over { t, space, LF,     *)
(*           tab, VT, FF } placed between '>' and '<' in three positions       *)
(*           (<a>RUN</a>, <a><b/>RUN</a>, <a>RUN<b/></a>; one slice each).     *)
(*           VT and FF are whitespace for isspace() but not for the reader's   *)
(*           tokenizer and lie outside the subset: for runs holding one only   *)
(*           SafeOutcomes is stated ("ReadSafe" cases), for the others the     *)
(*           tree.  (VT cannot be written in a TLA+ string: environment XML_VT)*)
(*                                                                             *)
(*  "dashes" comments whose body holds dash runs: EVERY arrangement of runs of   *)
(*           0..5 dashes at the start, in the middle and at the END of the     *)
(*           body (directly before "-->", odd and even), bodies of dashes      *)
(*           only, and '>' after a single dash, in six positions: before the   *)
(*           root, between two children, before and after the text of a node   *)
(*           that also has a child, after the root, and before a sibling that  *)
(*           is followed by a second comment (a reader that misses the         *)
(*           terminator swallows the sibling).  One slice per position.        *)
(*                                                                             *)
(*  "bytes"  EVERY byte value 0x21..0xFF except the markup characters as text   *)
(*           content b, bx, xb, bb directly after the start tag, after a       *)
(*           leading comment, after a child, before a child, padded with       *)
(*           blanks on both sides, and as attribute value in both quote        *)
(*           styles (one slice per position; characters come from the table    *)
(*           XML_BYTES, see XmlDoc).                                           *)
(*                                                                             *)
(*  "names"  EVERY byte value 0x21..0xFF as first and as last character of an   *)
(*           element name and of an attribute name: inside the subset iff it   *)
(*           is a name(-start) character (NameLaw), tree or ending only.       *)
(*  "ctl"    every control byte (0x00..0x1F but tab, LF, CR) first / last in    *)
(*           content, attribute value, comment and name: outside the subset    *)
(*           (CtlLaw), the ending only.                                        *)
(*  "big"    documents DEFINED BY FORMULA, never built by TLC at full size:     *)
(*           a name / value / content / comment / blank run of n characters,   *)
(*           n attributes, n children, files of exactly n bytes, chains n      *)
(*           deep, for n at the boundaries 0 1 2 127..129 255..257 511..513    *)
(*           1023..1025 4095..4097 8191..8193 65535..65537 1048575..1048577.   *)
(*           The driver builds the same document and reports the returned tree *)
(*           with runs compressed (ctree); the expected ctree is a formula     *)
(*           too.  BigLaw: for every n <= 9 the formula document parses to a   *)
(*           tree whose compression is the formula ctree, and its length is    *)
(*           the formula length (the small documents also travel as text, so   *)
(*           that the driver's builder is compared with the specification's).  *)
(*  "history" what a call returns is a function of the file's bytes alone:     *)
(*           ALL sequences of up to 3 files from a pool of 8 (empty, tiny,     *)
(*           long, malformed, long garbage, blank, short, unterminated value)  *)
(*           read one after the other in a fresh process: trees for the        *)
(*           documents of the subset, SafeOutcomes for the others, and equal   *)
(*           observations for equal files whatever was read before             *)
(*           ("ReadSeq"); the same files on 4 threads at once ("ReadThreads"); *)
(*           a formula-defined long history in a process limited to 256 open   *)
(*           files ("ReadRep": empty file x 300, malformed file x 20000, valid   *)
(*           document).  Every call leaves the open files alone (FdDelta).     *)
(*                                                                             *)
(* Laws:                                                                       *)
(*   ByteLaw     a document of the "bytes" family parses to exactly that        *)
(*               content / value: no byte but space, tab, CR, LF is trimmed    *)
(*   DashLaw     a document of the "dashes" family parses to the tree without   *)
(*               the comments: a comment ends at the first "-->" after its     *)
(*               opener, whatever dash runs its body holds                     *)
(*   WellFormed  every generated tree satisfies IsTree                         *)
(*   RoundTrip   ParseDoc(Render(t, c)) = the document node holding t, and the *)
(*               end-tag-whitespace flag is exactly what the choices say       *)
(*   PrefixLaw   a proper prefix of a generated document is either rejected or *)
(*               denotes the same tree (only trailing whitespace / comments    *)
(*               can be cut); the shortest accepted prefix ends with '>'; the  *)
(*               lexical scan ends in "text" on every accepted prefix          *)
(*   ContentLaw  a document of the "content" family is accepted iff its run    *)
(*               holds neither VT nor FF, and then the content is the run      *)
(*               trimmed (no whitespace at either end, run = ws + content + ws)*)
(*   ShortLaw    every accepted short string denotes one well-formed tree      *)
(*               whose plain and whose most decorated rendering are parsed     *)
(*               back to the same tree, and the lexical scan ends in "text"    *)
(* Emitted cases: {"a":"Read","arg":{"doc":...},"cls":...,"exp":{"outcome":    *)
(* "ok","tree":...}} for documents of the subset; one "Enumerate" case per     *)
(* short slice (number of strings, SafeOutcomes) and one "Policy" case that    *)
(* carries SafeOutcomes for all the inputs on which only the way the call      *)
(* ends is constrained.                                                        *)
EXTENDS XmlDoc, TLC, Json, IOUtils, SequencesExt

CONSTANTS N,          \* maximal length of the short strings
          SPLIT2,     \* short strings: slice by the first two symbols (TRUE) or the first one
          KIDS,       \* "small" | "medium": leaf set the children of the "trees" family are taken from
          FAMS        \* "all", or the one family to run

Md(a, b) == a % b

VARIABLE slice
vars == <<slice>>

\* ---------------------------------------------------------------------------
\* bounded tree domain
\* ---------------------------------------------------------------------------
NameSeq  == << <<"a">>, <<"b", "1">> >>
Names    == {NameSeq[i] : i \in DOMAIN NameSeq}
PN1      == <<"Q", ".", "1">>                 \* "Q.1" < "q" in ASCII order
PN2      == <<"q">>
V1       == {<<>>, <<"v", " ", "w">>}
V2       == {<<"'", ">">>, <<DQ, "/", "=">>}  \* one value needs double quotes, the other single quotes
PropListSeq == SetToSeq({<<>>} \cup {<< <<PN1, v>> >> : v \in V1} \cup {<< <<PN2, v>> >> : v \in V2}
                        \cup {<< <<PN1, v>>, <<PN2, w>> >> : v \in V1, w \in V2})                  \* 9 attribute lists
PropLists == {PropListSeq[i] : i \in DOMAIN PropListSeq}
Contents == {<<>>, <<"t", " ", "u">>, <<">", DQ, "'", "/", "=", "!", "-", "x">>}

Leaves(ns, pls, cts) == {Node(n, ps, ct, <<>>) : n \in ns, ps \in pls, ct \in cts}
SeqsUpTo2(S) == {<<>>} \cup {<<x>> : x \in S} \cup {<<x, y>> : x \in S, y \in S}
WithKids(roots, kids) == {[r EXCEPT !.child = ch] : r \in roots, ch \in SeqsUpTo2(kids)}

SmallKids  == Leaves(Names, {<<>>, << <<PN2, <<"'", ">">> >> >>}, {<<>>, <<"t", " ", "u">>})                                \* 8 leaves
MediumKids == Leaves(Names, {<<>>, << <<PN1, <<>> >> >>, << <<PN2, <<DQ, "/", "=">> >> >>,
                             << <<PN1, <<"v", " ", "w">> >>, <<PN2, <<"'", ">">> >> >>}, Contents)                         \* 24 leaves
KidSet == IF KIDS = "medium" THEN MediumKids ELSE SmallKids

A  == <<"a">>
B1 == <<"b", "1">>
CoreSeq == <<
    Node(A, << <<PN1, <<"v", " ", "w">> >>, <<PN2, <<"'", ">">> >> >>, <<"t", " ", "u">>,
         << Node(B1, <<>>, <<>>, <<>>), Node(A, << <<PN1, <<>> >> >>, <<"x">>, <<>>) >>),
    Node(A, <<>>, <<>>, <<>>),
    Node(B1, << <<PN2, <<DQ, "/", "=">> >> >>, <<"t">>, <<>>),
    Node(A, <<>>, <<>>, << Node(B1, <<>>, <<>>, << Node(A, <<>>, <<">", DQ, "'", "/", "=", "!", "-", "x">>, <<>>) >>) >>) >>
CoreTrees == {CoreSeq[i] : i \in DOMAIN CoreSeq}

Profiles == {
    Plain,
    [Plain EXCEPT !.hdr = 1, !.wc = 2],
    [Plain EXCEPT !.q1 = "s", !.rev = TRUE, !.selfc = FALSE, !.wt = 1, !.cm = 3, !.tp = 1],
    [Plain EXCEPT !.hdr = 2, !.q2 = "s", !.selfc = FALSE, !.wt = 2, !.wc = 1, !.cm = 2, !.tp = 2],
    [Plain EXCEPT !.selfc = FALSE, !.we = 1],
    [Plain EXCEPT !.hdr = 3, !.q1 = "s", !.q2 = "s", !.wc = 1, !.cm = 1, !.tp = 1],
    [Plain EXCEPT !.wc = 1, !.cm = 4],
    [Plain EXCEPT !.hdr = 1, !.cm = 5] }

AlphaSeq == <<"<", ">", "/", "=", DQ, "a", " ", "!">>
Alpha    == {AlphaSeq[i] : i \in DOMAIN AlphaSeq}

\* ---------------------------------------------------------------------------
\* slices
\* ---------------------------------------------------------------------------
Sl(f, x, y) == [fam |-> f, x |-> x, y |-> y]
SliceSeq ==
     [i \in 1..24 |-> Sl("styles", (i - 1) \div 6, Md(i - 1, 6))]                                  \* x = hdr, y = cm
  \o [i \in 1..(Len(NameSeq) * Len(PropListSeq)) |-> Sl("trees", 1 + (i - 1) \div Len(PropListSeq), 1 + Md(i - 1, Len(PropListSeq)))]
  \o [i \in 1..Len(CoreSeq) |-> Sl("prefix", i, 0)]
  \o [i \in 1..3 |-> Sl("content", i, 0)]
  \o [i \in 1..6 |-> Sl("dashes", i, 0)]
  \o [i \in 1..7 |-> Sl("bytes", i, 0)]
  \o [i \in 1..4 |-> Sl("names", i, 0)]
  \o <<Sl("ctl", 0, 0), Sl("big", 0, 0), Sl("history", 0, 0)>>
  \o (IF SPLIT2 THEN [i \in 1..64 |-> Sl("short", 1 + (i - 1) \div 8, 1 + Md(i - 1, 8))] \o <<Sl("short", 0, 0)>>
      ELSE [i \in 1..8 |-> Sl("short", i, 0)] \o <<Sl("short", 0, 0)>>)                          \* (0, 0): the strings shorter than the prefix

\* ---------------------------------------------------------------------------
\* families "styles" and "trees": round trip and cases
\* ---------------------------------------------------------------------------
PairsOf(sl) ==     \* the (tree, choices) pairs of a slice
  IF sl.fam = "styles" THEN {p \in CoreTrees \X {c \in ChoiceSpace : c.hdr = sl.x /\ c.cm = sl.y} : Relevant(p[1], p[2])}
  ELSE WithKids(Leaves({NameSeq[sl.x]}, {PropListSeq[sl.y]}, Contents), KidSet) \X Profiles

\* the same with what the accessors of Node must say: getProp(n) = getProp(n, fallback) = the value, hasProp(n); for a name
\* no generated tree uses: hasProp false, getProp "" and the fallback
RECURSIVE TreeJG(_)
TreeJG(t) == [name |-> Join(t.name), props |-> [i \in DOMAIN t.props |-> <<Join(t.props[i][1]), Join(t.props[i][2])>>],
              content |-> Join(t.content), child |-> [i \in DOMAIN t.child |-> TreeJG(t.child[i])],
              get |-> [i \in DOMAIN t.props |-> <<Join(t.props[i][2]), Join(t.props[i][2]), TRUE>>], absent |-> <<FALSE, "", "fb">>]

RECURSIVE TreeJ(_)
TreeJ(t) == [name |-> Join(t.name), props |-> [i \in DOMAIN t.props |-> <<Join(t.props[i][1]), Join(t.props[i][2])>>],
             content |-> Join(t.content), child |-> [i \in DOMAIN t.child |-> TreeJ(t.child[i])]]

HasEndTag(t, c) == \E x \in Nodes(t) : ~(IsBare(x) /\ c.selfc)
Eval(t, c, acc) ==          \* acc: the case also states what the accessors return
  LET d == Render(t, c)
      p == ParseDoc(d)
  IN [law |-> IsTree(t) /\ p = [ok |-> TRUE, tree |-> DocNode(<<t>>), ew |-> (c.we = 1 /\ HasEndTag(t, c))],
      case |-> [a |-> "Read", arg |-> [doc |-> Join(d)], cls |-> DocClass(p, d),
                exp |-> [outcome |-> "ok", tree |-> IF acc THEN TreeJG(DocNode(<<t>>)) ELSE TreeJ(DocNode(<<t>>))]]]

\* (a value bound by \E x \in {e} is computed once; a LET definition may be re-evaluated at every use)
RoundTripSlice(sl, file) ==
  \E P \in {PairsOf(sl)} : \E Ev \in {{Eval(x[1], x[2], sl.fam = "trees") : x \in P}} :
     IF \A e \in Ev : e.law
     THEN ndJsonSerialize(file, SetToSeq({e.case : e \in Ev}))
          /\ PrintT(<<"xmlgen", sl, "pairs", Cardinality(P), "cases", Cardinality(Ev)>>)
     ELSE LET b == CHOOSE x \in P : ~Eval(x[1], x[2], FALSE).law IN
          PrintT(<<"round trip fails", b, Join(Render(b[1], b[2])), ParseDoc(Render(b[1], b[2]))>>) /\ FALSE

\* ---------------------------------------------------------------------------
\* family "prefix"
\* ---------------------------------------------------------------------------
TextCtx(s) == LexClass(s, "") = "eof-in=text"            \* (no NUL in generated documents; "" is no character)
PrefixOk(t, c) ==
  \E d \in {Render(t, c)} : \E acc \in {{k \in 0..Len(d) : ParseDoc(SubSeq(d, 1, k)).ok}} :
  \E k0 \in {CHOOSE k \in acc : \A j \in acc : k <= j} :
     /\ Len(d) \in acc /\ ParseDoc(d).tree = DocNode(<<t>>)
     /\ \A k \in acc : ParseDoc(SubSeq(d, 1, k)).tree = DocNode(<<t>>) /\ TextCtx(SubSeq(d, 1, k))
     /\ d[k0] = ">"
     /\ \A k \in k0..Len(d) : k \in acc                    \* after the root element only whitespace and comments follow...
             \/ LexClass(SubSeq(d, 1, k), "") \in {"eof-in=comment", "eof-in=decl"} \/ d[k] = "<"   \* ...and a cut is rejected only inside a comment
PrefixSlice(sl) ==
  IF \A c \in Profiles : PrefixOk(CoreSeq[sl.x], c)
  THEN PrintT(<<"xmlgen", sl, "prefix law holds for", Cardinality(Profiles), "documents">>)
  ELSE PrintT(<<"prefix law fails", sl, CHOOSE c \in Profiles : ~PrefixOk(CoreSeq[sl.x], c)>>) /\ FALSE

\* ---------------------------------------------------------------------------
\* family "short": all strings up to length N over the 8-symbol alphabet
\* ---------------------------------------------------------------------------
PrefixLen == IF SPLIT2 THEN 2 ELSE 1
StrsOf(sl) ==
  IF sl.x = 0 THEN UNION {[1..k -> Alpha] : k \in 0..(PrefixLen - 1)}
  ELSE LET pre == IF SPLIT2 THEN <<AlphaSeq[sl.x], AlphaSeq[sl.y]>> ELSE <<AlphaSeq[sl.x]>>
       IN UNION {{pre \o r : r \in [1..k -> Alpha]} : k \in 0..(N - PrefixLen)}
ShortOk(s) ==
  LET p == ParseDoc(s)
      r == p.tree.child[1]
  IN /\ Len(p.tree.child) = 1 /\ IsTree(r)
     /\ ParseDoc(Render(r, Plain)).tree = p.tree
     /\ ParseDoc(Render(r, [Plain EXCEPT !.hdr = 2, !.selfc = FALSE, !.wt = 2, !.wc = 2, !.cm = 4])).tree = p.tree
     /\ LexClass(s, "") = "eof-in=text"
ShortSlice(sl, file) ==
  \E S \in {StrsOf(sl)} : \E Acc \in {{s \in S : ParseDoc(s).ok}} :
  LET enum == [a |-> "Enumerate", arg |-> [alphabet |-> AlphaSeq, maxlen |-> N, x |-> sl.x, y |-> sl.y, prefixlen |-> PrefixLen], cls |-> "",
               exp |-> [count |-> Cardinality(S), outcomes |-> SetToSeq(SafeOutcomes)]]
      cases == {LET p == ParseDoc(s) IN
                [a |-> "Read", arg |-> [doc |-> Join(s)], cls |-> DocClass(p, s), exp |-> [outcome |-> "ok", tree |-> TreeJ(p.tree)]] : s \in Acc}
  IN IF \A s \in Acc : ShortOk(s)
     THEN ndJsonSerialize(file, SetToSeq(cases \cup {enum}))
          /\ PrintT(<<"xmlgen", sl, "strings", Cardinality(S), "accepted", Cardinality(Acc)>>)
     ELSE PrintT(<<"short law fails", CHOOSE s \in Acc : ~ShortOk(s)>>) /\ FALSE

\* ---------------------------------------------------------------------------
\* family "content": character-data runs with the bytes on which isspace() and the reader's isWhite() disagree
\* ---------------------------------------------------------------------------
VT == IOEnv.XML_VT                     \* the vertical tab (one character)
FF == "\f"
RunAlpha == {"t", " ", "\n", "\t", VT, FF}
Runs == UNION {[1..k -> RunAlpha] : k \in 0..3}
BTag == <<"<", "b", "/", ">">>
ContentDoc(pos, r) == <<"<", "a", ">">> \o (IF pos = 2 THEN BTag ELSE <<>>) \o r \o (IF pos = 3 THEN BTag ELSE <<>>) \o <<"<", "/", "a", ">">>
ContentEval(pos, r) ==
  LET d == ContentDoc(pos, r)
      p == ParseDoc(d)
      odd == \E i \in DOMAIN r : r[i] \in {VT, FF}
      kids == IF pos = 1 THEN <<>> ELSE <<Node(<<"b">>, <<>>, <<>>, <<>>)>>
      ct == IF p.ok THEN p.tree.child[1].content ELSE <<>>
  IN [law |-> /\ p.ok = ~odd
              /\ (p.ok => /\ p.tree = DocNode(<<Node(<<"a">>, <<>>, ct, kids)>>)
                           /\ IsText(ct)
                           /\ \E i \in 0..Len(r), j \in 0..Len(r) :
                                  /\ i + Len(ct) + j = Len(r) /\ SubSeq(r, i + 1, i + Len(ct)) = ct
                                  /\ \A k \in (1..i) \cup ((Len(r) - j + 1)..Len(r)) : r[k] \in WS),
      case |-> IF p.ok THEN [a |-> "Read", arg |-> [doc |-> Join(d)], cls |-> DocClass(p, d), exp |-> [outcome |-> "ok", tree |-> TreeJ(p.tree)]]
               ELSE [a |-> "ReadSafe", arg |-> [doc |-> Join(d)], cls |-> "", exp |-> [outcomes |-> SetToSeq(SafeOutcomes)]]]
ContentSlice(sl, file) ==
  \E Ev \in {{ContentEval(sl.x, r) : r \in Runs}} :
     IF Len(VT) = 1 /\ VT \notin Char /\ \A e \in Ev : e.law
     THEN ndJsonSerialize(file, SetToSeq({e.case : e \in Ev}))
          /\ PrintT(<<"xmlgen", sl, "runs", Cardinality(Runs), "outside the subset", Cardinality({e \in Ev : e.case.a = "ReadSafe"})>>)
     ELSE PrintT(<<"content law fails", sl, CHOOSE r \in Runs : ~ContentEval(sl.x, r).law>>) /\ FALSE

\* ---------------------------------------------------------------------------
\* family "dashes": dash runs in comment bodies
\* ---------------------------------------------------------------------------
Dashes(n) == [i \in 1..n |-> "-"]
DashBodySet ==
       {Dashes(x) \o <<"x">> \o Dashes(m) \o <<"y">> \o Dashes(e) : x \in 0..5, m \in 0..5, e \in 0..5}
  \cup {Dashes(e) : e \in 0..5}                                            \* <!---->, <!----->, ...
  \cup {<<"x", "-", ">", "y">> \o Dashes(e) : e \in 0..5}                  \* '>' after a single dash
  \cup {<<"-", ">">> \o Dashes(e) : e \in 0..5} \cup {<<">">> \o Dashes(e) : e \in 0..5}
Cmt(b) == <<"<", "!", "-", "-">> \o b \o <<"-", "-", ">">>
El(n) == <<"<", n, "/", ">">>
Open(n) == <<"<", n, ">">>
Close(n) == <<"<", "/", n, ">">>
DashDoc(pos, b) ==
  CASE pos = 1 -> Cmt(b) \o Open("a") \o El("b") \o Close("a")
    [] pos = 2 -> Open("a") \o El("b") \o Cmt(b) \o El("c") \o Close("a")
    [] pos = 3 -> Open("a") \o Cmt(b) \o <<"t">> \o El("b") \o Close("a")
    [] pos = 4 -> Open("a") \o El("b") \o Close("a") \o Cmt(b)
    [] pos = 5 -> Open("a") \o Cmt(b) \o El("b") \o Cmt(<<"z">>) \o El("c") \o Close("a")
    [] pos = 6 -> Open("a") \o <<"t">> \o Cmt(b) \o El("b") \o Close("a")
Lf(n) == Node(<<n>>, <<>>, <<>>, <<>>)
DashTree(pos) ==
  CASE pos \in {1, 4} -> Node(<<"a">>, <<>>, <<>>, <<Lf("b")>>)
    [] pos \in {2, 5} -> Node(<<"a">>, <<>>, <<>>, <<Lf("b"), Lf("c")>>)
    [] pos \in {3, 6} -> Node(<<"a">>, <<>>, <<"t">>, <<Lf("b")>>)
DashEval(pos, b) ==
  LET d == DashDoc(pos, b)
      p == ParseDoc(d)
  IN [law |-> p = [ok |-> TRUE, tree |-> DocNode(<<DashTree(pos)>>), ew |-> FALSE],
      case |-> [a |-> "Read", arg |-> [doc |-> Join(d)], cls |-> DocClass(p, d), exp |-> [outcome |-> "ok", tree |-> TreeJ(DocNode(<<DashTree(pos)>>))]]]
DashSlice(sl, file) ==
  \E Ev \in {{DashEval(sl.x, b) : b \in DashBodySet}} :
     IF \A e \in Ev : e.law
     THEN ndJsonSerialize(file, SetToSeq({e.case : e \in Ev}))
          /\ PrintT(<<"xmlgen", sl, "comment bodies", Cardinality(DashBodySet)>>)
     ELSE PrintT(<<"dash law fails", sl, CHOOSE b \in DashBodySet : ~DashEval(sl.x, b).law>>) /\ FALSE

\* ---------------------------------------------------------------------------
\* family "bytes": every byte value as (part of) text content and attribute values
\* ---------------------------------------------------------------------------
TabOk == /\ ByteTab.codes = [i \in 1..223 |-> i + 32] /\ Len(ByteTab.chars) = 223
         /\ \A i \in 1..223 : Len(ByteTab.chars[i]) = 1
         /\ \A i \in 1..94 : ByteTab.chars[i] = Ascii[i + 4]                  \* codes 33..126: the printable ASCII characters, in order
         /\ Cardinality(ByteChar) = 129 /\ ByteChar \cap Char = {}            \* codes 127..255: 129 further, distinct characters
ByteConts(b) == {<<b>>, <<b, "x">>, <<"x", b>>, <<b, b>>}
ByteDoc(pos, C) ==
  CASE pos = 1 -> Open("a") \o C \o Close("a")
    [] pos = 2 -> Open("a") \o Cmt(<<"c">>) \o C \o Close("a")
    [] pos = 3 -> Open("a") \o El("b") \o C \o Close("a")
    [] pos = 4 -> Open("a") \o C \o El("b") \o Close("a")
    [] pos = 5 -> Open("a") \o <<" ">> \o C \o <<"\n">> \o Close("a")
    [] pos = 6 -> <<"<", "a", " ", "q", "=", DQ>> \o C \o <<DQ, "/", ">">>
    [] pos = 7 -> <<"<", "a", " ", "q", "=", SQ>> \o C \o <<SQ, "/", ">">>
ByteTree(pos, C) ==
  CASE pos \in {1, 2, 5} -> Node(<<"a">>, <<>>, C, <<>>)
    [] pos \in {3, 4} -> Node(<<"a">>, <<>>, C, <<Lf("b")>>)
    [] pos \in {6, 7} -> Node(<<"a">>, << <<<<"q">>, C>> >>, <<>>, <<>>)
ByteCodes(pos) == {c \in 33..255 : ChrOf(c) \notin ({"<", "&"} \cup (IF pos = 6 THEN {DQ, "\\"} ELSE IF pos = 7 THEN {SQ, "\\"} ELSE {}))}
ByteEval(pos, C) ==
  LET d == ByteDoc(pos, C)
      p == ParseDoc(d)
  IN [law |-> p = [ok |-> TRUE, tree |-> DocNode(<<ByteTree(pos, C)>>), ew |-> FALSE],
      case |-> [a |-> "Read", arg |-> [doc |-> Join(d)], cls |-> DocClass(p, d), exp |-> [outcome |-> "ok", tree |-> IF pos \in {6, 7} THEN TreeJG(DocNode(<<ByteTree(pos, C)>>)) ELSE TreeJ(DocNode(<<ByteTree(pos, C)>>))]]]
ByteSlice(sl, file) ==
  \E Ev \in {{ByteEval(sl.x, C) : C \in UNION {ByteConts(ChrOf(c)) : c \in ByteCodes(sl.x)}}} :
     IF TabOk /\ \A e \in Ev : e.law
     THEN ndJsonSerialize(file, SetToSeq({e.case : e \in Ev}))
          /\ PrintT(<<"xmlgen", sl, "byte values", Cardinality(ByteCodes(sl.x)), "documents", Cardinality(Ev)>>)
     ELSE PrintT(<<"byte law fails", sl, TabOk>>) /\ FALSE

\* ---------------------------------------------------------------------------
\* families "names" and "ctl": every byte value first / last in names; control bytes first / last in every field
\* ---------------------------------------------------------------------------
SafeCase(d) == [a |-> "ReadSafe", arg |-> [doc |-> Join(d)], cls |-> "", exp |-> [outcomes |-> SetToSeq(SafeOutcomes)]]
TreeCase(p, d) == [a |-> "Read", arg |-> [doc |-> Join(d)], cls |-> DocClass(p, d), exp |-> [outcome |-> "ok", tree |-> TreeJ(p.tree)]]
NameDoc(pos, b) ==
  CASE pos = 1 -> <<"<", b, "x", "/", ">">>
    [] pos = 2 -> <<"<", "x", b, "/", ">">>
    [] pos = 3 -> <<"<", "a", " ", b, "x", "=", DQ, "v", DQ, "/", ">">>
    [] pos = 4 -> <<"<", "a", " ", "x", b, "=", DQ, "v", DQ, "/", ">">>
NameEval(pos, b) ==
  LET d == NameDoc(pos, b)
      p == ParseDoc(d)
      nm == IF pos \in {1, 3} THEN <<b, "x">> ELSE <<"x", b>>
  IN [law |-> /\ p.ok = (IF pos \in {1, 3} THEN b \in NameStart ELSE b \in NameChar)
              /\ (p.ok => p.tree = DocNode(<<IF pos \in {1, 2} THEN Node(nm, <<>>, <<>>, <<>>)
                                              ELSE Node(<<"a">>, << <<nm, <<"v">>>> >>, <<>>, <<>>)>>)),
      case |-> IF p.ok THEN TreeCase(p, d) ELSE SafeCase(d)]
NameSlice(sl, file) ==
  \E Ev \in {{NameEval(sl.x, ChrOf(c)) : c \in 33..255}} :
     IF TabOk /\ \A e \in Ev : e.law
     THEN ndJsonSerialize(file, SetToSeq({e.case : e \in Ev}))
          /\ PrintT(<<"xmlgen", sl, "byte values", 223, "inside the subset", Cardinality({e \in Ev : e.case.a = "Read"})>>)
     ELSE PrintT(<<"name law fails", sl, CHOOSE c \in 33..255 : ~NameEval(sl.x, ChrOf(c)).law>>) /\ FALSE

CtlChars == {ByteTab.ctlchars[i] : i \in DOMAIN ByteTab.ctlchars}
CtlDocs(k) == {
    Open("a") \o <<k, "x">> \o Close("a"), Open("a") \o <<"x", k>> \o Close("a"), Open("a") \o <<" ", k, " ">> \o Close("a"),
    Open("a") \o El("b") \o <<k>> \o Close("a"), Open("a") \o <<k>> \o El("b") \o Close("a"),
    <<"<", "a", " ", "q", "=", DQ, k, "x", DQ, "/", ">">>, <<"<", "a", " ", "q", "=", SQ, "x", k, SQ, "/", ">">>,
    Cmt(<<k, "x">>) \o El("a"), Open("a") \o Cmt(<<"x", k>>) \o Close("a"),
    <<"<", k, "x", "/", ">">>, <<"<", "x", k, "/", ">">>, <<"<", "a", " ", "x", k, "=", DQ, "v", DQ, "/", ">">>,
    El("a") \o <<k>>, <<k>> \o El("a") }
CtlSlice(file) ==
  \E D \in {UNION {CtlDocs(k) : k \in CtlChars}} :
     IF Cardinality(CtlChars) = 29 /\ CtlChars \cap AnyChar = {} /\ \A d \in D : ~ParseDoc(d).ok
     THEN ndJsonSerialize(file, SetToSeq({SafeCase(d) : d \in D}))
          /\ PrintT(<<"xmlgen", "ctl", "control bytes", Cardinality(CtlChars), "documents", Cardinality(D)>>)
     ELSE PrintT(<<"ctl law fails", CHOOSE d \in D : ParseDoc(d).ok>>) /\ FALSE

\* ---------------------------------------------------------------------------
\* family "big": documents and expected trees defined by formula
\* ---------------------------------------------------------------------------
Rep(n, c) == [i \in 1..n |-> c]
R(c, n) == IF n = 0 THEN <<>> ELSE << <<c, n>> >>                 \* a run in compressed form
RECURSIVE Rle(_)
Rle(q) == IF q = <<>> THEN <<>>
          ELSE LET K == {k \in DOMAIN q : q[k] # q[1]}
                   e == IF K = {} THEN Len(q) + 1 ELSE CHOOSE k \in K : \A j \in K : k <= j
               IN << <<q[1], e - 1>> >> \o Rle(SubSeq(q, e, Len(q)))
RECURSIVE CTree(_)
CTree(t) == [name |-> Rle(t.name), props |-> [i \in DOMAIN t.props |-> <<Rle(t.props[i][1]), Rle(t.props[i][2])>>],
             content |-> Rle(t.content), child |-> Rle([i \in DOMAIN t.child |-> CTree(t.child[i])])]
CNode(n, ps, ct, ch) == [name |-> n, props |-> ps, content |-> ct, child |-> ch]
CDoc(root) == CNode(<<>>, <<>>, <<>>, << <<root, 1>> >>)
CLeaf(c) == CNode(R(c, 1), <<>>, <<>>, <<>>)
DigitSeq == <<"0", "1", "2", "3", "4", "5", "6", "7", "8", "9">>
Dec5(k) == <<DigitSeq[1 + Md(k \div 10000, 10)], DigitSeq[1 + Md(k \div 1000, 10)], DigitSeq[1 + Md(k \div 100, 10)],
             DigitSeq[1 + Md(k \div 10, 10)], DigitSeq[1 + Md(k, 10)]>>
BigDoc(kind, n) ==
  CASE kind = "name" -> <<"<">> \o Rep(n, "a") \o <<"/", ">">>
    [] kind = "value" -> <<"<", "a", " ", "q", "=", DQ>> \o Rep(n, "v") \o <<DQ, "/", ">">>
    [] kind = "content" -> Open("a") \o Rep(n, "t") \o Close("a")
    [] kind = "comment" -> Open("a") \o Cmt(Rep(n, "c")) \o El("b") \o Close("a")
    [] kind = "blank" -> Open("a") \o Rep(n, " ") \o El("b") \o Close("a")
    [] kind = "attrs" -> <<"<", "a">> \o Concat([k \in 1..n |-> <<" ", "p">> \o Dec5(k) \o <<"=", DQ>> \o Dec5(k) \o <<DQ>>]) \o <<"/", ">">>
    [] kind = "children" -> Open("a") \o Concat([k \in 1..n |-> El("b")]) \o Close("a")
    [] kind = "size" -> Open("a") \o Rep(n - 7, "t") \o Close("a")
    [] kind = "sizepad" -> El("a") \o Rep(n - 4, "\n")
BigBytes(kind, n) ==
  CASE kind = "name" -> n + 3 [] kind = "value" -> n + 9 [] kind = "content" -> n + 7 [] kind = "comment" -> n + 18
    [] kind = "blank" -> n + 11 [] kind = "attrs" -> 15 * n + 4 [] kind = "children" -> 4 * n + 7 [] kind \in {"size", "sizepad"} -> n
BigC(kind, n) ==
  CDoc(CASE kind = "name" -> CNode(R("a", n), <<>>, <<>>, <<>>)
         [] kind = "value" -> CNode(R("a", 1), << <<R("q", 1), R("v", n)>> >>, <<>>, <<>>)
         [] kind = "content" -> CNode(R("a", 1), <<>>, R("t", n), <<>>)
         [] kind \in {"comment", "blank"} -> CNode(R("a", 1), <<>>, <<>>, << <<CLeaf("b"), 1>> >>)
         [] kind = "attrs" -> CNode(R("a", 1), [k \in 1..n |-> <<Rle(<<"p">> \o Dec5(k)), Rle(Dec5(k))>>], <<>>, <<>>)
         [] kind = "children" -> CNode(R("a", 1), <<>>, <<>>, R(CLeaf("b"), n))
         [] kind = "size" -> CNode(R("a", 1), <<>>, R("t", n - 7), <<>>)
         [] kind = "sizepad" -> CLeaf("a"))
Boundaries == {0, 1, 2, 127, 128, 129, 255, 256, 257, 511, 512, 513, 1023, 1024, 1025, 4095, 4096, 4097, 8191, 8192, 8193,
               65535, 65536, 65537, 1048575, 1048576, 1048577}
MinN(kind) == CASE kind = "name" -> 1 [] kind = "size" -> 7 [] kind = "sizepad" -> 4 [] OTHER -> 0
MaxN(kind) == CASE kind = "attrs" -> 4097 [] kind = "children" -> 65537 [] kind = "name" -> 65537 [] OTHER -> 1048577
BigKinds == {"name", "value", "content", "comment", "blank", "attrs", "children", "size", "sizepad"}
SmallNs(kind) == {n \in 0..9 : n >= MinN(kind)}
BigNs(kind) == SmallNs(kind) \cup {n \in Boundaries : n >= MinN(kind) /\ n <= MaxN(kind)}
BigLawOk(kind, n) ==
  LET d == BigDoc(kind, n)
      p == ParseDoc(d)
  IN p.ok /\ CTree(p.tree) = BigC(kind, n) /\ Len(d) = BigBytes(kind, n)
BigCase(kind, n) ==
  [a |-> "Big", arg |-> [kind |-> kind, n |-> n], cls |-> kind,
   exp |-> IF n <= 9 THEN [outcome |-> "ok", bytes |-> BigBytes(kind, n), doc |-> Join(BigDoc(kind, n)), ctree |-> BigC(kind, n)]
           ELSE [outcome |-> "ok", bytes |-> BigBytes(kind, n), ctree |-> BigC(kind, n)]]
\* chains: NestTree(n) = n nodes named a, each the only child of the one before; its plain rendering is the "closed" form the driver builds
RECURSIVE NestTree(_)
NestTree(n) == IF n = 1 THEN Node(<<"a">>, <<>>, <<>>, <<>>) ELSE Node(<<"a">>, <<>>, <<>>, <<NestTree(n - 1)>>)
NestDoc(n) == Concat([k \in 1..(n - 1) |-> Open("a")]) \o El("a") \o Concat([k \in 1..(n - 1) |-> Close("a")])
NestLawOk(n) == NestDoc(n) = Render(NestTree(n), Plain) /\ ParseDoc(NestDoc(n)).tree = DocNode(<<NestTree(n)>>) /\ Len(NestDoc(n)) = 7 * n - 3
NestDepths == {1, 2, 127, 128, 129, 255, 256, 257, 511, 512, 513, 1023, 1024, 1025, 2000}
NestCases == {[a |-> "Nest", arg |-> [depth |-> n, form |-> "closed"], cls |-> "", exp |-> [outcome |-> "ok", depth |-> n, chain |-> TRUE, bytes |-> 7 * n - 3]] : n \in NestDepths}
        \cup {[a |-> "Nest", arg |-> [depth |-> n, form |-> "open"], cls |-> "", exp |-> [bytes |-> 3 * n]] : n \in NestDepths}
BigSlice(file) ==
  IF (\A kind \in BigKinds : \A n \in SmallNs(kind) : BigLawOk(kind, n)) /\ (\A n \in 1..7 : NestLawOk(n))
  THEN ndJsonSerialize(file, SetToSeq(UNION {{BigCase(kind, n) : n \in BigNs(kind)} : kind \in BigKinds}
                                      \cup NestCases \cup {[a |-> "ReadMissing", arg |-> [what |-> "no such file"], cls |-> "", exp |-> [outcomes |-> SetToSeq(SafeOutcomes)]]}))
       /\ PrintT(<<"xmlgen", "big", "formula documents", Cardinality(UNION {{<<kind, n>> : n \in BigNs(kind)} : kind \in BigKinds})>>)
  ELSE PrintT(<<"big law fails", {<<kind, n>> \in BigKinds \X (0..9) : n \in SmallNs(kind) /\ ~BigLawOk(kind, n)}, {n \in 1..7 : ~NestLawOk(n)}>>) /\ FALSE

\* ---------------------------------------------------------------------------
\* family "history": the result of a call is a function of the file's bytes
\* ---------------------------------------------------------------------------
PoolSeq == << <<>>,                                                                          \* the empty file
              El("a"),
              <<"<", "b", "1", " ", "q", "=", DQ, "v", " ", "w", DQ, ">">> \o Rep(300, "t") \o El("a") \o <<"<", "/", "b", "1", ">">>,
              <<"<", "a">>,                                                                  \* malformed
              Rep(300, "x"),                                                                 \* long garbage
              <<" ", " ", "\n">>,
              <<"<", "b", "1", ">", "t", "<", "/", "b", "1", ">">>,
              <<"<", "a", " ", "q", "=", DQ, "x">> >>                                         \* file ends inside a value
StepExp(d) == LET p == ParseDoc(d) IN IF p.ok THEN [outcome |-> "ok", tree |-> TreeJ(p.tree)] ELSE [outcomes |-> SetToSeq(SafeOutcomes)]
StepCls(q, i) == IF i = 1 THEN "first"
                 ELSE IF \E j \in 1..(i - 1) : Len(PoolSeq[q[j]]) > Len(PoolSeq[q[i]]) THEN "after-longer-file" ELSE "after-shorter-or-equal-file"
SameAs(q, i) == CHOOSE j \in 1..i : q[j] = q[i] /\ \A k \in 1..(j - 1) : q[k] # q[i]          \* first read of the same bytes
SeqCase(q) == [a |-> "ReadSeq", arg |-> [docs |-> [i \in DOMAIN q |-> Join(PoolSeq[q[i]])]], cls |-> "",
               exp |-> [steps |-> [i \in DOMAIN q |-> StepExp(PoolSeq[q[i]])], same |-> [i \in DOMAIN q |-> SameAs(q, i)],
                        cls |-> [i \in DOMAIN q |-> StepCls(q, i)]]]
ThreadCase(r) ==      \* 4 threads; thread t reads the pool rotated by r + 2 t
  LET docs(t) == [i \in 1..Len(PoolSeq) |-> PoolSeq[1 + Md(i + r + 2 * t, Len(PoolSeq))]] IN
  [a |-> "ReadThreads", arg |-> [threads |-> [t \in 1..4 |-> [i \in 1..Len(PoolSeq) |-> Join(docs(t)[i])]], rounds |-> 40], cls |-> "",
   exp |-> [threads |-> [t \in 1..4 |-> [i \in 1..Len(PoolSeq) |-> StepExp(docs(t)[i])]], distinct |-> 1]]
\* a long history defined by formula: ReadRep(file, n) = the same file n times.  In a process that may hold 256 descriptors:
\* the empty file 300 times, a malformed file 20000 times (the throwing path; long enough that per-call state left behind
\* by a rejected parse - a counter, a depth, a buffer - accumulates past any plausible bound: leak-only variant of
\* seeded/C16-07), then a valid document - every call answers as the first one did, leaves the open files alone, and the
\* valid document is read faithfully
RepCase ==
  LET parts == << [doc |-> PoolSeq[1], n |-> 300], [doc |-> PoolSeq[4], n |-> 20000], [doc |-> PoolSeq[7], n |-> 2] >> IN
  [a |-> "ReadRep", arg |-> [nofile |-> 256, parts |-> [k \in DOMAIN parts |-> [doc |-> Join(parts[k].doc), n |-> parts[k].n]]], cls |-> "",
   exp |-> [nofile |-> 256, fd_delta_total |-> FdDelta,
            parts |-> [k \in DOMAIN parts |-> [first |-> StepExp(parts[k].doc), reads |-> parts[k].n, distinct |-> 1,
                                               fd_delta_min |-> FdDelta, fd_delta_max |-> FdDelta]]]]
HistorySlice(file) ==
  \E Q \in {UNION {[1..k -> 1..Len(PoolSeq)] : k \in 1..3}} :
     ndJsonSerialize(file, SetToSeq({SeqCase(q) : q \in Q} \cup {ThreadCase(r) : r \in 0..2} \cup {RepCase}))
     /\ PrintT(<<"xmlgen", "history", "sequences", Cardinality(Q)>>)

\* ---------------------------------------------------------------------------
PolicyCase == [a |-> "Policy", arg |-> [what |-> "any file"], cls |-> "", exp |-> [outcomes |-> SetToSeq(SafeOutcomes), fd_delta |-> FdDelta]]

Do(i) ==
  LET sl == SliceSeq[i]
      file == IOEnv.OUT \o "-" \o ToString(i)
  IN CASE sl.fam \in {"styles", "trees"} -> RoundTripSlice(sl, file)
       [] sl.fam = "prefix" -> PrefixSlice(sl) /\ (IF sl.x = 1 THEN ndJsonSerialize(file, <<PolicyCase>>) ELSE TRUE)
       [] sl.fam = "short" -> ShortSlice(sl, file)
       [] sl.fam = "content" -> ContentSlice(sl, file)
       [] sl.fam = "dashes" -> DashSlice(sl, file)
       [] sl.fam = "bytes" -> ByteSlice(sl, file)
       [] sl.fam = "names" -> NameSlice(sl, file)
       [] sl.fam = "ctl" -> CtlSlice(file)
       [] sl.fam = "big" -> BigSlice(file)
       [] sl.fam = "history" -> HistorySlice(file)

Init == slice \in {i \in DOMAIN SliceSeq : FAMS = "all" \/ SliceSeq[i].fam = FAMS}
Next == \/ slice > 0 /\ Do(slice) /\ slice' = 0 - slice
        \/ slice < 0 /\ UNCHANGED slice
Spec == Init /\ [][Next]_vars
=============================================================================
