INIT Init
NEXT Next
CONSTANT W = 8
