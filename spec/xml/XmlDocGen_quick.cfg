INIT Init
NEXT Next
CONSTANTS
  N = 6
  SPLIT2 = FALSE
  KIDS = "small"
  FAMS = "all"
