INIT Init
NEXT Next
CONSTANTS
  N = 7
  SPLIT2 = TRUE
  KIDS = "medium"
  FAMS = "all"
