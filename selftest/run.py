#!/usr/bin/env python3
"""Binding demonstration: (with --seeded: every independently seeded change under seeded/<id>/, expectation
VIOLATION, property taken from meta.json; patch_rebased.diff is preferred over patch.diff)
apply each mutation under selftest/mutations/<ID>/*.diff to a scratch
copy of /repo (outside /repo and /verif), run the property's check against the copy and compare
with the expected outcome (first line of the diff: '# expect: VIOLATION' or '# expect: PASS').
Usage: selftest/run.py [ID ...] [--tier quick] [--keep]"""
import glob, os, shutil, subprocess, sys, time
VERIF = os.path.dirname(os.path.dirname(os.path.abspath(__file__)))

def main():
    args = [a for a in sys.argv[1:] if not a.startswith("--")]
    tier = "quick"
    seeded = "--seeded" in sys.argv
    ids = args or sorted(os.path.basename(d) for d in glob.glob(os.path.join(VERIF, "selftest", "mutations", "*")))
    ok = True
    work = []
    if seeded:
        import json
        for d in sorted(glob.glob(os.path.join(VERIF, "seeded", "*"))):
            meta = json.load(open(os.path.join(d, "meta.json")))
            pid = meta.get("property", os.path.basename(d)[:3])
            if args and pid not in args:
                continue
            diff = os.path.join(d, "patch_rebased.diff")
            if not os.path.exists(diff):
                diff = os.path.join(d, "patch.diff")
            work.append((pid, "seeded-" + os.path.basename(d), diff, "VIOLATION"))
    else:
        for pid in ids:
            for diff in sorted(glob.glob(os.path.join(VERIF, "selftest", "mutations", pid, "*.diff"))):
                first = open(diff).readline()
                work.append((pid, os.path.basename(diff)[:-5], diff, "PASS" if "expect: PASS" in first else "VIOLATION"))
    sample = None
    for a in sys.argv[1:]:
        if a.startswith("--sample="):
            sample = int(a.split("=")[1])
    if sample:
        import random
        rnd = random.Random(int(os.environ.get("VERIF_SEED", "1")))
        by = {}
        for w in work:
            by.setdefault(w[0], []).append(w)
        work = []
        for pid in sorted(by):
            ws = by[pid]
            rnd.shuffle(ws)
            work += ws[:sample]
    for pid, name, diff, expect in work:
        if True:
            scratch = "/tmp/selftest_%s_%d" % (pid, os.getpid())
            shutil.rmtree(scratch, ignore_errors=True)
            os.makedirs(scratch)
            subprocess.check_call(["rsync", "-a", "--exclude", "_build", "--exclude", ".git", "/repo/", scratch + "/repo/"])
            p = subprocess.run(["patch", "-p1", "-s", "-i", diff], cwd=scratch + "/repo", stdout=subprocess.PIPE, stderr=subprocess.STDOUT)
            if p.returncode != 0:
                print("%s/%s: PATCH DOES NOT APPLY: %s" % (pid, name, p.stdout.decode()[-300:]))
                ok = False
                shutil.rmtree(scratch, ignore_errors=True)
                continue
            env = dict(os.environ, VERIF_REPO=scratch + "/repo", VERIF_WORK=scratch + "/work")
            t0 = time.time()
            r = subprocess.run([os.path.join(VERIF, "bin", "check"), pid, "--tier", tier], cwd=VERIF, env=env, stdout=subprocess.PIPE, stderr=subprocess.STDOUT)
            out = r.stdout.decode()
            got = "VIOLATION" if (r.returncode == 1 and "VIOLATION property=" in out) else ("PASS" if r.returncode == 0 else "ERROR(rc=%d)" % r.returncode)
            sigs = [l.strip() for l in out.splitlines() if l.strip().startswith("violation sig=")]
            verdict = "ok" if got == expect else "UNEXPECTED"
            if got != expect:
                ok = False
            print("%s/%s: expected %s, got %s [%s] %.0fs %s" % (pid, name, expect, got, verdict, time.time() - t0, "; ".join(s[:160] for s in sigs[:3])), flush=True)
            if got.startswith("ERROR"):
                print(out[-1500:])
            shutil.rmtree(scratch, ignore_errors=True)
    return 0 if ok else 1

if __name__ == "__main__":
    sys.exit(main())
