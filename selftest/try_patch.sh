#!/bin/sh
# try_patch.sh <patch.diff> <PROPERTY-ID> [tier]: run a check against a scratch copy of /repo with the patch applied
# (equivalent to applying it in /repo, but does not disturb other work running against /repo)
set -e
P=$1; ID=$2; TIER=${3:-quick}
S=/tmp/trypatch_$$; rm -rf $S; mkdir -p $S
rsync -a --exclude _build --exclude .git /repo/ $S/repo/
(cd $S/repo && patch -p1 -s < $P)
cd /verif
VERIF_REPO=$S/repo VERIF_WORK=$S/work bin/check $ID --tier $TIER > $S/out.log 2>&1 && RC=0 || RC=$?
grep -E "violation sig|VIOLATION|KNOWN|done in|INFRA" $S/out.log | cut -c1-400
echo "exit=$RC"
rm -rf $S
