#!/bin/bash
cd /verif
for t in "$@"; do IFS=: read w s be <<< "$t"; python3 selftest/adopt_seed.py /tmp/seed_$w $s $be > _work/adopt_$w.log 2>&1; cp /tmp/seed_$w/_seed/patch.diff /tmp/seed_$w.diff; echo "== adopt $w -> $s confirmed=$(grep -c '"confirmed": true' _work/adopt_$w.log)"; selftest/try_patch.sh /tmp/seed_$w.diff ${s%%-*} 2>&1 | grep -E "violation sig|done in|exit=|NOTE" | cut -c1-260 | head -6; done
echo ALLDONE
