#!/usr/bin/env python3
"""mkprompts.py <suffix> [ID ...]: writes /tmp/seedprompts/<ID><suffix>.txt for the given properties (default: all with a
seed_prop file).  A prompt = prompt_head.txt + the property text + the worktree path /tmp/seed_<ID><suffix> + a list of the
changes already seeded for that property (from /verif/seeded/*/meta.json) with the request to produce a different kind.
Workflow (see DESIGN.md 11.4 / README): git -C /repo worktree add --detach /tmp/seed_<tag> HEAD; start a fresh sub-agent with
'Read the file /tmp/seedprompts/<tag>.txt and follow the instructions in it exactly'; when it is done:
selftest/seedkit/adopt_and_try.sh <tag>:<seed-id>[:backend]  (confirms + copies to seeded/, then runs the check against it);
write detected_by into seeded/<seed-id>/meta.json; git -C /repo worktree remove --force /tmp/seed_<tag>."""
import glob, json, os, sys
HERE = os.path.dirname(os.path.abspath(__file__))
VERIF = os.path.dirname(os.path.dirname(HERE))
suffix = sys.argv[1]
ids = sys.argv[2:] or sorted(os.path.basename(p)[len("seed_prop_"):-4] for p in glob.glob(os.path.join(HERE, "seed_prop_C*.txt")))
by = {}
for d in sorted(glob.glob(os.path.join(VERIF, "seeded", "*"))):
    m = json.load(open(os.path.join(d, "meta.json")))
    by.setdefault(os.path.basename(d)[:3], []).append(m["summary"])
NOTE = ("NOTE: some sources contain macro lines RKCOMMON_VERIF_POINT(...) / RKCOMMON_VERIF_SCOPE(...): they are no-op instrumentation points; leave those "
        "lines exactly as they are - change only real code. Put the demo build command on ONE line in _seed/README.txt starting with 'g++' (no prefix text) "
        "in the form '<compile command> && <run command>', using paths relative to the worktree root and the default build directory name _b for the "
        "library if the demo needs to link against it (if the demo needs a non-default tasking backend, say so and give the cmake line too).")
GENERIC = ("Prefer a change whose effect depends on TWO conditions holding together (a size threshold and an element type; a state left behind by an earlier "
           "operation and a later call; a backend and a thread count; a particular overload and a particular value), or one that is only wrong at a numeric "
           "boundary (0, 1, 255/256, 1023/1024, 4096, 2^31, SIZE_MAX, the empty container, the last element), or one in a rarely used overload / accessor / "
           "operator of the anchored files that has not been touched by the earlier changes listed above. Look through ALL functions of the anchor files "
           "before choosing.")
os.makedirs("/tmp/seedprompts", exist_ok=True)
head = open(os.path.join(HERE, "prompt_head.txt")).read()
for pid in ids:
    tag = pid + suffix
    text = head + open(os.path.join(HERE, "seed_prop_%s.txt" % pid)).read()
    text += "\nYOUR WORKTREE: /tmp/seed_%s   (this is a git worktree of the repository at its current HEAD; <worktree> above means this path)\n%s\n" % (tag, NOTE)
    if by.get(pid):
        prev = " ; ".join("(%d) %s" % (i + 1, s[:240]) for i, s in enumerate(by[pid]))
        text += "AVOID DUPLICATES: earlier seeded changes for this property: %s. Produce a DIFFERENT kind of change in a different function / code path. %s\n" % (prev, GENERIC)
    open("/tmp/seedprompts/%s.txt" % tag, "w").write(text)
    print(tag)
