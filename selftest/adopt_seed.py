#!/usr/bin/env python3
"""adopt_seed.py <worktree> <seed-id>: confirm a seeded change produced by an independent sub-agent and keep it
under /verif/seeded/<seed-id>/.  Confirms (1) the change is confined to rkcommon sources, (2) library + tests build
and the test suite passes with the change, (3) the demonstration fails with the change and passes without it.
Then removes the build directory.  Prints a JSON summary; exit 0 only if everything was confirmed."""
import json, os, shutil, subprocess, sys, re
wt, sid = sys.argv[1], sys.argv[2]
backend = sys.argv[3] if len(sys.argv) > 3 else None    # tasking backend the DEMO needs (tests always run on the default build)
dst = os.path.join(os.path.dirname(os.path.dirname(os.path.abspath(__file__))), "seeded", sid)
if os.path.exists(os.path.join(dst, "patch.diff")) and not os.environ.get("ADOPT_OVERWRITE"):
    # seed numbers have gaps (C10 has no -06): a count-based id overwrote C10-07 once (restored from git)
    sys.exit("adopt_seed: %s exists already - pick the next free number (ADOPT_OVERWRITE=1 to replace it on purpose)" % dst)
def sh(cmd, cwd=wt, timeout=3600):
    p = subprocess.run(cmd, shell=True, cwd=cwd, stdout=subprocess.PIPE, stderr=subprocess.STDOUT, timeout=timeout)
    return p.returncode, p.stdout.decode(errors="replace")
res = {"seed": sid, "worktree": wt}
rc, diff = sh("git diff -- rkcommon")
rc2, names = sh("git diff --name-only")
res["files"] = names.split()
res["confined_to_rkcommon"] = all(n.startswith("rkcommon/") for n in names.split()) and bool(names.split())
meta = json.load(open(os.path.join(wt, "_seed", "meta.json")))
readme = open(os.path.join(wt, "_seed", "README.txt")).read() if os.path.exists(os.path.join(wt, "_seed", "README.txt")) else ""
b = os.path.join(wt, "_b")
def build(be=None):
    extra = (" -DRKCOMMON_TASKING_SYSTEM=%s -DBUILD_TESTING=OFF" % be) if be else ""
    return sh("cmake -G Ninja -S . -B _b -DCMAKE_BUILD_TYPE=RelWithDebInfo -DCMAKE_CXX_FLAGS=-Wno-error%s > /dev/null && cmake --build _b -j 8 2>&1 | tail -3" % extra)
rc, out = build()
res["build_with_change"] = rc == 0
rc, out = sh("ctest --test-dir _b -j4 --timeout 900 2>&1 | tail -5")
res["tests_pass_with_change"] = rc == 0 and "100% tests passed" in out
if backend:
    shutil.rmtree(b, ignore_errors=True)
    rc, out = build(backend)
    res["demo_backend"] = backend
    res["build_with_change_" + backend] = rc == 0
# demo build command: first line in README / meta commands that mentions g++ and demo
cmds = [l.strip() for l in (readme.splitlines() + meta.get("commands", [])) if "g++" in l and "demo" in l]
democmd = cmds[0] if cmds else None
if democmd:
    democmd = democmd[democmd.index("g++"):].split("#")[0].strip()
res["demo_cmd"] = democmd
def run_demo(n):
    fails = 0
    rcb, outb = sh(democmd.split("&&")[0] if democmd else "false")
    exe = democmd.split("&&", 1)[1].strip() if (democmd and "&&" in democmd) else (re.search(r"-o\s+(\S+)", democmd).group(1) if democmd else None)
    if rcb != 0:
        return None, outb[-500:]
    last = ""
    for _ in range(n):
        rc, out = sh(exe, timeout=900)
        last = out[-300:]
        if rc != 0:
            fails += 1
    return fails, last
if democmd:
    f1, o1 = run_demo(3)
    res["demo_fails_with_change"] = (f1 == 3)
    res["demo_output_with_change"] = o1
    open(os.path.join(wt, "_seed", ".adopt.diff"), "w").write(diff)
    sh("git apply -R _seed/.adopt.diff")   # not git stash: the stash is shared between worktrees
    build(backend)
    f0, o0 = run_demo(3)
    res["demo_passes_without_change"] = (f0 == 0)
    res["demo_output_without_change"] = o0
    sh("git apply _seed/.adopt.diff")
shutil.rmtree(b, ignore_errors=True)
ok = all(res.get(k) for k in ("confined_to_rkcommon", "build_with_change", "tests_pass_with_change", "demo_fails_with_change", "demo_passes_without_change"))
res["confirmed"] = ok
if ok:
    os.makedirs(dst, exist_ok=True)
    open(os.path.join(dst, "patch.diff"), "w").write(diff)
    for f in os.listdir(os.path.join(wt, "_seed")):
        if f not in ("patch.diff", "meta.json") and os.path.isfile(os.path.join(wt, "_seed", f)) and os.path.getsize(os.path.join(wt, "_seed", f)) < 200000 and not os.access(os.path.join(wt, "_seed", f), os.X_OK):
            shutil.copy(os.path.join(wt, "_seed", f), dst)
    meta["confirmed_by_lead"] = {k: res[k] for k in res if k not in ("worktree",)}
    json.dump(meta, open(os.path.join(dst, "meta.json"), "w"), indent=1)
print(json.dumps(res, indent=1))
sys.exit(0 if ok else 1)
