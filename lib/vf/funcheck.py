"""Pipeline for *functional* specifications (pure functions): the TLA+ module
defines the function over a bounded domain, TLC first checks the module's laws
(ASSUMEs / invariants) and then writes one case per input as ndjson
({"a": op, "arg": {...}, "exp": {...}}) through
    ASSUME ndJsonSerialize(IOEnv.OUT, SetToSeq(Cases))
(or several files: IOEnv.OUT \\o "-name").  A case is a history of length one, so
the drivers, the comparison and the replay artefacts are the same as for ADTs.

The opposite direction (code -> spec) for results that are defined by a law
rather than uniquely: the driver's observations are written as a trace and a
trace specification validates them (see trace.py)."""
import glob, json, os
from . import tla, adt, adtcheck


def gen_cases(chk, spec_dir, module, cfg, tag, workers=1, timeout=1500, env=None, what=""):
    """Run TLC on a case-emitting module.  Returns list of case dicts (all files
    whose name starts with the OUT prefix are read)."""
    d = os.path.join(tla.WORK, "cases", tag)
    os.makedirs(d, exist_ok=True)
    prefix = os.path.join(d, "cases-%d" % os.getpid())
    for f in glob.glob(prefix + "*"):
        os.remove(f)
    e = {"OUT": prefix}
    if env:
        e.update(env)
    r = tla.run_tlc(os.path.join(spec_dir, module + ".tla"), os.path.join(spec_dir, cfg), workers=workers, timeout=timeout, env=e, tag=tag)
    if not r.ok:
        raise tla.InfraError("case-generation module %s failed: violated=%s error=%s\n%s" % (module, r.violated, r.error, r.out[-2500:]))
    # an ASSUME that is false is reported as an error by TLC -> r.ok False above
    cases = []
    for f in sorted(glob.glob(prefix + "*")):
        with open(f) as fh:
            for line in fh:
                line = line.strip()
                if line:
                    cases.append(json.loads(line))
        os.remove(f)
    if not cases:
        raise tla.InfraError("module %s emitted no cases" % module)
    chk.cov["models"].append({"module": module + "/" + cfg, "cases_emitted": len(cases), "distinct_states": r.distinct,
                              "states_generated": r.generated, "wall_s": round(r.wall, 1), "what": what})
    chk.cov["states"] += max(r.distinct, 1)
    chk.cov["transitions"] += max(r.generated, 1)
    chk.log("TLC %s: laws checked, %d cases emitted in %.1fs %s" % (module, len(cases), r.wall, what))
    return cases


def replay_cases(chk, exe, cases, tag, sig_prefix, isolate=0, meta=None, env=None, batch=None):
    """Each case becomes a one-step history.  `batch`: group this many cases into one
    history (same World) to save process/World overhead when cases are independent."""
    hs = [[c] for c in cases]
    chk.count_actions(hs)
    n, wall = adtcheck.replay(chk, exe, hs, tag, sig_prefix, isolate=isolate, meta=meta, env=env)
    return n, wall


def distinct_cases(cases):
    return len({json.dumps([c["a"], c.get("arg")], sort_keys=True) for c in cases})
