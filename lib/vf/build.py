"""Builds conformance drivers (and rkcommon itself, from /repo's current working
tree) with cmake+ninja.  One build tree per (backend, sanitizer, guard)."""
import os, subprocess, fcntl, time
from .tla import VERIF, WORK, InfraError

REPO = os.environ.get("VERIF_REPO", "/repo")
BACKENDS = ["TBB", "OpenMP", "Internal", "Debug"]


def build(target, backend="TBB", san="", guard=True, jobs=16, extra_defs=None, driver_dir=None):
    """Returns the path of the built executable `target`."""
    tag = "%s-%s-%s" % (backend, (san or "plain").replace(",", "+"), "g" if guard else "n")
    if extra_defs:
        tag += "-" + "-".join(sorted(extra_defs)).replace("=", "_")
    drv = target.replace("drv_", "", 1) if driver_dir is None else driver_dir
    bdir = os.path.join(WORK, "build", tag, drv)
    os.makedirs(bdir, exist_ok=True)
    lock = open(os.path.join(bdir, ".lock"), "w")
    fcntl.flock(lock, fcntl.LOCK_EX)
    try:
        cfg = ["cmake", "-G", "Ninja", "-S", os.path.join(VERIF, "harness"), "-B", bdir,
               "-DVERIF_REPO=" + REPO, "-DRKCOMMON_TASKING_SYSTEM=" + backend,
               "-DVERIF_SANITIZE=" + san, "-DVERIF_GUARD=" + ("ON" if guard else "OFF"),
               "-DCMAKE_BUILD_TYPE=RelWithDebInfo", "-DVERIF_DRIVER=" + drv]
        for d in (extra_defs or []):
            cfg.append("-D" + d)
        p = subprocess.run(cfg, stdout=subprocess.PIPE, stderr=subprocess.STDOUT)
        if p.returncode != 0:
            raise InfraError("cmake configure failed (%s):\n%s" % (tag, p.stdout.decode()[-3000:]))
        p = subprocess.run(["cmake", "--build", bdir, "--target", target, "-j", str(jobs)],
                           stdout=subprocess.PIPE, stderr=subprocess.STDOUT)
        if p.returncode != 0:
            raise BuildFailed("build of %s failed (%s):\n%s" % (target, tag, p.stdout.decode()[-6000:]))
    finally:
        fcntl.flock(lock, fcntl.LOCK_UN)
        lock.close()
    exe = os.path.join(bdir, "drivers", drv, target)
    if not os.path.exists(exe):
        # search
        for root, _, files in os.walk(bdir):
            if target in files:
                exe = os.path.join(root, target)
                break
    if not os.path.exists(exe):
        raise InfraError("built target %s not found under %s" % (target, bdir))
    return exe


class BuildFailed(InfraError):
    pass
