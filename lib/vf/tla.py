"""TLC plumbing: run TLC (model checking / simulation / trace validation), parse
its statistics and coverage, parse TLA+ values and `-dump dot,actionlabels`
state graphs.  Nothing in here decides a property: TLC does; this module only
starts it and turns what it printed into Python values."""
import os, re, subprocess, shutil, time, json, hashlib

VERIF = os.path.dirname(os.path.dirname(os.path.dirname(os.path.abspath(__file__))))
WORK = os.environ.get("VERIF_WORK", os.path.join(VERIF, "_work"))
JAR = "/opt/veriftools/tla/tla2tools.jar"
COMMUNITY = "/opt/veriftools/tla/CommunityModules-deps.jar"


class InfraError(Exception):
    """Tooling failed (parse error, build error, timeout of the tool itself).
    Never reported as a VIOLATION."""


# ---------------------------------------------------------------------------
# TLA+ value parser (the subset TLC prints)
# ---------------------------------------------------------------------------
class ModelValue(str):
    pass


class _P:
    def __init__(self, s, i=0):
        self.s, self.i = s, i

    def ws(self):
        s = self.s
        while self.i < len(s) and s[self.i] in " \t\r\n":
            self.i += 1

    def peek(self, tok):
        self.ws()
        return self.s.startswith(tok, self.i)

    def eat(self, tok):
        self.ws()
        if not self.s.startswith(tok, self.i):
            raise ValueError("expected %r at %d: %r" % (tok, self.i, self.s[self.i:self.i + 40]))
        self.i += len(tok)

    def value(self):
        self.ws()
        s = self.s
        c = s[self.i]
        if s.startswith("<<", self.i):
            self.i += 2
            out = []
            if self.peek(">>"):
                self.eat(">>")
                return out
            while True:
                out.append(self.value())
                if self.peek(","):
                    self.eat(",")
                else:
                    break
            self.eat(">>")
            return out
        if c == "{":
            self.i += 1
            out = []
            if self.peek("}"):
                self.eat("}")
                return TlaSet(out)
            while True:
                out.append(self.value())
                if self.peek(","):
                    self.eat(",")
                else:
                    break
            self.eat("}")
            return TlaSet(out)
        if c == "[":
            self.i += 1
            out = {}
            if self.peek("]"):
                self.eat("]")
                return out
            while True:
                self.ws()
                m = re.compile(r"[A-Za-z_][A-Za-z0-9_]*").match(s, self.i)
                if not m:
                    raise ValueError("record field at %d" % self.i)
                self.i = m.end()
                self.eat("|->")
                out[m.group(0)] = self.value()
                if self.peek(","):
                    self.eat(",")
                else:
                    break
            self.eat("]")
            return out
        if c == "(":
            # function printed as (k :> v @@ k :> v)
            self.i += 1
            out = TlaFun()
            while True:
                k = self.value()
                self.eat(":>")
                v = self.value()
                out.append((k, v))
                if self.peek("@@"):
                    self.eat("@@")
                else:
                    break
            self.eat(")")
            return out
        if c == '"':
            j = self.i + 1
            buf = []
            while s[j] != '"':
                if s[j] == "\\":
                    nxt = s[j + 1]
                    buf.append({"n": "\n", "t": "\t", "r": "\r", "f": "\f"}.get(nxt, nxt))
                    j += 2
                else:
                    buf.append(s[j])
                    j += 1
            self.i = j + 1
            return "".join(buf)
        m = re.compile(r"-?[0-9]+").match(s, self.i)
        if m:
            self.i = m.end()
            # a range a..b
            if s.startswith("..", self.i):
                self.i += 2
                m2 = re.compile(r"-?[0-9]+").match(s, self.i)
                self.i = m2.end()
                return TlaSet(list(range(int(m.group(0)), int(m2.group(0)) + 1)))
            return int(m.group(0))
        m = re.compile(r"[A-Za-z_][A-Za-z0-9_]*").match(s, self.i)
        if m:
            self.i = m.end()
            w = m.group(0)
            if w == "TRUE":
                return True
            if w == "FALSE":
                return False
            return ModelValue(w)
        raise ValueError("cannot parse at %d: %r" % (self.i, s[self.i:self.i + 40]))


class TlaSet(list):
    """A TLA+ set, kept as a list in TLC's print order."""


class TlaFun(list):
    """A TLA+ function with a non-sequence domain: list of (key, value)."""

    def get(self, k, d=None):
        for kk, v in self:
            if kk == k:
                return v
        return d

    def asdict(self):
        return {(json.dumps(k) if not isinstance(k, (str, int)) else k): v for k, v in self}


def parse_value(text):
    p = _P(text)
    v = p.value()
    p.ws()
    if p.i != len(p.s):
        raise ValueError("trailing text: %r" % p.s[p.i:p.i + 40])
    return v


def parse_state(text):
    """'/\\ a = 1\n/\\ b = <<>>' -> {'a': 1, 'b': []}"""
    p = _P(text)
    out = {}
    while True:
        p.ws()
        if p.i >= len(p.s):
            break
        if p.peek("/\\"):
            p.eat("/\\")
        p.ws()
        m = re.compile(r"[A-Za-z_][A-Za-z0-9_]*").match(p.s, p.i)
        if not m:
            raise ValueError("state var at %d: %r" % (p.i, p.s[p.i:p.i + 40]))
        p.i = m.end()
        p.eat("=")
        out[m.group(0)] = p.value()
    return out


def to_jsonable(v):
    """TLA value -> plain JSON value (sets become sorted lists, functions dicts)."""
    if isinstance(v, TlaFun):
        return {str(k): to_jsonable(x) for k, x in v}
    if isinstance(v, TlaSet):
        return [to_jsonable(x) for x in v]
    if isinstance(v, list):
        return [to_jsonable(x) for x in v]
    if isinstance(v, dict):
        return {k: to_jsonable(x) for k, x in v.items()}
    if isinstance(v, ModelValue):
        return str(v)
    return v


# ---------------------------------------------------------------------------
# dot graph
# ---------------------------------------------------------------------------
def _dot_unescape(s):
    out = []
    i = 0
    while i < len(s):
        c = s[i]
        if c == "\\" and i + 1 < len(s):
            n = s[i + 1]
            if n == "n":
                out.append("\n")
            elif n == "l" or n == "r":
                out.append("\n")
            else:
                out.append(n)
            i += 2
        else:
            out.append(c)
            i += 1
    return "".join(out)


_NODE = re.compile(r'^(-?\d+) \[label="((?:[^"\\]|\\.)*)"(.*)\]\s*;?\s*$')
_EDGE = re.compile(r'^(-?\d+) -> (-?\d+) \[label="((?:[^"\\]|\\.)*)"')


class Graph:
    def __init__(self):
        self.nodes = {}      # id -> state dict
        self.init = []       # ids
        self.edges = []      # (src, dst, label)
        self.out = {}        # src -> [edge index]

    def successors(self, n):
        return [self.edges[i] for i in self.out.get(n, [])]


def parse_dot(path, parse_states=True):
    g = Graph()
    seen_edges = set()
    with open(path, encoding="utf-8", errors="replace") as f:
        for line in f:
            line = line.rstrip("\n")
            m = _EDGE.match(line)
            if m:
                key = (m.group(1), m.group(2), m.group(3))
                if key in seen_edges:
                    continue
                seen_edges.add(key)
                src, dst = int(m.group(1)), int(m.group(2))
                g.out.setdefault(src, []).append(len(g.edges))
                g.edges.append((src, dst, _dot_unescape(m.group(3))))
                continue
            m = _NODE.match(line)
            if m:
                nid = int(m.group(1))
                if nid not in g.nodes:
                    txt = _dot_unescape(m.group(2))
                    g.nodes[nid] = parse_state(txt) if parse_states else txt
                if "style = filled" in m.group(3):
                    if nid not in g.init:
                        g.init.append(nid)
    return g


# ---------------------------------------------------------------------------
# running TLC
# ---------------------------------------------------------------------------
class TlcResult:
    def __init__(self):
        self.rc = None
        self.out = ""
        self.generated = 0
        self.distinct = 0
        self.depth = 0
        self.violated = None     # name of violated invariant/property, if any
        self.error = None        # other error text
        self.wall = 0.0
        self.coverage = {}       # action -> (taken/distinct, generated)
        self.printed = []        # lines printed by PrintT / Print

    @property
    def ok(self):
        return self.rc == 0 and not self.violated and not self.error


def _metadir(tag):
    d = os.path.join(WORK, "tlc", "%s-%d-%s" % (tag, os.getpid(), hashlib.md5(str(time.time()).encode()).hexdigest()[:6]))
    os.makedirs(d, exist_ok=True)
    return d


def run_tlc(tla, cfg=None, workers=8, timeout=600, dump_dot=None, simulate=None, depth=None,
            seed=None, env=None, coverage=False, deadlock=True, xmx="8g", dfs=False,
            dump_trace_json=None, extra=None, tag=None, continue_=False):
    """Run TLC on module file `tla` (absolute path).  Returns TlcResult.
    Raises InfraError on parse/semantic errors or tool timeouts."""
    tla = os.path.abspath(tla)
    d = os.path.dirname(tla)
    mod = os.path.basename(tla)
    meta = _metadir(tag or mod.replace(".tla", ""))
    java = ["java", "-Xmx" + xmx, "-XX:+UseParallelGC"]
    if dfs:
        java.append("-Dtlc2.tool.queue.IStateQueue=StateDeque")
    cmd = java + ["-cp", JAR + ":" + COMMUNITY, "tlc2.TLC", "-workers", str(workers), "-metadir", meta, "-noGenerateSpecTE"]
    if cfg:
        cmd += ["-config", cfg]
    if not deadlock:
        cmd += ["-deadlock"]
    if dump_dot:
        cmd += ["-dump", "dot,actionlabels", dump_dot]
    if simulate is not None:
        cmd += ["-simulate", "num=%d" % simulate]
    if depth is not None:
        cmd += ["-depth", str(depth)]
    if seed is not None:
        cmd += ["-seed", str(seed)]
    if coverage:
        cmd += ["-coverage", "1"]
    if dump_trace_json:
        cmd += ["-dumpTrace", "json", dump_trace_json]
    if continue_:
        cmd += ["-continue"]
    if extra:
        cmd += extra
    cmd.append(mod)
    e = dict(os.environ)
    e.pop("JAVA_TOOL_OPTIONS", None)
    if env:
        e.update(env)
    t0 = time.time()
    try:
        p = subprocess.run(cmd, cwd=d, env=e, stdout=subprocess.PIPE, stderr=subprocess.STDOUT, timeout=timeout)
    except subprocess.TimeoutExpired as ex:
        shutil.rmtree(meta, ignore_errors=True)
        raise InfraError("TLC timeout after %ss: %s" % (timeout, mod))
    r = TlcResult()
    r.wall = time.time() - t0
    r.rc = p.returncode
    r.out = p.stdout.decode("utf-8", "replace")
    shutil.rmtree(meta, ignore_errors=True)
    _parse_output(r)
    if "Parsing or semantic analysis failed" in r.out or "Error: Parsing" in r.out or re.search(r"\*\*\* Errors: \d+", r.out):
        raise InfraError("TLC could not parse %s:\n%s" % (mod, r.out[-3000:]))
    return r


def _parse_output(r):
    out = r.out
    m = None
    for m in re.finditer(r"(\d+) states generated, (\d+) distinct states found", out):
        pass
    if m:
        r.generated, r.distinct = int(m.group(1)), int(m.group(2))
    m = re.search(r"The depth of the complete state graph search is (\d+)", out)
    if m:
        r.depth = int(m.group(1))
    m = re.search(r"Error: Invariant (\S+) is violated", out)
    if m:
        r.violated = m.group(1)
    m = re.search(r"Error: Action property (.*) is violated", out)
    if m:
        r.violated = "action-property " + m.group(1)[:80]
    if "Error: Temporal properties were violated" in out:
        r.violated = "temporal"
    m = re.search(r"Error: Deadlock reached", out)
    if m:
        r.violated = "deadlock"
    m = re.search(r"Error: The postcondition (\S*) ?.*(violated|false)", out)
    if m or "Checking postcondition" in out and "violated" in out.split("Checking postcondition")[-1]:
        r.violated = r.violated or "postcondition"
    if r.violated is None:
        m = re.search(r"^Error: (.*)$", out, re.M)
        if m:
            r.error = m.group(1) + "\n" + out[m.end():m.end() + 1500]
    # coverage lines:  <Put line 12, col 1 to line 14, col 40 of module X>: 12:345
    for m in re.finditer(r"^<(\w+) line \d+, col \d+ to line \d+, col \d+ of module (\w+)>: (\d+):(\d+)", out, re.M):
        name = m.group(1)
        a, b = int(m.group(3)), int(m.group(4))
        pa, pb = r.coverage.get(name, (0, 0))
        r.coverage[name] = (max(pa, a), max(pb, b))


def sany(tla):
    p = subprocess.run(["java", "-cp", JAR + ":" + COMMUNITY, "tla2sany.SANY", os.path.basename(tla)],
                       cwd=os.path.dirname(os.path.abspath(tla)), stdout=subprocess.PIPE, stderr=subprocess.STDOUT)
    return p.returncode, p.stdout.decode()


def pcal(tla):
    """Translate PlusCal in place (idempotent)."""
    p = subprocess.run(["java", "-cp", JAR, "pcal.trans", "-nocfg", os.path.basename(tla)],
                       cwd=os.path.dirname(os.path.abspath(tla)), stdout=subprocess.PIPE, stderr=subprocess.STDOUT)
    if p.returncode != 0:
        raise InfraError("pcal failed on %s:\n%s" % (tla, p.stdout.decode()[-2000:]))
    return p.stdout.decode()
