"""Glue for the hand-off driver (harness/drivers/handoff) and HandOffTrace.tla (property C12).

Nothing in here decides anything about the property: scenarios are written for the
driver, the per-thread call records it returns are merged by their stamps into
invocation / response lines, TLC validates them, ThreadSanitizer reports are turned
into `race` lines that TLC (the contract) rejects."""
import json, os, re, subprocess, time, hashlib
from concurrent.futures import ThreadPoolExecutor
from . import tla, adt, trace

OBJ_NAME = {"buf": "TransactionalBuffer", "val": "TransactionalValue"}
PAYLOAD_NAME = {"int": {"buf": "IntPair", "val": "int"}, "str": {"buf": "std::string", "val": "std::string"},
                "w24": {"buf": "Pod24", "val": "Pod24"}, "oa": {"val": "Aligned64"}, "uptr": {"buf": "unique_ptr"},
                "thr": {"buf": "ThrowingCopy", "val": "ThrowingCopy"}}
PAYLOADS = {"buf": ["int", "str", "w24", "uptr", "thr"], "val": ["int", "str", "w24", "oa", "thr"]}


def split_objects(calls):
    """Calls of a history over several instances -> one list of calls per instance (instances are independent:
    each instance's calls are one execution of the contract).  Regrouping only."""
    out = {}
    for c in calls:
        out.setdefault(c.get("o", 0), []).append({k: v for k, v in c.items() if k != "o"})
    return [out[o] for o in sorted(out)]


def api(sc):
    return "%s<%s>" % (OBJ_NAME[sc["obj"]], PAYLOAD_NAME[sc["payload"]][sc["obj"]])


# ---------------------------------------------------------------------------
# running the driver
def run_scenarios(exe, scenarios, tag, nostamp=False, timeout=900, max_abnormal=6, scenario_timeout=60):
    """Runs the scenarios (dicts with unique "id").  Returns dict id -> result where result is
    {"calls": [...]} or {"abnormal": "race"|"crash"|"timeout", "detail": text}.
    A process that dies (sanitizer report, signal, watchdog) is attributed to the first
    scenario without a result line and the remaining scenarios are run in a new process."""
    d = os.path.join(tla.WORK, "run", tag)
    os.makedirs(d, exist_ok=True)
    inp = os.path.join(d, "scen-%d.ndjson" % os.getpid())
    outp = os.path.join(d, "obs-%d.ndjson" % os.getpid())
    env = dict(os.environ)
    env.update(adt.SAN_ENV)
    pending = list(scenarios)
    results = {}
    abnormal = 0
    wall = 0.0
    while pending:
        with open(inp, "w") as f:
            for sc in pending:
                f.write(json.dumps(sc, separators=(",", ":")) + "\n")
        if os.path.exists(outp):
            os.remove(outp)
        cmd = [exe, "--in", inp, "--out", outp, "--timeout-s", str(scenario_timeout)]
        if nostamp:
            cmd.append("--nostamp")
        t0 = time.time()
        try:
            p = subprocess.run(cmd, env=env, stdout=subprocess.PIPE, stderr=subprocess.PIPE, timeout=timeout)
            rc, err = p.returncode, p.stderr.decode("utf-8", "replace")
        except subprocess.TimeoutExpired as ex:
            rc, err = "timeout", (ex.stderr or b"").decode("utf-8", "replace")
        wall += time.time() - t0
        got = {}
        if os.path.exists(outp):
            for line in open(outp):
                line = line.strip()
                if not line:
                    continue
                try:
                    j = json.loads(line)
                except ValueError:
                    continue              # a line cut short by the death of the process
                got[j["id"]] = j
        nxt = None
        for i, sc in enumerate(pending):
            r = got.get(sc["id"])
            if r is None or "timeout" in r:
                nxt = i
                break
            results[sc["id"]] = {"calls": r["calls"]}
        if nxt is None:
            if rc != 0:
                raise tla.InfraError("driver %s: all scenarios answered but rc=%s: %s" % (exe, rc, err[-1500:]))
            break
        sc = pending[nxt]
        if rc == 0:
            raise tla.InfraError("driver %s exited 0 without a result for scenario %s: %s" % (exe, sc["id"], err[-1500:]))
        if "FATAL: ThreadSanitizer" in err or "unexpected memory mapping" in err:
            raise tla.InfraError("ThreadSanitizer runtime failure (not a report about the code): %s" % err[-1500:])
        if rc == "timeout":
            raise tla.InfraError("driver %s did not finish %d scenarios within %ss" % (exe, len(pending), timeout))
        if "ThreadSanitizer: data race" in err:
            kind = "race"
        elif rc == 94:                      # the driver's own watchdog: one scenario ran for more than 60 s
            kind = "timeout"
        elif (isinstance(rc, int) and rc < 0) or "Sanitizer" in err or rc in (95, 96, 97):
            kind = "crash"
        else:
            raise tla.InfraError("driver %s failed on scenario %s (rc=%s): %s" % (exe, sc["id"], rc, err[-1500:]))
        i = err.find("WARNING: ThreadSanitizer")
        detail = err[i:i + 14000] if i >= 0 else err[-6000:]      # keep the head of a sanitizer report (the two accesses)
        results[sc["id"]] = {"abnormal": kind, "detail": ("rc=%s\n" % rc) + detail}
        abnormal += 1
        pending = pending[nxt + 1:]
        if abnormal >= max_abnormal:
            break
    for pth in (inp, outp):
        try:
            os.remove(pth)
        except OSError:
            pass
    return results, wall


# ---------------------------------------------------------------------------
# ThreadSanitizer report -> the two accesses (format conversion only)
_ACC = re.compile(r"^\s+((?:Previous )?(?:[Aa]tomic )?(?:[Ww]rite|[Rr]ead)) of size (\d+) at \S+ by ((?:thread T\d+)|(?:main thread))(?: \(mutexes: ([^)]*)\))?:\s*$")
_FRAME = re.compile(r"^\s+#\d+ (.*?) (/\S+?):(\d+)(?::\d+)? \(")
_CLS = re.compile(r"(Transactional(?:Value|Buffer))<.*?>::(operator=|~?\w+)")


def parse_tsan(text):
    """First data-race report -> {"accesses": [{kind, size, mutexes, fn, cls, where}, ...]} (fn: first frame inside the class under test)."""
    i = text.find("WARNING: ThreadSanitizer: data race")
    if i < 0:
        return None
    lines = text[i:].split("\n")
    accs = []
    cur = None
    for ln in lines[1:]:
        m = _ACC.match(ln)
        if m:
            cur = {"kind": m.group(1).lower().replace("previous ", ""), "size": int(m.group(2)), "locked": bool(m.group(4)),
                   "fn": None, "cls": None, "where": None, "top": None}
            accs.append(cur)
            continue
        if cur is not None:
            f = _FRAME.match(ln)
            if f:
                if cur["top"] is None:
                    cur["top"] = "%s:%s" % (os.path.basename(f.group(2)), f.group(3))
                c = _CLS.search(f.group(1))
                if c and cur["fn"] is None:
                    cur["cls"], cur["fn"] = c.group(1), c.group(2)
                    cur["where"] = "%s:%s" % (os.path.basename(f.group(2)), f.group(3))
                continue
            if ln.strip() == "" or not ln.startswith("    "):
                cur = None if ln.strip() == "" else cur
        if len(accs) >= 2 and cur is None:
            break
        if ln.startswith("SUMMARY:"):
            break
    return {"accesses": accs[:2]}


def race_signature(rep, fallback_cls):
    accs = (rep or {}).get("accesses") or []
    cls = next((a["cls"] for a in accs if a.get("cls")), None) or fallback_cls
    unlocked = sorted({a["fn"] for a in accs if a.get("fn") and not a["locked"]})
    fns = unlocked or sorted({a["fn"] for a in accs if a.get("fn")}) or ["?"]
    return "%s/%s/race" % (cls, "+".join(f + "()" if not f.startswith("operator") else f for f in fns))


# ---------------------------------------------------------------------------
# call records -> trace lines
_DROP = ("t", "inv", "res")


def to_lines(calls, obj):
    """Merge the per-thread call records by stamp into inv / res lines, then the End line.
    Data movement only: (a) an update() record gets the value returned by the get() the same thread made
    next ("ng", a search hint, see HandOffTrace.tla); (b) harness sanity: the window of a burst record
    must not overlap any consumer call (the driver holds the consumer between two calls during a burst)."""
    per_thread = {}
    for c in sorted(calls, key=lambda c: c["inv"]):
        per_thread.setdefault(c["t"], []).append(c)
    hint = {}
    for t, cs in per_thread.items():
        for a, b in zip(cs, cs[1:]):
            if a["op"] == "update" and b["op"] == "get" and b["v"] >= 0:     # (a get() that returned no encodable value is left to its own line)
                hint[a["inv"]] = b["v"]
    cons = per_thread.get(0, [])
    for c in calls:
        if c["op"] in ("burst", "bpush"):
            for d in cons:
                if d["inv"] < c["res"] and c["inv"] < d["res"]:
                    raise tla.InfraError("driver protocol broken: consumer call %s overlaps burst %s" % (d, c))
    ev = []
    for c in calls:
        rec = {k: v for k, v in c.items() if k not in _DROP}
        if c["inv"] in hint and c["op"] == "update":
            rec["ng"] = hint[c["inv"]]
        ev.append((c["inv"], 0, {"k": "inv", "t": c["t"], "c": rec}))
        ev.append((c["res"], 1, {"k": "res", "t": c["t"], "c": rec}))
    ev.sort(key=lambda e: (e[0], e[1]))
    stamps = [e[0] for e in ev]
    if len(set(stamps)) != len(stamps):
        raise tla.InfraError("duplicate stamps in a recorded execution (the global counter is broken)")
    return [e[2] for e in ev] + [{"k": "End", "obj": obj}]


def overlaps(calls):
    """Number of pairs of calls of different threads whose [inv, res] windows overlap (a measure, for the evidence)."""
    n = 0
    cs = sorted(calls, key=lambda c: c["inv"])
    for i, a in enumerate(cs):
        for b in cs[i + 1:]:
            if b["inv"] > a["res"]:
                break
            if a["t"] != b["t"]:
                n += 1
    return n


def validate_parallel(trace_tla, cfg, executions, tag, chunks=6, timeout=900):
    """trace.validate over `chunks` TLC processes.  Returns (accepted, rejections[{exec,line,event}], stats)."""
    if not executions:
        return 0, [], {"tlc_runs": 0, "events": 0, "states": 0, "wall": 0.0}
    chunks = max(1, min(chunks, (len(executions) + 3) // 4))
    idx = [list(range(i, len(executions), chunks)) for i in range(chunks)]

    def one(k):
        sub = [executions[i] for i in idx[k]]
        acc, rej, st = trace.validate(trace_tla, cfg, sub, "%s-%d" % (tag, k), workers=1, timeout=timeout, reset_key="k", max_rejections=3)
        for r in rej:
            r["exec"] = idx[k][r["exec"]]
        return acc, rej, st

    t0 = time.time()
    with ThreadPoolExecutor(max_workers=chunks) as ex:
        outs = list(ex.map(one, range(chunks)))
    acc = sum(o[0] for o in outs)
    rej = [r for o in outs for r in o[1]]
    st = {"tlc_runs": sum(o[2]["tlc_runs"] for o in outs), "events": sum(o[2]["events"] for o in outs),
          "states": sum(o[2]["states"] for o in outs), "wall": time.time() - t0}
    return acc, rej, st


def digest(lines):
    return hashlib.sha1(json.dumps(lines, sort_keys=True).encode()).hexdigest()
