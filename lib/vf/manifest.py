"""Generates MANIFEST.json from the metadata of the property modules
(lib/vf/props/cXX.py: LEVEL, LEVEL_TEXT, LEVEL_NOTE, TECHNIQUE, DESIGN_REF)
and lib/vf/props/not_applicable.json."""
import importlib, json, os, glob, subprocess
from .tla import VERIF


def generate():
    ids = [json.loads(l)["id"] for l in open(os.path.join(VERIF, "properties.jsonl"))]
    checks, na = [], []
    na_file = os.path.join(VERIF, "lib", "vf", "props", "not_applicable.json")
    na_reasons = json.load(open(na_file)) if os.path.exists(na_file) else {}
    ready = json.load(open(os.path.join(VERIF, "lib", "vf", "props", "ready.json")))
    for pid in ids:
        p = os.path.join(VERIF, "lib", "vf", "props", pid.lower() + ".py")
        if pid in na_reasons or pid not in ready or not os.path.exists(p):
            na.append({"property_id": pid, "reason": na_reasons.get(pid, "check not built yet (see DESIGN.md section 5 for the plan)")})
            continue
        m = importlib.import_module("vf.props." + pid.lower())
        c = {
            "property_id": pid,
            "quick_cmd": "bin/check %s --tier quick" % pid,
            "thorough_cmd": "bin/check %s --tier thorough" % pid,
            "evidence_file": "/verif/evidence/%s.json" % pid,
            "replay_cmd_template": "bin/check %s --replay {path}" % pid,
            "engine": "tlc-conformance",
            "level_claimed": {"category": getattr(m, "LEVEL", "model_checking"), "text": m.LEVEL_TEXT,
                              "design_ref": getattr(m, "DESIGN_REF", "DESIGN.md section 5, " + pid)},
            "level_note": m.LEVEL_NOTE,
            "technique": getattr(m, "TECHNIQUE", "TLA+ specification checked with TLC; conformance by replaying TLC-generated histories on the real code and validating recorded traces with TLC"),
        }
        checks.append(c)
    hooks_commits = []
    hc = os.path.join(VERIF, "lib", "vf", "props", "hook_commits.json")
    if os.path.exists(hc):
        hooks_commits = json.load(open(hc))
    man = {
        "version": 1,
        "setup_cmd": "bin/setup",
        "hooks": {
            "guard": "RKCOMMON_VERIF",
            "enable": "checks build /repo through /verif/harness/CMakeLists.txt (add_subdirectory of /repo's working tree) with -DRKCOMMON_VERIF (cmake option VERIF_GUARD=ON)",
            "baseline_off_cmd": "cmake --build /repo/_build && ctest --test-dir /repo/_build -j8 --timeout 900",
            "source_commits": hooks_commits,
            "add_only": True,
        },
        "engines": [{
            "name": "tlc-conformance", "path": "/verif/bin/check",
            "serves_properties": [c["property_id"] for c in checks],
            "kind_free_text": "explicit TLA+/PlusCal specifications under /verif/spec checked with TLC; bound to the C++ code by (a) replaying TLC-generated histories/cases/schedules on the real objects and comparing with the values TLC computed, (b) validating traces recorded from the real code with TLC trace specifications",
        }],
        "checks": checks,
        "notes": "See DESIGN.md. Exit codes of bin/check: 0 held, 1 violation (VIOLATION line), 2 tooling error (no VIOLATION line).",
        "not_applicable": na,
    }
    with open(os.path.join(VERIF, "MANIFEST.json"), "w") as f:
        json.dump(man, f, indent=1)
        f.write("\n")
    return man
