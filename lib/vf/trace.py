"""Code -> spec: validate recorded executions with TLC against a trace spec.

A trace file is ndjson; executions are separated by {"a":"Reset"} lines.  The
trace spec's POSTCONDITION prints TRACE-REJECTED-AT-LINE <n> when the search
could not consume line n.  On a rejection the offending execution is cut out
and validation continues with the remaining executions, so that one rejection
does not leave the rest unexamined."""
import json, os, re
from . import tla

_REJ = re.compile(r'TRACE-REJECTED-AT-LINE",\s*(\d+),\s*"OF",\s*(\d+)')


def _write(lines, path):
    with open(path, "w") as f:
        for ln in lines:
            f.write(json.dumps(ln, separators=(",", ":")) + "\n")


def validate(trace_tla, cfg, executions, tag, workers=1, timeout=900, dfs=False, max_rejections=5, env=None, reset_key="a", separator=True):
    """executions: list of executions, each a list of event dicts.
    Returns (n_accepted_executions, rejections, stats) where rejections is a list
    of {exec: index, line: k (0-based within the execution), event: ...}."""
    d = os.path.join(tla.WORK, "traces", tag)
    os.makedirs(d, exist_ok=True)
    path = os.path.join(d, "trace-%d.ndjson" % os.getpid())
    pending = list(range(len(executions)))
    rejections = []
    accepted = 0
    stats = {"tlc_runs": 0, "events": 0, "states": 0, "wall": 0.0}
    while pending:
        lines = []
        owner = []           # owner[i] = (exec index, offset) for every line
        for n, ei in enumerate(pending):
            if n and separator:
                lines.append({reset_key: "Reset"})
                owner.append((ei, -1))
            for k, ev in enumerate(executions[ei]):
                lines.append(ev)
                owner.append((ei, k))
        _write(lines, path)
        e = {"TRACE": path}
        if env:
            e.update(env)
        r = tla.run_tlc(trace_tla, cfg, workers=workers, timeout=timeout, env=e, dfs=dfs, tag="trace-" + tag)
        stats["tlc_runs"] += 1
        stats["states"] += r.distinct
        stats["wall"] += r.wall
        m = _REJ.search(r.out)
        if r.ok and not m:
            accepted += len(pending)
            stats["events"] += len(lines)
            break
        if not m:
            raise tla.InfraError("trace validation of %s failed without a rejection line: violated=%s error=%s\n%s"
                                 % (tag, r.violated, r.error, r.out[-2500:]))
        at = int(m.group(1)) - 1          # 0-based index of the line that could not be consumed
        if at >= len(lines):
            raise tla.InfraError("rejection index out of range: %d of %d" % (at, len(lines)))
        ei, k = owner[at]
        if k < 0:                         # the Reset line itself (should not happen)
            raise tla.InfraError("trace spec rejected a Reset line")
        rejections.append({"exec": ei, "line": k, "event": executions[ei][k], "invariant": r.violated})
        pos = pending.index(ei)
        accepted += pos
        stats["events"] += at
        pending = pending[pos + 1:]
        if len(rejections) >= max_rejections:
            break
    try:
        os.remove(path)
    except OSError:
        pass
    return accepted, rejections, stats
