"""Check context: collects what a run explored, classifies findings against
KNOWN_FINDINGS.txt, writes the evidence file and produces the exit code.

Verdict rule (DESIGN.md section 3): a VIOLATION is printed only for a real
execution of the real code whose observations the contract specification
rejects.  Tool failures raise InfraError and end with exit code 2 and no
VIOLATION line."""
import json, os, sys, time, hashlib, re, traceback
from . import tla
from .tla import VERIF, WORK, InfraError

KNOWN = os.path.join(VERIF, "KNOWN_FINDINGS.txt")


def load_known():
    out = []
    if not os.path.exists(KNOWN):
        return out
    for line in open(KNOWN):
        line = line.strip()
        if not line.startswith("finding:"):
            continue
        m = re.match(r"finding:\s+property=(\S+)\s+sig=(\S+)\s*(.*)$", line)
        if m:
            out.append({"property": m.group(1), "sig": m.group(2), "what": m.group(3)})
    return out


class Check:
    def __init__(self, pid, tier, seed, level="model_checking"):
        self.pid = pid
        self.tier = tier
        self.seed = seed
        self.level = level
        self.t0 = time.time()
        self.violations = []       # dicts: sig, what, replay
        self.known_hits = []
        self.notes = []
        self.cov = {
            "states": 0, "transitions": 0, "traces_validated_against_impl": 0,
            "evaluations": 0, "distinct_nontrivial": 0, "samples": [], "rule": "",
            "models": [], "action_counts": {},
        }
        self.assumptions = []
        self._known = [k for k in load_known() if k["property"] == pid]
        self._seen_sigs = set()
        self.is_replay = False
        os.makedirs(os.path.join(WORK, "replays"), exist_ok=True)

    # ---- bookkeeping -------------------------------------------------------
    def log(self, msg):
        print("[%s %6.1fs] %s" % (self.pid, time.time() - self.t0, msg), flush=True)

    def note(self, msg):
        self.notes.append(msg)
        self.log("NOTE: " + msg)

    def add_model(self, name, r, what=""):
        """Record a TLC model-checking run (TlcResult)."""
        self.cov["states"] += r.distinct
        self.cov["transitions"] += r.generated
        self.cov["models"].append({"module": name, "distinct_states": r.distinct, "states_generated": r.generated,
                                   "depth": r.depth, "wall_s": round(r.wall, 1), "what": what})
        self.log("TLC %s: %d distinct / %d generated states, depth %d, %.1fs %s" % (name, r.distinct, r.generated, r.depth, r.wall, what))

    def require_model_ok(self, name, r, what=""):
        if not r.ok:
            raise InfraError("model %s does not satisfy its own properties (violated=%s, error=%s):\n%s"
                             % (name, r.violated, r.error, r.out[-2500:]))
        self.add_model(name, r, what)

    def count_actions(self, histories):
        ac = self.cov["action_counts"]
        for h in histories:
            for st in h:
                ac[st["a"]] = ac.get(st["a"], 0) + 1

    def add_sample(self, s, maxn=4):
        if len(self.cov["samples"]) < maxn:
            self.cov["samples"].append(s)

    def require_actions(self, names):
        missing = [n for n in names if not self.cov["action_counts"].get(n)]
        if missing:
            raise InfraError("vacuity guard: actions never exercised: %s" % missing)

    # ---- findings ----------------------------------------------------------
    def save_replay(self, obj):
        s = json.dumps(obj, sort_keys=True)
        h = hashlib.sha1(s.encode()).hexdigest()[:12]
        p = os.path.join(WORK, "replays", "%s-%s.json" % (self.pid, h))
        with open(p, "w") as f:
            f.write(s)
        return p

    def violation(self, sig, what, replay_obj):
        """Report a contract violation observed on the real code."""
        sig = re.sub(r"\s+", "", sig)
        for k in self._known:
            if k["sig"] == sig:
                if sig not in self._seen_sigs:
                    self._seen_sigs.add(sig)
                    self.known_hits.append({"sig": sig, "what": k["what"] or what})
                return
        if sig in self._seen_sigs:
            # same signature already reported in this run: count, do not repeat
            for v in self.violations:
                if v["sig"] == sig:
                    v["count"] += 1
            return
        self._seen_sigs.add(sig)
        path = self.save_replay(replay_obj)
        self.violations.append({"sig": sig, "what": what, "replay": path, "count": 1})

    # ---- end ---------------------------------------------------------------
    def finish(self):
        wall = time.time() - self.t0
        cov = dict(self.cov)
        if not cov["rule"]:
            cov.pop("rule")
        cov["notes"] = self.notes
        cov["known_findings_hit"] = self.known_hits
        cov["violation_signatures"] = [v["sig"] for v in self.violations]
        ev = {
            "property_id": self.pid, "tier": self.tier, "seed": self.seed, "level": self.level,
            "coverage": cov, "assumptions": self.assumptions, "wall_s": round(wall, 1),
            "violations": len(self.violations),
        }
        # runs against a scratch copy of the repository (VERIF_REPO set) must not overwrite the evidence of /repo
        evdir = os.path.join(VERIF, "evidence") if (os.environ.get("VERIF_REPO", "/repo") == "/repo" and not self.is_replay) else os.path.join(WORK, "evidence")
        os.makedirs(evdir, exist_ok=True)
        with open(os.path.join(evdir, self.pid + ".json"), "w") as f:
            json.dump(ev, f, indent=1, sort_keys=True)
            f.write("\n")
        for k in self.known_hits:
            print("KNOWN-FINDING: property=%s sig=%s %s" % (self.pid, k["sig"], k["what"]), flush=True)
        for v in self.violations:
            print("  violation sig=%s (x%d): %s" % (v["sig"], v["count"], v["what"]), flush=True)
            print("VIOLATION property=%s replay=%s" % (self.pid, v["replay"]), flush=True)
        self.log("done in %.1fs: %d violation(s), %d known finding(s)" % (wall, len(self.violations), len(self.known_hits)))
        return 1 if self.violations else 0


def sig_of(prefix, mm):
    """Signature of a mismatch: <api>/<action>(<class>)/<field-kind>."""
    cls = mm.get("cls") or ""
    field = mm.get("field") or ""
    field = re.sub(r"\[\d+\]", "[]", field)
    return "%s/%s(%s)%s" % (prefix, mm.get("action"), cls, field if field.startswith("/") else "/" + field)


def main(run_fn, pid, level="model_checking"):
    """Entry used by bin/check: parses tier/seed, runs, handles InfraError."""
    import argparse
    ap = argparse.ArgumentParser()
    ap.add_argument("--tier", default=os.environ.get("VERIF_TIER", "quick"))
    ap.add_argument("--replay", default=None)
    ap.add_argument("--seed", type=int, default=None)
    args = ap.parse_args(sys.argv[2:])
    seed = args.seed if args.seed is not None else int(os.environ.get("VERIF_SEED", "1") or 1)
    tier = args.tier if args.tier in ("quick", "thorough") else "quick"
    chk = Check(pid, tier, seed, level)
    chk.is_replay = bool(args.replay)     # a replay re-runs one artefact: it must not overwrite the evidence of a full run
    try:
        run_fn(chk, replay=args.replay)
    except InfraError as e:
        print("INFRASTRUCTURE-ERROR property=%s: %s" % (pid, e), flush=True)
        traceback.print_exc()
        if chk.violations:
            # real executions rejected by the contract were already collected before the tooling failed: report them
            chk.note("the run ended early with a tooling error: %s" % str(e)[:300])
            return chk.finish()
        return 2
    return chk.finish()
