"""C06 - linear, affine and quaternion transforms obey their algebra and agree (LinearSpace.h, AffineSpace.h, Quaternion.h).

Pipeline (every decision is TLC's; Python moves data):
  A  TLC model-checks the laws of spec/math/LinAlgebra.tla (LinAlgebraMC) and, in parallel, emits the cases (LinAlgebraGen,
     one run per group); the driver harness/drivers/linalg is built (twice: the probe build instantiates
     AffineSpaceT::rotate(point, quaternion), which the library as pinned could not compile - repaired by /repo 2231140).
  B  spec -> code: every case is evaluated on the real templates for float / double / padded float; results whose
     expectation is an integer are compared by equality (the driver reports round(x) when |x - round(x)| <= 1e-4);
     code -> spec: rational and law-defined results (inverse, xfmNormal, rcp; orthogonal, frame, lookat, slerp midpoint)
     are recorded scaled by 2^14 and validated by TLC (LinAlgebraValidate); seeded random executions of one real affine
     map object are validated by TLC against the trace specification LinTrace.

Binding demonstration (selftest/mutations/C06/*.diff, each verified with selftest/try_patch.sh; all VIOLATION):
  LinearSpace2::adjoint sign of one entry; LinearSpace3(quaternion) sign of one term; QuaternionT(vx,vy,vz) y-largest branch
  (vy.z + vz.y -> vy.z - vz.y: only the y-largest classes fail); LinearSpace3::rotate sign of one sine term; xfmNormal without
  transposed(); lookat cross(Z, up) -> cross(up, Z); slerp without the short-way flip; frame(N) dy = cross(dx, N);
  rcp(AffineSpaceT) translation sign; yaw/pitch/roll sign of one term; quaternion product two signs; orthogonal() without the
  mirror; row1() wrong component; AffineSpaceT operator* (a.p -> b.p).  Benign (exit 0): sin/cos and normalize reordered in rotate.
  With the one-line fix of AffineSpaceT::rotate(point, quaternion) (/repo 2231140) the probe build succeeds and its cases pass.
  Non-lattice families (LinGeneral; caught ONLY there): slerp's linear fallback using the un-negated a for -0.99999 < dot < -0.9995,
  rotate() with the wrong sine sign for 3.3 < angle < 4.1 rad, rotate() wrong for axes with 0.9 < |u.y| < 0.99, inverse() wrong for
  |det| > 4.5, slerp wrong only off t = 0, 1/2, 1; one term of the y-largest quaternion branch that vanishes on the cube group.
  Boundary audit additions (each caught by the named family): scalar * LinearSpace3 dropping vz (Ops3 / AffOps smul2), scalar -
  quaternion sign (HQuat subl), AffineSpaceT operator!= ignoring p (AffOps ne), LinearSpace3 converting constructor swapping
  columns (Convert3), LinearSpace3 operator/= operand order (Ops3 diveq), frame(N, up) falling back to frame(up) (GenFrame nearly
  parallel / antiparallel only), lookat origin wrong for |eye.x| > 4 (GenLookat), orthogonal() with two iterations (Orthogonal2,
  GenMat2), det() + 1e-12 (GenMat3 scaled-down only).
  Trace corruption (one state field / one query result flipped, one event deleted) is rejected by LinTrace at that event."""
import json, os, random, time
from concurrent.futures import ThreadPoolExecutor
from .. import tla, build, adt, adtcheck, funcheck, trace
from ..tla import VERIF
from ..core import sig_of

LEVEL = "exploration"
LEVEL_TEXT = ("TLC checks the laws of the LinAlgebra specification for every 2x2 matrix with entries in -1..1 (-2..2 thorough) and every "
              "3x3 matrix with entries in -1..1 (19 683), against second operands of every determinant -4..4 and the whole rotation group of "
              "the cube (M Adj(M) = det(M) I, Laplace expansion, det multiplicative, transposition, (AB)v = A(Bv), inverse transpose "
              "preserves orthogonality, composition / inversion / parts of affine maps, rotation about a point), and at constant level: "
              "the closure of the three quarter turns has 24 elements and is exactly the set of proper signed permutation matrices, the "
              "geometric definition of a turn about each of the 26 cube axes is unambiguous and agrees with Rodrigues' formula and with "
              "powers, yaw/pitch/roll quarter turns generate the group, the four branches of the matrix-to-quaternion constructor all "
              "occur, Hurwitz unit quaternions multiply / conjugate / rotate vectors as their matrices do.  TLC then enumerates the same "
              "bounded domain and emits one case per input; every case is evaluated on the real LinearSpace2 / LinearSpace3 / AffineSpaceT / "
              "QuaternionT for float, double and padded float vectors and compared with the exact integer expectation within 1e-4; results "
              "that are rational (inverse, rcp, xfmNormal for |det| > 1) or defined by laws (orthogonal, frame, lookat, slerp midpoint; rotations with rational matrices, which reach every term of every branch of the matrix-to-quaternion constructor) are "
              "recorded scaled by 2^14 and validated by TLC against the defining predicates; seeded random executions of a real affine map "
              "object are validated by TLC against the trace specification.  Beyond the lattice (code -> spec only, seeded random inputs): "
              "rotate(u, a) for general unit axes and angles in [-2pi, 2pi] (dyadic multiples of 1/64 rad, tiny angles, angles next to "
              "multiples of pi/2), its quaternion / matrix-from-quaternion / quaternion-from-matrix constructions (all four branches), slerp "
              "for general unit quaternion pairs (nearly parallel and nearly antiparallel ones on both signs, obtuse, acute) at t = 0, 1/8, "
              "1/4, 1/2, 3/4, 7/8, 1, and general 2x2 / 3x3 matrices K/8 (|K| <= 16) with condition number <= 64 are recorded scaled by 2^14 "
              "and every record is decided by TLC with the polynomial laws of spec/math/LinGeneral.tla (orthonormality, det, fixed axis, "
              "R(a)R(b) = R(a+b), R(-a) = R(a)^T, sense of rotation, Rodrigues anchors at multiples of pi/2, half-angle chains from 2uu^T - I, "
              "q ~ -q, S_1/2^2 = A^T B, S_1/4^2 = S_1/2, S_3/4 = S_1/2 S_1/4, short arc, same axis, chord law for nearly parallel pairs, "
              "K inverse(M) = 8 I, det(M) = Det(K)/8^n, det multiplicative, K^T xfmNormal = 8 v, rcp(A)A = id, (AB)p = A(Bp) = the exact "
              "rational value; frame(N), frame(N, up) and lookat for general directions with up nearly parallel / anti-parallel; matrices "
              "scaled by 2^-16 .. 2^16; orthogonal() of general 2x2 matrices).  Every operator overload (scalar *, / scalar, / matrix, "
              "compound assignments, unary +, aliasing x *= x and x /= x, ==, !=, copy / assignment, converting constructors between float / "
              "double / padded, all scalar and mixed-type quaternion operators) is compared with the value the specification computes")
LEVEL_NOTE = ("bounded and exact-arithmetic only: matrix entries in -1..1 (2x2 also -2..2), translations in -3..3, rotation axes = the 13 axes "
              "of the cube with angles that are multiples of the axis' own turn (pi/2, 2pi/3, pi) within [-2pi, 2pi], yaw/pitch/roll multiples "
              "of a quarter turn (convention recovered from the constructor's formula and frozen: q = q_y(yaw) q_x(pitch) q_z(roll)), slerp "
              "between the 24 group elements at t = 0, 1/2, 1; comparison tolerance 1e-4 absolute (1.8e-4 for TLC-validated records, whose "
              "resolution is 2^-14; 7e-4 for their quadratic laws).  NOT decided: accuracy on general well-conditioned inputs, arbitrary "
              "axes / angles / slerp factors, condition-number-derived tolerances, non-lattice floats, overflow.  lookat's orientation is "
              "the one its definition gives (U = Z x up, V = U x Z: a left-handed triple); orthogonal() is checked as the orthogonal polar "
              "factor.  AffineSpaceT::rotate(point, quaternion) could not be instantiated in the library as pinned (compile error, repaired): it is "
              "checked when the probe build succeeds, otherwise reported as a note.  2D rotate(point, angle) exists for float only.  "
              "degenerate inputs the statement leaves undefined are not exercised: zero-length axes / normals / quaternions, lookat with up exactly "
              "parallel to the viewing direction or point = eye, inverse of singular matrices; float overflow / underflow of det for entries "
              "beyond about 2^+-40 is not decided (matrices scaled by 2^-16 .. 2^16 are).  AffineSpaceT / scalar, *= scalar, /= scalar, "
              "double * QuaternionT<float> and the operator Scalar*() conversions cannot be instantiated (compile errors in the library) and "
              "are therefore not checked.  the non-lattice families are seeded samples judged by laws with tolerances of 4e-4 .. 4e-3 (re-scaled products of recorded "
              "matrices accumulate rounding of the 2^-14 records), the condition filter is the sufficient bound |K|_F |Adj K|_F <= 64 |det K| "
              "evaluated in exact integer arithmetic (records outside it are skipped and counted).  trusted: TLC, the driver's format conversions (round within 1e-4, scale by 2^14), std::sqrt for normalising input axes, g++")
TECHNIQUE = ("TLA+ functional specification in exact integer arithmetic; laws model-checked by TLC over the complete bounded lattice and the "
             "rotation group TLC computes as a closure; constant-level case enumeration by TLC replayed on the real templates; TLC "
             "validation of recorded rational / law-defined results and of recorded random executions")
SPEC = os.path.join(VERIF, "spec", "math")

GROUPS = ["lin2", "lin3", "pair3", "aff3", "rot", "quat", "slerp", "ops"]
TNAME = {"f": "float", "d": "double", "fa": "float,aligned"}
OPS_2D = {"Unary2", "Inverse2", "MulVec2", "Pair2", "Rotate2", "Ctor2", "Aff2Pair", "Aff2Rot", "Aff2RotAbout", "Orthogonal2", "Ops2", "Convert2"}
OPS_AFF2 = {"Aff2Pair", "Aff2Rot", "Aff2RotAbout"}
OPS_AFF3 = {"AffXfm", "AffInv", "AffPair", "AffCtor", "AffRotate", "AffRotateAboutQ", "Lookat", "AffOps", "GenLookat"}
OPS_QUAT = {"QuatAA", "QuatFromMat", "QuatFromRot", "QuatPair", "QuatVec", "HQuat", "QuatYPR", "QuatRat", "Slerp"}
TRACE_OPS = ["TNew", "TMulL", "TMulR", "TTrans", "TRotH", "TInv", "TQuery"]


def api(op, variant):
    """API path of the signature: the class template the operation belongs to."""
    if op in OPS_QUAT:
        return "Quaternion<%s>" % ("double" if variant == "d" else "float")
    t = TNAME[variant]
    if op in OPS_AFF2:
        return "AffineSpace2<%s>" % t
    if op in OPS_2D:
        return "LinearSpace2<%s>" % t
    if op in OPS_AFF3 or op in TRACE_OPS or op == "TRotC":
        return "AffineSpace3<%s>" % t
    return "LinearSpace3<%s>" % t


# ---------------------------------------------------------------------------------------------
# per-thread stand-in for the Check object (same scheme as C05): merged in submission order
# ---------------------------------------------------------------------------------------------
class Sub:
    def __init__(self, chk):
        self.parent, self.pid, self.tier, self.seed = chk, chk.pid, chk.tier, chk.seed
        self.cov = {"states": 0, "transitions": 0, "traces_validated_against_impl": 0, "evaluations": 0, "distinct_nontrivial": 0,
                    "samples": [], "models": [], "action_counts": {}}
        self.viol, self.notes_ = [], []

    def log(self, msg):
        self.parent.log(msg)

    def note(self, msg):
        self.notes_.append(msg)

    def add_model(self, name, r, what=""):
        self.cov["states"] += r.distinct
        self.cov["transitions"] += r.generated
        self.cov["models"].append({"module": name, "distinct_states": r.distinct, "states_generated": r.generated, "depth": r.depth,
                                   "wall_s": round(r.wall, 1), "what": what})
        self.log("TLC %s: %d distinct / %d generated states, depth %d, %.1fs %s" % (name, r.distinct, r.generated, r.depth, r.wall, what))

    def require_model_ok(self, name, r, what=""):
        if not r.ok:
            raise tla.InfraError("model %s does not satisfy its own properties (violated=%s, error=%s):\n%s" % (name, r.violated, r.error, r.out[-2500:]))
        self.add_model(name, r, what)

    def count_actions(self, histories):
        ac = self.cov["action_counts"]
        for h in histories:
            for st in h:
                ac[st["a"]] = ac.get(st["a"], 0) + 1

    def violation(self, sig, what, replay_obj):
        self.viol.append((sig, what, replay_obj))

    def merge(self):
        pc = self.parent.cov
        for k, v in self.cov.items():
            if isinstance(v, bool):
                pc[k] = v
            elif isinstance(v, int):
                pc[k] = pc.get(k, 0) + v
            elif isinstance(v, list):
                pc.setdefault(k, []).extend(v)
            elif isinstance(v, dict):
                d = pc.setdefault(k, {})
                for kk, vv in v.items():
                    d[kk] = d.get(kk, 0) + vv if isinstance(vv, int) else vv
        for n in self.notes_:
            self.parent.note(n)
        for v in self.viol:
            self.parent.violation(*v)


def parallel(chk, fns, workers=12):
    subs = [Sub(chk) for _ in fns]
    with ThreadPoolExecutor(max_workers=workers) as ex:
        futs = [ex.submit(f, s) for f, s in zip(fns, subs)]
        outs, err = [], None
        for f in futs:
            try:
                outs.append(f.result())
            except Exception as e:      # noqa: keep the first, let the others finish
                outs.append(None)
                err = err or e
    for s in subs:
        s.merge()
    if err:
        raise err
    return outs


# ---------------------------------------------------------------------------------------------
# phase A: build, laws, cases
# ---------------------------------------------------------------------------------------------
def build_drivers(chk):
    """(exe, have_rotate_point_quat).  The probe build instantiates AffineSpaceT::rotate(point, quaternion)."""
    try:
        return build.build("drv_linalg", extra_defs=["C06_ROTATE_POINT_QUAT=ON"]), True
    except build.BuildFailed as e:
        # the plain build (same sources without that one instantiation) decides whether this is the known compile error
        # or a broken tree: if it fails too, its BuildFailed (an infrastructure error) propagates
        exe = build.build("drv_linalg")
        known = "translate(+p) * L(q)" in str(e)
        chk.note("AffineSpaceT::rotate(point, quaternion) cannot be instantiated on this tree%s: its cases are not evaluated"
                 % (" (AffineSpace.h: no operator* for AffineSpaceT * LinearSpace3 in 'translate(+p) * L(q) * translate(-p)')" if known else
                    " (the probe build with -DC06_ROTATE_POINT_QUAT failed, the build without it succeeds)"))
        return exe, False


def model_check(chk):
    for attempt in (1, 2):
        r = tla.run_tlc(os.path.join(SPEC, "LinAlgebraMC.tla"), os.path.join(SPEC, "LinAlgebraMC.cfg"), workers=8 if chk.tier == "quick" else 12,
                        timeout=3000, env={"C06_TIER": chk.tier}, tag="c06-mc", xmx="3g" if chk.tier == "quick" else "6g")
        if r.ok or r.violated or r.error or attempt == 2:
            break
        # the JVM ended without a verdict (no violated property, no TLC error: e.g. it could not get its heap on a loaded machine)
        chk.log("TLC LinAlgebraMC ended without a verdict (rc=%s); retrying once: %s" % (r.rc, r.out[-300:].replace("\n", " | ")))
    chk.require_model_ok("LinAlgebraMC/" + chk.tier, r, "laws of the matrix / affine / rotation-group / quaternion algebra")
    return r


def run_gen(chk, group, level):
    cases = funcheck.gen_cases(chk, SPEC, "LinAlgebraGen", "LinAlgebraGen.cfg", "c06-" + group, workers=1, timeout=3000,
                               env={"C06_GROUP": group, "C06_LEVEL": str(level)}, what="group %s level %d" % (group, level))
    return cases


# ---------------------------------------------------------------------------------------------
# phase B
# ---------------------------------------------------------------------------------------------
def applicable(case, variant, have_rpq):
    a = case["a"]
    if a == "AffRotateAboutQ" and not have_rpq:
        return False
    if a in OPS_2D:
        if variant == "fa":
            return False                  # no padded 2-vectors
        if a == "Aff2RotAbout" and variant != "f":
            return False                  # AffineSpace2f::rotate(point, angle) is an explicit specialisation for float
    return True


def strip(case):
    return {k: v for k, v in case.items() if k in ("a", "arg", "exp", "cls")}


IDENT = {json.dumps(m) for m in ([[1, 0], [0, 1]], [[1, 0, 0], [0, 1, 0], [0, 0, 1]], [[0, 0], [0, 0]], [[0, 0, 0], [0, 0, 0], [0, 0, 0]])}


def nontrivial_key(case):
    """None for trivial cases (all matrix operands are the identity / zero matrix, or the angle is zero); else a canonical key."""
    arg = case["arg"]
    mats = []
    for k in ("m", "l", "a", "b"):
        v = arg.get(k)
        if isinstance(v, dict):
            v = v.get("l")
        if isinstance(v, list) and v and isinstance(v[0], list):
            mats.append(v)
    if mats and all(json.dumps(m) in IDENT for m in mats):
        return None
    if "num" in arg and arg["num"] == 0:
        return None
    return case["a"] + "|" + json.dumps(arg, sort_keys=True)


def replay_variant(chk, exe, cases, variant, have_rpq, tagx=""):
    by = {}
    for c in cases:
        if applicable(c, variant, have_rpq):
            by.setdefault(api(c["a"], variant), []).append(strip(c))
    total = 0
    for fam, cs in sorted(by.items()):
        n, wall = funcheck.replay_cases(chk, exe, cs, "c06-%s-%s%s" % (variant, "".join(ch for ch in fam if ch.isalnum()), tagx), fam,
                                        meta={"variant": variant})
        total += len(cs)
        keys = {nontrivial_key(c) for c in cs}
        keys.discard(None)
        chk.cov["distinct_nontrivial"] += len(keys)
        chk.log("%s: %d cases evaluated (%d mismatching) in %.1fs" % (fam, len(cs), n, wall))
    return total


def validate_records(chk, exe, cases, variant, tag, chunks=3):
    """code -> spec: evaluate the cases on the real code, hand the scaled records to TLC (LinAlgebraValidate)."""
    if not cases:
        return 0
    res, rc, stderr, wall = adt.run_driver(exe, [[strip(c)] for c in cases], "c06-val-" + tag, meta={"variant": variant})
    recs = []
    for i, c in enumerate(cases):
        r = res.get(i)
        if r is None or not r.get("obs") or "nan" not in r["obs"][0]:
            raise tla.InfraError("linalg driver gave no record for case %d (rc=%s): %s %s" % (i, rc, r, stderr[-800:]))
        o = r["obs"][0]
        recs.append({"id": i, "a": c["a"], "arg": c["arg"], "obs": {k: v for k, v in o.items() if k.endswith("_s") or k == "nan"}})
    d = os.path.join(tla.WORK, "run", "c06-val-" + tag)
    os.makedirs(d, exist_ok=True)
    parts = [recs[k::chunks] for k in range(chunks) if recs[k::chunks]]

    def one(k):
        inp = os.path.join(d, "obs-%d-%d.ndjson" % (os.getpid(), k))
        outp = os.path.join(d, "rej-%d-%d.ndjson" % (os.getpid(), k))
        with open(inp, "w") as f:
            for o in parts[k]:
                f.write(json.dumps(o, separators=(",", ":")) + "\n")
        if os.path.exists(outp):
            os.remove(outp)
        r = tla.run_tlc(os.path.join(SPEC, "LinAlgebraValidate.tla"), os.path.join(SPEC, "LinAlgebraValidate.cfg"), workers=1, timeout=3000,
                        env={"C06_OBS": inp, "OUT": outp}, tag="c06-val-%s-%d" % (tag, k), xmx="3g")
        if not r.ok or "C06-VALIDATED" not in r.out:
            raise tla.InfraError("LinAlgebraValidate failed: violated=%s error=%s\n%s" % (r.violated, r.error, r.out[-2500:]))
        rej = []
        if os.path.exists(outp):
            with open(outp) as f:
                rej = [json.loads(x) for x in f if x.strip()]
            os.remove(outp)
        os.remove(inp)
        return rej

    t0 = time.time()
    with ThreadPoolExecutor(max_workers=chunks) as ex:
        outs = list(ex.map(one, range(len(parts))))
    rejected = [x for rej in outs for x in rej]
    chk.cov["evaluations"] += len(cases)
    chk.cov["traces_validated_against_impl"] += len(cases)
    chk.cov.setdefault("records_validated_by_tlc", 0)
    chk.cov["records_validated_by_tlc"] += len(cases)
    for c in cases:
        chk.cov["action_counts"]["validated:" + c["a"]] = chk.cov["action_counts"].get("validated:" + c["a"], 0) + 1
    chk.log("%s: %d recorded results validated by TLC (LinAlgebraValidate), %d rejected, %.1fs" % (variant, len(cases), len(rejected), time.time() - t0))
    for rj in rejected:
        c = cases[rj["id"]]
        o = res[rj["id"]]["obs"][0]
        fam = api(c["a"], variant)
        mm = {"action": c["a"], "cls": c.get("cls"), "field": "law/" + rj["reason"]}
        what = "%s: %s(%s): recorded result %s rejected by LinAlgebraValidate: %s" % (
            fam, c["a"], json.dumps(c["arg"])[:300], json.dumps({k: v for k, v in o.items() if not k.endswith("_s")})[:400], rj["reason"])
        chk.violation(sig_of(fam, mm), what, {"kind": "validate", "property": chk.pid, "variant": variant, "case": strip(c), "observed": o, "report": rj})
    return len(rejected)


# ---------------------------------------------------------------------------------------------
# code -> spec: recorded random executions of one affine map object
# ---------------------------------------------------------------------------------------------
def trace_operands(cases):
    """Operands of the recorded executions, taken from TLC's cases (classes computed by the specification)."""
    rots, unis, hur = {}, {}, {}
    for c in cases:
        if c["a"] == "AffPair":
            cl = c["cls"]
            if cl == "rotations":
                rots[json.dumps(c["arg"]["a"], sort_keys=True)] = c["arg"]["a"]
            elif cl.startswith("unimodular*"):
                unis[json.dumps(c["arg"]["a"], sort_keys=True)] = c["arg"]["a"]
        elif c["a"] == "HQuat":
            hur[json.dumps(c["arg"]["a"])] = c["arg"]["a"]
    return [rots[k] for k in sorted(rots)], [unis[k] for k in sorted(unis)], [hur[k] for k in sorted(hur)]


def rand_execution(rnd, n, rots, unis, hur, have_rpq):
    def v3(r):
        return [rnd.randint(-r, r) for _ in range(3)]

    acts = [{"a": "TNew", "arg": {}}]
    shears = 0
    for _ in range(n):
        x = rnd.random()
        if x < 0.18: a = {"a": "TMulL", "arg": {"m": rnd.choice(rots)}}
        elif x < 0.32: a = {"a": "TMulR", "arg": {"m": rnd.choice(rots)}}
        elif x < 0.38 and shears < 2:                       # bounded growth: at most two non-orthogonal factors per execution
            shears += 1
            a = {"a": rnd.choice(["TMulL", "TMulR"]), "arg": {"m": rnd.choice(unis)}}
        elif x < 0.52: a = {"a": "TTrans", "arg": {"v": v3(2)}}
        elif x < 0.64: a = {"a": "TRotH", "arg": {"q": rnd.choice(hur)}}
        elif x < 0.70 and have_rpq: a = {"a": "TRotC", "arg": {"q": rnd.choice(hur), "c": v3(2)}}
        elif x < 0.78: a = {"a": "TInv", "arg": {}}
        else: a = {"a": "TQuery", "arg": {"v": v3(3)}}
        acts.append(a)
    return acts


def recorded_executions(chk, exe, variant, acts):
    chk.count_actions(acts)
    adtcheck.record_and_validate(chk, exe, SPEC, "LinTrace", "LinTrace.cfg", acts, "c06-trace-" + variant, api("TNew", variant),
                                 meta={"variant": variant})



# ---------------------------------------------------------------------------------------------
# code -> spec: non-lattice families (spec/math/LinGeneral.tla) - seeded random inputs, every record decided by TLC
# ---------------------------------------------------------------------------------------------
GEN_OPS = ["GenRot", "GenHalf", "GenSlerp", "GenMat3", "GenMat2", "GenFrame", "GenLookat"]
OPS_QUAT.add("GenSlerp")
OPS_2D.add("GenMat2")
TWO_PI = 6.283185307179586


def _axis(rnd):
    while True:
        a = [rnd.randint(-16, 16) for _ in range(3)]
        if sum(abs(x) for x in a) >= 3:
            return a


def _angle(rnd, kind):
    """{q, n, den}: q * pi/2 + n / den with |n / den| <= 3/2."""
    if kind == "tiny":
        den = rnd.choice([4096, 65536])
        return {"q": rnd.choice([0, 0, 2, -2, 4, -4]), "n": rnd.choice([-5, -1, 1, 3]), "den": den}
    if kind == "near-pi":                                   # trace < 0: the non-trace branches of the matrix-to-quaternion constructor
        return {"q": rnd.choice([2, -2]), "n": rnd.randint(-60, 60), "den": 64}
    return {"q": rnd.randint(-4, 4), "n": rnd.randint(-96, 96), "den": 64}


def _val(a):
    return a["q"] * (TWO_PI / 4) + a["n"] / a["den"]


def gen_rot_inputs(rnd, n):
    out = []
    while len(out) < n:
        kind = rnd.choice(["general", "general", "near-pi", "near-pi", "tiny"])
        a = _angle(rnd, kind)
        if rnd.random() < 0.45:                             # a + b = an exact multiple of pi/2: the sum is anchored by Rodrigues' formula
            b = {"q": rnd.randint(-4, 4), "n": -a["n"], "den": a["den"]}
        else:
            b = _angle(rnd, rnd.choice(["general", "near-pi", "tiny"]))
            if b["den"] != a["den"] and rnd.random() < 0.5:
                b = _angle(rnd, "general")
        if max(abs(_val(a)), abs(_val(b)), abs(_val(a) + _val(b))) > TWO_PI:      # the stated quantifier: angles in [-2 pi, 2 pi]
            continue
        out.append({"a": "GenRot", "arg": {"axis": _axis(rnd), "a": a, "b": b}})
    return out


def gen_half_inputs(rnd, n):
    return [{"a": "GenHalf", "arg": {"axis": _axis(rnd), "depth": 8}} for _ in range(n)]


def gen_slerp_inputs(rnd, n):
    out = []
    while len(out) < n:
        ha = [rnd.randint(-8, 8) for _ in range(4)]
        if sum(x * x for x in ha) < 9:
            continue
        kind = rnd.choice(["near", "near", "near", "obtuse", "acute", "any"])
        if kind == "near":                                  # angle between the 4-vectors about 0.002 .. 0.06, both signs of b
            sg = rnd.choice([1, -1])
            m = rnd.choice([1, 2, 4, 8])
            hb = [sg * (32 * x + rnd.randint(-m, m)) for x in ha]
            if hb == [sg * 32 * x for x in ha]:
                continue
        else:
            hb = [rnd.randint(-8, 8) for _ in range(4)]
            d = sum(x * y for x, y in zip(ha, hb))
            if sum(x * x for x in hb) < 9 or (kind == "obtuse" and d >= 0) or (kind == "acute" and d <= 0):
                continue
        out.append({"a": "GenSlerp", "arg": {"ha": ha, "hb": hb, "ts": [0, 1, 2, 4, 6, 7, 8]}})
    return out


def _kmat(rnd, d):
    k = [[rnd.randint(-16, 16) for _ in range(d)] for _ in range(d)]
    if rnd.random() < 0.6:                                  # more well-conditioned ones: a dominant (signed, permuted) diagonal
        perm = list(range(d))
        rnd.shuffle(perm)
        k = [[rnd.randint(-6, 6) for _ in range(d)] for _ in range(d)]
        for i in range(d):
            k[i][perm[i]] = rnd.choice([-1, 1]) * rnd.randint(9, 16)
    return k


def _near(rnd, v, mult=16):
    """An integer vector nearly parallel / anti-parallel to v (angle about 0.005 .. 0.1), never exactly parallel."""
    while True:
        m = rnd.choice([1, 2, 4, 8])
        sg = rnd.choice([1, -1])
        w = [sg * (mult * x + rnd.randint(-m, m)) for x in v]
        cross = [v[1] * w[2] - v[2] * w[1], v[2] * w[0] - v[0] * w[2], v[0] * w[1] - v[1] * w[0]]
        if any(cross):
            return w


def _dir8(rnd):
    while True:
        a = [rnd.randint(-8, 8) for _ in range(3)]
        if sum(abs(x) for x in a) >= 3:
            return a


def gen_frame_inputs(rnd, n):
    out = []
    for _ in range(n):
        v = _dir8(rnd)
        kind = rnd.choice(["near", "near", "generic", "exact"])
        m = rnd.choice([1, -1, 3, -2])
        up = _near(rnd, v) if kind == "near" else ([m * x for x in v] if kind == "exact" else _dir8(rnd))
        out.append({"a": "GenFrame", "arg": {"n": v, "up": up}})
    return out


def gen_lookat_inputs(rnd, n):
    out = []
    while len(out) < n:
        eye = [rnd.randint(-8, 8) for _ in range(3)]
        d = _dir8(rnd)
        up = _near(rnd, d) if rnd.random() < 0.6 else _dir8(rnd)
        if not any([d[1] * up[2] - d[2] * up[1], d[2] * up[0] - d[0] * up[2], d[0] * up[1] - d[1] * up[0]]):
            continue                                         # up exactly parallel to the viewing direction: undefined, outside the statement
        out.append({"a": "GenLookat", "arg": {"eye": eye, "point": [e + x for e, x in zip(eye, d)], "up": up}})
    return out


def gen_mat_inputs(rnd, n, d):
    out = []
    for _ in range(n):
        arg = {"ka": _kmat(rnd, d), "kb": _kmat(rnd, d), "e": rnd.choice([0, 0, 0, -16, -5, 5, 16])}
        if d == 3:
            arg.update({"pa": [rnd.randint(-16, 16) for _ in range(3)], "pb": [rnd.randint(-16, 16) for _ in range(3)],
                        "vs": [[rnd.randint(-4, 4) for _ in range(3)] for _ in range(3)]})
        out.append({"a": "GenMat%d" % d, "arg": arg})
    return out


def general_inputs(rnd, quick):
    f = 1 if quick else 8
    return (gen_rot_inputs(rnd, 140 * f) + gen_half_inputs(rnd, 12 * f) + gen_slerp_inputs(rnd, 160 * f)
            + gen_mat_inputs(rnd, 140 * f, 3) + gen_mat_inputs(rnd, 100 * f, 2) + gen_frame_inputs(rnd, 100 * f) + gen_lookat_inputs(rnd, 100 * f))


GENERAL_GUARDS = {   # (operation, substring of the class) -> minimal number of records TLC judged "ok" or rejected (not skipped), per variant
    ("GenRot", "branch=trace"): 10, ("GenRot", "branch=x-largest"): 5, ("GenRot", "branch=y-largest"): 5, ("GenRot", "branch=z-largest"): 5,
    ("GenRot", "sum-anchored"): 20, ("GenRot", "sense-decided"): 40, ("GenRot", "tiny-angle"): 5, ("GenRot", "beyond-pi-or-near"): 20,
    ("GenHalf", "all"): 8,
    ("GenSlerp", "near-parallel"): 15, ("GenSlerp", "near-antiparallel"): 15, ("GenSlerp", "obtuse"): 15, ("GenSlerp", "acute"): 15,
    ("GenMat3", "unscaled"): 25, ("GenMat3", "scaled-up"): 8, ("GenMat3", "scaled-down"): 8,
    ("GenMat2", "unscaled"): 15, ("GenMat2", "scaled-up"): 5, ("GenMat2", "scaled-down"): 5,
    ("GenFrame", "nearly-parallel"): 10, ("GenFrame", "nearly-antiparallel"): 10, ("GenFrame", "exactly-parallel"): 8, ("GenFrame", "generic"): 10,
    ("GenLookat", "up-nearly-parallel"): 10, ("GenLookat", "up-nearly-antiparallel"): 10, ("GenLookat", "generic"): 10,
}


def validate_general(chk, exe, inputs, variant, tag, chunks=2):
    """Evaluate the inputs on the real code, let TLC (LinGeneralValidate) decide every record.  Returns the class counts."""
    cases = [c for c in inputs if not (variant == "fa" and c["a"] == "GenMat2")]
    res, rc, stderr, wall = adt.run_driver(exe, [[c] for c in cases], "c06-gen-" + tag, meta={"variant": variant})
    recs = []
    for i, c in enumerate(cases):
        r = res.get(i)
        if r is None or not r.get("obs") or "nan" not in r["obs"][0]:
            raise tla.InfraError("linalg driver gave no record for general case %d (rc=%s): %s %s" % (i, rc, r, stderr[-800:]))
        recs.append({"id": i, "a": c["a"], "arg": c["arg"], "obs": r["obs"][0]})
    d = os.path.join(tla.WORK, "run", "c06-gen-" + tag)
    os.makedirs(d, exist_ok=True)
    parts = [recs[k::chunks] for k in range(chunks) if recs[k::chunks]]

    def one(k):
        inp = os.path.join(d, "obs-%d-%d.ndjson" % (os.getpid(), k))
        outp = os.path.join(d, "rej-%d-%d.ndjson" % (os.getpid(), k))
        with open(inp, "w") as f:
            for o in parts[k]:
                f.write(json.dumps(o, separators=(",", ":")) + "\n")
        for pth in (outp, outp + "-stats"):
            if os.path.exists(pth):
                os.remove(pth)
        r = tla.run_tlc(os.path.join(SPEC, "LinGeneralValidate.tla"), os.path.join(SPEC, "LinGeneralValidate.cfg"), workers=1, timeout=3000,
                        env={"C06_OBS": inp, "OUT": outp}, tag="c06-gen-%s-%d" % (tag, k), xmx="3g")
        if not r.ok or "C06-GENERAL-VALIDATED" not in r.out:
            raise tla.InfraError("LinGeneralValidate failed: violated=%s error=%s\n%s" % (r.violated, r.error, r.out[-2500:]))
        rej, stats = [], []
        for pth, dst in ((outp, rej), (outp + "-stats", stats)):
            if os.path.exists(pth):
                with open(pth) as f:
                    dst.extend(json.loads(x) for x in f if x.strip())
                os.remove(pth)
        os.remove(inp)
        return rej, stats

    t0 = time.time()
    with ThreadPoolExecutor(max_workers=chunks) as ex:
        outs = list(ex.map(one, range(len(parts))))
    rejected = [x for rej, _ in outs for x in rej]
    counts = {}
    for _, stats in outs:
        for st in stats:
            key = "%s|%s|%s" % (st["a"], st["cls"], st["verdict"])
            counts[key] = counts.get(key, 0) + st["n"]
    judged = sum(n for k, n in counts.items() if not k.split("|")[-1].startswith("skip:"))
    skipped = sum(n for k, n in counts.items() if k.split("|")[-1].startswith("skip:"))
    chk.cov["evaluations"] += len(cases)
    chk.cov["traces_validated_against_impl"] += judged
    chk.cov["distinct_nontrivial"] += len({json.dumps([c["a"], c["arg"]], sort_keys=True) for c in cases}) - skipped
    chk.cov.setdefault("general_records_judged_by_tlc", 0)
    chk.cov["general_records_judged_by_tlc"] += judged
    chk.cov.setdefault("general_records_skipped_outside_quantifier", 0)
    chk.cov["general_records_skipped_outside_quantifier"] += skipped
    for c in cases:
        chk.cov["action_counts"][c["a"]] = chk.cov["action_counts"].get(c["a"], 0) + 1
    chk.log("%s: %d general (non-lattice) records judged by TLC (LinGeneralValidate), %d skipped (outside the quantifier), %d rejected, %.1fs"
            % (variant, judged, skipped, len(rejected), time.time() - t0))
    # vacuity guards on what TLC actually judged
    for (op, sub), need in GENERAL_GUARDS.items():
        if variant == "fa" and op == "GenMat2":
            continue
        have = sum(n for k, n in counts.items() if k.split("|")[0] == op and sub in k.split("|", 1)[1].rsplit("|", 1)[0]
                   and not k.split("|")[-1].startswith("skip:"))
        if have < need * (1 if chk.tier == "quick" else 4):
            raise tla.InfraError("vacuity guard: only %d %s records of class %s were judged for variant %s (need %d)" % (have, op, sub, variant, need))
    by_id = {r["id"]: r for r in recs}
    for rj in rejected:
        rec = by_id[rj["id"]]
        fam = api(rec["a"], variant)
        mm = {"action": rec["a"], "cls": rj.get("cls"), "field": "law/" + rj["reason"]}
        what = "%s: %s(%s): recorded results rejected by LinGeneralValidate: %s" % (fam, rec["a"], json.dumps(rec["arg"])[:300], rj["reason"])
        chk.violation(sig_of(fam, mm), what, {"kind": "general", "property": chk.pid, "variant": variant,
                                               "case": {"a": rec["a"], "arg": rec["arg"]}, "observed": rec["obs"], "report": rj})
    return counts

# ---------------------------------------------------------------------------------------------
def run(chk, replay=None):
    quick = chk.tier == "quick"
    rnd = random.Random(chk.seed)
    chk.assumptions += [
        "TLC enumerates the bounded lattice completely; all inputs are small integers (or the 24 Hurwitz unit quaternions), exactly representable in float / double",
        "the driver normalises integer axes with std::sqrt and converts angles num * pi / den in double before handing them to the library",
        "a result is compared as the integer round(x) when |x - round(x)| <= 1e-4 (otherwise the raw value is reported and differs from every integer expectation)",
        "TLC-validated records are integers round(x * 2^14); entry tolerance 3 units, tolerance of quadratic laws 12 * 2^14 units of 2^-28",
        "yaw / pitch / roll convention frozen from the constructor's formula: q = q_y(yaw) q_x(pitch) q_z(roll)",
    ]
    if replay:
        return do_replay(chk, replay)
    variants = ["f", "d", "fa"]
    level = 0 if quick else 1

    # the laws are model-checked while the cases are generated and evaluated (the run fails as a tooling error if they do not
    # hold, whatever the drivers observed): the model checker is the long pole of both tiers
    mc_pool = ThreadPoolExecutor(max_workers=1)
    mc_sub = Sub(chk)
    mc_future = mc_pool.submit(model_check, mc_sub)
    try:
        run_cases(chk, rnd, quick, variants, level)
    finally:
        try:
            mc_future.result()
        finally:
            mc_pool.shutdown()
            mc_sub.merge()


def run_cases(chk, rnd, quick, variants, level):
    # phase A
    t0 = time.time()
    fns = [lambda sub: build_drivers(sub)] + [(lambda sub, g=g: run_gen(sub, g, level)) for g in GROUPS]
    outs = parallel(chk, fns, workers=10)
    exe, have_rpq = outs[0]
    cases = [c for cs in outs[1:] for c in cs]
    chk.cov["rotate_point_quaternion_compiles"] = have_rpq
    chk.log("driver built and %d cases generated in %.1fs" % (len(cases), time.time() - t0))

    # vacuity guards: every operation, and every class the statement names, must be present
    ops = {}
    for c in cases:
        ops.setdefault(c["a"], {}).setdefault(c.get("cls"), 0)
        ops[c["a"]][c.get("cls")] += 1
    chk.cov["case_classes"] = {op: (cl if len(cl) <= 12 else {"classes": len(cl), "cases": sum(cl.values())}) for op, cl in ops.items()}
    need = {"Unary2": ["singular", "unimodular", "regular"], "Unary3": ["singular", "unimodular", "regular"],
            "Inverse2": ["unimodular", "regular"], "Inverse3": ["unimodular", "regular"], "Xfm3": ["singular", "unimodular", "regular"],
            "Pair3": ["rotations"], "AffXfm": ["unimodular", "regular", "singular"], "AffInv": ["unimodular", "regular"], "AffPair": ["rotations"],
            "AffRotate": ["coordinate", "face-diagonal", "body-diagonal"], "RotateAA": ["coordinate", "face-diagonal", "body-diagonal"],
            "QuatAA": ["coordinate", "face-diagonal", "body-diagonal"], "QuatFromMat": ["trace", "x-largest", "y-largest", "z-largest"],
            "QuatFromRot": ["trace", "x-largest", "y-largest", "z-largest"], "QuatVec": ["trace", "x-largest", "y-largest", "z-largest"],
            "Slerp": ["equal/t=1/2", "equal/negated/t=1/2", "quarter-turn-apart/t=1/2", "half-turn-apart/t=1/2", "third-turn-apart/t=1/2",
                      "quarter-turn-apart/t=0/2", "half-turn-apart/t=2/2"],
            "QuatRat": ["trace/all-terms", "x-largest/all-terms", "y-largest/all-terms", "z-largest/all-terms"],
            "Orthogonal2": ["proper", "mirrored"], "FrameUp": ["up-parallel", "coordinate"], "Frame": ["coordinate", "body-diagonal"]}
    for op in ["MulVec2", "Pair2", "Rotate2", "Ctor2", "Aff2Pair", "Aff2Rot", "Aff2RotAbout", "AffCtor", "AffRotateAboutQ", "Lookat", "QuatPair",
               "HQuat", "QuatYPR", "Ops2", "Ops3", "AffOps", "Convert2", "Convert3"]:
        need.setdefault(op, [])
    for op, cl in need.items():
        if not ops.get(op):
            raise tla.InfraError("vacuity guard: no %s case was generated" % op)
        for k in cl:
            if not ops[op].get(k):
                raise tla.InfraError("vacuity guard: no %s case of class %s was generated" % (op, k))
    branches = {}
    for c in cases:
        if c["a"] in ("QuatFromMat", "QuatFromRot", "QuatVec", "QuatRat"):
            b = c["cls"].split("/")[0]
            branches[b] = branches.get(b, 0) + 1
    chk.cov["matrix_to_quaternion_branch_cases"] = branches

    # phase B
    rots, unis, hur = trace_operands(cases)
    if len(rots) != 48 or len(hur) != 24 or not unis:          # 24 rotations x 2 offsets
        raise tla.InfraError("trace operands: %d rotations, %d unimodular maps, %d Hurwitz units" % (len(rots), len(unis), len(hur)))
    val_cases = [c for c in cases if c.get("val")]
    nexec, nlen = (30, 80) if quick else (200, 80)
    fns = [(lambda sub, v=v: replay_variant(sub, exe, cases, v, have_rpq)) for v in variants]
    for v in variants:
        vc = [c for c in val_cases if applicable(c, v, have_rpq)]
        fns.append(lambda sub, v=v, vc=vc: validate_records(sub, exe, vc, v, v, chunks=3 if quick else 6))
    gen_inputs = general_inputs(rnd, quick)
    gen_counts = {}
    for v in variants:
        fns.append(lambda sub, v=v: gen_counts.__setitem__(v, validate_general(sub, exe, gen_inputs, v, v, chunks=2 if quick else 6)))
    trace_acts = {}
    for v in variants:
        trace_acts[v] = [rand_execution(rnd, nlen, rots, unis, hur, have_rpq) for _ in range(nexec)]
        fns.append(lambda sub, v=v: recorded_executions(sub, exe, v, trace_acts[v]))
    parallel(chk, fns, workers=9 if quick else 6)

    chk.require_actions([op for op in need if op != "AffRotateAboutQ" or have_rpq])
    chk.require_actions(["validated:" + op for op in ("Inverse2", "Inverse3", "Xfm3", "AffXfm", "AffInv", "Aff2Pair", "Orthogonal2", "Frame",
                                                      "FrameUp", "Lookat", "Slerp", "QuatRat")])
    chk.require_actions(TRACE_OPS + (["TRotC"] if have_rpq else []))
    chk.require_actions(GEN_OPS)
    chk.cov["general_class_counts"] = gen_counts
    chk.add_sample({"kind": "general-input", "case": next(c for c in gen_inputs if c["a"] == "GenSlerp" and abs(c["arg"]["hb"][0]) > 16)}, maxn=6)
    chk.add_sample({"kind": "general-input", "case": next(c for c in gen_inputs if c["a"] == "GenRot")}, maxn=6)
    chk.add_sample({"kind": "case", "case": strip(next(c for c in cases if c["a"] == "QuatFromMat" and c["cls"] == "y-largest"))})
    chk.add_sample({"kind": "case", "case": strip(next(c for c in cases if c["a"] == "Xfm3" and c["cls"] == "unimodular"))})
    chk.add_sample({"kind": "validated-input", "case": strip(next(c for c in cases if c["a"] == "Lookat"))})
    chk.add_sample({"kind": "recorded-execution-prefix", "variant": "f", "actions": trace_acts["f"][0][:8]})

    chk.cov["exhaustive"] = True
    chk.cov["rule"] = ("cases = every input of the bounded domain enumerated by TLC at constant level (2x2 matrices with entries -1..1 / -2..2 and "
                       "their pairs; 3x3 matrices with entries -1..1 - all 19 683 in the thorough tier, every ninth plus the rotation group in the "
                       "quick tier - against 38 second operands; affine maps = those matrices x two translations; all 26 cube axes x all turn "
                       "counts within [-2pi, 2pi]; all 24 / 24x24 group elements for quaternion conversion / product / slerp; all 24x24 Hurwitz "
                       "unit pairs; yaw/pitch/roll quarter-turn triples; lattice normals / eye-target-up triples), evaluated per instantiation "
                       "(float, double, padded float); distinct = distinct (operation, arguments) per instantiation; non-trivial = not all "
                       "matrix operands identity / zero and not a zero angle; the non-lattice families (general axes / angles / quaternion pairs / "
                       "matrices) are seeded random samples, each record judged by TLC, counted once per instantiation, skipped (ill-conditioned) "
                       "records not counted; exhaustive refers to the lattice domain - the quick tier's thinning of the "
                       "3x3 lattice and the recorded random executions are samples of it / on top of it")


def do_replay(chk, path):
    rep = json.load(open(path))
    exe, have_rpq = build_drivers(chk)
    if rep["kind"] == "history":
        adtcheck.replay(chk, exe, [rep["history"]], "replay", rep["sig_prefix"], meta=rep.get("meta"))
    elif rep["kind"] == "general":
        GENERAL_GUARDS.clear()
        validate_general(chk, exe, [rep["case"]], rep["variant"], "replay", chunks=1)
    elif rep["kind"] == "validate":
        validate_records(chk, exe, [rep["case"]], rep["variant"], "replay", chunks=1)
    else:
        adtcheck.record_and_validate(chk, exe, SPEC, "LinTrace", "LinTrace.cfg", [rep["actions"]], "replay", rep["sig_prefix"], meta=rep.get("meta"))
    chk.cov["evaluations"] = max(chk.cov["evaluations"], 1)
    chk.cov["rule"] = "replay of one saved artefact"
    chk.add_sample({"kind": "replay", "artefact": os.path.basename(path)})
