"""C10 - FlatMap and ParameterizedObject conform to an insertion-ordered unique-key map."""
import os, random
from .. import tla, build, adtcheck
from ..tla import VERIF

LEVEL = "model_checking"
LEVEL_TEXT = ("TLC checks on bounded instances that the operational map specification agrees with the declarative reading of the property "
              "(presence, uniqueness, last value, first-insertion order) after every history of mutators; every path of the specification's "
              "complete state graph up to a budgeted length, one path per transition and seeded random walks are replayed on the real FlatMap "
              "(4 key/value type variants) and ParameterizedObject with all observables compared after every step; random 250-step executions "
              "of the real code over larger alphabets are validated by TLC against the trace specification")
LEVEL_NOTE = ("bounded: 3 keys x 2 values x <=3 entries (FlatMap), 2 names x 3 types (ParameterizedObject) for exhaustive parts; "
              "trusted: TLC, the drivers' injective mapping between model integers and concrete keys/values, g++/libstdc++")
TECHNIQUE = "TLA+ ADT specification + TLC; state-graph histories replayed on the real objects; TLC trace validation of recorded executions"
SPEC = os.path.join(VERIF, "spec", "containers")
MUT_MAP = {"Put", "AtAssign", "GetOrInsert", "Erase", "Clear"}
MUT_PO = {"SetParam", "GetParam", "RemoveParam", "ResetQuery"}


def rand_map_actions(rnd, n, nkeys=10, nvals=5):
    acts = []
    size_hint = 0
    for _ in range(n):
        x = rnd.random()
        k = rnd.randint(1, nkeys)
        v = rnd.randint(1, nvals)
        if x < 0.30: a = {"a": "Put", "arg": {"k": k, "v": v}}
        elif x < 0.38: a = {"a": "GetOrInsert", "arg": {"k": k}}
        elif x < 0.46: a = {"a": "AtAssign", "arg": {"k": k, "v": v}}
        elif x < 0.56: a = {"a": "At", "arg": {"k": k}}
        elif x < 0.64: a = {"a": "Contains", "arg": {"k": k}}
        elif x < 0.80: a = {"a": "Erase", "arg": {"k": k}}
        elif x < 0.82: a = {"a": "Clear", "arg": []}
        elif x < 0.88: a = {"a": "AtIndex", "arg": {"i": rnd.randint(0, nkeys)}}
        elif x < 0.92: a = {"a": "IterRev", "arg": []}
        elif x < 0.96: a = {"a": "IterConst", "arg": []}
        else: a = {"a": "Reserve", "arg": {"n": rnd.choice([0, 7, 100])}}
        acts.append(a)
    return acts


def rand_po_actions(rnd, n, nnames=6, nvals=5):
    types = ["int", "float", "str", "bool"]
    acts = []
    for _ in range(n):
        x = rnd.random()
        nm = rnd.randint(1, nnames)
        t = rnd.choice(types)
        if x < 0.35: a = {"a": "SetParam", "arg": {"n": nm, "t": t, "v": rnd.randint(1, 2 if t == "bool" else nvals)}}
        elif x < 0.70: a = {"a": "GetParam", "arg": {"n": nm, "t": t, "d": 99}}
        elif x < 0.80: a = {"a": "HasParam", "arg": {"n": nm}}
        elif x < 0.93: a = {"a": "RemoveParam", "arg": {"n": nm}}
        else: a = {"a": "ResetQuery", "arg": []}
        acts.append(a)
    return acts


def run(chk, replay=None):
    quick = chk.tier == "quick"
    rnd = random.Random(chk.seed)
    chk.assumptions += [
        "TLC explores the bounded instances completely (3 keys x 2 values, <= 3 entries; 2 names x 3 types x 2 values)",
        "drivers map model integers to concrete int / std::string keys and values; the mapping is injective",
        "recorded random histories use 10 keys / 6 names; longer histories or larger alphabets are not explored",
    ]
    if replay:
        return do_replay(chk, replay)
    # 1. design level: the operational map agrees with the declarative reading of the property
    adtcheck.model_check(chk, SPEC, "OrderedMapMC", "OrderedMapMC.cfg" if quick else "OrderedMapMC_thorough.cfg",
                         what="all histories of mutators up to K: m = RefSeq(hist), unique keys")
    adtcheck.model_check(chk, SPEC, "ParamObject", "ParamObject.cfg", what="query flag action properties")

    # 2./3. spec -> code
    exe = build.build("drv_ordered_map")
    budget = 40000 if quick else 1300000
    hs, info, ag = adtcheck.gen_histories(chk, SPEC, "OrderedMap", "OrderedMapGen.cfg", budget, 6,
                                          walks=2000 if quick else 20000, walk_len=40, seed=chk.seed, mutators=MUT_MAP, tag="c10-map")
    chk.count_actions(hs)
    chk.require_actions(["Put", "AtAssign", "GetOrInsert", "At", "Contains", "Erase", "Clear", "AtIndex", "IterRev", "IterConst"])
    chk.cov["generation_FlatMap"] = info
    # thorough: the full budget (all histories of length 4) on the <int,int> variant, the quick budget on the other three
    hs_small = hs
    if not quick:
        hs_small, _, _ = adtcheck.gen_histories(chk, SPEC, "OrderedMap", "OrderedMapGen.cfg", 40000, 6, walks=20000, walk_len=40,
                                                seed=chk.seed + 7, mutators=MUT_MAP, tag="c10-map-small")
    for variant in ["ii", "ss", "si", "is"]:
        hv = hs if variant == "ii" else hs_small
        n, wall = adtcheck.replay(chk, exe, hv, "c10-map-" + variant, "FlatMap<%s>" % variant, meta={"variant": variant}, isolate=500)
        chk.log("FlatMap<%s>: %d histories replayed (%d mismatching) in %.1fs" % (variant, len(hv), n, wall))
        chk.cov["distinct_nontrivial"] += adtcheck._nontrivial_distinct(hv, MUT_MAP) if not quick else 0
    if quick:
        chk.cov["distinct_nontrivial"] += 4 * adtcheck._nontrivial_distinct(hs, MUT_MAP)
    chk.add_sample({"kind": "history", "object": "FlatMap", "steps": hs[len(hs) // 2]})

    exe2 = build.build("drv_param_object")
    hs2, info2, ag2 = adtcheck.gen_histories(chk, SPEC, "ParamObject", "ParamObject.cfg", budget, 6,
                                             walks=2000 if quick else 20000, walk_len=40, seed=chk.seed + 1, mutators=MUT_PO, tag="c10-po")
    chk.count_actions(hs2)
    chk.require_actions(["SetParam", "GetParam", "HasParam", "RemoveParam", "ResetQuery"])
    chk.cov["generation_ParameterizedObject"] = info2
    n, wall = adtcheck.replay(chk, exe2, hs2, "c10-po", "ParameterizedObject", isolate=500)
    chk.log("ParameterizedObject: %d histories replayed (%d mismatching) in %.1fs" % (len(hs2), n, wall))
    chk.cov["distinct_nontrivial"] += adtcheck._nontrivial_distinct(hs2, MUT_PO)
    chk.add_sample({"kind": "history", "object": "ParameterizedObject", "steps": hs2[len(hs2) // 3]})

    # 4. code -> spec
    nexec = 20 if quick else 200
    for variant in ["ii", "ss"]:
        acts = [rand_map_actions(rnd, 250) for _ in range(nexec)]
        adtcheck.record_and_validate(chk, exe, SPEC, "OrderedMapTrace", "OrderedMapTrace.cfg", acts, "c10-map-" + variant,
                                     "FlatMap<%s>" % variant, meta={"variant": variant}, isolate=1)
    acts = [rand_po_actions(rnd, 250) for _ in range(nexec)]
    adtcheck.record_and_validate(chk, exe2, SPEC, "ParamObjectTrace", "ParamObjectTrace.cfg", acts, "c10-po", "ParameterizedObject", isolate=1)
    chk.add_sample({"kind": "recorded-trace-prefix", "object": "ParameterizedObject", "actions": acts[0][:6]})
    chk.cov["rule"] = ("histories = paths of TLC's complete state graph of the bounded instance (all paths up to the budgeted length, "
                       "one shortest path per transition, seeded random walks); non-trivial = contains a state-changing action; "
                       "distinct = distinct (action,argument) sequences, counted per concrete type variant")


def do_replay(chk, path):
    import json
    rep = json.load(open(path))
    if rep["kind"] == "history":
        drv = "drv_param_object" if rep["sig_prefix"].startswith("Param") else "drv_ordered_map"
        exe = build.build(drv)
        adtcheck.replay(chk, exe, [rep["history"]], "replay", rep["sig_prefix"], meta=rep.get("meta"))
    else:
        drv = "drv_param_object" if rep["sig_prefix"].startswith("Param") else "drv_ordered_map"
        exe = build.build(drv)
        mod = "ParamObjectTrace" if drv == "drv_param_object" else "OrderedMapTrace"
        adtcheck.record_and_validate(chk, exe, SPEC, mod, mod + ".cfg", [rep["actions"]], "replay", rep["sig_prefix"], meta=rep.get("meta"))
    chk.cov["evaluations"] = max(chk.cov["evaluations"], 1)
