"""C10 - FlatMap and ParameterizedObject conform to an insertion-ordered unique-key map."""
import os, random, json, re, time
import multiprocessing
from .. import tla, build, adt, adtcheck, trace, funcheck
from ..core import sig_of
from ..tla import VERIF

LEVEL = "model_checking"
LEVEL_TEXT = ("TLC checks on bounded instances that the operational map / parameter-list specifications agree with the declarative reading "
              "of the property (presence, uniqueness, last value, first-insertion order, query flag) after every history of single calls, "
              "and that every macro action equals the iteration of the calls it stands for; every path of the specifications' complete "
              "state graphs up to a budgeted length, one path per transition and seeded random walks are replayed on the real FlatMap "
              "(7 key/value type variants, concrete keys at type extremes / with NUL and high bytes / equal up to a prefix) and "
              "ParameterizedObject (15 value types, 5 name maps), also interleaved with calls on an unrelated instance, with all observables compared "
              "after every step; TLC-emitted histories "
              "across the sizes 2^7..2^16 +-1 and random 250-step executions of the real code are validated by TLC against the trace "
              "specifications")
LEVEL_NOTE = ("bounded: 3 keys x 2 values x <=3 entries (FlatMap; 2 keys and two maps for whole-map operations), 2 names x 3 types "
              "(ParameterizedObject) for exhaustive parts; trusted: TLC, the drivers' injective mapping between model integers and concrete "
              "keys/values/names, g++/libstdc++")
TECHNIQUE = "TLA+ ADT specification + TLC; state-graph histories replayed on the real objects; TLC trace validation of recorded executions"
SPEC = os.path.join(VERIF, "spec", "containers")
MUT_MAP = {"Put", "AtAssign", "GetOrInsert", "Erase", "EraseAt", "Clear", "AtIndexAssign", "IterAssign", "CopyFrom", "MoveCtor", "MoveAssign",
           "Swap", "Put2", "Erase2", "Clear2", "CopyTo", "CopyCtor", "PutRange", "EraseEvery"}
MUT_PO = {"SetParam", "GetParam", "RemoveParam", "ResetQuery", "RemoveParamAt", "SetParamFrom", "FindOrAdd", "SetRange", "GetRange", "RemoveEvery"}
WHOLE = {"CopyTo", "CopyFrom", "CopyCtor", "MoveCtor", "MoveAssign", "SelfAssign", "Swap"}

# concrete key / value maps of the FlatMap driver per type variant, concrete name maps of the ParameterizedObject driver
KEYMAPS = {"ii": [1, 2, 3, 4], "ss": [1, 2, 3, 4], "si": [1, 2], "is": [1, 4], "Li": [1, 2, 3]}
KEYMAPS_QUICK = {"ii": [1, 3], "ss": [1, 2, 3, 4], "si": [1], "is": [4], "Li": [1]}
NAMEMAPS = [1, 2, 3, 4]
PO_TYPES = ["int", "uint", "i64", "short", "char", "float", "double", "bool", "str", "cstr", "ptr", "vec3f", "vec3i", "vec2f", "thr", "weq"]


# ---------------------------------------------------------------------------
# seeded random executions (inputs only: what they return is validated by TLC)
# ---------------------------------------------------------------------------
def rand_map_actions(rnd, n, nkeys=10, nvals=5, throwing=False, whole=True, cidx=False):
    acts = []
    for _ in range(n):
        x = rnd.random()
        k = rnd.randint(0, nkeys - 1)
        v = rnd.randint(1, nvals)
        if x < 0.22: a = {"a": "Put", "arg": {"k": k, "v": v}}
        elif x < 0.28: a = {"a": "GetOrInsert", "arg": {"k": k}}
        elif x < 0.33: a = {"a": "AtAssign", "arg": {"k": k, "v": v}}
        elif x < 0.40: a = {"a": "At", "arg": {"k": k}}
        elif x < 0.45: a = {"a": "Contains", "arg": {"k": k}}
        elif x < 0.54: a = {"a": "Erase", "arg": {"k": k}}
        elif x < 0.62: a = {"a": "EraseAt", "arg": {"i": rnd.randint(0, nkeys - 1)}}
        elif x < 0.635: a = {"a": "Clear", "arg": []}
        elif x < 0.68: a = {"a": "AtIndex", "arg": {"i": rnd.randint(0, nkeys)}}
        elif x < 0.71: a = {"a": "AtIndexAssign", "arg": {"i": rnd.randint(0, nkeys), "v": v}}
        elif x < 0.74: a = {"a": "IterAssign", "arg": {"i": rnd.randint(0, nkeys), "v": v}}
        elif x < 0.77: a = {"a": "IterRev", "arg": []}
        elif x < 0.80: a = {"a": "IterConst", "arg": []}
        elif x < 0.82: a = {"a": "Reserve", "arg": {"n": rnd.choice([0, 1, 7, 100])}}
        elif x < 0.86:
            a = {"a": "InsertThrows", "arg": {"k": k, "w": rnd.choice(["key", "val"])}} if throwing else {"a": "Contains", "arg": {"k": k}}
        elif x < 0.89:
            a = {"a": "ConstIndex", "arg": {"k": k}} if cidx else {"a": "At", "arg": {"k": k}}
        elif not whole: a = {"a": "Put", "arg": {"k": k, "v": v}}
        elif x < 0.93: a = {"a": "Put2", "arg": {"k": k, "v": v}}
        elif x < 0.95: a = {"a": "Erase2", "arg": {"k": k}}
        else: a = {"a": rnd.choice(["CopyTo", "CopyFrom", "CopyCtor", "MoveCtor", "MoveAssign", "SelfAssign", "Swap", "Clear2"]), "arg": []}
        acts.append(a)
    return acts


def rand_po_actions(rnd, n, nnames=6, nvals=5, types=None):
    types = types or PO_TYPES
    acts = []
    for _ in range(n):
        x = rnd.random()
        nm = rnd.randint(1, nnames)
        t = rnd.choice(types)
        if x < 0.30: a = {"a": "SetParam", "arg": {"n": nm, "t": t, "v": rnd.randint(1, 2 if t == "bool" else nvals)}}
        elif x < 0.60: a = {"a": "GetParam", "arg": {"n": nm, "t": t, "d": 99}}
        elif x < 0.66: a = {"a": "HasParam", "arg": {"n": nm}}
        elif x < 0.74: a = {"a": "RemoveParam", "arg": {"n": nm}}
        elif x < 0.80: a = {"a": "RemoveParamAt", "arg": {"i": rnd.randint(0, nnames - 1)}}
        elif x < 0.87: a = {"a": "SetParamFrom", "arg": {"n": nm, "n2": rnd.randint(1, nnames)}}
        elif x < 0.90: a = {"a": "FindOrAdd", "arg": {"n": nm}}
        elif x < 0.95: a = {"a": "SetParamThrows", "arg": {"n": nm}}
        else: a = {"a": "ResetQuery", "arg": []}
        acts.append(a)
    return acts


def cls_of_event(ev):
    """Input class of a recorded event for the signature of a trace rejection (derived from the arguments only)."""
    a, arg = ev.get("during") or ev.get("a"), ev.get("arg") or {}
    if not isinstance(arg, dict):
        return None
    if a in ("EraseEvery", "RemoveEvery"):
        return arg.get("how")
    if a in ("PutRange", "SetRange", "GetRange"):
        return "n=%s" % arg.get("n")
    if a in ("EraseAt", "RemoveParamAt"):
        return "stored-object"
    if a == "InsertThrows":
        return arg.get("w")
    return None


# ---------------------------------------------------------------------------
# jobs run in forked children (TLC runs, driver runs, trace validations are independent of one another);
# the parent only collects: every verdict is still TLC's / the comparison of TLC's values with the driver's
# ---------------------------------------------------------------------------
_JOBS = []


def _run_job(i):
    kind, a = _JOBS[i]
    try:
        if kind == "mc":
            spec_dir, module, cfg, workers = a
            return ("mc", tla.run_tlc(os.path.join(spec_dir, module + ".tla"), os.path.join(spec_dir, cfg), workers=workers, timeout=2400))
        if kind == "gen":
            module, cfg, tag = a
            ag, r = adt.build_graph(os.path.join(SPEC, module + ".tla"), os.path.join(SPEC, cfg), tag=tag, workers=4)
            return ("gen", ag, r)
        if kind == "replay":
            exe, hs, tag, meta, isolate = a
            res, rc, stderr, wall = adt.run_driver(exe, hs, tag, isolate=isolate, meta=meta, timeout=2400)
            if rc not in (0,) and not res:
                return ("infra", "driver %s produced nothing (rc=%s): %s" % (exe, rc, stderr[-2000:]))
            return ("replay", adt.compare(hs, res, rc, stderr), rc, stderr[-3000:], wall)
        if kind == "cases":
            module, cfg, tag = a
            d = os.path.join(tla.WORK, "cases", tag)
            os.makedirs(d, exist_ok=True)
            out = os.path.join(d, "cases-%d" % os.getpid())
            r = tla.run_tlc(os.path.join(SPEC, module + ".tla"), os.path.join(SPEC, cfg), workers=1, timeout=1500, env={"OUT": out}, tag=tag)
            if not r.ok or not os.path.exists(out):
                return ("infra", "case-generation module %s failed: violated=%s error=%s\n%s" % (module, r.violated, r.error, r.out[-2500:]))
            cases = [json.loads(ln) for ln in open(out) if ln.strip()]
            os.remove(out)
            return ("cases", cases, r)
        if kind == "trace":
            # several driver runs (type variants ...) whose recorded executions are validated by ONE TLC run of the trace specification
            module, cfg, subs, gtag = a
            execs, owner, wall, left = [], [], 0.0, 0
            for si, (exe, actions, tag, meta) in enumerate(subs):
                res, rc, stderr, w = adt.run_driver(exe, actions, tag + "-rec", isolate=1, meta=meta, timeout=2400)
                wall += w
                for j, acts in enumerate(actions):
                    r = res.get(j)
                    if r is None:
                        return ("infra", "driver %s gave no result for recorded execution %d of %s (rc=%s): %s" % (exe, j, tag, rc, stderr[-1500:]))
                    if "crash" in r or "timeout" in r:
                        kd = "crash" if "crash" in r else "timeout"
                        k = r[kd].get("step", 0)
                        ok = 0 <= k < len(acts)
                        ev = [{"a": kd, "arg": acts[k].get("arg") if ok else None, "during": acts[k]["a"] if ok else None, "obs": r[kd]}]
                    else:
                        ev = [{"a": st["a"], "arg": st.get("arg", []), "obs": o} for st, o in zip(acts, r["obs"])]
                    execs.append(ev)
                    owner.append((si, j))
                    # value-less parameters left behind by a failed setParam (observation for a note, no verdict)
                    for e in ev:
                        if e["a"] == "SetParamThrows" and isinstance(e["obs"], dict):
                            if any(isinstance(row, list) and row[0] == e["arg"]["n"] and row[1] == "none" for row in e["obs"].get("params", [])):
                                left += 1
            acc, rej, stats = trace.validate(os.path.join(SPEC, module + ".tla"), os.path.join(SPEC, cfg), execs, gtag, workers=1, timeout=2400,
                                             max_rejections=8)
            nev = [0] * len(subs)
            for (si, _), ev in zip(owner, execs):
                nev[si] += len(ev)
            rejs = [{"sub": owner[rj["exec"]][0], "exec": owner[rj["exec"]][1], "line": rj["line"], "event": rj["event"],
                     "events": execs[rj["exec"]]} for rj in rej]
            return ("trace", len(execs), rejs, stats, wall, left, nev)
    except tla.InfraError as e:
        return ("infra", str(e))
    return ("infra", "unknown job kind " + kind)


def _run_one(job):
    global _JOBS
    _JOBS = [job]
    try:
        return _run_job(0)
    finally:
        _JOBS = []


def _child_init():
    # many JVMs run side by side: keep each one's collector small
    os.environ["_JAVA_OPTIONS"] = "-XX:ParallelGCThreads=3"


def run_jobs(jobs, procs):
    """jobs: list of (kind, args); returns results in order.  Children are forked, so the (large) inputs are not copied."""
    global _JOBS
    _JOBS = jobs
    if not jobs:
        return []
    ctx = multiprocessing.get_context("fork")
    with ctx.Pool(processes=min(procs, len(jobs)), initializer=_child_init) as pool:
        out = pool.map(_run_job, range(len(jobs)), chunksize=1)
    _JOBS = []
    for r in out:
        if r[0] == "infra":
            raise tla.InfraError(r[1])
    return out


def checked(r):
    if r[0] == "infra":
        raise tla.InfraError(r[1])
    return r


def report_replay(chk, histories, result, tag, sig_prefix, meta):
    """The reporting half of adtcheck.replay for a driver run made in a child."""
    _, mms, rc, stderr, wall = result
    for mm in mms:
        if mm["kind"] == "missing":
            if "Sanitizer" in stderr or "runtime error" in stderr:
                mm["kind"] = "crash"
                mm["field"] = "crash"
                h = histories[mm["case"]]
                mm["action"] = h[-1]["a"] if h else None
            else:
                raise tla.InfraError("driver stopped without result for case %d of %s (rc=%s): %s" % (mm["case"], tag, rc, stderr[-1500:]))
        h = histories[mm["case"]]
        what = "%s: step %d %s(%s): %s expected %s observed %s" % (
            sig_prefix, mm["step"], mm.get("action"), json.dumps(mm.get("arg")), mm["field"],
            json.dumps(mm.get("expected"))[:300], json.dumps(mm.get("observed"))[:300])
        rep = {"kind": "history", "property": chk.pid, "tag": tag, "sig_prefix": sig_prefix, "meta": meta, "history": h,
               "mismatch": {k: v for k, v in mm.items() if k != "stderr"}, "info": {}}
        if mm.get("stderr"):
            rep["stderr_tail"] = mm["stderr"][-2500:]
        chk.violation(sig_of(sig_prefix, mm), what, rep)
    chk.cov["evaluations"] += len(histories)
    chk.log("%s: %d histories replayed (%d mismatching) in %.1fs" % (sig_prefix, len(histories), len(mms), wall))
    return len(mms)


def report_trace(chk, subs, result, module):
    """subs: list of (actions, tag, sig_prefix, meta) in the order given to the job."""
    _, nexecs, rejs, stats, wall, left, nev = result
    chk.cov["traces_validated_against_impl"] += nexecs
    chk.cov.setdefault("trace_events_validated", 0)
    chk.cov["trace_events_validated"] += stats["events"]
    chk.log("trace validation %s: %d executions (%s), %d rejected, %d events, %d TLC run(s), drivers %.1fs + TLC %.1fs"
            % (module, nexecs, ", ".join("%s: %d" % (s[1], len(s[0])) for s in subs), len(rejs), stats["events"], stats["tlc_runs"], wall, stats["wall"]))
    for rj in rejs:
        actions, tag, sig_prefix, meta = subs[rj["sub"]]
        ev = rj["event"]
        mm = {"action": ev.get("during") or ev.get("a"), "cls": cls_of_event(ev),
              "field": "trace-rejected" if ev.get("a") not in ("crash", "timeout") else ev["a"]}
        what = "%s: recorded execution %d of %s rejected by %s at event %d: %s" % (sig_prefix, rj["exec"], tag, module, rj["line"], json.dumps(ev)[:400])
        events = rj["events"]
        rep = {"kind": "trace", "property": chk.pid, "tag": tag, "sig_prefix": sig_prefix, "meta": meta, "module": module,
               "actions": actions[rj["exec"]], "events": events if len(json.dumps(events)) < 400000 else events[:rj["line"] + 1][-3:],
               "rejected_at": rj["line"]}
        chk.violation(sig_of(sig_prefix, mm), what, rep)
    return left


def histories_of(ag, budget, kmax, walks, walk_len, seed):
    K = 1
    while K < kmax and adt.count_paths(ag, K + 1) <= budget:
        K += 1
    allp = adt.all_paths(ag, K, budget * 2) or []
    cover = adt.edge_cover(ag)
    rw = adt.random_walks(ag, walks, walk_len, seed)
    info = {"abstract_states": len(ag.states), "abstract_transitions": ag.nedges, "all_histories_len": K if allp else 0,
            "all_histories": len(allp), "transition_cover": len(cover), "random_walks": len(rw), "walk_len": walk_len}
    return allp, cover, rw, info


def count_classes(chk, histories, key):
    cc = chk.cov.setdefault(key, {})
    for h in histories:
        for st in h:
            if st.get("cls") is not None:
                c = "%s(%s)" % (st["a"], st["cls"])
                cc[c] = cc.get(c, 0) + 1


def require_classes(chk, key, names):
    missing = [n for n in names if not chk.cov.get(key, {}).get(n)]
    if missing:
        raise tla.InfraError("vacuity guard: input classes never exercised: %s" % missing)


def without(histories, names):
    return [h for h in histories if not any(st["a"] in names for st in h)]


def build_map_driver(chk):
    """The FlatMap driver; with FlatMap::operator[] const instantiated if that compiles on this tree."""
    try:
        exe = build.build("drv_ordered_map", extra_defs=["ORDERED_MAP_PROBE_CONST_INDEX=ON"])
        chk.cov["flatmap_const_index_instantiable"] = True
        return exe, True
    except build.BuildFailed as e:
        m = re.search(r"FlatMap\.h:(\d+):\d+: error: ([^\n]*)", str(e))
        chk.cov["flatmap_const_index_instantiable"] = False
        chk.note("FlatMap<K,V>::operator[](const K&) const cannot be instantiated on this tree (%s): its steps (ConstIndex) are not "
                 "evaluated - the probe build with -DORDERED_MAP_PROBE_CONST_INDEX fails, the build without it succeeds"
                 % (("FlatMap.h:%s: %s" % (m.group(1), m.group(2)[:160])) if m else "compile error"))
        return build.build("drv_ordered_map"), False


def run(chk, replay=None):
    quick = chk.tier == "quick"
    rnd = random.Random(chk.seed)
    chk.assumptions += [
        "TLC explores the bounded instances completely (3 keys x 2 values, <= 3 entries; two maps over 2 keys; 2 names x 3 types x 2 values)",
        "drivers map model integers to concrete keys / values / names (int, int64, std::string, move-only and throwing types; 15 parameter "
        "types); every map is injective on the integers used with it",
        "recorded random histories use 10 keys / 6 names; size boundaries are crossed by TLC-emitted histories with formula-defined content "
        "(2^7, 2^8, 2^9, 2^10, 2^12 +-1 entries; 2^16 +-1 for FlatMap<int,int>, thorough tier); other sizes are not explored",
        "a failed setParam (the value's copy constructor throws) may or may not leave a value-less parameter under a NEW name: the statement "
        "does not decide it, both are accepted",
    ]
    if replay:
        return do_replay(chk, replay)
    procs = 8 if quick else 10
    exe, cidx = build_map_driver(chk)
    exe2 = build.build("drv_param_object")

    # ---- stage 1 (children, asynchronous): design level = TLC on the specifications themselves; state graphs of the generation
    #      instances; TLC-emitted histories across size boundaries.  The model-checking results are collected at the very end.
    mcs = [("OrderedMapMC", "OrderedMapMC.cfg" if quick else "OrderedMapMC_thorough.cfg",
            "all histories of single calls up to K steps (incl. removal through the stored key, writes through at_index / iterators, failed "
            "insertions): m = RefSeq(hist), unique keys"),
           ("OrderedMapMC", "OrderedMapMC_macro.cfg" if quick else "OrderedMapMC_macro_thorough.cfg",
            "macro actions PutRange / EraseEvery = iteration of the single calls; m = RefSeq(expanded history)"),
           ("ParamObjectMC", "ParamObjectMC.cfg" if quick else "ParamObjectMC_thorough.cfg",
            "all histories up to K steps: ps = RefSeq(hist) (presence, order, last type/value, queried iff exact-type read since creation and reset)"),
           ("ParamObjectMC", "ParamObjectMC_macro.cfg" if quick else "ParamObjectMC_macro_thorough.cfg",
            "macro actions SetRange / GetRange / RemoveEvery = iteration of the single calls")]
    # (quick: the other parameter types - signed / unsigned / wide, vectors with equal-length type names, pointers - come in
    #  through the recorded random executions, which draw from all 15 types)
    po_cfgs = ["ParamObject.cfg"] + ([] if quick else ["ParamObjectGen_near.cfg", "ParamObjectGen_num.cfg", "ParamObjectGen_ptr.cfg"])
    gens = [("OrderedMap", "OrderedMapGen.cfg", "c10-map"), ("OrderedMap", "OrderedMapGen2.cfg", "c10-map2")] + \
           [("ParamObject", c, "c10-po-" + c.replace(".cfg", "")) for c in po_cfgs]
    casegens = [("OrderedMapBigGen", "OrderedMapBigGen.cfg" if quick else "OrderedMapBigGen_thorough.cfg", "c10-big", "histories across size boundaries (macro actions)"),
                ("ParamObjectBigGen", "ParamObjectBigGen.cfg" if quick else "ParamObjectBigGen_thorough.cfg", "c10-bigpo", "parameter lists across size boundaries (macro actions)")]
    if not quick:
        casegens.append(("OrderedMapBigGen", "OrderedMapBigGen_huge.cfg", "c10-huge", "2^16 +- 1 entries"))
    ctx = multiprocessing.get_context("fork")
    pool1 = ctx.Pool(processes=procs, initializer=_child_init)
    try:
        f_gen = [pool1.apply_async(_run_one, (("gen", g),)) for g in gens]
        f_case = [pool1.apply_async(_run_one, (("cases", c[:3]),)) for c in casegens]
        f_mc = [pool1.apply_async(_run_one, (("mc", (SPEC, m, c, 3 if quick else 5)),)) for m, c, _ in mcs]
        graphs = {}
        for g, f in zip(gens, f_gen):
            r = checked(f.get())
            graphs[g[2]] = r[1]
            # (ParamObject.cfg carries the action properties QueryOnlyByExactRead / QueryUntilReset: this run checks them)
            chk.add_model(g[0] + "/" + g[1], r[2], "generation instance: %d abstract states, %d abstract transitions" % (len(r[1].states), r[1].nedges))
        cases = {}
        for c, f in zip(casegens, f_case):
            r = checked(f.get())
            cases[c[2]] = r[1]
            chk.cov["models"].append({"module": c[0] + "/" + c[1], "cases_emitted": len(r[1]), "distinct_states": r[2].distinct,
                                      "states_generated": r[2].generated, "wall_s": round(r[2].wall, 1), "what": c[3]})
            chk.log("TLC %s/%s: laws checked, %d histories emitted in %.1fs (%s)" % (c[0], c[1], len(r[1]), r[2].wall, c[3]))
        run_rest(chk, quick, rnd, procs, exe, exe2, cidx, graphs, cases, po_cfgs)
        for (m, c, what), f in zip(mcs, f_mc):
            chk.require_model_ok(m + "/" + c, checked(f.get())[1], what)
    finally:
        pool1.terminate()
        pool1.join()


def run_rest(chk, quick, rnd, procs, exe, exe2, cidx, graphs, cases, po_cfgs):
    # ---- stage 2: histories from the state graphs --------------------------------------------------------------------------------
    budget = 50000
    allp, cover, rw, info = histories_of(graphs["c10-map"], budget, 6, 2000 if quick else 30000, 40, chk.seed)
    hs = allp + cover + rw
    hs_light = cover + rw[:2000]
    chk.cov["generation_FlatMap"] = info
    allp2, cover2, rw2, info2 = histories_of(graphs["c10-map2"], 12000 if quick else 400000, 4, 1500 if quick else 10000, 40, chk.seed + 3)
    hs2 = allp2 + cover2 + rw2
    if not cidx:
        hs2 = without(hs2, {"ConstIndex"})
    chk.cov["generation_FlatMap_two_maps"] = info2
    chk.count_actions(hs)
    chk.count_actions(hs2)
    chk.require_actions(["Put", "AtAssign", "GetOrInsert", "At", "Contains", "Erase", "EraseAt", "Clear", "AtIndex", "IterRev", "IterConst",
                         "AtIndexAssign", "IterAssign", "InsertThrows", "CopyTo", "CopyFrom", "CopyCtor", "MoveCtor", "MoveAssign", "SelfAssign",
                         "Swap", "Put2", "Erase2", "Clear2"] + (["ConstIndex"] if cidx else []))
    count_classes(chk, hs + hs2, "input_classes")
    require_classes(chk, "input_classes", ["EraseAt(key=stored-object,last-entry)", "EraseAt(key=stored-object,next-key=0)",
                                           "EraseAt(key=stored-object,next-key=other)", "EraseAt(beyond-the-end)", "InsertThrows(key)", "InsertThrows(val)"])
    hs_po = {}
    for c in po_cfgs:
        a, cv, w, inf = histories_of(graphs["c10-po-" + c.replace(".cfg", "")], 40000 if c == "ParamObject.cfg" or not quick else 3000, 6,
                                     2000 if quick else 10000, 40, chk.seed + 1)
        hs_po[c] = (a + cv + w, cv + w[:2000])
        chk.cov["generation_ParameterizedObject" + ("" if c == "ParamObject.cfg" else "_" + c.replace("ParamObjectGen_", "").replace(".cfg", ""))] = inf
        chk.count_actions(hs_po[c][0])
        count_classes(chk, hs_po[c][0], "input_classes")
    chk.require_actions(["SetParam", "GetParam", "HasParam", "RemoveParam", "ResetQuery", "RemoveParamAt", "SetParamFrom", "FindOrAdd"])
    require_classes(chk, "input_classes", ["RemoveParamAt(name=stored-object,not-last)", "SetParamFrom(own-value)", "SetParamFrom(value-of-other,new)"])

    big, huge, bigpo = cases["c10-big"], cases.get("c10-huge", []), cases["c10-bigpo"]
    chk.count_actions([c["h"] for c in big + huge + bigpo])
    chk.require_actions(["PutRange", "EraseEvery", "SetRange", "GetRange", "RemoveEvery"])
    chk.cov["size_boundaries"] = {"FlatMap": sorted({c["cls"] for c in big + huge}), "ParameterizedObject": sorted({c["cls"] for c in bigpo})}
    need = {255, 256, 257} | (set() if quick else {65535, 65536, 65537})
    if not need <= set(chk.cov["size_boundaries"]["FlatMap"]) or not {255, 256, 257} <= set(chk.cov["size_boundaries"]["ParameterizedObject"]):
        raise tla.InfraError("vacuity guard: size boundaries missing: %s" % chk.cov["size_boundaries"])

    # ---- stage 3 (children): spec -> code replays and code -> spec trace validations, all independent -------------------------------
    jobs, meta_of = [], []

    def add_replay(e, histories, tag, prefix, meta, mut):
        jobs.append(("replay", (e, histories, tag, meta, 500)))
        meta_of.append(("replay", histories, tag, prefix, meta, mut))

    def add_trace(module, subs, gtag):
        """subs: list of (exe, actions, tag, prefix, meta)"""
        jobs.append(("trace", (module, module + ".cfg", [(e, acts, tag, meta) for e, acts, tag, prefix, meta in subs], gtag)))
        meta_of.append(("trace", [(acts, tag, prefix, meta) for e, acts, tag, prefix, meta in subs], module))

    # the long jobs first
    if huge:
        # (every step on 2^16 entries costs TLC a few tenths of a second: all shapes at 2^16, the first shape at 2^16 +- 1)
        add_trace("OrderedMapTrace", [(exe, [c["h"] for c in huge if c["cls"] == 65536 or c["shape"] == 1], "c10-huge-ii", "FlatMap<ii>", {"variant": "ii"})],
                  "c10-huge")
    for v in ["ii", "ss", "si", "is"]:
        if quick:
            hv = hs if v in ("ii", "ss") else hs_light
        else:
            hv = hs if v == "ii" else allp + cover + rw[:10000]
        add_replay(exe, hv, "c10-map-" + v, "FlatMap<%s>" % v, {"variant": v}, MUT_MAP)
    for c in po_cfgs:
        add_replay(exe2, hs_po[c][0], "c10-po-" + c.replace(".cfg", ""), "ParameterizedObject", {}, MUT_PO)

    bigacts = [c["h"] for c in big]
    add_trace("OrderedMapTrace", [(exe, bigacts if v != "iu" else [c["h"] for c in big if c["shape"] != 5], "c10-big-" + v, "FlatMap<%s>" % v, {"variant": v})
                                  for v in ["ii", "ss", "si", "is", "Li", "tt", "iu"]], "c10-big")
    nexec = 20 if quick else 150
    po_acts = [rand_po_actions(rnd, 250) for _ in range(nexec)]
    # directed: every type's value overwritten by another value of the SAME type (both orders), read back each time, then by
    # the value of another parameter; for float / double (1, 2 = the two zeros) and weq the two values compare equal under
    # the type's operator== although they are distinguishable (seeded/C10-08)
    overwrite = []
    for t in PO_TYPES:
        for v1, v2 in ((1, 2), (2, 1)):
            overwrite += [{"a": "SetParam", "arg": {"n": 1, "t": t, "v": v1}}, {"a": "GetParam", "arg": {"n": 1, "t": t, "d": 99}},
                          {"a": "SetParam", "arg": {"n": 1, "t": t, "v": v2}}, {"a": "GetParam", "arg": {"n": 1, "t": t, "d": 99}},
                          {"a": "SetParam", "arg": {"n": 2, "t": t, "v": v1}}, {"a": "SetParamFrom", "arg": {"n": 1, "n2": 2}},
                          {"a": "GetParam", "arg": {"n": 1, "t": t, "d": 99}}]
    po_acts.append(overwrite)
    chk.cov["directed_same_type_overwrites"] = {"types": len(PO_TYPES), "types_whose_two_values_compare_equal": ["float", "double", "weq"]}
    add_trace("ParamObjectTrace", [(exe2, [c["h"] for c in bigpo], "c10-bigpo", "ParameterizedObject", {}),
                                   (exe2, po_acts, "c10-po", "ParameterizedObject", {})] +
                                  [(exe2, [rand_po_actions(rnd, 250, nnames=4) for _ in range(nexec // 2)], "c10-po-nm%d" % nm,
                                    "ParameterizedObject<namemap=%d>" % nm, {"namemap": nm}) for nm in [1, 2]], "c10-po")
    for grp in [["ii", "ss"], ["tt", "iu"]]:
        add_trace("OrderedMapTrace", [(exe, [rand_map_actions(rnd, 250, throwing=(v == "tt"), whole=(v != "iu"), cidx=cidx) for _ in range(nexec)],
                                       "c10-map-" + v, "FlatMap<%s>" % v, {"variant": v}) for v in grp], "c10-rand-" + grp[0])
    add_trace("OrderedMapTrace", [(exe, [rand_map_actions(rnd, 250, nkeys=6, cidx=cidx) for _ in range(nexec // 2)], "c10-map-%s-km%d" % (v, km),
                                   "FlatMap<%s,keymap=%d>" % (v, km), {"variant": v, "keymap": km}) for v, km in [("ss", 1), ("ss", 2), ("ii", 1), ("Li", 1)]],
              "c10-rand-km")
    chk.count_actions(po_acts)
    chk.require_actions(["SetParamThrows"])

    for v in ["Li", "iu", "tt"]:
        add_replay(exe, hs_light if quick else allp + cover + rw[:5000], "c10-map-" + v, "FlatMap<%s>" % v, {"variant": v}, MUT_MAP)
    for v, kms in sorted((KEYMAPS_QUICK if quick else KEYMAPS).items()):
        for km in kms:
            add_replay(exe, hs_light if quick else allp + cover + rw[:5000], "c10-map-%s-km%d" % (v, km), "FlatMap<%s,keymap=%d>" % (v, km),
                       {"variant": v, "keymap": km}, MUT_MAP)
    # an unrelated instance used between any two steps (instances must not share state)
    for v in ["ii", "ss"]:
        add_replay(exe, hs_light, "c10-map-%s-shadow" % v, "FlatMap<%s,interleaved-with-another-instance>" % v, {"variant": v, "shadow": 1}, MUT_MAP)
    add_replay(exe2, hs_po["ParamObject.cfg"][1], "c10-po-shadow", "ParameterizedObject<interleaved-with-another-instance>", {"shadow": 1}, MUT_PO)
    for v in ["ii", "ss", "tt"]:
        add_replay(exe, hs2 if v == "tt" else without(hs2, {"InsertThrows"}), "c10-map2-" + v, "FlatMap<%s>" % v, {"variant": v}, MUT_MAP)
    add_replay(exe, without(without(hs2, {"InsertThrows"}), WHOLE), "c10-map2-iu", "FlatMap<iu>", {"variant": "iu"}, MUT_MAP)
    for nm in NAMEMAPS:
        add_replay(exe2, hs_po["ParamObject.cfg"][1] if quick else hs_po["ParamObject.cfg"][0], "c10-po-nm%d" % nm,
                   "ParameterizedObject<namemap=%d>" % nm, {"namemap": nm}, MUT_PO)

    chk.cov["replayed_on"] = sorted({mo[3] for mo in meta_of if mo[0] == "replay"})
    chk.cov["recorded_on"] = sorted({s[2] for mo in meta_of if mo[0] == "trace" for s in mo[1]})
    res = run_jobs(jobs, procs)
    left = 0
    seen_distinct = {}
    for mo, r in zip(meta_of, res):
        if mo[0] == "replay":
            _, histories, tag, prefix, meta, mut = mo
            report_replay(chk, histories, r, tag, prefix, meta)
            key = id(histories)
            if key not in seen_distinct:
                seen_distinct[key] = adtcheck._nontrivial_distinct(histories, mut)
            chk.cov["distinct_nontrivial"] += seen_distinct[key]
        else:
            left += report_trace(chk, mo[1], r, mo[2])
    if left:
        chk.note("observed %d time(s): setParam<T>(new name, x) whose copy of x throws leaves a parameter WITHOUT a value under that name "
                 "(hasParam() is true, every getParam<T>() yields the default); accepted - the statement does not say whether a failed "
                 "insertion inserts" % left)
    chk.cov["setparam_throw_left_valueless_parameter"] = left

    chk.add_sample({"kind": "history", "object": "FlatMap", "steps": hs[len(hs) // 2]})
    chk.add_sample({"kind": "history", "object": "ParameterizedObject", "steps": hs_po["ParamObject.cfg"][0][len(hs_po["ParamObject.cfg"][0]) // 3]})
    chk.add_sample({"kind": "size-boundary-history", "object": "FlatMap", "boundary": big[0]["cls"], "steps": big[0]["h"][:8]})
    chk.add_sample({"kind": "recorded-trace-prefix", "object": "ParameterizedObject", "actions": po_acts[0][:6]})
    chk.cov["rule"] = ("histories = paths of TLC's complete state graph of the bounded instance (all paths up to the budgeted length, "
                       "one shortest path per transition, seeded random walks); non-trivial = contains a state-changing action; "
                       "distinct = distinct (action,argument) sequences, counted per concrete type variant / key map / name map")


def do_replay(chk, path):
    rep = json.load(open(path))
    po = rep["sig_prefix"].startswith("Param")
    if po:
        exe = build.build("drv_param_object")
    else:
        exe, _ = build_map_driver(chk)
    if rep["kind"] == "history":
        adtcheck.replay(chk, exe, [rep["history"]], "replay", rep["sig_prefix"], meta=rep.get("meta"), isolate=1)
    else:
        mod = rep.get("module") or ("ParamObjectTrace" if po else "OrderedMapTrace")
        r = checked(_run_one(("trace", (mod, mod + ".cfg", [(exe, [rep["actions"]], "replay", rep.get("meta"))], "replay"))))
        report_trace(chk, [([rep["actions"]], "replay", rep["sig_prefix"], rep.get("meta"))], r, mod)
    chk.cov["evaluations"] = max(chk.cov["evaluations"], 1)
