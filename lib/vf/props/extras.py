"""EXTRAS - coverage beyond the listed properties.

Components of rkcommon that no listed property talks about, each with its own
TLA+ specification under spec/extras/ and the same architecture as the listed
checks (specification -> TLC -> conformance with the real code in both
directions):

  LibraryRepository    os/library.h                 LibraryRepo.tla
  OnScopeExit          utility/OnScopeExit.h        ScopeExit.tla
  DoubleBufferedValue  utility/DoubleBufferedValue.h DoubleBuf.tla
  DeletedUniquePtr     memory/DeletedUniquePtr.h    DeletedPtr.tla
  CodeTimer            utility/CodeTimer.h          CodeTimer.tla (+ quantitative part in CodeTimerTrace.tla)

Per component:
 1. TLC checks the specification's own invariants / action properties and the
    declarative reading (XMC.tla with history variables); every negative-control
    configuration must be refuted by TLC.
 2. spec -> code: TLC dumps the complete state graph of the generation instance;
    all paths up to a budgeted length, one shortest path per transition and
    seeded random walks are executed by ONE driver (harness/drivers/extras) on
    the real objects and every observable the specification computed is compared.
 3. code -> spec: TLC -simulate walks a larger instance (enabled actions only);
    the driver executes the actions, TLC validates what was observed against the
    trace specification.  For CodeTimer also the graph histories go through the
    trace specification, which is where the quantitative bounds are decided.

There is no property id behind this suite: every deviation between the real code
and a specification is printed as `NOTE: extras <component>: ...`, never as a
VIOLATION, and the run exits 0 (2 for tooling errors).  Launcher: bin/extras.
"""
import concurrent.futures as cf
import json, os, random, re, threading, time
from .. import tla, build, adt, adtcheck, trace
from ..core import Check, sig_of
from ..tla import VERIF, WORK, InfraError

LEVEL = "model_checking"
LEVEL_TEXT = ("five components outside the listed properties (LibraryRepository/Library, OnScopeExit, DoubleBufferedValue, DeletedUniquePtr, "
              "CodeTimer): TLC checks each specification's invariants, action properties and declarative reading on bounded instances and "
              "refutes the negative controls; every path of the complete state graph up to a budgeted length, one path per transition and "
              "seeded random walks are executed on the real objects with all observables compared; TLC-simulated long walks of larger "
              "instances are executed on the real code and validated by TLC against the trace specifications (CodeTimer: interval "
              "arithmetic on bracketing clock readings decided by TLC)")
LEVEL_NOTE = ("not a property verdict: deviations are notes; bounded instances (see spec/extras/*.cfg); LibraryRepository is checked against a "
              "fixture of four shared objects built next to the driver; trusted: TLC, the driver, glibc's dlopen/dlclose, g++/libstdc++")
TECHNIQUE = "TLA+ ADT specifications + TLC; state-graph histories replayed on the real objects; TLC trace validation of TLC-simulated executions"
SPEC = os.path.join(VERIF, "spec", "extras")

# what each specification names as deliberate deviation (modelled as the code behaves)
DEVIATIONS = {
    "LibraryRepository": [
        "D1 an anchored load looks only in the directory of the object containing the anchor address (no fall-back to the loader's search path); an unanchored load never looks next to the executable",
        "D2 the repository is keyed by name only: add(name, other version / other anchor) is a no-op when the name is present, even if that load would have failed",
        "D3 getSymbol searches the repository's libraries and their dependencies (dlsym), never the process itself: a libc symbol is found exactly when the repository is non-empty; there is no default-library entry",
        "D4 an anchor address that belongs to no file makes add() throw std::runtime_error",
    ],
    "OnScopeExit": [
        "D1 OnScopeExit is copyable from a const lvalue (implicit copy constructor): the function runs once per copy",
        "D2 a guard built from an empty std::function ends the process in std::terminate at scope exit (std::bad_function_call thrown from the noexcept destructor)",
    ],
    "DoubleBufferedValue": [],
    "DeletedUniquePtr": [
        "D1 a default-constructed or moved-from DeletedUniquePtr has an empty std::function deleter: adopting a raw pointer into it with reset(p) and giving it up would terminate (never explored: ResetTo requires a callable deleter)",
    ],
    "CodeTimer": [
        "D1 a reading never taken is the clock's epoch: stop() without start() makes seconds() the time since the epoch, start() without a later stop() makes it negative, a fresh timer answers 0 and perSecond() +infinity",
        "D2 the smoothed members are NaN before the first stop()",
    ],
}

COMPONENTS = [
    {"key": "lib", "name": "LibraryRepository", "spec": "LibraryRepo",
     "mc": ("LibraryRepoMC", "LibraryRepoMC.cfg", "LibraryRepoMC_thorough.cfg"),
     "neg": [("LibraryRepoMC", "LibraryRepoMC_neg_owner.cfg"), ("LibraryRepoMC", "LibraryRepoMC_neg_lastwins.cfg")],
     "gen": ("LibraryRepoGen.cfg", "LibraryRepoGen.cfg"), "budget": (3000, 100000), "walks": (300, 3000),
     "mut": {"Add", "Remove", "Cleanup", "LibNew", "LibDelete"},
     "need": ["Add", "Remove", "Exists", "GetSymbol", "Cleanup", "LibNew", "LibDelete", "LibGetSymbol"],
     "meta": {"comp": "lib"}, "isolate": 200, "sim": (12, 60), "simlen": 150},
    {"key": "scope", "name": "OnScopeExit", "spec": "ScopeExit",
     "mc": ("ScopeExitMC", "ScopeExitMC.cfg", "ScopeExitMC_thorough.cfg"),
     "neg": [("ScopeExitMC", "ScopeExitMC_neg_once_per_id.cfg")],
     "gen": ("ScopeExitGen.cfg", "ScopeExitGen_thorough.cfg"), "budget": (6000, 150000), "walks": (500, 5000),
     "mut": {"Guard", "Copy", "Close", "Throw"},
     "need": ["Open", "Guard", "Copy", "Close", "Throw"],
     "meta": {"comp": "scope"}, "isolate": 300, "sim": (12, 60), "simlen": 200},
    {"key": "dbuf", "name": "DoubleBufferedValue", "spec": "DoubleBuf",
     "mc": ("DoubleBufMC", "DoubleBufMC.cfg", "DoubleBufMC.cfg"),
     "neg": [("DoubleBufMC", "DoubleBufMC_neg_ref_follows_front.cfg")],
     "gen": ("DoubleBufGen.cfg", "DoubleBufGen.cfg"), "budget": (30000, 400000), "walks": (500, 5000),
     "mut": {"WriteFront", "WriteBack", "Swap", "TakeRef", "WriteRef"},
     "need": ["WriteFront", "WriteBack", "ReadFront", "ReadBack", "Swap", "TakeRef", "WriteRef", "ReadRef"],
     "meta": {"comp": "dbuf", "nrefs": 2}, "simmeta": {"comp": "dbuf", "nrefs": 3}, "isolate": 1000, "sim": (12, 60), "simlen": 200},
    {"key": "dptr", "name": "DeletedUniquePtr", "spec": "DeletedPtr",
     "mc": ("DeletedPtrMC", "DeletedPtrMC.cfg", "DeletedPtrMC_thorough.cfg"),
     "neg": [("DeletedPtrMC", "DeletedPtrMC_neg_deleter_stays.cfg")],
     "gen": ("DeletedPtrGen.cfg", "DeletedPtrGen_thorough.cfg"), "budget": (8000, 300000), "walks": (500, 5000),
     "mut": {"Make", "ResetTo", "ResetNone", "Release", "Move", "MoveConstruct", "Swap", "Destroy"},
     "need": ["Make", "ResetTo", "ResetNone", "Release", "Move", "MoveConstruct", "Swap", "Destroy", "Get"],
     "meta": {"comp": "dptr", "nslots": 2}, "simmeta": {"comp": "dptr", "nslots": 3}, "isolate": 1000, "sim": (12, 60), "simlen": 200},
    {"key": "timer", "name": "CodeTimer", "spec": "CodeTimer",
     "mc": ("CodeTimer", "CodeTimerMC.cfg", "CodeTimerMC.cfg"),
     "neg": [("CodeTimer", "CodeTimerMC_neg_never_negative.cfg")],
     "gen": ("CodeTimerGen.cfg", "CodeTimerGen_thorough.cfg"), "budget": (800, 7000), "walks": (100, 400),
     "mut": {"Start", "Stop", "Sleep"},
     "need": ["Start", "Stop", "Sleep", "Seconds", "Milliseconds", "PerSecond", "SecondsSmoothed", "MillisecondsSmoothed", "PerSecondSmoothed"],
     "meta": {"comp": "timer", "quantum_ms": 2}, "isolate": 200, "sim": (8, 30), "simlen": 150, "walk_len": 14,
     "simcfgs": ["CodeTimerSim.cfg", "CodeTimerSim_started.cfg"]},
]
BY_KEY = {c["key"]: c for c in COMPONENTS}
BY_NAME = {c["name"]: c for c in COMPONENTS}


def driver_env(exe):
    # the fixture directory that only the loader's search path reaches (LibraryRepo.tla: PathDir)
    d = os.path.join(os.path.dirname(exe), "sub")
    old = os.environ.get("LD_LIBRARY_PATH", "")
    return {"LD_LIBRARY_PATH": d + (":" + old if old else "")}


def simulate(comp, n, length, seed, cfg=None):
    """TLC -simulate on XSim: n distinct walks of `length` steps (actions and arguments only)."""
    mod = comp["spec"] + "Sim"
    r = tla.run_tlc(os.path.join(SPEC, mod + ".tla"), os.path.join(SPEC, cfg or (mod + ".cfg")), workers=1, simulate=max(n, 2), depth=length + 2,
                    seed=seed, env={"SIM_LEN": str(length)}, deadlock=False, timeout=600, tag="extras-sim-" + comp["key"])
    if r.violated or r.error:
        raise InfraError("simulation of %s failed: violated=%s error=%s\n%s" % (mod, r.violated, r.error, r.out[-2000:]))
    out, seen = [], set()
    for line in r.out.splitlines():
        if not line.startswith('"@H@'):
            continue
        t = line.rstrip()[4:-1].replace('\\"', '"').replace("\\\\", "\\")
        if t in seen:
            continue
        seen.add(t)
        out.append(json.loads(t))
        if len(out) >= n:
            break
    if not out:
        raise InfraError("simulation of %s produced no walk:\n%s" % (mod, r.out[-1500:]))
    return out, r


def replay_terminating(sub, exe, hs, tag, prefix, meta, env):
    """Histories whose last step the specification says ends the process (std::terminate): each runs in its own child;
    the expected outcome "terminate" is observed as the child dying of SIGABRT in exactly that step.  Everything else is
    compared as usual."""
    res, rc, stderr, wall = adt.run_driver(exe, hs, tag, isolate=1, meta=meta, env=env, timeout=900)
    if rc not in (0,) and not res:
        raise InfraError("driver %s produced nothing (rc=%s): %s" % (exe, rc, stderr[-2000:]))
    n = 0
    for i, h in enumerate(hs):
        r = res.get(i)
        if r is None:
            raise InfraError("driver %s gave no result for terminating history %d (rc=%s): %s" % (exe, i, rc, stderr[-1200:]))
        want = h[-1].get("exp", {}).get("outcome") == "terminate"
        if "crash" in r and want:
            obs_outcome = "terminate" if (r["crash"].get("step") == len(h) - 1 and r["crash"].get("sig") == 6) else "died:" + json.dumps(r["crash"], sort_keys=True)
            if obs_outcome == h[-1]["exp"]["outcome"]:
                continue
            mm = {"case": i, "step": r["crash"].get("step"), "action": h[-1]["a"], "arg": h[-1].get("arg"), "field": "outcome",
                  "expected": "terminate", "observed": obs_outcome, "kind": "value"}
            mms = [mm]
        else:
            mms = adt.compare([h], {0: r}, rc, stderr)
        for mm in mms:
            n += 1
            what = "%s: step %s %s(%s): %s expected %s observed %s" % (prefix, mm["step"], mm.get("action"), json.dumps(mm.get("arg")), mm["field"],
                                                                       json.dumps(mm.get("expected"))[:300], json.dumps(mm.get("observed"))[:300])
            rep = {"kind": "terminating-history", "property": "EXTRAS", "component": prefix, "tag": tag, "sig_prefix": prefix, "meta": meta,
                   "history": h, "mismatch": {k: v for k, v in mm.items() if k != "stderr"}}
            sub.violation(sig_of(prefix, mm), what, rep)
    sub.cov["evaluations"] += len(hs)
    return n, wall


def run_component(comp, sub, exe, env, quick):
    name, spec = comp["name"], comp["spec"]
    t = 0 if quick else 1
    # 1. design level
    mcmod, mcq, mct = comp["mc"]
    adtcheck.model_check(sub, SPEC, mcmod, mcq if quick else mct, workers=4, timeout=1500,
                         what="%s: invariants, action properties, declarative reading" % name)
    for nmod, ncfg in comp["neg"]:
        r = tla.run_tlc(os.path.join(SPEC, nmod + ".tla"), os.path.join(SPEC, ncfg), workers=2, timeout=600)
        if not r.violated:
            raise InfraError("negative control %s/%s was not refuted by TLC (error=%s):\n%s" % (nmod, ncfg, r.error, r.out[-1500:]))
        sub.cov["negative_controls_refuted"] = sub.cov.get("negative_controls_refuted", 0) + 1
        sub.log("TLC %s/%s: negative control refuted (%s) after %d states" % (nmod, ncfg, r.violated, r.distinct))

    # 2. spec -> code
    hs, info, ag = adtcheck.gen_histories(sub, SPEC, spec, comp["gen"][t], comp["budget"][t], 8, walks=comp["walks"][t],
                                          walk_len=comp.get("walk_len", 40), seed=sub.seed, mutators=comp["mut"], tag="extras-" + comp["key"])
    sub.count_actions(hs)
    sub.require_actions(comp["need"])
    sub.cov["generation"] = info
    n, wall = adtcheck.replay(sub, exe, hs, "extras-" + comp["key"], name, isolate=comp["isolate"], meta=comp["meta"], env=env,
                              replay_info={"component": name})
    sub.log("%s: %d histories replayed (%d mismatching) in %.1fs" % (name, len(hs), n, wall))
    sub.cov["distinct_nontrivial"] += adtcheck._nontrivial_distinct(hs, comp["mut"])
    sub.add_sample({"component": name, "kind": "history", "steps": hs[len(hs) // 2][:8]})

    if comp["key"] == "scope":
        # the guard built from an empty std::function: histories of the instance that explores it
        hs2, info2, _ = adtcheck.gen_histories(sub, SPEC, spec, "ScopeExitGen_empty.cfg", 3000 if quick else 20000, 7, walks=0, walk_len=1,
                                               seed=sub.seed, mutators=comp["mut"], tag="extras-scope-empty")
        hs2 = [h for h in hs2 if h and h[-1].get("exp", {}).get("outcome") == "terminate"]
        sub.count_actions(hs2)
        sub.require_actions(["Empty"])
        if not hs2:
            raise InfraError("no terminating history generated for OnScopeExit")
        n2, wall2 = replay_terminating(sub, exe, hs2, "extras-scope-empty", name, comp["meta"], env)
        sub.log("%s: %d histories ending in std::terminate replayed (%d mismatching) in %.1fs" % (name, len(hs2), n2, wall2))
        sub.cov["terminating_histories"] = len(hs2)

    if comp["key"] == "timer":
        # the quantitative part is decided by the trace specification: the graph histories go through it as well
        acts = [[{k: v for k, v in st.items() if k != "exp"} for st in h] for h in hs if h]
        adtcheck.record_and_validate(sub, exe, SPEC, "CodeTimerTrace", "CodeTimerTrace.cfg", acts, "extras-timer-graph", name,
                                     isolate=comp["isolate"], meta=comp["meta"], env=env)

    # 3. code -> spec
    nsim = comp["sim"][t]
    walks = []
    cfgs = comp.get("simcfgs") or [None]
    for i, c in enumerate(cfgs):
        w, r = simulate(comp, (nsim + len(cfgs) - 1) // len(cfgs), comp["simlen"], sub.seed + i, cfg=c)
        walks += w
    sub.cov["simulated_walks"] = len(walks)
    adtcheck.record_and_validate(sub, exe, SPEC, spec + "Trace", spec + "Trace.cfg", walks, "extras-" + comp["key"] + "-sim", name,
                                 isolate=1, meta=comp.get("simmeta", comp["meta"]), env=env)
    sub.add_sample({"component": name, "kind": "simulated-walk-prefix", "actions": walks[0][:6]})


def emit_notes(chk, results):
    """Turn what the component checks collected into NOTE lines; nothing is left in chk.violations."""
    devs = []
    for name, sub in results:
        for d in DEVIATIONS.get(name, []):
            line = "NOTE: extras %s: documented-deviation %s" % (name, d)
            print(line, flush=True)
            chk.notes.append(line)
        for v in sub.violations:
            line = "NOTE: extras %s: DEVIATION sig=%s (x%d) %s replay=%s" % (name, v["sig"], v["count"], v["what"], v["replay"])
            print(line, flush=True)
            chk.notes.append(line)
            devs.append({"component": name, "sig": v["sig"], "count": v["count"], "what": v["what"], "replay": v["replay"]})
    chk.cov["deviations"] = devs
    chk.cov["deviation_count"] = len(devs)
    return devs


def merge(chk, results):
    per = {}
    for name, sub in results:
        c = sub.cov
        for k in ("states", "transitions", "traces_validated_against_impl", "evaluations", "distinct_nontrivial"):
            chk.cov[k] += c.get(k, 0)
        chk.cov["models"] += c["models"]
        for s in c["samples"]:
            chk.add_sample(s, maxn=12)
        for a, n in c["action_counts"].items():
            chk.cov["action_counts"][name + "." + a] = n
        per[name] = {k: c.get(k) for k in ("generation", "evaluations", "distinct_nontrivial", "traces_validated_against_impl",
                                          "trace_events_validated", "negative_controls_refuted", "simulated_walks", "terminating_histories")
                     if c.get(k) is not None}
        per[name]["wall_s"] = round(getattr(sub, "wall", time.time() - sub.t0), 1)
    chk.cov["components"] = per


def run(chk, replay=None):
    quick = chk.tier == "quick"
    chk.assumptions += [
        "no listed property stands behind this suite: deviations are reported as notes, the exit code is 0",
        "TLC explores the bounded instances of spec/extras/*.cfg completely; simulated walks use the larger instances of the *Sim.cfg files",
        "LibraryRepository is exercised against the fixture built by harness/drivers/extras/CMakeLists.txt (three objects next to the driver, one on LD_LIBRARY_PATH only); glibc dlopen/dlclose reference counting and constructor/destructor execution are trusted",
        "OnScopeExit scopes are chains of stack frames (one guard per frame) on a coroutine thread; exceptional exit is a real C++ exception",
        "CodeTimer: every call is bracketed by readings of std::chrono::steady_clock; bounds are one-sided intervals from those brackets, no wall-clock tolerance is assumed",
    ]
    exe = build.build("drv_extras")
    env = driver_env(exe)
    if replay:
        return do_replay(chk, replay, exe, env)
    subs = []
    for comp in COMPONENTS:
        sub = Check("EXTRAS", chk.tier, chk.seed, LEVEL)
        sub._known = []
        sub.log = (lambda key, t0: (lambda msg: print("[EXTRAS/%-5s %6.1fs] %s" % (key, time.time() - t0, msg), flush=True)))(comp["key"], chk.t0)
        subs.append((comp, sub))
    errors = []

    def work(cs):
        comp, sub = cs
        sub.t0 = time.time()
        try:
            run_component(comp, sub, exe, env, quick)
        except InfraError as e:
            errors.append((comp["name"], e))
        except Exception as e:     # a bug of the runner is a tooling error as well
            import traceback
            errors.append((comp["name"], InfraError("runner failed in %s: %r\n%s" % (comp["name"], e, traceback.format_exc()))))
        sub.wall = time.time() - sub.t0

    with cf.ThreadPoolExecutor(max_workers=len(subs)) as ex:
        list(ex.map(work, subs))
    results = [(comp["name"], sub) for comp, sub in subs]
    merge(chk, results)
    emit_notes(chk, results)
    chk.cov["documented_deviations"] = DEVIATIONS
    chk.cov["rule"] = ("per component: histories = paths of TLC's complete state graph of the generation instance (all paths up to the budgeted "
                       "length, one shortest path per transition, seeded random walks); non-trivial = contains a state-changing action; distinct = "
                       "distinct (action,argument) sequences; plus TLC-simulated walks executed on the real code and validated by the trace specification")
    if errors:
        raise InfraError("; ".join("%s: %s" % (n, str(e)[:1500]) for n, e in errors))


def do_replay(chk, path, exe, env):
    rep = json.load(open(path))
    name = rep.get("sig_prefix") or rep.get("component")
    comp = BY_NAME.get(name)
    if comp is None:
        raise InfraError("replay artefact %s names no component of the extras suite" % path)
    sub = Check("EXTRAS", chk.tier, chk.seed, LEVEL)
    sub._known = []
    meta = rep.get("meta") or comp["meta"]
    if rep["kind"] == "history":
        adtcheck.replay(sub, exe, [rep["history"]], "extras-replay", name, meta=meta, env=env, isolate=1)
    elif rep["kind"] == "terminating-history":
        replay_terminating(sub, exe, [rep["history"]], "extras-replay", name, meta, env)
    else:
        mod = comp["spec"] + "Trace"
        adtcheck.record_and_validate(sub, exe, SPEC, mod, mod + ".cfg", [rep["actions"]], "extras-replay", name, meta=meta, env=env, isolate=1)
    merge(chk, [(name, sub)])
    chk.cov["evaluations"] = max(chk.cov["evaluations"], 1)
    devs = []
    for v in sub.violations:
        line = "NOTE: extras %s: DEVIATION sig=%s (x%d) %s replay=%s" % (name, v["sig"], v["count"], v["what"], v["replay"])
        print(line, flush=True)
        chk.notes.append(line)
        devs.append({"component": name, "sig": v["sig"], "what": v["what"], "replay": v["replay"]})
    chk.cov["deviations"] = devs
    chk.cov["deviation_count"] = len(devs)
    if not devs:
        print("extras replay: the artefact no longer deviates", flush=True)


def finish(chk):
    """Evidence + summary for the launcher (never a VIOLATION line, exit 0)."""
    wall = time.time() - chk.t0
    cov = dict(chk.cov)
    if not cov.get("rule"):
        cov.pop("rule", None)
    cov["notes"] = chk.notes
    ev = {"property_id": "EXTRAS", "tier": chk.tier, "seed": chk.seed, "level": chk.level, "coverage": cov,
          "assumptions": chk.assumptions, "wall_s": round(wall, 1), "violations": 0}
    own = os.environ.get("VERIF_REPO", "/repo") == "/repo" and not chk.is_replay
    evdir = os.path.join(VERIF, "extras") if own else os.path.join(WORK, "evidence")   # not evidence/: that directory holds one file per listed property
    os.makedirs(evdir, exist_ok=True)
    with open(os.path.join(evdir, "extras.json"), "w") as f:
        json.dump(ev, f, indent=1, sort_keys=True)
        f.write("\n")
    n = cov.get("deviation_count", 0)
    print("[EXTRAS %6.1fs] done: %d deviation note(s); evidence %s" % (wall, n, os.path.join(evdir, "extras.json")), flush=True)
    return 0
