"""C12 - cross-thread hand-off containers (TransactionalBuffer, TransactionalValue) lose, duplicate and race on nothing.

Families of executions (all validated by spec/containers/HandOffTrace.tla against the HandOff contract):
  seq         paths of TLC's state graph of the bounded contract, single-threaded
  burst-seq   TLC-emitted histories with bursts of 0..65537 (thorough ..131073) calls between two consumer calls (HandOffBurstGen)
  hist        TLC-emitted histories with a throwing payload copy, two interleaved instances, tv = other (HandOffHistGen;
              tv = other only when the probe build that instantiates operator=(const TransactionalValue&) succeeds)
  conc        seeded concurrent scenarios, start states (pre-filled buffer of 1 / 2^k elements, pending or installed value),
              yield or busy-wait start barrier; the same under ThreadSanitizer
  burst-conc  a whole burst between two consumer polls (consumer held by the driver)
  obs         observers contending with observers: 1..4 reader threads spinning on size() / empty() (spin barrier) while the consumer
              polls - with no producer at all (drained buffer: every answer must be "empty" / 0) and with producers that throttle
              themselves with size() while the consumer runs the poll loop  if (!empty()) consume();  every call recorded (run-length)
Payload types: int / 8-byte pair, std::string (small, heap, NUL and >= 0x80 bytes, long), 24-byte POD, 64-byte alignas(64) POD (value),
unique_ptr (buffer), a type whose copy throws.  Mutations the check was tried against: selftest/mutations/C12/*.diff."""
import json, os, random, copy, re
from concurrent.futures import ThreadPoolExecutor
from .. import tla, build, adtcheck, handoff, trace, funcheck
from ..tla import VERIF, InfraError

LEVEL = "model_checking"
LEVEL_TEXT = ("TLC checks (a) that the atomic hand-off contract implies the declarative clauses of the property (exactly once, per-producer order, "
              "untorn size/empty; seen values assigned, in order, update()==true iff newer, last value obtained) on bounded histories, (b) that "
              "PlusCal transcriptions of the two headers (one label per shared access, lock annotations) refine the contract and satisfy a "
              "data-race detector invariant under all interleavings of 2-3 producers x 2 pushes + consumer resp. 3-5 assignments + consumer, "
              "with negative-control variants that TLC must refute; TLC-generated call sequences and seeded concurrent executions of the real "
              "objects (1..8 producer threads, int and std::string payloads, invocation/response stamps from one atomic counter) are validated "
              "by a TLC trace specification that searches for a linearisation; histories with bursts of 1..65537 producer calls between two "
              "consumer calls (counter boundaries 2^8, 2^16; a burst is one macro action of the contract, proved equal to its single steps on small "
              "instances) run single-threaded for every length class and concurrently with the consumer held between two polls; the same "
              "scenarios run under ThreadSanitizer, a report being an event the contract rejects")
LEVEL_NOTE = ("bounded model instances; real-code part is a sample of schedules (what the OS scheduler produced under seeded jitter), not all "
              "interleavings; the mechanism models are transcriptions by hand (sequentially consistent exploration, justified only for "
              "race-free variants); trusted: TLC, ThreadSanitizer (std::thread-only driver), g++/libstdc++, the driver's injective payload encoding")
TECHNIQUE = ("TLA+ contract + PlusCal mechanism models with race-detector invariant checked by TLC; linearisability checking of recorded "
             "executions of the real code by a TLC trace specification; ThreadSanitizer on the same scenarios")
SPEC = os.path.join(VERIF, "spec", "containers")
TRACE_TLA = os.path.join(SPEC, "HandOffTrace.tla")
TRACE_CFG = os.path.join(SPEC, "HandOffTrace.cfg")


# ---------------------------------------------------------------------------
# 1. model checking
def _tlc(module, cfg, workers=4, timeout=1500):
    return tla.run_tlc(os.path.join(SPEC, module + ".tla"), os.path.join(SPEC, cfg + ".cfg"), workers=workers, timeout=timeout)


def model_checking(chk, quick):
    th = "" if quick else "_thorough"
    # (module, cfg, expectation, what)
    jobs = [
        ("HandOffMC", "HandOffMC_buf", "holds", "contract (statement) => exactly-once, push order, untorn size/empty, nothing lost"),
        ("HandOffMC", "HandOffMC_buf_strict", "holds", "documented take-all behaviour refines the statement + same invariants"),
        ("HandOffMC", "HandOffMC_val", "holds", "contract (statement) => seen assigned, in order, true iff newer, last obtained"),
        ("HandOffMC", "HandOffMC_val_strict", "holds", "documented always-newest behaviour refines the statement + same invariants"),
        ("HandOffMC", "HandOffMC_obs", "holds", "observer laws: size()/empty() runs by any thread are read-only, answer 0 / empty on a drained buffer (statement)"),
        ("HandOffMC", "HandOffMC_obs_strict", "holds", "observer laws + poll loop (empty() = false / size() > 0, then consume() is non-empty) under the documented behaviour"),
        ("HandOffMech", "HandOffMech_code" + th, "holds", "TransactionalBuffer.h as written: refines contract, NoRace, lock annotations"),
        ("HandOffMech", "HandOffMech_readers" + th, "holds", "TransactionalBuffer.h as written with 2-3 reader threads calling size()/empty() concurrently with producers and consumer: refines contract, NoRace"),
        ("HandOffMech", "HandOffMech_readers_noprod", "holds", "TransactionalBuffer.h as written, no producer, 3 readers + polling consumer: refines contract (every answer empty / 0)"),
        ("HandOffMech", "HandOffMech_trylock_refine", "refuted", "negative control empty() with try_to_lock answering 'not empty' when the mutex is taken: refinement must fail"),
        ("HandOffMech", "HandOffMech_trylock_noprod_refine", "refuted", "negative control empty() with try_to_lock, no producer at all (the holder is another observer): refinement must fail"),
        ("HandOffMech", "HandOffMech_nolock_race", "refuted", "negative control push_back without lock_guard: NoRace must fail"),
        ("HandOffMech", "HandOffMech_nolock_refine", "refuted", "negative control push_back without lock_guard: refinement must fail"),
        ("HandOffValueMech", "HandOffValueMech_atomic" + th, "holds", "TransactionalValue.h as written (std::atomic<bool> newValue tested before locking): refines contract, NoRace"),
        ("HandOffValueMech", "HandOffValueMech_code_refine" + th, "holds", "variant with a plain bool flag (the header before its repair) refines the contract under sequentially consistent exploration"),
        ("HandOffValueMech", "HandOffValueMech_code_race", "refuted", "negative control: plain bool flag tested before locking (the header before its repair): NoRace must fail"),
        ("HandOffValueMech", "HandOffValueMech_locked" + th, "holds", "variant that takes the lock before testing the flag: refines contract, NoRace"),
        ("HandOffValueMech", "HandOffValueMech_nolock_race", "refuted", "negative control update() without lock: NoRace must fail"),
        ("HandOffValueMech", "HandOffValueMech_nolock_refine", "refuted", "negative control update() without lock: refinement must fail"),
    ]

    def one(j):
        big = j[1].endswith("_thorough")
        return _tlc(j[0], j[1], workers=12 if big else 3, timeout=2400)

    with ThreadPoolExecutor(max_workers=5) as ex:
        res = list(ex.map(one, jobs))
    summary = []
    model_race = None
    for (module, cfg, expect, what), r in zip(jobs, res):
        if r.error:
            raise InfraError("TLC error in %s/%s: %s" % (module, cfg, r.error[:2000]))
        outcome = "holds" if r.ok else "refuted(%s)" % r.violated
        summary.append({"cfg": cfg, "expected": expect, "outcome": outcome, "distinct_states": r.distinct, "what": what})
        if expect == "holds":
            chk.require_model_ok(module + "/" + cfg, r, what)
        elif expect == "refuted":
            if r.ok:
                raise InfraError("non-vacuity: TLC did not refute the negative control %s (%s)" % (cfg, what))
            chk.add_model(module + "/" + cfg, r, what + " -> refuted as required (%s)" % r.violated)
        else:
            chk.add_model(module + "/" + cfg, r, what + " -> " + outcome)
            model_race = not r.ok
            if model_race:
                m = re.search(r"pc = \(0 :> \"(\w+)\" @@ 1 :> \"(\w+)\"\)(?![\s\S]*pc = )", r.out)
                if m:
                    chk.cov["model_race_labels"] = {"consumer": m.group(1), "producer": m.group(2)}
    chk.cov["model_results"] = summary
    return model_race


# ---------------------------------------------------------------------------
# scenarios
def seq_scenarios(chk, quick):
    """Call sequences = paths of TLC's state graph of the bounded contract (documented behaviour);
    each is run twice (trivially copyable / heap-owning payload)."""
    out = []
    info = {}
    for obj, cfg, muts in (("buf", "HandOffMC_buf_strict.cfg", {"push", "consume"}), ("val", "HandOffMC_val_strict.cfg", {"assign", "update"})):
        saved = chk.cov["action_counts"]
        hs, inf, ag = adtcheck.gen_histories(chk, SPEC, "HandOffMC", cfg, 1500 if quick else 12000, 7,
                                             walks=60 if quick else 600, walk_len=12, seed=chk.seed, mutators=muts, tag="c12-gen-" + obj)
        info[obj] = inf
        seen = set()
        for h in hs:
            steps = []
            for k, st in enumerate(h):
                op = st["op"]
                if op == "end":
                    break
                if op == "push":
                    steps.append({"a": "Push", "arg": {"p": st["arg"][0], "mv": k % 2 == 1}})
                elif op == "get":
                    steps.append({"a": "Get", "arg": {"ref": k % 3 == 2}})
                else:
                    steps.append({"a": op.capitalize(), "arg": {}})
            key = json.dumps(steps)
            if key in seen or not steps:
                continue
            seen.add(key)
            # quick tier: both payload types alternate over the sequences; thorough: every sequence with both
            pls = handoff.PAYLOADS[obj]
            for payload in (pls if not quick else (pls[len(seen) % len(pls)],)):
                out.append({"kind": "seq", "obj": obj, "payload": payload, "h": steps})
    return out, info


BURST_LENS = [0, 1, 2, 127, 128, 255, 256, 257, 511, 512, 513, 1023, 1024, 1025, 4095, 4096, 4097, 65535, 65536, 65537]


BOUNDARY_LENS = [0, 255, 256, 257, 4096, 65535, 65536, 65537]


def burst_seq_scenarios(chk, quick):
    """Single-threaded histories with long bursts between consumer calls: the family is defined and emitted by TLC
    (HandOffBurstGen.tla, a burst is ONE step of the history); every history runs with both payload types."""
    cases = funcheck.gen_cases(chk, SPEC, "HandOffBurstGen", "HandOffBurstGen.cfg" if quick else "HandOffBurstGen_thorough.cfg", "c12-burstgen",
                               what="histories with bursts at / around 2^8 and 2^16 calls between two consumer calls")
    out = []
    for c in sorted(cases, key=lambda c: (c["shape"], c["obj"], c["cls"])):
        steps = []
        for st in c["h"]:
            a = st["a"]
            if a == "Burst":
                steps.append({"a": a, "arg": {"n": st["n"]}})
            elif a == "BurstPush":
                steps.append({"a": a, "arg": {"p": st["p"], "n": st["n"]}})
            elif a == "Push":
                steps.append({"a": a, "arg": {"p": st["p"], "mv": len(steps) % 2 == 1}})
            elif a == "Get":
                steps.append({"a": a, "arg": {"ref": st["ref"]}})
            else:
                steps.append({"a": a, "arg": {}})
        for payload in handoff.PAYLOADS[c["obj"]]:
            # quick tier: every length class with the two basic payload types, the boundary classes with every payload type
            if quick and payload not in ("int", "str") and c["cls"] not in BOUNDARY_LENS:
                continue
            out.append({"kind": "seq", "obj": c["obj"], "payload": payload, "h": steps, "burst": c["cls"], "shape": c["shape"]})
    return out


def hist_scenarios(chk, have_copy_assign):
    """Histories about the state left behind by earlier calls (a call whose payload copy threw), about several
    instances used by one thread, and about tv = other: emitted by TLC (HandOffHistGen.tla).
    Returns (throw, multi, from) scenario lists."""
    cases = funcheck.gen_cases(chk, SPEC, "HandOffHistGen", "HandOffHistGen.cfg", "c12-histgen",
                               what="histories with throwing payload copies, two interleaved instances, tv = other")
    out = {"throw": [], "multi": [], "from": []}
    for c in sorted(cases, key=lambda c: (c["cls"], c["obj"], json.dumps(c["h"]))):
        steps = []
        for st in c["h"]:
            arg = {"o": st["o"]}
            if st["a"] in ("Push", "PushThrow", "BurstPush"):
                arg["p"] = st["p"]
            if st["a"] in ("Burst", "BurstPush"):
                arg["n"] = st["n"]
            if st["a"] == "Push":
                arg["mv"] = len(steps) % 2 == 1
            if st["a"] == "Get":
                arg["ref"] = len(steps) % 3 == 1
            if st["a"] == "AssignFrom":
                arg["from"] = st["from"]
            steps.append({"a": st["a"], "arg": arg})
        if c["cls"] == "from" and not have_copy_assign:
            continue
        for payload in (["thr"] if c["cls"] == "throw" else handoff.PAYLOADS[c["obj"]]):
            out[c["cls"]].append({"kind": "seq", "obj": c["obj"], "payload": payload, "objs": c["objs"], "h": steps, "class": c["cls"]})
    return out["throw"], out["multi"], out["from"]


def burst_conc_scenarios(rnd, quick):
    """Concurrent executions in which the producer issues a whole burst between two consumer polls (the driver
    holds the consumer between two calls during the burst; with "wait" the producer then makes no call until the
    consumer has polled once more - it has stopped exactly at the boundary for that poll)."""
    lens = [256, 65536, 512, 257, 255] if quick else [n for n in BURST_LENS if n >= 127] + [131072, 768]
    out = []
    for obj in ("val", "buf"):
        for i, n in enumerate(lens):
            for payload in handoff.PAYLOADS[obj]:
                for rep in range(1 if quick else 2):
                    other = rnd.choice([256, 512, 255, 1, 2, 300])
                    phases = [{"a": rnd.randint(0, 3)}, {"b": n, "wait": True}, {"a": rnd.randint(1, 3)},
                              {"b": other, "wait": rnd.random() < 0.5}, {"a": rnd.randint(0, 2)}]
                    if rnd.random() < 0.5:
                        phases.append({"b": n if n <= 1024 else 256, "wait": False})       # the producer stops at the boundary, for good
                    sc = {"kind": "burst", "obj": obj, "payload": payload, "phases": phases, "M": rnd.randint(3, 8),
                          "pj": rnd.choice([0, 50, 400]), "cj": rnd.choice([0, 50, 400]), "seed": rnd.randint(1, 2 ** 30)}
                    if obj == "buf":
                        sc["P"] = 1 + (i + rep) % 2
                        sc["K"] = rnd.randint(2, 5)
                    out.append(sc)
    return out


def obs_scenarios(rnd, quick):
    """Observers contending with observers (TransactionalBuffer; TransactionalValue has no accessor that several threads may
    call at once: get()/ref() take no lock and belong to the one consumer).  R = 1..4 reader threads, P = 0 (no producer at
    all: drained buffer, mutators quiescent) or 1..2 producers throttled by size()."""
    out = []
    n = 32 if quick else 240
    for i in range(n):
        R = 1 + i % 4
        P = [0, 1, 0, 2][(i // 4) % 4]
        out.append({"kind": "obs", "obj": "buf", "payload": handoff.PAYLOADS["buf"][i % 5], "R": R, "P": P,
                    "K": rnd.randint(3, 8) if P else 0, "limit": rnd.randint(1, 4),
                    "MA": rnd.choice([6000, 20000, 40000]) if P == 0 else rnd.choice([0, 2000, 8000]),
                    "block": rnd.choice([64, 512, 4096]), "calls": 2000000, "maxrec": 200,
                    "pre": [0, 1, 3, 16][(i // 16) % 4] if i % 3 else 0, "cj": rnd.choice([0, 50, 400]), "seed": rnd.randint(1, 2 ** 30)})
    return out


def obs_guards(chk, execs, owners):
    """Vacuity guards of the obs family, measured on the recordings: for every R = 1..4, with and without producers, all R
    readers made calls whose windows overlap calls of the consumer (and of each other for R >= 2); back-pressure engaged
    (a producer saw size() >= limit); the consumer consumed non-empty batches right after a non-empty poll."""
    OBS = ("sizes", "empties", "size", "empty")
    cov = {}
    tot_calls = 0
    for lines, sc in zip(execs, owners):
        if sc.get("kind") != "obs" or not lines or lines[-1].get("k") != "End":
            continue
        win = {}                                     # (thread, inv line) -> (inv index, res index, record)
        openc = {}
        recs = []
        for i, ln in enumerate(lines):
            if ln.get("k") == "inv":
                openc[ln["t"]] = i
            elif ln.get("k") == "res":
                recs.append((ln["t"], openc.pop(ln["t"]), i, ln["c"]))
        obs = [r for r in recs if r[3]["op"] in OBS]
        tot_calls += sum(r[3].get("cnt", 1) for r in obs)
        readers = sorted({r[0] for r in obs if r[0] >= 9})
        def ov(a, b):
            return a[1] < b[2] and b[1] < a[2]
        rc = sum(1 for a in obs if a[0] == 0 for b in obs if b[0] >= 9 and ov(a, b))
        rr = sum(1 for a in obs if a[0] >= 9 for b in obs if b[0] > a[0] and ov(a, b))
        bp = sum(1 for r in obs if 1 <= r[0] <= 8 and r[3]["op"] == "sizes" and r[3]["n"] >= sc["limit"])
        cons = [r for r in recs if r[0] == 0]
        polled = sum(1 for a, b in zip(cons, cons[1:]) if b[3]["op"] == "consume" and (b[3].get("batch") or b[3].get("runs"))
                     and ((a[3]["op"] in ("empties", "empty") and not a[3]["b"]) or (a[3]["op"] in ("sizes", "size") and a[3]["n"] > 0)))
        key = (sc["R"], "producers" if sc["P"] else "no-producer")
        c = cov.setdefault(key, {"executions": 0, "all_readers_active": 0, "consumer_reader_overlaps": 0, "reader_reader_overlaps": 0,
                                 "backpressure_waits": 0, "polled_nonempty_consumes": 0})
        c["executions"] += 1
        c["all_readers_active"] += 1 if len(readers) == sc["R"] else 0
        c["consumer_reader_overlaps"] += rc
        c["reader_reader_overlaps"] += rr
        c["backpressure_waits"] += bp
        c["polled_nonempty_consumes"] += polled
    for R in (1, 2, 3, 4):
        for kind in ("no-producer", "producers"):
            c = cov.get((R, kind))
            if not c or not c["all_readers_active"] or not c["consumer_reader_overlaps"] or (R >= 2 and not c["reader_reader_overlaps"]):
                raise InfraError("vacuity guard: observers contending with observers not exercised for R=%d, %s: %s" % (R, kind, c))
            if kind == "producers" and not c["polled_nonempty_consumes"]:
                raise InfraError("vacuity guard: poll loop (non-empty poll, then consume) not exercised for R=%d: %s" % (R, c))
    if not sum(c["backpressure_waits"] for c in cov.values()):
        raise InfraError("vacuity guard: no producer ever waited on size() >= limit (back-pressure not exercised)")
    chk.cov["observer_contention"] = {"R=%d,%s" % k: v for k, v in sorted(cov.items())}
    chk.cov["observer_calls_recorded"] = tot_calls


def conc_scenarios(rnd, quick, n_buf, n_val, maxP):
    out = []
    for i in range(n_buf):
        P = 1 + (i % maxP)
        big = (not quick) and i % 40 == 39
        K = rnd.randint(6, 9) if big and P >= 4 else rnd.randint(2, 5 if P <= 4 else 3)
        M = rnd.randint(30, 50) if big else rnd.randint(4, 12)
        out.append({"kind": "conc", "obj": "buf", "payload": handoff.PAYLOADS["buf"][i % 5], "P": P, "K": K, "M": M,
                    "pj": rnd.choice([0, 50, 400, 3000]), "cj": rnd.choice([0, 50, 400, 3000]), "seed": rnd.randint(1, 2 ** 30),
                    # start states: producer 1 has already pushed 1 element / exactly a full capacity (2^k) of them;
                    # every third scenario releases the threads from a busy-wait barrier
                    "pre": [0, 0, 1, 2, 4, 8, 16, 64][(i // 5) % 8], "spin": i % 3 == 0})
    for i in range(n_val):
        big = (not quick) and i % 40 == 39
        out.append({"kind": "conc", "obj": "val", "payload": handoff.PAYLOADS["val"][i % 5],
                    # start states: a value already assigned and pending / assigned and installed (consumer caught up)
                    "pre": (i // 5) % 3, "spin": i % 3 == 0,
                    "N": rnd.randint(30, 40) if big else rnd.randint(1, 12), "M": rnd.randint(40, 60) if big else rnd.randint(3, 14),
                    # (half of the value scenarios run both sides flat out: narrow windows between the flag test and
                    # the critical section of update() are only hit when producer and consumer are tight)
                    "pj": 0 if i % 2 else rnd.choice([0, 50, 400, 3000]), "cj": 0 if i % 2 else rnd.choice([0, 50, 400, 3000]),
                    "ctor": "default" if i % 7 == 6 else "value", "seed": rnd.randint(1, 2 ** 30)})
    return out


# ---------------------------------------------------------------------------
def classify(line, before=()):
    """Signature tail for the line no linearisation can explain.  Argument class (executions with bursts only): the
    number k of producer calls issued since the consumer's previous call, as "k%65536=0", "k%256=0" or "after-burst"."""
    call, field = _classify(line)
    before = list(before)
    if not any(l.get("k") == "inv" and l["c"]["op"] in ("burst", "bpush") for l in before):
        return call, field
    t = line.get("t", 0)
    end = len(before)
    if line.get("k") == "res":                       # the window of the rejected call starts at its own invocation
        end = max([i for i, l in enumerate(before) if l.get("k") == "inv" and l.get("t") == t] or [end])
    k = 0
    for l in reversed(before[:end]):
        if l.get("t") == 0:
            break                                    # the consumer's previous call
        if l.get("k") == "inv" and l["c"]["op"] in ("push", "assign", "burst", "bpush"):
            k += l["c"].get("n", 1) if l["c"]["op"] in ("burst", "bpush") else 1
    cls = "k%65536=0" if k and k % 65536 == 0 else "k%256=0" if k and k % 256 == 0 else "after-burst"
    call = call[:-2] + "(%s)" % cls if call.endswith("()") else "%s(%s)" % (call, cls)
    return call, field


def _classify(line):
    k = line.get("k")
    if k == "End":
        return "End", ("element-lost" if line.get("obj") == "buf" else "last-value-not-obtained")
    if k in ("race", "crash", "timeout"):
        return line.get("during", "scenario"), k
    c = line.get("c", {})
    op = c.get("op", "?")
    name = {"push": "push_back", "assign": "operator=", "sizes": "size", "empties": "empty"}.get(op, op)
    return name + "()", "result-not-explainable"


def count_ops(chk, executions):
    ac = chk.cov["action_counts"]
    for lines in executions:
        for ln in lines:
            if ln.get("k") != "inv":
                continue
            c = ln["c"]
            op = c["op"]
            if op == "consume":
                op = "consume(nonempty)" if c.get("runs") or c.get("batch") else "consume(empty)"
            elif op in ("burst", "bpush"):
                op = "%s(n=%d)" % (op, c["n"])
            elif op in ("pushx", "assignx"):
                op = "%s(%s)" % (op, "threw" if c["threw"] else "completed")
            elif op == "update":
                op = "update(true)" if c["ret"] else "update(false)"
            elif op == "push":
                op = "push(rvalue)" if c.get("mv") else "push(const&)"
            elif op == "empty":
                op = "empty(true)" if c["b"] else "empty(false)"
            elif op == "size":
                op = "size(0)" if c["n"] == 0 else "size(>0)"
            elif op == "sizes":
                op = "sizes(0)" if c["n"] == 0 else "sizes(>0)"
            elif op == "empties":
                op = "empties(true)" if c["b"] else "empties(false)"
            ac[op] = ac.get(op, 0) + 1


def burst_guards(chk, execs_b, owners_b, execs_bc, owners_bc):
    """Vacuity guards: every burst-length class ran for both containers and both payload types (single-threaded),
    and bursts of >= 2^8 and >= 2^16 calls fell between two consumer polls in concurrent executions of each."""
    def bursts(lines):
        return [l["c"]["n"] for l in lines if l.get("k") == "inv" and l["c"]["op"] in ("burst", "bpush")]
    seen = {}
    for lines, sc in zip(execs_b, owners_b):
        for n in bursts(lines):
            seen[(sc["obj"], sc["payload"], n)] = seen.get((sc["obj"], sc["payload"], n), 0) + 1
    missing = [(o, pl, n) for o in ("val", "buf") for pl in handoff.PAYLOADS[o]
               for n in (BURST_LENS if pl in ("int", "str") else BOUNDARY_LENS) if not seen.get((o, pl, n))]
    if missing:
        raise InfraError("vacuity guard: burst classes never executed (single-threaded): %s" % missing[:10])
    conc = {}
    for lines, sc in zip(execs_bc, owners_bc):
        for n in bursts(lines):
            conc.setdefault((sc["obj"], sc["payload"]), []).append(n)
    for o in ("val", "buf"):
        for pl in handoff.PAYLOADS[o]:
            ns = conc.get((o, pl), [])
            if not any(256 <= n < 65536 for n in ns) or not any(n >= 65536 for n in ns):
                raise InfraError("vacuity guard: concurrent executions of %s/%s lack a burst >= 256 or >= 65536 between two consumer polls: %s" % (o, pl, ns))
    chk.cov["burst_classes_sequential"] = {"%s/%s" % (o, pl): sorted(n for (oo, pp, n) in seen if (oo, pp) == (o, pl))
                                           for o in ("val", "buf") for pl in handoff.PAYLOADS[o]}
    chk.cov["burst_lengths_concurrent"] = {"%s/%s" % k: sorted(set(v)) for k, v in conc.items()}


def run_and_validate(chk, exe, scenarios, tag, chunks, scenario_timeout=60, max_abnormal=6):
    """Execute scenarios on the real code (with stamps), validate every execution with TLC."""
    for i, sc in enumerate(scenarios):
        sc["id"] = i
    res, wall = handoff.run_scenarios(exe, scenarios, tag, scenario_timeout=scenario_timeout, max_abnormal=max_abnormal)
    execs, owners = [], []
    for sc in scenarios:
        r = res.get(sc["id"])
        if r is None:
            continue                        # not run (too many abnormal endings before it)
        if "abnormal" in r:
            execs.append([{"k": r["abnormal"], "during": "scenario"}])
            sc["_detail"] = r["detail"][-3000:]
        elif sc.get("objs", 1) > 1:
            # a history over several instances: each instance's calls are one execution of the contract
            for o, calls in enumerate(handoff.split_objects(r["calls"])):
                execs.append(handoff.to_lines(calls, sc["obj"]))
                owners.append(dict(sc, instance=o))
            continue
        else:
            execs.append(handoff.to_lines(r["calls"], sc["obj"]))
            sc["_overlaps"] = handoff.overlaps(r["calls"])
        owners.append(sc)
    acc, rej, st = handoff.validate_parallel(TRACE_TLA, TRACE_CFG, execs, tag, chunks=chunks)
    chk.cov["traces_validated_against_impl"] += acc + len(rej)
    chk.cov["evaluations"] += len(execs)
    chk.cov["trace_events_validated"] = chk.cov.get("trace_events_validated", 0) + st["events"]
    chk.cov["trace_states"] = chk.cov.get("trace_states", 0) + st["states"]
    chk.log("%s: %d executions on the real code (%.1fs), %d accepted / %d rejected by HandOffTrace, %d lines, %d search states, %.1fs"
            % (tag, len(execs), wall, acc, len(rej), st["events"], st["states"], st["wall"]))
    for rj in rej:
        report_rejection(chk, owners[rj["exec"]], execs[rj["exec"]], rj["line"])
    return execs, owners, rej


def report_rejection(chk, sc, lines, at):
    call, field = classify(lines[at], lines[:at])
    if sc.get("kind") == "obs" and call.endswith("()"):
        # argument class: the situation of the rejected call (labelling only; the rejection is TLC's)
        pushing = sum(1 for l in lines[:at] if l.get("k") == "inv" and l["c"]["op"] == "push") > sc.get("pre", 0)
        call = call[:-2] + "(%s)" % ("observers-contending,producers-throttled-by-size" if pushing else "observers-contending,no-producer")
    sig = "%s/%s/%s" % (handoff.api(sc), call, field)
    if sig not in chk._seen_sigs:
        # first rejection with this signature: re-check the single execution once before reporting it
        acc, rej, st = trace.validate(TRACE_TLA, TRACE_CFG, [lines], "c12-recheck", workers=1, timeout=600, reset_key="k")
        if not rej or rej[0]["line"] != at:
            raise InfraError("an execution rejected at line %d in a chained run is judged differently alone (%s): trace spec / Reset handling is broken" % (at, rej))
    what = "recorded execution of %s (%s) is not a behaviour of the HandOff contract: line %d %s cannot be explained" % (
        handoff.api(sc), json.dumps({k: v for k, v in sc.items() if k not in ("h", "id") and not k.startswith("_")}), at,
        json.dumps(lines[at])[:300])
    chk.violation(sig, what, {"kind": "trace", "property": "C12", "scenario": {k: v for k, v in sc.items() if not k.startswith("_")},
                              "lines": lines, "rejected_at": at, "detail": sc.get("_detail")})


def tsan_runs(chk, exe_tsan, scenarios, tag):
    """Same scenarios under ThreadSanitizer, without the stamp counter.  A report is a `race` event;
    the contract (TLC) rejects it."""
    scs = copy.deepcopy(scenarios)
    groups = {}
    for sc in scs:
        groups.setdefault((sc["obj"], sc["payload"]), []).append(sc)
    n_clean = 0
    race_execs = []
    def run_group(key):
        g = groups[key]
        for i, sc in enumerate(g):
            sc["id"] = i
        return handoff.run_scenarios(exe_tsan, g, tag + "-%s-%s" % key, nostamp=True, max_abnormal=1)

    keys = sorted(groups)
    with ThreadPoolExecutor(max_workers=4) as ex:
        outs = list(ex.map(run_group, keys))
    for key, (res, wall) in zip(keys, outs):
        g = groups[key]
        for sc in g:
            r = res.get(sc["id"])
            if r is None:
                continue
            chk.cov["tsan_executions"] = chk.cov.get("tsan_executions", 0) + 1
            if "abnormal" not in r:
                n_clean += 1
                continue
            rep = handoff.parse_tsan(r["detail"]) if r["abnormal"] == "race" else None
            race_execs.append((sc, r, rep))
    chk.log("%s: %d executions under ThreadSanitizer, %d clean, %d abnormal" % (tag, chk.cov.get("tsan_executions", 0), n_clean, len(race_execs)))
    for sc, r, rep in race_execs:
        line = {"k": r["abnormal"], "during": "scenario"}
        if rep:
            line["accesses"] = rep["accesses"]
        acc, rej, st = trace.validate(TRACE_TLA, TRACE_CFG, [[line, {"k": "End", "obj": sc["obj"]}]], "c12-race", workers=1, timeout=600, reset_key="k")
        chk.cov["traces_validated_against_impl"] += 1
        if not rej:
            raise InfraError("HandOffTrace accepted a %s event" % r["abnormal"])
        if r["abnormal"] == "race":
            sig = handoff.race_signature(rep, handoff.OBJ_NAME[sc["obj"]])
            accs = "; ".join("%s of %d byte(s) in %s at %s%s" % (a["kind"], a["size"], a.get("fn"), a.get("where") or a.get("top"),
                                                               " holding a mutex" if a["locked"] else " holding no mutex") for a in (rep or {}).get("accesses", []))
            what = "ThreadSanitizer data race in %s under the documented usage: %s" % (handoff.api(sc), accs)
        else:
            sig = "%s/scenario/%s" % (handoff.api(sc), r["abnormal"])
            what = "%s of the driver under ThreadSanitizer in %s" % (r["abnormal"], handoff.api(sc))
        chk.violation(sig, what, {"kind": "race", "property": "C12", "scenario": sc, "event": line, "report": r["detail"][:9000]})
    return len(race_execs)


# ---------------------------------------------------------------------------
# non-vacuity of the trace specification, measured on this run's own recordings
def corruption_selftest(chk, execs, owners):
    def pick(obj, pred, scpred=None):
        for lines, sc in zip(execs, owners):
            if sc["obj"] == obj and lines and lines[-1].get("k") == "End" and (scpred is None or scpred(sc)) and pred(lines):
                return lines
        return None

    def mutate(lines, fn):
        ls = copy.deepcopy(lines)
        # inv and res line of one call carry the same record: corrupt both consistently
        for i, ln in enumerate(ls):
            if ln.get("k") == "inv" and fn(ln["c"], "probe"):
                before = copy.deepcopy(ln["c"])
                fn(ln["c"], "apply")
                for l2 in ls[i + 1:]:
                    if l2.get("k") == "res" and l2["t"] == ln["t"] and l2["c"] == before:
                        l2["c"] = copy.deepcopy(ln["c"])
                        break
                return ls
        return None

    def drop_elem(c, mode):
        ok = c["op"] == "consume" and len(c.get("batch", [])) >= 1
        if ok and mode == "apply":
            c["batch"].pop(0)
        return ok

    def dup_elem(c, mode):
        ok = c["op"] == "consume" and len(c.get("batch", [])) >= 1
        if ok and mode == "apply":
            c["batch"].append(list(c["batch"][0]))
        return ok

    def swap_same_producer(c, mode):
        if c["op"] != "consume" or "batch" not in c:
            return False
        b = c["batch"]
        for i in range(len(b)):
            for j in range(i + 1, len(b)):
                if b[i][0] == b[j][0]:
                    if mode == "apply":
                        b[i], b[j] = b[j], b[i]
                    return True
        return False

    def wrong_size(c, mode):
        ok = c["op"] == "size"
        if ok and mode == "apply":
            c["n"] += 1000
        return ok

    def consumer_empties_flipped(c, mode):
        ok = c["op"] == "empties" and c["b"]
        if ok and mode == "apply":
            c["b"] = False
        return ok

    def sizes_nonzero(c, mode):
        ok = c["op"] == "sizes" and c["n"] == 0
        if ok and mode == "apply":
            c["n"] = 1
        return ok

    noprod = lambda sc: sc.get("kind") == "obs" and sc["P"] == 0
    def stale_get(c, mode):
        ok = c["op"] == "get" and c["v"] >= 2
        if ok and mode == "apply":
            c["v"] = -1
        return ok

    def flip_update(c, mode):
        ok = c["op"] == "update"
        if ok and mode == "apply":
            c["ret"] = not c["ret"]
        return ok

    tests = [("buf", "element removed from a batch", drop_elem), ("buf", "element duplicated in a batch", dup_elem),
             ("buf", "two elements of one producer swapped", swap_same_producer), ("buf", "size() result changed", wrong_size),
             ("val", "get() result replaced by a value nobody assigned", stale_get), ("val", "update() result flipped", flip_update),
             ("buf", "one run of empty() answers turned into 'not empty' on a buffer nobody pushes to, readers contending", consumer_empties_flipped, noprod),
             ("buf", "one run of size() answers turned into 1 on a buffer nobody pushes to, readers contending", sizes_nonzero, noprod)]
    def one(k):
        obj, name, fn = tests[k][:3]
        scpred = tests[k][3] if len(tests[k]) > 3 else None
        base = pick(obj, lambda ls: any(l.get("k") == "inv" and fn(l["c"], "probe") for l in ls), scpred)
        if base is None:
            raise InfraError("corruption self-test: no recorded %s execution suitable for '%s'" % (obj, name))
        bad = mutate(base, fn)
        acc, rej, st = trace.validate(TRACE_TLA, TRACE_CFG, [base, bad], "c12-corrupt-%d" % k, workers=1, timeout=600, reset_key="k")
        if len(rej) != 1 or rej[0]["exec"] != 1:
            raise InfraError("corruption self-test '%s': expected exactly the corrupted copy to be rejected, got %s" % (name, rej))
        return name

    with ThreadPoolExecutor(max_workers=6) as ex:
        done = list(ex.map(one, range(len(tests))))
    chk.cov["corrupted_traces_rejected"] = done
    chk.log("corruption self-test: %d corrupted copies of recorded executions rejected, originals accepted" % len(done))


# ---------------------------------------------------------------------------
def run(chk, replay=None):
    quick = chk.tier == "quick"
    rnd = random.Random(chk.seed)
    chk.assumptions += [
        "TLC explores the bounded instances completely (2-3 producers x 2 pushes + consumer; 3-5 assignments + consumer rounds)",
        "the PlusCal models are hand transcriptions of TransactionalBuffer.h / TransactionalValue.h; their exploration is sequentially consistent",
        "real executions: only the interleavings the OS scheduler produced (1..8 producer threads, seeded jitter) - a sample, not all schedules",
        "stamps come from one seq_cst atomic counter: response stamp < invocation stamp implies real-time order; nothing else is assumed about time",
        "ThreadSanitizer sees all synchronisation (driver uses std::thread/std::atomic only) and reports only races it observed",
        "payload encoding (pair <-> IntPair / std::string) in the driver is injective",
        "a consumer call made while every producer is idle and with nothing inside its window is judged by the End clause of the statement "
        "(the execution up to its response is a complete execution whose producers have stopped): consume() takes all, update() installs the last value",
        "burst lengths explored: 0, 1, 2, 127/128, 255..257, 511..513, 1023..1025, 4095..4097, 65535..65537 (thorough: also 129, 383/384, 768, 32767/32768, "
        "131071..131073) and sums of two of them; 2^31 / 2^32 calls between two consumer calls are not reached (TLC integers are 32 bit, the macro action "
        "materialises the burst)",
        "payload types: word-sized int (both signs), 8-byte pair, 24-byte POD, 64-byte alignas(64) POD (value only; std::vector cannot hold over-aligned "
        "elements in C++11), std::string (small-buffer, heap, NUL and >= 0x80 bytes, 300 characters), move-only unique_ptr (buffer only), a type whose copy throws",
        "a call that ended with an exception thrown by the payload's copy may count as made or as not made (the statement does not say)",
        "several consumers, self-referential pushes and get()/ref() from the producer side are outside the documented usage and not exercised",
        "observers: 1..4 reader threads + the consumer + up to 2 producers inside size()/empty() at once; calls are recorded in run-length form "
        "(consecutive equal answers of one thread = one record, explained by one observer step within the run's window: a necessary condition, "
        "exact while no push_back is open); TransactionalValue has no accessor that may be called by several threads at once (get()/ref() take no "
        "lock and belong to the one consumer), so it has no such family",
        "poll loop: a consume() of the consumer directly after its own empty() = false / size() > 0 must return a non-empty batch (the header's "
        "'take all contents', weakest consequence; clause BConsumePolled_)",
    ]
    if replay:
        return do_replay(chk, replay)

    with ThreadPoolExecutor(max_workers=2) as ex:
        f1 = ex.submit(build.build, "drv_handoff", "Debug", "")
        f2 = ex.submit(build.build, "drv_handoff", "Debug", "thread")
        model_race = model_checking(chk, quick)
        exe, exe_tsan = f1.result(), f2.result()
    # probe build: the same driver with TransactionalValue<T>::operator=(const TransactionalValue<T>&) instantiated
    try:
        exe_probe = build.build("drv_handoff", "Debug", "", extra_defs=["HANDOFF_PROBE_TV_COPY_ASSIGN=ON"])
    except build.BuildFailed as e:
        exe_probe = None
        m = re.search(r"TransactionalValue\.h:(\d+):\d+: error: ([^\n]*)", str(e))
        chk.cov["tv_copy_assignment_instantiable"] = False
        chk.note("TransactionalValue<T>::operator=(const TransactionalValue<T>&) cannot be instantiated on this tree (%s): its histories "
                 "(tv = other) are not evaluated - the probe build with -DHANDOFF_PROBE_TV_COPY_ASSIGN fails, the build without it succeeds"
                 % (("TransactionalValue.h:%s: %s" % (m.group(1), m.group(2))) if m else "compile error"))

    # spec -> code: TLC-generated call sequences on the real objects, results validated by the contract
    seq, info = seq_scenarios(chk, quick)
    chk.cov["generation"] = info
    execs_s, owners_s, rej_s = run_and_validate(chk, exe, seq, "c12-seq", chunks=8)
    count_ops(chk, execs_s)

    # spec -> code, long bursts between two consumer calls (counter boundaries): single-threaded, deterministic
    bseq = burst_seq_scenarios(chk, quick)
    execs_b, owners_b, rej_b = run_and_validate(chk, exe, bseq, "c12-burst-seq", chunks=8)
    count_ops(chk, execs_b)

    # spec -> code, state left behind: throwing payload copies, two interleaved instances, tv = other
    h_throw, h_multi, h_from = hist_scenarios(chk, exe_probe is not None)
    execs_ht, owners_ht, rej_ht = run_and_validate(chk, exe, h_throw, "c12-hist-throw", chunks=2, scenario_timeout=60, max_abnormal=1)
    execs_hm, owners_hm, rej_hm = run_and_validate(chk, exe, h_multi, "c12-hist-multi", chunks=4)
    execs_hf, owners_hf, rej_hf = (run_and_validate(chk, exe_probe, h_from, "c12-hist-from", chunks=2) if h_from else ([], [], []))
    if exe_probe is not None:
        chk.cov["tv_copy_assignment_instantiable"] = True
    for e in (execs_ht, execs_hm, execs_hf):
        count_ops(chk, e)

    # code -> spec: concurrent executions
    conc = conc_scenarios(rnd, quick, 100 if quick else 1500, 130 if quick else 1400, 4 if quick else 8)
    execs_c, owners_c, rej = run_and_validate(chk, exe, conc, "c12-conc", chunks=8)
    count_ops(chk, execs_c)
    ov = [sc.get("_overlaps", 0) for sc in owners_c]
    chk.cov["concurrent_executions_with_overlapping_calls"] = sum(1 for x in ov if x > 0)
    chk.cov["overlapping_call_pairs"] = sum(ov)
    # ... and concurrent executions in which a whole burst falls between two consumer polls
    bconc = burst_conc_scenarios(rnd, quick)
    execs_bc, owners_bc, rej_bc = run_and_validate(chk, exe, bconc, "c12-burst-conc", chunks=8)
    count_ops(chk, execs_bc)
    # ... and observers contending with observers (reader threads; zero producers / producers throttled by size())
    obs = obs_scenarios(rnd, quick)
    execs_o, owners_o, rej_o = run_and_validate(chk, exe, obs, "c12-obs", chunks=8)
    count_ops(chk, execs_o)
    clean = not (rej or rej_s or rej_b or rej_bc or rej_ht or rej_hm or rej_hf or rej_o)       # code that violates the contract may legitimately skew what was exercised: guards only on clean runs
    if clean and chk.cov["concurrent_executions_with_overlapping_calls"] < len(owners_c) // 4:
        raise InfraError("vacuity guard: only %d of %d concurrent executions contain overlapping calls" % (chk.cov["concurrent_executions_with_overlapping_calls"], len(owners_c)))
    if clean:
        chk.require_actions(["push(const&)", "push(rvalue)", "consume(nonempty)", "consume(empty)", "size(>0)", "size(0)", "empty(true)", "empty(false)",
                             "assign", "update(true)", "update(false)", "get"])
    if clean:
        burst_guards(chk, execs_b, owners_b, execs_bc, owners_bc)
        obs_guards(chk, execs_o, owners_o)
        chk.require_actions(["sizes(0)", "sizes(>0)", "empties(true)", "empties(false)"])
        chk.require_actions(["pushx(threw)", "assignx(threw)"])
        # every payload type in every family of executions; start states; several instances
        fams = {"seq": owners_s, "burst-seq": owners_b, "conc": owners_c, "burst-conc": owners_bc, "multi": owners_hm, "obs": owners_o}
        if exe_probe is not None:
            fams["from"] = owners_hf
        for fam, ow in fams.items():
            for obj in ("buf", "val"):
                if (fam == "from" and obj == "buf") or (fam == "obs" and obj == "val"):
                    continue
                missing = [pl for pl in handoff.PAYLOADS[obj] if not any(sc["obj"] == obj and sc["payload"] == pl for sc in ow)]
                if missing:
                    raise InfraError("vacuity guard: payload types %s of %s never executed in family %s" % (missing, obj, fam))
        pres = {(sc["obj"], sc.get("pre", 0)) for sc in owners_c}
        need = {("buf", 1), ("buf", 2), ("buf", 4), ("buf", 8), ("buf", 16), ("val", 1), ("val", 2)}
        if not need <= pres or not any(sc.get("spin") for sc in owners_c):
            raise InfraError("vacuity guard: concurrent start states missing: %s" % sorted(need - pres))
        chk.cov["payload_types"] = handoff.PAYLOADS
        chk.cov["concurrent_start_states"] = sorted("%s:pre=%d" % p for p in pres)
        chk.cov["executions_by_instance_of_multi_object_histories"] = len(owners_hm)
    allx = execs_s + execs_c + execs_b + execs_bc + execs_ht + execs_hm + execs_hf + execs_o
    distinct = {}
    for lines, sc in zip(allx, owners_s + owners_c + owners_b + owners_bc + owners_ht + owners_hm + owners_hf + owners_o):
        nontrivial = any(l.get("k") == "inv" and l["c"]["op"] in ("push", "assign") for l in lines)
        if nontrivial:
            distinct[handoff.digest(lines)] = 1
    chk.cov["distinct_nontrivial"] = len(distinct)
    chk.cov["rule"] = ("executions = (a) every path up to a budgeted length + one path per transition + random walks of TLC's state graph of the bounded "
                       "contract, run single-threaded, (a') TLC-emitted single-threaded histories with bursts of 1..65537 calls between two consumer calls, "
                       "(b) seeded concurrent scenarios (threads, pushes, consumer calls, jitter drawn from VERIF_SEED); "
                       "distinct = distinct merged inv/res line sequences (stamps order + arguments + results); non-trivial = contains a push or an assignment")
    if clean:
        corruption_selftest(chk, execs_c + execs_o, owners_c + owners_o)
    k = next((i for i, sc in enumerate(owners_c) if sc["obj"] == "buf" and sc.get("_overlaps", 0) > 0), 0)
    chk.add_sample({"kind": "recorded-execution", "scenario": {a: b for a, b in owners_c[k].items() if not a.startswith("_")}, "lines": execs_c[k][:24]})
    k = next((i for i, sc in enumerate(owners_c) if sc["obj"] == "val" and sc.get("_overlaps", 0) > 0), 0)
    chk.add_sample({"kind": "recorded-execution", "scenario": {a: b for a, b in owners_c[k].items() if not a.startswith("_")}, "lines": execs_c[k][:24]})
    chk.add_sample({"kind": "tlc-generated-call-sequence", "scenario": {a: b for a, b in owners_s[len(owners_s) // 2].items() if not a.startswith("_")}})

    # data-race clause: the same scenarios under ThreadSanitizer (no stamps)
    n_t = (40, 40) if quick else (200, 200)
    def spread(xs, n):          # n scenarios spread over the whole list (all payload types and all start states)
        step = max(1, len(xs) // n)
        step += 1 if step % 5 == 0 else 0          # payload types cycle with period 5
        return xs[::step][:n]
    sub = spread([sc for sc in conc if sc["obj"] == "buf"], n_t[0]) + spread([sc for sc in conc if sc["obj"] == "val"], n_t[1])
    sub += obs[:8 if quick else 40]          # reader threads under ThreadSanitizer as well (R = 1..4, with and without producers)
    sub = [{a: b for a, b in sc.items() if not a.startswith("_")} for sc in sub]
    n_abn = tsan_runs(chk, exe_tsan, sub, "c12-tsan")
    chk.cov["model_predicts_race_in_TransactionalValue_as_written"] = False


def do_replay(chk, path):
    rep = json.load(open(path))
    if rep["kind"] == "trace":
        # a concurrent trace is itself the evidence: it is re-validated, not re-executed
        lines = rep["lines"]
        acc, rej, st = trace.validate(TRACE_TLA, TRACE_CFG, [lines], "c12-replay", workers=1, timeout=600, reset_key="k")
        chk.cov["traces_validated_against_impl"] += 1
        chk.cov["evaluations"] += 1
        chk.add_model("HandOffTrace(replay)", type("R", (), {"distinct": max(st["states"], 1), "generated": max(st["states"], 1), "depth": 0, "wall": st["wall"]})(), "replayed trace")
        chk.add_sample({"kind": "replayed-trace", "lines": lines[:12]})
        if rej:
            report_rejection(chk, rep["scenario"], lines, rej[0]["line"])
    else:
        exe_tsan = build.build("drv_handoff", "Debug", "thread")
        sc = rep["scenario"]
        chk.cov["evaluations"] += 1
        chk.add_sample({"kind": "replayed-tsan-scenario", "scenario": sc})
        # data races are schedule dependent: give the scenario several chances
        for k in range(10):
            s2 = dict(sc)
            s2["seed"] = sc.get("seed", 1) + k
            if tsan_runs(chk, exe_tsan, [s2], "c12-replay"):
                break
        chk.add_model("HandOffTrace(replay)", type("R", (), {"distinct": 1, "generated": 1, "depth": 0, "wall": 0.0})(), "race event")
