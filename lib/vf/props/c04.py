"""C04 - every vec_t operator is the component-wise lifting of its scalar definition (vec.h, rkmath.h, constants.h)."""
import json, multiprocessing, os, random, struct, time
from concurrent.futures import ThreadPoolExecutor
from .. import tla, build, adt, adtcheck
from ..tla import VERIF

LEVEL = "exploration"
LEVEL_TEXT = ("TLC checks the laws of the VecAlgebra specification for every vector / pair / triple of vectors with pairwise distinct components over "
              "bounded integer lattices (C++ division and remainder characterised by x = q*y + r; liftings commute with indexing; ring laws of the "
              "vec-vec / vec-scalar / scalar-vec forms; min / max lattice laws; dot bilinear, symmetric, Cauchy-Schwarz; the cross product characterised "
              "by orthogonality, Lagrange's identity and right-handedness; the lexicographic order = numeric order of the positional encoding, "
              "transitive, trichotomous; reductions, arg_max, index maps, clamp, madd, interpolation; modular narrowing is a ring homomorphism; usual "
              "arithmetic conversions); TLC then enumerates the lattices at constant level and emits one case per operand tuple with the value expected "
              "for each element type in which the specification decides it; every case is evaluated on the real vec_t for each of the 10 element types "
              "of vec.h, through EVERY overload family the header offers (vec-vec, vec-scalar, scalar-vec, compound assignment, mixed element types, "
              "compound assignment with a right-hand side of another arithmetic type (fractional float / double values, integers outside the narrow "
              "element types: computed in the usual-arithmetic-conversion type, only the result converted back), every padding combination of "
              "3-vectors, member / free-function forms, constructors, conversions, operator[], pointer view, streaming) "
              "and each result component is compared exactly; rcp / normalize / length / sin / cos results recorded from the real code are validated "
              "by TLC against the specification's rationals within 2^-17 and against the scalar functions; the LIFTING LAW is judged by TLC bit for bit on "
              "general operands (non-dyadic floats, subnormals, huge values, signed zeros, infinities, full-range integers incl. 2^k-1 / 2^k / 2^k+1; "
              "integer + - * wherever the language defines every result: unsigned 32/64-bit wrap-around and the narrow types; element-type "
              "conversions, long_product, the vec4f colour helpers): for every operator / functor and "
              "overload family the recorded components of the vector result must equal the recorded results of the C++ scalar operator applied to "
              "each component pair; seeded random long executions of a real "
              "vec_t register are validated by TLC against the trace specification")
LEVEL_NOTE = ("degenerate and aliasing operands are part of the decided domain: zero components and the zero vector, parallel / anti-parallel "
              "operands, byte values NUL / 0x7f / 0x80 / 0xff, values at the bounds of every element type for conversions, operands that are the "
              "same object (a op= a; a op= a.c with the scalar operand a component of a: expected = the lifting with the value the component had at "
              "the call). Values are decided on the bounded exact-arithmetic domain; beyond it only the lifting law (vector result = real scalar operator per "
              "component, bit for bit, signed zeros included; infinite operands included, NaN operands excluded, a NaN result must be NaN on both sides) is judged on seeded random and edge operands - it does "
              "not say what the scalar operator should return. divRoundUp has a specified value for positive operands only (the two formulas rkmath.h "
              "has used differ elsewhere). Bounded domain: operand components from {-5,-3,-2,1,2,4,7} (signed and floating-point element types) and "
              "{1,2,4,7,11,250} (unsigned), pairwise distinct and non-zero, plus derived tuples (exact quotients, shifted tuples that agree in some "
              "components, Pythagorean tuples, tuples with equal components (arg_max ties), fractional right-hand sides p/q with q in {2,4} and wide integer right-hand "
              "sides for compound assignment, the zero vector for sin / cos; comparisons and min / max also on tuples of the extreme values of each element "
              "type - for the 32/64-bit types the extremes of TLC's integers, +-(2^31-1)); N = 2 completely, N = 3 / 4 by a covering sample in the quick tier "
              "(every tuple occurs as first and as second operand) and N = 3 completely / N = 4 by a 20-40 fold sample in the thorough tier. NOT decided: "
              "rounding of floating-point sums on non-lattice values, infinities / NaN, overflowing signed results, 32/64-bit unsigned wrap-around "
              "(TLC integers are 32-bit; uint8_t / uint16_t wrap-around IS decided), non-integer quotients, sin / cos / rcp beyond agreement with the "
              "scalar function on each component (sin / cos exactly only at 0), unit length of normalize() of non-Pythagorean vectors only within 0.4 % "
              "(direction within 2^-17), conversions of out-of-range floating-point values. Overloads vec.h does not offer (abs of 32/64-bit unsigned, "
              "arg_max of padded vectors, rcp / normalize of integer vectors, % of floating-point vectors) are not exercised. Trusted: TLC, g++, the "
              "driver's construction of operands through the members x,y,z,w and its reading of results through them")
TECHNIQUE = ("TLA+ functional specification of liftings over integer tuples; lifting law on recorded bit patterns judged by TLC; laws model-checked by TLC over the complete bounded lattice; "
             "constant-level case enumeration by TLC replayed on every overload family of the real templates for 10 element types; TLC validation of "
             "recorded tolerant results and of recorded random executions")
SPEC = os.path.join(VERIF, "spec", "math")

TYPES = ["uc", "c", "us", "s", "ui", "i", "ul", "l", "f", "d"]
CXX = {"uc": "uint8_t", "c": "int8_t", "us": "uint16_t", "s": "int16_t", "ui": "uint32_t", "i": "int32_t", "ul": "uint64_t", "l": "int64_t",
       "f": "float", "d": "double"}
# overloads the header does not offer (instantiation does not compile): (operation, element type)
NOT_OFFERED = {("abs", "ui"): "std::abs(unsigned int) is ambiguous", ("abs", "ul"): "std::abs(unsigned long) is ambiguous"}
COMP = "xyzw"
# case classes that have their own vacuity guards
CLASSES = ("extremes", "ties", "float-rhs", "wide-int-rhs", "zeros", "parallel", "alias", "bytes", "boundaries")
# the one signature of the aliasing finding family: "v op= v.c" - the scalar operand is a component of the assigned vector
ALIAS_SIG = "vec.h/compound-assign(scalar-operand-aliases-a-component-of-the-assigned-vector)/components-after-it"
OPNAME = {"neg": "operator-(unary)", "pos": "operator+(unary)", "radd": "reduce_add", "rmul": "reduce_mul", "rmin": "reduce_min", "rmax": "reduce_max",
          "argmax": "arg_max", "idx": "operator[]", "eqself": "operator==", "stream": "operator<<", "lprod": "long_product", "add": "operator+",
          "sub": "operator-", "mul": "operator*", "div": "operator/", "mod": "operator%", "dru": "divRoundUp", "eq": "operator==", "ne": "operator!=",
          "anylt": "anyLessThan", "less": "std::less", "interp": "interpolate_uv", "conv": "convert", "splat": "vec_t(scalar)",
          "v3from2": "vec_t<T,3>(vec2,z)", "v4from22": "vec_t<T,4>(vec2,vec2)", "v4from3": "vec_t<T,4>(vec3,w)", "repad": "vec3<->vec3a",
          "sin0": "sin", "cos0": "cos", "length0": "length(zero vector)", "safenorm0": "safe_normalize(zero vector)", "lprod": "long_product", "Mca": "compound assignment (right-hand side of another type)"}


# ---------------------------------------------------------------------------------------------
# per-thread stand-in for the Check object (same pattern as C05)
# ---------------------------------------------------------------------------------------------
class Sub:
    def __init__(self, chk):
        self.parent, self.pid, self.tier, self.seed = chk, chk.pid, chk.tier, chk.seed
        self.cov = {"states": 0, "transitions": 0, "traces_validated_against_impl": 0, "evaluations": 0, "distinct_nontrivial": 0,
                    "samples": [], "models": [], "action_counts": {}}
        self.viol, self.notes_ = [], []

    def log(self, msg):
        self.parent.log(msg)

    def note(self, msg):
        self.notes_.append(msg)

    def add_model(self, name, r, what=""):
        self.cov["states"] += r.distinct
        self.cov["transitions"] += r.generated
        self.cov["models"].append({"module": name, "distinct_states": r.distinct, "states_generated": r.generated, "depth": r.depth,
                                   "wall_s": round(r.wall, 1), "what": what})
        self.log("TLC %s: %d distinct / %d generated states, depth %d, %.1fs %s" % (name, r.distinct, r.generated, r.depth, r.wall, what))

    def require_model_ok(self, name, r, what=""):
        if not r.ok:
            raise tla.InfraError("model %s does not satisfy its own properties (violated=%s, error=%s):\n%s" % (name, r.violated, r.error, r.out[-2500:]))
        self.add_model(name, r, what)

    def count_actions(self, histories):
        ac = self.cov["action_counts"]
        for h in histories:
            for st in h:
                ac[st["a"]] = ac.get(st["a"], 0) + 1

    def violation(self, sig, what, replay_obj):
        self.viol.append((sig, what, replay_obj))

    def merge(self):
        pc = self.parent.cov
        for k, v in self.cov.items():
            if isinstance(v, bool):
                pc[k] = v
            elif isinstance(v, int):
                pc[k] = pc.get(k, 0) + v
            elif isinstance(v, list):
                pc.setdefault(k, []).extend(v)
            elif isinstance(v, dict):
                d = pc.setdefault(k, {})
                for kk, vv in v.items():
                    d[kk] = d.get(kk, 0) + vv if isinstance(vv, int) else vv
        for n in self.notes_:
            self.parent.note(n)
        for v in self.viol:
            self.parent.violation(*v)


def parallel(chk, fns, workers=12):
    subs = [Sub(chk) for _ in fns]
    with ThreadPoolExecutor(max_workers=workers) as ex:
        futs = [ex.submit(f, s) for f, s in zip(fns, subs)]
        outs, err = [], None
        for f in futs:
            try:
                outs.append(f.result())
            except Exception as e:      # noqa: keep the first, let the others finish
                outs.append(None)
                err = err or e
    for s in subs:
        s.merge()
    if err:
        raise err
    return outs


# ---------------------------------------------------------------------------------------------
# TLC jobs
# ---------------------------------------------------------------------------------------------
def gen_jobs(quick):
    """(group, n, lattice, part, nparts): one TLC case-generation run each; the biggest first."""
    jobs = []

    def add(g, n, lat, nparts):
        for p in range(nparts):
            jobs.append((g, n, lat, p, nparts))
    if quick:
        add("bin", 4, "S", 3); add("bin", 3, "S", 2); add("misc", 4, "S", 2)
        add("bin", 2, "S", 1); add("bin", 2, "U", 1); add("bin", 3, "U", 1); add("bin", 4, "U", 1)
        add("misc", 2, "S", 1); add("misc", 3, "S", 1); add("misc", 2, "U", 1); add("misc", 3, "U", 1); add("misc", 4, "U", 1)
        add("mca", 3, "S", 1); add("mca", 4, "S", 1); add("mca", 2, "U", 1); add("mca", 3, "U", 1)
        add("deg", 3, "S", 1); add("deg", 4, "S", 1); add("deg", 2, "S", 1); add("deg", 3, "U", 1)
    else:
        add("bin", 3, "S", 10); add("bin", 4, "S", 10); add("bin", 3, "U", 4); add("bin", 4, "U", 3); add("misc", 4, "S", 6)
        add("misc", 3, "S", 2); add("misc", 4, "U", 3); add("bin", 2, "S", 1); add("bin", 2, "U", 1)
        add("misc", 2, "S", 1); add("misc", 2, "U", 1); add("misc", 3, "U", 1)
        add("deg", 2, "S", 1); add("deg", 3, "S", 1); add("deg", 4, "S", 1); add("deg", 2, "U", 1); add("deg", 3, "U", 1); add("deg", 4, "U", 1)
        add("mca", 4, "S", 3); add("mca", 4, "U", 2); add("mca", 3, "S", 1); add("mca", 3, "U", 1); add("mca", 2, "S", 1); add("mca", 2, "U", 1)
    jobs.append(("meta", 0, "S", 0, 1))
    return jobs


def run_gen(chk, job, level):
    """Run one generation job; returns (job, path of the ndjson case file, number of cases)."""
    g, n, lat, part, nparts = job
    tag = "c04-%s-%d-%s-%d" % (g, n, lat, part)
    d = os.path.join(tla.WORK, "cases", "c04-%d" % os.getpid())
    os.makedirs(d, exist_ok=True)
    prefix = os.path.join(d, "cases")
    path = "%s-%s-%d-%s-%d" % (prefix, g, n, lat, part)
    if os.path.exists(path):
        os.remove(path)
    env = {"OUT": prefix, "C04_GROUP": g, "C04_N": str(n), "C04_LAT": lat, "C04_LEVEL": str(level), "C04_PART": str(part), "C04_NPARTS": str(nparts)}
    r = tla.run_tlc(os.path.join(SPEC, "VecAlgebraGen.tla"), os.path.join(SPEC, "VecAlgebraGen.cfg"), workers=1, timeout=2400, env=env, tag=tag, xmx="3g")
    if not r.ok or not os.path.exists(path):
        raise tla.InfraError("case generation %s failed: violated=%s error=%s\n%s" % (tag, r.violated, r.error, r.out[-2500:]))
    with open(path) as f:
        ncases = sum(1 for line in f if line.strip())
    if not ncases:
        raise tla.InfraError("case generation %s emitted no cases" % tag)
    chk.cov["models"].append({"module": "VecAlgebraGen/" + tag, "cases_emitted": ncases, "wall_s": round(r.wall, 1),
                              "what": "group %s N=%d lattice %s part %d/%d" % (g, n, lat, part, nparts)})
    chk.cov["states"] += 1
    chk.cov["transitions"] += 1
    chk.log("TLC VecAlgebraGen %s: %d cases in %.1fs" % (tag, ncases, r.wall))
    return job, path, ncases


def model_check(chk):
    r = tla.run_tlc(os.path.join(SPEC, "VecAlgebraMC.tla"), os.path.join(SPEC, "VecAlgebraMC.cfg"), workers=6 if chk.tier == "quick" else 10,
                    timeout=2400, env={"C04_TIER": chk.tier}, tag="c04-mc")
    chk.require_model_ok("VecAlgebraMC/" + chk.tier, r, "laws of the liftings for every vector / pair / triple of the lattices")
    return r


# ---------------------------------------------------------------------------------------------
# spec -> code: one (case file, element type) task, run in a worker process
# ---------------------------------------------------------------------------------------------
def load_cases(path):
    with open(path) as f:
        return [json.loads(line) for line in f if line.strip()]


def group_for(groups, ty):
    for g in groups:
        if ty in g["ty"]:
            return g["v"]
    return None


def decided_for(case, ty):
    """Does the specification decide anything of this case for element type ty?"""
    if case["a"] == "Tol":
        return ty in case["ot"]
    if ty not in case["ot"]:
        return False
    return any(group_for(gs, ty) is not None for gs in case["exp"].values())


def field_name(path):
    """'/[2]' -> 'z'; '/[1][0]' -> '[1]/x' (element writes); '' -> 'value'."""
    import re
    idx = re.findall(r"\[(\d+)\]", path)
    if not idx:
        return "value"
    last = int(idx[-1])
    comp = COMP[last] if last < 4 else str(last)
    return ("write%s/" % idx[0] if len(idx) > 1 else "") + comp


def compare_case(case, obs, ty, uac):
    """Compare the driver's observation of one case with the specification's expectations for element type ty.
    Returns (number of overload results compared, list of mismatches, {op: set(families)}, missing kinds)."""
    n, mms, fams, missing = 0, [], {}, []
    ot = case["ot"]
    for op, groups in case["exp"].items():
        o = obs.get(op)
        own = group_for(groups, ty)
        if o is None:
            if own is not None and (op, ty) not in NOT_OFFERED:
                missing.append((op, "*"))
            continue
        seen_kinds = set()
        for fam, val in o.items():
            toks = fam.split(".")
            kind = toks[0]
            mx = None
            for t in toks:
                if t.startswith("mx_"):
                    mx = t[3:]
            if mx is not None:
                if mx not in ot:
                    continue                              # the other element type cannot hold the operands
                v = own if "ca" in toks else group_for(groups, uac[ty][mx])
            elif any(t.startswith("from_") for t in toks):
                src = next(t for t in toks if t.startswith("from_"))[5:]
                if src not in ot:
                    continue                              # the scalar's element type cannot hold the value
                v = own
            else:
                v = own
            if v is None or kind not in v:
                continue
            seen_kinds.add(kind)
            n += 1
            fams.setdefault(op, set()).add(fam)
            if val != v[kind]:
                mm = adt.subset_mismatch(v[kind], val) or ("", v[kind], val)
                mms.append({"op": op, "fam": fam, "field": "text" if op == "stream" else field_name(mm[0]), "expected": v[kind], "observed": val})
        if own is not None:
            for k in own:
                if k not in seen_kinds and (op, ty) not in NOT_OFFERED:
                    missing.append((op, k))
    if "_rt" in obs:
        for key, rts in obs["_rt"].items():
            u = key.split(".")[0][3:]
            want = uac[ty][u]
            n += 1
            fams.setdefault("result-type", set()).add(key)
            if any(r != want for r in rts):
                mms.append({"op": "result-type", "fam": key, "field": "element-type", "expected": want, "observed": rts})
    return n, mms, fams, missing


def nontrivial_key(case):
    a = case["a"]
    arg = case["arg"]
    if a in ("Bin", "Cmp") and arg["a"] == arg["b"]:
        return None                 # identical operands: a slip between a and b is invisible
    if a == "Zero":
        return None
    return a + "|" + json.dumps(arg, sort_keys=True)


def replay_task(t):
    """Worker process: evaluate the cases of one file on one element type and compare."""
    path, ty, exe, uac, tag = t
    cases = [c for c in load_cases(path) if c["a"] not in ("Meta",) and decided_for(c, ty)]
    out = {"ty": ty, "path": path, "cases": len(cases), "results": 0, "mismatches": [], "fams": {}, "missing": [], "tol": [], "keys": 0,
           "by_action": {}, "cls_results": {}, "wall": 0.0, "error": None}
    if not cases:
        return out
    # compound assignment with a right-hand side of another type: a wrong conversion order can divide by zero - these cases run in
    # forked children so that a crash is attributed to its case (and reported as what it is: a failing execution)
    isolate = 250 if any(c["a"] == "Mca" for c in cases) else 0
    res, rc, stderr, wall = adt.run_driver(exe, [[{"a": c["a"], "arg": c["arg"]}] for c in cases], "%s-%s-%d" % (tag, ty, os.getpid()),
                                           meta={"ty": ty}, timeout=3000, isolate=isolate)
    out["wall"] = wall
    keys = set()
    for i, c in enumerate(cases):
        r = res.get(i)
        if r is not None and "crash" in r:
            out["mismatches"].append({"case": c, "op": c["a"], "fam": "sx_" + str(c["arg"].get("u", "")), "field": "crash", "expected": "a value",
                                      "observed": r["crash"]})
            continue
        if r is None or "obs" not in r or not r["obs"]:
            out["error"] = "driver gave no observation for case %d of %s on %s (rc=%s): %s %s" % (i, path, ty, rc, r, stderr[-800:])
            return out
        obs = r["obs"][0]
        if "unexpected_exception" in obs:
            out["mismatches"].append({"case": c, "op": c["a"], "fam": "*", "field": "unexpected_exception", "expected": None, "observed": obs})
            continue
        akey = c["a"] + ("/" + c["cls"] if c.get("cls") in CLASSES else "")
        out["by_action"][akey] = out["by_action"].get(akey, 0) + 1
        k = nontrivial_key(c)
        if k is not None:
            keys.add(k)
        if c["a"] == "Tol":
            for fam, rec in obs.items():
                out["tol"].append({"ty": ty, "fam": fam, "a": c["arg"]["a"], "r": rec})
            continue
        n, mms, fams, missing = compare_case(c, obs, ty, uac)
        out["results"] += n
        if c.get("cls"):
            out["cls_results"][c["cls"]] = out["cls_results"].get(c["cls"], 0) + n
        for op, fs in fams.items():
            out["fams"].setdefault(op, set()).update(fs)
        for m in missing:
            if len(out["missing"]) < 20:
                out["missing"].append((c["a"], m[0], m[1], ty))
        for mm in mms:
            if len(out["mismatches"]) < 400:
                mm["case"] = c
                out["mismatches"].append(mm)
    out["keys"] = len(keys)
    out["fams"] = {op: sorted(fs) for op, fs in out["fams"].items()}
    return out


def signature(n, ty, mm):
    toks = mm["fam"].split(".")
    if "alias" in toks and "ca" in toks and toks[0] == "vs":
        return ALIAS_SIG
    return "vec.h/%s(vec%s,%s,%s)/%s" % (mm["op"], n, ty, mm["fam"], mm["field"])


def report_mismatches(chk, out):
    for mm in out["mismatches"]:
        c = mm["case"]
        ty = out["ty"]
        sig = signature(c["n"], ty, mm)
        what = ("vec_t<%s,%s> %s, overload family %s: operands %s: component %s expected %s observed %s"
                % (CXX[ty], c["n"], OPNAME.get(mm["op"], mm["op"]), mm["fam"], json.dumps(c["arg"], sort_keys=True), mm["field"],
                   json.dumps(mm["expected"])[:200], json.dumps(mm["observed"])[:200]))
        chk.violation(sig, what, {"kind": "case", "property": chk.pid, "ty": ty, "case": c,
                                  "mismatch": {k: v for k, v in mm.items() if k != "case"}})


# ---------------------------------------------------------------------------------------------
# code -> spec: tolerant results validated by TLC
# ---------------------------------------------------------------------------------------------
def validate_tol(chk, recs, tag, chunks=3):
    if not recs:
        return 0
    d = os.path.join(tla.WORK, "run", "c04-tol-" + tag)
    os.makedirs(d, exist_ok=True)
    for i, r in enumerate(recs):
        r["id"] = i
    parts = [recs[k::chunks] for k in range(chunks) if recs[k::chunks]]

    def one(k):
        inp = os.path.join(d, "tolobs-%d-%d.ndjson" % (os.getpid(), k))
        outp = os.path.join(d, "tolrej-%d-%d.ndjson" % (os.getpid(), k))
        with open(inp, "w") as f:
            for o in parts[k]:
                f.write(json.dumps({"id": o["id"], "a": o["a"], "r": o["r"]}, separators=(",", ":")) + "\n")
        if os.path.exists(outp):
            os.remove(outp)
        r = tla.run_tlc(os.path.join(SPEC, "VecTolValidate.tla"), os.path.join(SPEC, "VecTolValidate.cfg"), workers=1, timeout=1500,
                        env={"C04_OBS": inp, "OUT": outp}, tag="c04-tolval-%s-%d" % (tag, k), xmx="3g")
        if not r.ok or "C04-TOL-VALIDATED" not in r.out:
            raise tla.InfraError("VecTolValidate failed: violated=%s error=%s\n%s" % (r.violated, r.error, r.out[-2500:]))
        rej = []
        if os.path.exists(outp):
            with open(outp) as f:
                rej = [json.loads(x) for x in f if x.strip()]
            os.remove(outp)
        os.remove(inp)
        return rej

    t0 = time.time()
    with ThreadPoolExecutor(max_workers=chunks) as ex:
        outs = list(ex.map(one, range(len(parts))))
    rejected = [x for rej in outs for x in rej]
    chk.cov["evaluations"] += len(recs)
    chk.cov["traces_validated_against_impl"] += len(recs)
    chk.cov["tolerant_results_validated"] = chk.cov.get("tolerant_results_validated", 0) + len(recs)
    chk.log("rcp / normalize / length / sin / cos: %d recorded result sets validated by TLC (VecTolValidate), %d rejected, %.1fs" % (len(recs), len(rejected), time.time() - t0))
    for rj in rejected:
        o = recs[rj["id"]]
        n = len(o["a"])
        for failed in rj["failed"]:
            fam = o["fam"].replace("tol", "r")
            sig = "vec.h/%s(vec%d,%s,%s)/tolerance" % (failed, n, o["ty"], fam)
            what = ("vec_t<%s,%d> %s of %s (family %s): the recorded result is not the scalar definition applied to each component within the "
                    "tolerance: %s" % (CXX[o["ty"]], n, failed, o["a"], fam, json.dumps(o["r"])[:400]))
            chk.violation(sig, what, {"kind": "tol", "property": chk.pid, "ty": o["ty"], "a": o["a"], "fam": o["fam"], "observed": o["r"], "failed": failed})
    return len(rejected)


# ---------------------------------------------------------------------------------------------
# code -> spec: the lifting law on general operands (bit patterns of vector results vs. scalar operator results, judged by TLC)
# ---------------------------------------------------------------------------------------------
def _f32(x):
    return struct.unpack("f", struct.pack("f", x))[0]


EDGE = {
    "f": [_f32(v) for v in (5.0 / 3.0, 0.1, 1.0 / 3.0, 3.0, 7.0, 77.0, 49.0, 0.7, -2.5, 1e-39, -3e-40, 3e38, -2.9e38, 1e-20, 123456.789, 1e10, 6.0,
                            -0.3, 1.1754944e-38, 16777217.0, 1.0, -1.0, 0.3, 2.0 / 3.0, 10.0, 1e-45)],
    "d": [5.0 / 3.0, 0.1, 1.0 / 3.0, 3.0, 7.0, 77.0, 49.0, 0.7, -2.5, 5e-310, -2e-315, 1.5e308, -1.2e308, 1e-200, 123456.789, 1e100, 6.0, -0.3,
          2.2250738585072014e-308, 9007199254740993.0, 1.0, -1.0, 0.3, 2.0 / 3.0, 10.0, 5e-324],
}
IRANGE = {"uc": (0, 255), "c": (-127, 127), "us": (0, 65535), "s": (-32767, 32767), "ui": (0, 4294967295), "i": (-2147483647, 2147483647),
          "ul": (0, 2 ** 62), "l": (-2 ** 62, 2 ** 62)}          # the most negative value of the signed types is left out (no INT_MIN / -1)
IBOUND = [0, 1, 2, 127, 128, 129, 255, 256, 257, 511, 512, 513, 1023, 1024, 1025, 4095, 4096, 4097, 32767, 32768, 65535, 65536, 65537,
          2 ** 31 - 1, 2 ** 31, 2 ** 31 + 1, 2 ** 32 - 1, 2 ** 32, 2 ** 32 + 1]
LIFT_MIN = 20          # every (operator, family, element type, shape) must have been judged on at least this many records


def lift_cases(rnd, ty, n, ndiv, nzero):
    """Seeded random + edge operands for the lifting law.  'div' cases: no zero in b and s (division, remainder, divRoundUp recorded);
    the other cases (floating point only) put +0 / -0 into a and b (min / max / comparisons / + - * on signed zeros).  bi / si: small
    positive integers for operands of another element type where one of the two types is integral."""
    flt = ty in ("f", "d")

    def fval(nonzero):
        x = rnd.random()
        if x < 0.45:
            v = rnd.choice(EDGE[ty])
        elif x < 0.9:
            v = rnd.choice((-1, 1)) * rnd.uniform(1.0, 2.0) * 2.0 ** rnd.randint(-30, 30)
        else:
            v = rnd.choice((-1, 1)) * rnd.uniform(1.0, 2.0) * 2.0 ** (rnd.randint(-120, 120) if ty == "f" else rnd.randint(-1000, 1000))
        v = _f32(v) if ty == "f" else v
        if v == 0.0 and nonzero:
            v = 3.0
        return v

    def ival(nonzero):
        lo, hi = IRANGE[ty]
        while True:
            x = rnd.random()
            if x < 0.4:
                v = rnd.randint(max(lo, -100), min(hi, 100))
            elif x < 0.47:
                v = rnd.choice((lo, hi, hi - 1, max(lo, -1), 1, 2, 3, 7, 10))
            elif x < 0.62:
                v = rnd.choice(IBOUND) * (rnd.choice((1, 1, -1)) if lo < 0 else 1)        # 2^k - 1, 2^k, 2^k + 1
                v = max(lo, min(hi, v))
            else:
                v = rnd.randint(lo, hi) >> rnd.choice((0, 0, 0, 3, 9, 20))
                v = max(lo, min(hi, v))
            if v != 0 or not nonzero:
                return v

    val = fval if flt else ival
    cases = []
    for k in range(ndiv + (nzero if flt else 0)):
        div = k < ndiv
        a = [val(False) for _ in range(n)]
        b = [val(True) for _ in range(n)]
        if rnd.random() < 0.2:
            b[rnd.randrange(n)] = a[rnd.randrange(n)] if a[0] != 0 else b[0]      # equal operands somewhere
            b = [x if x != 0 else val(True) for x in b]
        if rnd.random() < 0.25:
            i = rnd.randrange(n)
            b[i] = a[i] if a[i] != 0 else b[i]                                    # equal components at the same index (comparisons)
        if not div:
            i = rnd.randrange(n)
            a[i], b[i] = rnd.choice(((0.0, -0.0), (-0.0, 0.0), (0.0, 0.0), (-0.0, -0.0), (0.0, 3.0), (5.0 / 3.0 if ty == "d" else _f32(5.0 / 3.0), -0.0)))
        arg = {"a": a, "b": b, "s": val(True), "bi": [rnd.randint(1, 100) for _ in range(n)], "si": rnd.randint(1, 100), "div": div}
        if flt and rnd.random() < 0.3:
            # infinite operands (named by the statement's quantifier); JSON has no infinity: a code per component (1: +inf, -1: -inf)
            ia, ib = [0] * n, [0] * n
            for _ in range(rnd.choice((1, 1, 2))):
                (ia if rnd.random() < 0.5 else ib)[rnd.randrange(n)] = rnd.choice((1, -1))
            if rnd.random() < 0.3:
                i = rnd.randrange(n)
                ia[i], ib[i] = rnd.choice(((1, 1), (1, -1), (-1, 1)))                    # inf op inf: NaN for - and /
            arg["a_inf"], arg["b_inf"] = ia, ib
            if rnd.random() < 0.3:
                arg["s_inf"] = rnd.choice((1, -1))
        cases.append({"a": "Lift", "arg": arg})
    if flt:
        # fixed degenerate pairs, at a different component each: inf op inf (same and opposite sign: NaN for - resp. +, and for /),
        # 0 * inf, inf against a scalar inf - every shape and type has them, whatever the seed
        for j, (ca, cb, cs, za) in enumerate(((1, 1, 0, False), (1, -1, 0, False), (0, 1, 0, True), (-1, 0, 1, False), (-1, -1, -1, False))):
            c = json.loads(json.dumps(cases[j]))
            arg = c["arg"]
            arg["div"] = True
            arg["b"] = [x if x != 0 else 3.0 for x in arg["b"]]
            i = j % n
            ia, ib = [0] * n, [0] * n
            ia[i], ib[i] = ca, cb
            if za:
                arg["a"][i] = 0.0
            arg["a_inf"], arg["b_inf"] = ia, ib
            if cs:
                arg["s_inf"] = cs
            else:
                arg.pop("s_inf", None)
            cases.append(c)
    return cases


def lift_records(cases, res, ty):
    recs, inexact = [], {}
    for i, c in enumerate(cases):
        r = res.get(i)
        if r is None or "obs" not in r or not r["obs"] or "unexpected_exception" in r["obs"][0]:
            raise tla.InfraError("vec driver gave no lifting-law observation for case %d on %s: %s" % (i, ty, r))
        obs = r["obs"][0]
        n = len(c["arg"]["a"])
        ie = obs.get("_inexact", {})
        d = inexact.setdefault(n, {"mul": 0, "div": 0, "div_s": 0})
        for k in d:
            d[k] += ie.get(k, 0)
        recs.append({"id": i, "ty": ty, "n": n, "case": c, "r": {op: v for op, v in obs.items() if not op.startswith("_")}, "c": obs.get("_cmp", {})})
    return recs, inexact


def validate_lift(chk, recs, tag, chunks=1):
    """TLC (VecLiftValidate) judges the lifting law on the records.  Returns (rejected list, number of judged (record, op, family))."""
    d = os.path.join(tla.WORK, "run", "c04-lift-" + tag)
    os.makedirs(d, exist_ok=True)
    parts = [recs[k::chunks] for k in range(chunks) if recs[k::chunks]]

    def one(k):
        inp = os.path.join(d, "liftobs-%d-%d.ndjson" % (os.getpid(), k))
        outp = os.path.join(d, "liftrej-%d-%d.ndjson" % (os.getpid(), k))
        with open(inp, "w") as f:
            for o in parts[k]:
                f.write(json.dumps({"id": o["id"], "r": o["r"], "c": o["c"]}, separators=(",", ":")) + "\n")
        if os.path.exists(outp):
            os.remove(outp)
        r = tla.run_tlc(os.path.join(SPEC, "VecLiftValidate.tla"), os.path.join(SPEC, "VecLiftValidate.cfg"), workers=1, timeout=1500,
                        env={"C04_OBS": inp, "OUT": outp}, tag="c04-liftval-%s-%d" % (tag, k), xmx="4g")
        import re
        m = re.search(r'"C04-LIFT-VALIDATED",\s*(\d+),\s*"JUDGED",\s*(\d+)', r.out)
        if not r.ok or not m or int(m.group(1)) != len(parts[k]):
            raise tla.InfraError("VecLiftValidate failed: violated=%s error=%s\n%s" % (r.violated, r.error, r.out[-2500:]))
        rej = []
        if os.path.exists(outp):
            with open(outp) as f:
                rej = [json.loads(x) for x in f if x.strip()]
            os.remove(outp)
        os.remove(inp)
        return rej, int(m.group(2))

    with ThreadPoolExecutor(max_workers=max(1, len(parts))) as ex:
        outs = list(ex.map(one, range(len(parts))))
    return [x for rej, _ in outs for x in rej], sum(j for _, j in outs)


def lift_type(chk, exe, ty, cases, tag="all"):
    """Run the lifting-law cases of one element type on the real code and let TLC judge them."""
    t0 = time.time()
    res, rc, stderr, wall = adt.run_driver(exe, [[c] for c in cases], "c04-lift-%s-%s" % (tag, ty), meta={"ty": ty})
    if rc != 0 and not res:
        raise tla.InfraError("vec driver failed on the lifting-law cases for %s (rc=%s): %s" % (ty, rc, stderr[-800:]))
    recs, inexact = lift_records(cases, res, ty)
    counts = {}
    for o in recs:
        for op, fams in o["r"].items():
            for fam in fams:
                counts[(op, fam, o["n"])] = counts.get((op, fam, o["n"]), 0) + 1
        for fam in o["c"]:
            for op in ("eq", "ne", "anylt", "less"):
                counts[(op, fam, o["n"])] = counts.get((op, fam, o["n"]), 0) + 1
    rejected, judged = validate_lift(chk, recs, tag + "-" + ty, chunks=max(1, len(recs) // 250))
    if judged != sum(counts.values()):
        raise tla.InfraError("VecLiftValidate judged %d (record, operator, family) triples for %s, %d were handed over" % (judged, ty, sum(counts.values())))
    by_id = {o["id"]: o for o in recs}
    for rj in rejected:
        o = by_id[rj["id"]]
        for f in rj["failed"]:
            op, fam = f["op"], f["fam"]
            e = o["r"].get(op, {}).get(fam) if op in o["r"] else o["c"].get(fam)
            sig = "vec.h/%s(vec%d,%s,%s)/lifting" % (op, o["n"], ty, fam)
            what = ("vec_t<%s,%d> %s, overload family %s, operands %s: the vector result is not the scalar operator applied to each component "
                    "(bit patterns in 16-bit pieces): %s" % (CXX[ty], o["n"], OPNAME.get(op, op), fam, json.dumps(o["case"]["arg"]), json.dumps(e)[:300]))
            chk.violation(sig, what, {"kind": "lift", "property": chk.pid, "ty": ty, "case": o["case"], "failed": f, "observed": e})
    chk.cov["evaluations"] += len(cases)
    chk.cov["traces_validated_against_impl"] += len(recs)
    chk.log("lifting law %s: %d records, %d (record, operator, family) triples judged by TLC (VecLiftValidate), %d records rejected, %.1fs"
            % (CXX[ty], len(recs), judged, len(rejected), time.time() - t0))
    return {"ty": ty, "records": len(recs), "judged": judged, "counts": counts, "inexact": inexact, "rejected": len(rejected),
            "inf_cases": sum(1 for c in cases if "a_inf" in c["arg"])}


def lift_guards(chk, outs):
    """Vacuity guards of the lifting law: every (operator, family, element type, shape) judged on >= LIFT_MIN records, and the operands
    contain pairs whose product / quotient is inexact (observed by the driver with fma residuals)."""
    total, keys = 0, 0
    summary = {}
    for o in outs:
        ty = o["ty"]
        flt = ty in ("f", "d")
        ops = {}
        for (op, fam, n), k in o["counts"].items():
            if k < LIFT_MIN:
                raise tla.InfraError("vacuity guard: lifting law %s %s vec%d %s judged on %d records only" % (op, fam, n, ty, k))
            ops.setdefault(op, set()).add(fam)
            keys += 1
        need = ["div", "min", "max", "neg", "pos", "eq", "ne", "anylt", "less", "conv"] + (["add", "sub", "mul", "rcp", "rcp_safe", "sin", "cos", "abs"] if flt else ["mod", "dru", "lprod"])
        if ty in ("uc", "c", "us", "s", "ui", "ul"):
            need += ["add", "sub"]              # integer + - where the language defines every result (wrap-around / computed in int)
        if ty in ("uc", "c", "s", "ui", "ul"):
            need += ["mul"]
        if ty == "f":
            need += ["linear_to_srgba", "cvt_uint32"]
        for op in need:
            if not ops.get(op):
                raise tla.InfraError("vacuity guard: lifting law: operator %s never judged for %s" % (op, ty))
        for fam in ["vv", "vs", "sv", "vv.ca", "vs.ca", "vv.uu", "vv.up", "vv.pu", "vv.pp", "vs.u", "vs.p", "sv.p", "vv.ca.pu", "vs.ca.p"]:
            if fam not in ops["div"]:
                raise tla.InfraError("vacuity guard: lifting law: family %s of operator/ never judged for %s" % (fam, ty))
        if not any(".mx_" in f for f in ops["div"]) or (flt and not any(".mx_" in f and ".ca" in f for f in ops["mul"])):
            raise tla.InfraError("vacuity guard: lifting law: mixed element type families never judged for %s" % ty)
        if flt and not o.get("inf_cases"):
            raise tla.InfraError("vacuity guard: lifting law: no infinite operands for %s" % ty)
        for n in (2, 3, 4):
            ie = o["inexact"].get(n, {})
            if not ie.get("div") or not ie.get("div_s") or (flt and not ie.get("mul")):
                raise tla.InfraError("vacuity guard: lifting law: no inexact %s among the vec%d operands of %s: %s" % ("product / quotient" if flt else "quotient", n, ty, ie))
        total += o["judged"]
        summary[ty] = {"records": o["records"], "judged": o["judged"], "operator_family_shape_keys": len(o["counts"]),
                       "inexact_component_pairs": {str(n): v for n, v in sorted(o["inexact"].items())}, "cases_with_infinite_operands": o.get("inf_cases", 0)}
    chk.cov["lifting_law"] = {"judged": total, "operator_family_type_shape_keys": keys, "min_records_per_key": LIFT_MIN, "per_element_type": summary}
    chk.cov["action_counts"]["Lift"] = sum(o["records"] for o in outs)


# ---------------------------------------------------------------------------------------------
# code -> spec: recorded random executions of a vector register
# ---------------------------------------------------------------------------------------------
LIMIT = {"s": 30000, "i": 4000000, "l": 4000000, "f": 4000000, "d": 4000000}


def rand_execution(rnd, ty, sh, nsteps):
    """A random action list.  The generator keeps an a-priori bound of the magnitude of the register (input generation only: it never
    looks at results) so that no signed overflow and no inexact float occurs; uint8_t / uint16_t wrap around and need no bound."""
    n = 3 if sh == "3a" else int(sh)
    wrap = ty in ("uc", "us")
    isint = ty not in ("f", "d")
    lim = LIMIT.get(ty, 0)
    R = 40 if not wrap else (255 if ty == "uc" else 300)

    def comp(r=R, nonzero=False):
        while True:
            x = rnd.randint(0 if wrap else -r, r)
            if x != 0 or not nonzero:
                return x

    def vec(r=R, nonzero=False):
        if rnd.random() < 0.15:                      # equal components
            x = comp(r, nonzero)
            return [x] * n
        return [comp(r, nonzero) for _ in range(n)]

    def fresh():
        v = vec()
        return {"a": "New", "arg": {"sh": sh, "ty": ty, "v": v}}, max(abs(x) for x in v)

    a0, B = fresh()
    acts = [a0]
    while len(acts) < nsteps:
        x = rnd.random()
        nb = B
        if x < 0.12:
            b = vec(); a = {"a": rnd.choice(["AddV", "CAddV"]), "arg": {"b": b}}; nb = B + R
        elif x < 0.22:
            b = vec(); a = {"a": rnd.choice(["SubV", "CSubV"]), "arg": {"b": b}}; nb = B + R
        elif x < 0.28:
            b = vec(6 if not wrap else R); a = {"a": "MulV", "arg": {"b": b}}; nb = B * 6
        elif x < 0.36:
            s = comp(); a = {"a": rnd.choice(["AddS", "SubS", "RSubS"]), "arg": {"s": s}}; nb = B + R
        elif x < 0.42:
            s = comp(5 if not wrap else R); a = {"a": rnd.choice(["MulS", "CMulS"]), "arg": {"s": s}}; nb = B * 5
        elif x < 0.48 and isint:
            b = vec(9 if not wrap else R, nonzero=True); a = {"a": rnd.choice(["DivV", "ModV"]), "arg": {"b": b}}; nb = max(B, R)
        elif x < 0.52:
            a = {"a": "Neg", "arg": {}}
        elif x < 0.55 and ty not in ("ui", "ul"):
            a = {"a": "Abs", "arg": {}}
        elif x < 0.62:
            a = {"a": rnd.choice(["MinV", "MaxV"]), "arg": {"b": vec()}}; nb = max(B, R)
        elif x < 0.66:
            lo, hi = vec(), vec()
            a = {"a": "Clamp", "arg": {"lo": lo, "hi": hi}}; nb = max(B, R)
        elif x < 0.71 and n == 3:
            b = vec(6 if not wrap else R); a = {"a": "CrossV", "arg": {"b": b}}; nb = 2 * B * 6
        elif x < 0.74 and n == 3 and not wrap and ty not in ("ui", "ul"):
            b, c = vec(6), vec(); a = {"a": "Madd", "arg": {"b": b, "c": c}}; nb = B * 6 + R
        elif x < 0.79:
            f = [comp(4 if not wrap else 9) for _ in range(3)]; b, c = vec(), vec()
            a = {"a": "Interp", "arg": {"f": f, "b": b, "c": c}}; nb = 4 * B + 8 * R
        elif x < 0.84:
            a = {"a": "SetIdx", "arg": {"i": rnd.randrange(n), "s": comp()}}; nb = max(B, R)
        elif x < 0.89:
            a = {"a": "Dot", "arg": {"b": vec(6 if not wrap else R)}}
            if not wrap and n * B * 6 > lim:
                a = None
        elif x < 0.93:
            a = {"a": "Reduce", "arg": {}}
            if not wrap and n * B > lim:
                a = None
        elif x < 0.97:
            b = vec()
            a = {"a": "Compare", "arg": {"b": b}}
        else:
            a = {"a": "Index", "arg": {"i": rnd.randrange(n)}}
        if a is None or (not wrap and nb > lim):
            a, nb = fresh()
        acts.append(a)
        B = nb
    return acts


def recorded_executions(chk, exe, ty, sh, acts):
    chk.count_actions(acts)
    adtcheck.record_and_validate(chk, exe, SPEC, "VecTrace", "VecTrace.cfg", acts, "c04-trace-%s-%s" % (ty, sh),
                                 "vec.h/recorded(vec%s,%s)" % (sh, ty), meta={"ty": ty}, timeout=1500)


TRACE_ACTIONS = ["New", "AddV", "CAddV", "SubV", "CSubV", "MulV", "AddS", "SubS", "RSubS", "MulS", "CMulS", "DivV", "ModV", "Neg", "Abs", "MinV", "MaxV",
                 "Clamp", "CrossV", "Madd", "Interp", "SetIdx", "Dot", "Reduce", "Compare", "Index"]


# ---------------------------------------------------------------------------------------------
def run(chk, replay=None):
    quick = chk.tier == "quick"
    rnd = random.Random(chk.seed)
    chk.assumptions += [
        "TLC enumerates the bounded lattices completely (N = 2) or by the covering / multi-fold samples stated in level_note (N = 3, 4); all values "
        "are small integers, exactly representable in every element type the specification lists for a result",
        "the driver builds operands by assigning the members x, y, z, w and reads results from the members; it decides nothing",
        "an element type is compared for an operation only where the specification decides the result (operands representable, results inside the "
        "type's window, or uint8_t / uint16_t wrap-around of a chain of + - *)",
        "tolerant results are recorded scaled by 2^18 (length: 2^10) and rounded; acceptance is decided by TLC (VecTolValidate)",
        "the generator of the recorded executions bounds magnitudes a priori so that neither signed overflow nor inexact floats occur",
        "lifting law: vector operator and scalar operator are evaluated in the same translation unit of the driver, compiled without fast-math and "
        "with -ffp-contract=off (x86-64 SSE arithmetic, no excess precision); bit patterns are recorded in 16-bit pieces; the inexactness counters of "
        "the vacuity guard are fma residuals observed by the driver",
    ]
    if replay:
        return do_replay(chk, replay)
    pool = multiprocessing.get_context("fork").Pool(processes=10 if quick else 12)      # created before any thread exists
    try:
        return run_all(chk, quick, rnd, pool)
    finally:
        pool.terminate()
        pool.join()


def run_all(chk, quick, rnd, pool):
    t0 = time.time()
    exe = build.build("drv_vec")
    chk.log("driver built in %.1fs" % (time.time() - t0))
    level = 0 if quick else 1

    # the table of usual arithmetic conversions comes from the specification (group "meta")
    jobs = gen_jobs(quick)
    meta_job = jobs[-1]
    _, meta_path, _ = run_gen(chk, meta_job, level)
    meta_cases = load_cases(meta_path)
    uac = next(c for c in meta_cases if c["a"] == "Meta")["exp"]["uac"]

    # phase A/B pipelined: law checking and case generation by TLC in threads; every finished case file is handed to the process
    # pool once per element type
    pending = []
    files = [meta_path]

    def gen_and_submit(sub, job):
        j, path, ncases = run_gen(sub, job, level)
        files.append(path)
        for ty in TYPES:
            pending.append((job, ty, pool.apply_async(replay_task, ((path, ty, exe, uac, "c04-%s-%d-%s-%d" % job[:4]),))))
        return ncases

    # recorded executions (code -> spec), in the same thread pool
    trace_plan = [("i", "3"), ("f", "3a"), ("uc", "4"), ("d", "2"), ("us", "3"), ("l", "4")] if quick else \
                 [("i", "2"), ("i", "3"), ("i", "3a"), ("i", "4"), ("f", "2"), ("f", "3"), ("f", "3a"), ("f", "4"), ("uc", "3"), ("uc", "4"), ("us", "3a"),
                  ("us", "2"), ("d", "3"), ("d", "4"), ("l", "3a"), ("l", "2"), ("s", "3"), ("s", "4")]
    nexec, nsteps = (10, 200) if quick else (40, 250)
    trace_acts = {}
    fns = [lambda sub: model_check(sub)]
    for (ty, sh) in trace_plan:
        trace_acts[(ty, sh)] = [rand_execution(rnd, ty, sh, nsteps) for _ in range(nexec)]
    fns += [(lambda sub, j=j: gen_and_submit(sub, j)) for j in jobs[:-1]]
    fns.append(lambda sub: submit_meta(sub, pool, pending, meta_path, exe, uac))
    fns += [(lambda sub, k=k: recorded_executions(sub, exe, k[0], k[1], trace_acts[k])) for k in trace_plan]
    # the lifting law on general operands, one driver run + one TLC judgement per element type
    nd, nz = (26, 22) if quick else (120, 60)
    lift_in = {ty: [c for n in (2, 3, 4) for c in lift_cases(rnd, ty, n, nd + (0 if ty in ("f", "d") else nz // 2), nz)] for ty in TYPES}
    nlift0 = len(fns)
    fns += [(lambda sub, ty=ty: lift_type(sub, exe, ty, lift_in[ty])) for ty in TYPES]
    outs = parallel(chk, fns, workers=12 if quick else 14)
    lift_outs = outs[nlift0:nlift0 + len(TYPES)]
    ncases = sum(o for o in outs[1:len(jobs)] if isinstance(o, int))
    chk.log("laws checked, %d cases generated, recorded executions validated in %.1fs; waiting for the replays" % (ncases, time.time() - t0))

    # collect the replays
    tol_recs, fam_seen, by_action = [], {}, {}
    per_type = {ty: dict({"cases": 0, "results": 0, "extremes": 0, "driver_s": 0.0}, **{k: 0 for k in CLASSES if k != "extremes"}) for ty in TYPES}
    total_results = 0
    for job, ty, fut in pending:
        try:
            out = fut.get(timeout=3600)
        except tla.InfraError:
            raise
        except Exception as e:        # a worker process failed: tooling, never a verdict
            raise tla.InfraError("replay worker for %s on %s failed: %r" % (job, ty, e))
        if out["error"]:
            raise tla.InfraError(out["error"])
        if out["missing"]:
            raise tla.InfraError("vacuity guard: the driver reported no overload family for (case, operation, kind, element type): %s" % out["missing"][:6])
        chk.cov["evaluations"] += out["cases"]
        chk.cov["distinct_nontrivial"] += out["keys"]
        per_type[ty]["cases"] += out["cases"]
        per_type[ty]["results"] += out["results"]
        per_type[ty]["extremes"] += out["by_action"].get("Cmp/extremes", 0)
        for k in CLASSES:
            if k != "extremes":
                per_type[ty][k] += out["cls_results"].get(k, 0)
        per_type[ty]["driver_s"] = round(per_type[ty]["driver_s"] + out["wall"], 1)
        total_results += out["results"]
        tol_recs += out["tol"]
        for op, fs in out["fams"].items():
            fam_seen.setdefault(op, set()).update(fs)
        for a, k in out["by_action"].items():
            by_action[a] = by_action.get(a, 0) + k
        report_mismatches(chk, out)
    for a, k in by_action.items():
        chk.cov["action_counts"][a] = chk.cov["action_counts"].get(a, 0) + k
    chk.cov["overload_results_compared"] = total_results
    chk.cov["per_element_type"] = per_type
    chk.cov["overload_families"] = {op: sorted(fs) for op, fs in sorted(fam_seen.items())}
    chk.log("spec -> code: %d case evaluations on 10 element types, %d overload results compared, %d operations x families"
            % (chk.cov["evaluations"], total_results, sum(len(v) for v in fam_seen.values())))

    # tolerant results
    validate_tol(chk, tol_recs, "all", chunks=3 if quick else 6)
    lift_guards(chk, lift_outs)

    # vacuity guards: every case group, every operation of the statement, every family kind, every element type
    chk.require_actions(["Un", "Un/ties", "Un/bytes", "Bin", "Bin/zeros", "Bin/parallel", "Alias/alias", "Cmp", "Cmp/extremes", "Tern", "Conv",
                         "Conv/boundaries", "Tol", "Zero", "Mca/float-rhs", "Mca/wide-int-rhs"])
    chk.require_actions(TRACE_ACTIONS)
    need_ops = ["neg", "pos", "abs", "radd", "rmul", "rmin", "rmax", "argmax", "idx", "eqself", "stream", "lprod", "length", "add", "sub", "mul", "div",
                "mod", "min", "max", "dru", "dot", "cross", "eq", "ne", "anylt", "less", "interp", "clamp", "madd", "lerp", "splat", "conv", "v3from2",
                "v4from22", "v4from3", "repad", "sin0", "cos0", "length0", "safenorm0", "result-type"]
    for op in need_ops:
        if not fam_seen.get(op):
            raise tla.InfraError("vacuity guard: operation %s was never compared" % op)
    for fam in ["vv.uu", "vv.up", "vv.pu", "vv.pp", "vs.u", "vs.p", "sv.u", "sv.p", "vv.ca.up", "vs.ca.p", "vv", "vs", "sv", "vv.ca", "vs.ca"]:
        if fam not in fam_seen["add"]:
            raise tla.InfraError("vacuity guard: overload family %s of operator+ was never compared" % fam)
    if not any(".mx_" in f and ".ca" in f for f in fam_seen["mul"]) or not any(".mx_" in f and ".ca" not in f for f in fam_seen["mul"]):
        raise tla.InfraError("vacuity guard: mixed element type families were never compared")
    for ty in TYPES:
        if per_type[ty]["results"] == 0 or per_type[ty]["extremes"] == 0 or per_type[ty]["ties"] == 0:
            raise tla.InfraError("vacuity guard: nothing (or no extreme operands / no equal components) was compared for element type %s" % ty)
        for k in ("zeros", "parallel", "alias", "bytes", "boundaries"):
            if per_type[ty][k] == 0:
                raise tla.InfraError("vacuity guard: no case of class %s was compared for element type %s" % (k, ty))
        # compound assignment with a right-hand side of another arithmetic type: every integer element type must have been compared against
        # a fractional floating-point right-hand side and against an integer right-hand side outside the narrow types
        if ty not in ("f", "d") and (per_type[ty]["float-rhs"] == 0 or per_type[ty]["wide-int-rhs"] == 0):
            raise tla.InfraError("vacuity guard: no mixed-type compound assignment was compared for element type %s" % ty)
    for fam in ["vs.ca.alias", "vs.ca.alias.p", "vv.ca.alias", "vs.alias.u", "vv.alias"]:
        if not any(fam in fam_seen.get(op, ()) for op in ("add", "sub", "mul", "div")):
            raise tla.InfraError("vacuity guard: aliasing family %s was never compared" % fam)
    for fam in ["vs.ca.sx_f", "vs.ca.sx_d.u", "vs.ca.sx_i.p", "vs.ca.sx_l", "vv.ca.sx_f.p", "vv.ca.sx_d"]:
        if not any(fam in fam_seen.get(op, ()) for op in ("add", "sub", "mul", "div")):
            raise tla.InfraError("vacuity guard: compound-assignment family %s was never compared" % fam)
    if not any(f.startswith("vs.ca.sx_i") or f.startswith("vs.ca.sx_l") for f in fam_seen.get("mod", ())):
        raise tla.InfraError("vacuity guard: %= with a wider integer right-hand side was never compared")

    # samples
    for path in files:
        if len(chk.cov["samples"]) >= 3:
            break
        if "-bin-3-" in path or "-misc-4-" in path or "-bin-2-U" in path:
            cs = load_cases(path)
            c = cs[len(cs) // 2]
            chk.add_sample({"kind": "case", "case": {k: c[k] for k in ("a", "n", "arg", "exp")}})
    chk.add_sample({"kind": "lifting-law-input", "ty": "f", "case": lift_in["f"][0]}, maxn=5)
    chk.add_sample({"kind": "recorded-execution-prefix", "ty": trace_plan[0][0], "shape": trace_plan[0][1], "actions": trace_acts[trace_plan[0]][0][:8]})
    for path in files:
        try:
            os.remove(path)
        except OSError:
            pass

    chk.cov["exhaustive"] = True
    chk.cov["rule"] = ("cases = operand tuples enumerated by TLC at constant level from the lattices {-5,-3,-2,1,2,4,7} and {1,2,4,7,11,250}: all ordered "
                       "tuples with pairwise distinct components as first operand (N = 2, 3, 4), second operands = all tuples (N = 2; N = 3 thorough) or a "
                       "covering sample in which every tuple occurs as second operand (N = 3 quick: 4-6 per first operand, N = 4: 2 quick / 20-40 "
                       "thorough), exact-quotient tuples, comparison tuples for every pattern of {<,=,>}^N, tuples of extreme values per element type (comparisons, min / max), triples + weights for madd / interpolate_uv / "
                       "clamp / lerp, conversion tuples, Pythagorean tuples in every arrangement and sign pattern, tuples with equal components, compound assignments with "
                       "fractional floating-point and wide integer right-hand sides (every first operand N = 2, 3; every 4th for N = 4 quick); one evaluation = one case applied to one "
                       "element type (all overload families of the operation inside); distinct = distinct (case group, operands) per element type; "
                       "non-trivial = operands of a binary case not identical and not the zero vector; exhaustive refers to the N = 2 lattices (and N = 3 in "
                       "the thorough tier) - the samples for N = 3 / 4, the recorded random executions and the lifting-law records on general operands "
                       "(seeded random + edge values, every operator x family x element type x shape judged on at least 20 records) are on top")


def submit_meta(sub, pool, pending, meta_path, exe, uac):
    for ty in TYPES:
        pending.append((("meta", 0, "S", 0, 1), ty, pool.apply_async(replay_task, ((meta_path, ty, exe, uac, "c04-meta"),))))
    return None


def do_replay(chk, path):
    rep = json.load(open(path))
    exe = build.build("drv_vec")
    if rep["kind"] == "case":
        _, meta_path, _ = run_gen(chk, ("meta", 0, "S", 0, 1), 0)
        uac = next(c for c in load_cases(meta_path) if c["a"] == "Meta")["exp"]["uac"]
        os.remove(meta_path)
        c, ty = rep["case"], rep["ty"]
        res, rc, stderr, wall = adt.run_driver(exe, [[{"a": c["a"], "arg": c["arg"]}]], "c04-replay", meta={"ty": ty}, isolate=1 if c["a"] == "Mca" else 0)
        r = res.get(0)
        if r is not None and "crash" in r:
            mms = [{"op": c["a"], "fam": "sx_" + str(c["arg"].get("u", "")), "field": "crash", "expected": "a value", "observed": r["crash"]}]
        elif r is None or not r.get("obs"):
            raise tla.InfraError("driver gave no observation (rc=%s): %s" % (rc, stderr[-800:]))
        else:
            n, mms, fams, missing = compare_case(c, r["obs"][0], ty, uac)
        out = {"ty": ty, "mismatches": mms}
        for mm in mms:
            mm["case"] = c
        report_mismatches(chk, out)
        chk.cov["evaluations"] += 1
    elif rep["kind"] == "lift":
        lift_type(chk, exe, rep["ty"], [rep["case"]], tag="replay")
    elif rep["kind"] == "tol":
        c = {"a": "Tol", "arg": {"a": rep["a"]}}
        res, rc, stderr, wall = adt.run_driver(exe, [[c]], "c04-replay", meta={"ty": rep["ty"]})
        r = res.get(0)
        if r is None or not r.get("obs"):
            raise tla.InfraError("driver gave no observation (rc=%s): %s" % (rc, stderr[-800:]))
        recs = [{"ty": rep["ty"], "fam": fam, "a": rep["a"], "r": rec} for fam, rec in r["obs"][0].items() if fam == rep["fam"]]
        validate_tol(chk, recs, "replay", chunks=1)
    else:
        adtcheck.record_and_validate(chk, exe, SPEC, "VecTrace", "VecTrace.cfg", [rep["actions"]], "c04-replay", rep["sig_prefix"], meta=rep.get("meta"))
    chk.cov["evaluations"] = max(chk.cov["evaluations"], 1)
    chk.cov["distinct_nontrivial"] = max(chk.cov["distinct_nontrivial"], 2)
    chk.cov["rule"] = "replay of one saved artefact"
    chk.add_sample({"kind": "replay", "artefact": os.path.basename(path)})
