"""C02 - scheduled and async tasks run exactly once and deliver their result safely."""
import json, os, random, subprocess, time
from .. import tla, build, trace, funcheck, adt
from ..tla import VERIF, WORK, InfraError

LEVEL = "model_checking"
LEVEL_TEXT = ("The contract Tasks (each function executed exactly once and eventually with an idle caller, get() yields exactly the returned value, "
              "finished() = true only after the function returned, destruction waits for the task, no operation of the result type on storage that "
              "holds no live object) is model-checked on a bounded instance against the declarative reading of the statement; bursts of schedule() "
              "follow the exactly-once contract of ParallelFor.  The Internal backend's scheduler model (EnkiTS.tla: no touch of a task object after "
              "its release, negative control = the self-deleting task of the pinned code) is checked under all interleavings.  All TLC-generated "
              "scenarios (AsyncTask x 5 result types incl. an instrumented and a slow-to-construct one x 6 consumption flows x fast/slow function; "
              "async() futures; bursts of 1..30000 closures owning heap state; closures scheduled from inside a scheduled closure) run on the real code of all four backends, built with AddressSanitizer "
              "(library included); every recorded execution is validated by TLC against the contract; a sanitizer report or crash is an Abort line, "
              "which the contract does not allow.")
LEVEL_NOTE = ("'eventually' is bounded (3-15 s of an idle caller); schedule() from several external threads at once and a tasking system initialised "
              "with a single thread on the Internal backend (no worker exists: nothing runs while the caller is idle) are outside the stated quantifier "
              "and not exercised; memory-safety clause observed through AddressSanitizer; trusted: TLC, recorder stamps (one atomic counter)")
TECHNIQUE = "TLA+ contract + TLC; TLC-generated scenarios on 4 ASan-instrumented backends; TLC trace validation; PlusCal scheduler model with release ghost"

SPEC = os.path.join(VERIF, "spec", "tasking")


BURSTY = ("burst", "nested", "reinit", "chain")


def run_driver(exe, scenarios, threads, tag, timeout=300):
    d = os.path.join(WORK, "run", tag)
    os.makedirs(d, exist_ok=True)
    inp = os.path.join(d, "sc-%d.ndjson" % os.getpid())
    outp = os.path.join(d, "ev-%d.ndjson" % os.getpid())
    results = {}
    pending = list(range(len(scenarios)))
    rounds = 0
    hangs = 0
    env = dict(os.environ)
    env.update(adt.SAN_ENV)
    while pending and rounds < len(scenarios) + 10:
        rounds += 1
        if os.path.exists(outp):
            os.remove(outp)
        with open(inp, "w") as f:
            for i in pending:
                s = dict(scenarios[i])
                s["id"] = i
                f.write(json.dumps(s, separators=(",", ":")) + "\n")
        try:
            p = subprocess.run([exe, "--in", inp, "--out", outp, "--threads", str(threads)], env=env, stdout=subprocess.PIPE, stderr=subprocess.STDOUT, timeout=timeout)
            rc = p.returncode
            err = p.stdout.decode(errors="replace")
        except subprocess.TimeoutExpired:
            rc = "timeout"
            err = ""
        if os.path.exists(outp):
            for line in open(outp):
                line = line.strip()
                if line:
                    try:
                        j = json.loads(line)
                    except ValueError:
                        continue
                    results[j["id"]] = j
        rest = [i for i in pending if i not in results]
        if not rest:
            break
        # the first scenario without a result is the one that ended the process
        why = "hang: no result within %ds" % timeout if rc == "timeout" else "process died rc=%s" % rc
        san = ""
        for marker in ("ERROR: AddressSanitizer", "runtime error:", "double free", "ThreadSanitizer"):
            k = err.find(marker)
            if k >= 0:
                san = err[k:k + 700]
                break
        results[rest[0]] = {"id": rest[0], "events": [{"ev": "Abort", "why": why, "report": san or err[-500:]}]}
        pending = rest[1:]
        hangs += 1 if rc == "timeout" else 0
        if hangs >= 3 and pending:
            # enough evidence that scheduled work does not finish on this tree; the remaining scenarios are not run
            for i in pending:
                results[i] = {"id": i, "skipped": True, "events": []}
            break
    for pth in (inp, outp):
        try:
            os.remove(pth)
        except OSError:
            pass
    return results


def classify(backend, sc, evs, k):
    ev = evs[k]
    kind = {"atask": "AsyncTask<%s>" % sc["type"], "async": "async<%s>" % sc["type"], "burst": "schedule", "nested": "schedule-from-scheduled-closure", "reinit": "schedule-then-initTaskingSystem", "chain": "schedule-back-to-back-with-dependency"}[sc["kind"]]
    what = ev.get("ev")
    if what == "Abort":
        rep = ev.get("report", "") + ev.get("why", "")
        if "dependency starved" in rep:
            field = "queued-closure-not-started-while-workers-idle"
        elif "heap-use-after-free" in rep:
            field = "use-after-free"
        elif "AddressSanitizer" in rep or "double free" in rep or "died" in rep:
            field = "crash"
        elif "hang" in rep:
            field = "hang"
        elif "destroyed while it runs" in rep:
            field = "closure-destroyed-while-running"
        else:
            field = "abort"
    elif what == "P":
        field = "result-%s-on-dead-storage" % ev.get("op")
    elif what == "Get":
        field = "get-value-or-order"
    elif what == "Finished":
        field = "finished-true-before-return"
    elif what == "End":
        field = "function-not-run"
    elif what == "Return":
        field = "closures-not-all-run-once"
    elif what == "ExecBegin":
        field = "closure-run-twice"
    else:
        field = str(what) + "-rejected"
    flow = sc["flow"] if sc["kind"] not in BURSTY else "n=%d" % sc["n"]
    return "%s/%s(%s)/%s" % (backend, kind, flow if field in ("hang", "function-not-run", "get-value-or-order") else "*", field)


def run(chk, replay=None):
    quick = chk.tier == "quick"
    chk.assumptions += [
        "bounded waiting: an idle caller waits 3-15 s for scheduled functions before the scenario is ended",
        "the tasking system is initialised with >= 2 threads; schedule() is called from the initialising thread only",
    ]
    if replay:
        return do_replay(chk, replay)
    r = tla.run_tlc(os.path.join(SPEC, "TasksMC.tla"), os.path.join(SPEC, "TasksMC.cfg"), workers=8, timeout=900, deadlock=True)
    chk.require_model_ok("TasksMC", r, "contract rules imply: exactly once, get = returned value, finished only after return, no run after destroy, lifetimes alternate")
    from . import c01_mech
    c01_mech.run_models(chk, quick, which=("sched",))
    # mechanism model of AsyncTask's member construction order: the repaired order (result member before the task member)
    # holds for asynchronous and synchronous (Debug) task start; the order of the pinned code is the negative control
    for rf, sy, expect in (("TRUE", "TRUE", True), ("TRUE", "FALSE", True), ("FALSE", "TRUE", False), ("FALSE", "FALSE", False)):
        cfg = "AsyncTaskCtor_%s_%s.cfg" % (rf, sy)
        r = tla.run_tlc(os.path.join(SPEC, "AsyncTaskCtor.tla"), os.path.join(SPEC, cfg), workers=2, timeout=300, deadlock=True)
        if expect:
            chk.require_model_ok("AsyncTaskCtor/" + cfg, r, "result member constructed before the task starts: no assignment to raw storage, get() yields the value")
        else:
            if r.ok:
                raise InfraError("negative control %s was not refuted" % cfg)
            chk.add_model("AsyncTaskCtor/" + cfg, r, "negative control (task member declared before the result member) -> refuted (%s)" % r.violated)

    scen = funcheck.gen_cases(chk, SPEC, "TasksGen", "TasksGen.cfg", "c02-gen", what="scenario space")
    scen.sort(key=lambda s: json.dumps(s, sort_keys=True))
    plans = [("TBB", 4), ("OpenMP", 4), ("Internal", 4), ("Debug", 4)]
    if not quick:
        plans += [("Internal", 2), ("Internal", 8), ("TBB", 2), ("TBB", 8), ("OpenMP", 2)]
    if os.environ.get("VERIF_C02_PLANS"):
        plans = [(x.split(":")[0], int(x.split(":")[1])) for x in os.environ["VERIF_C02_PLANS"].split(",")]
    reps = 1 if quick else 3
    for backend, threads in plans:
        exe = build.build("drv_tasks", backend=backend, san="address")
        mine = [s for s in scen for _ in range(reps if s["kind"] not in BURSTY else 1)]
        if backend == "Debug":
            # schedule() is synchronous there: a closure scheduling 3000 closures recursively is just deep recursion
            mine = [s for s in mine if not (s["kind"] == "nested" and s["n"] > 600)]
        # chains need a worker per closure: not on the serial Debug back end (schedule() runs the closure inline), and the
        # chain length stays below the number of workers
        mine = [s for s in mine if not (s["kind"] == "chain" and (backend == "Debug" or s["n"] > threads - 1))]
        if backend == "OpenMP":
            # schedule() starts one detached std::thread per closure there: a burst of 30000 is a test of the
            # operating system's thread limits, not of the property - bursts stop at 1000 on this backend
            mine = [s for s in mine if not (s["kind"] in BURSTY and s["n"] > 1000)]
        t0 = time.time()
        res = run_driver(exe, mine, threads, "c02-%s-%d" % (backend, threads))
        nskip = sum(1 for i in range(len(mine)) if res.get(i, {}).get("skipped"))
        if nskip:
            chk.note("%s T=%d: %d scenarios were not executed after 3 scenarios hung" % (backend, threads, nskip))
            mine = [s for i, s in enumerate(mine) if not res[i].get("skipped")]
            res = dict(enumerate(r for _, r in sorted(res.items()) if not r.get("skipped")))
        for kind, module in (("task", "TasksTrace"), ("burst", "ParallelForTrace")):
            idx = [i for i, s in enumerate(mine) if (s["kind"] in BURSTY) == (kind == "burst")]
            execs = [res[i]["events"] for i in idx]
            acc, rej, stats = trace.validate(os.path.join(SPEC, module + ".tla"), os.path.join(SPEC, module + ".cfg"), execs,
                                             "c02-%s-%d-%s" % (backend, threads, kind), reset_key="ev", max_rejections=10, timeout=1200)
            chk.cov["traces_validated_against_impl"] += acc + len(rej)
            chk.cov["events_validated"] = chk.cov.get("events_validated", 0) + stats["events"]
            chk.log("%s T=%d %s scenarios: %d executed, %d accepted / %d rejected by %s (%d events)"
                    % (backend, threads, kind, len(idx), acc, len(rej), module, stats["events"]))
            for rj in rej:
                s = mine[idx[rj["exec"]]]
                evs = execs[rj["exec"]]
                sig = classify(backend, s, evs, rj["line"])
                what = "%s backend, %d threads, scenario %s: event %d %s is not allowed by %s" % (
                    backend, threads, json.dumps(s, sort_keys=True), rj["line"], json.dumps(evs[rj["line"]])[:600], module)
                chk.violation(sig, what, {"kind": "tasks", "backend": backend, "threads": threads, "scenario": s,
                                          "events_tail": evs[max(0, rj["line"] - 25):rj["line"] + 1], "rejected_at": rj["line"]})
        chk.cov["evaluations"] += len(mine)
        chk.cov["distinct_nontrivial"] += len({json.dumps(s, sort_keys=True) for s in mine})
        if backend == "TBB" and threads == 4:
            k = next((i for i, s in enumerate(mine) if s["kind"] == "atask" and s["type"] == "tracked" and s["flow"] == "poll_get"), 0)
            chk.add_sample({"kind": "recorded-execution", "backend": backend, "scenario": mine[k], "events": res[k]["events"][:30]})
        chk.log("%s T=%d done in %.1fs" % (backend, threads, time.time() - t0))
    chk.cov["rule"] = ("one execution per (scenario, backend, thread count[, repetition]); scenarios = all elements of Scenarios in TasksGen.tla; "
                       "distinct = distinct scenario records per plan; all are non-trivial (each schedules at least one function)")


def do_replay(chk, path):
    rep = json.load(open(path))
    backend, threads, s = rep["backend"], rep["threads"], rep["scenario"]
    exe = build.build("drv_tasks", backend=backend, san="address")
    n = 20
    res = run_driver(exe, [s] * n, threads, "c02-replay")
    module = "ParallelForTrace" if s["kind"] in BURSTY else "TasksTrace"
    execs = [res[i]["events"] for i in range(n)]
    acc, rej, stats = trace.validate(os.path.join(SPEC, module + ".tla"), os.path.join(SPEC, module + ".cfg"), execs, "c02-replay", reset_key="ev", max_rejections=3)
    chk.cov["evaluations"] += n
    chk.cov["traces_validated_against_impl"] += acc + len(rej)
    for rj in rej:
        evs = execs[rj["exec"]]
        chk.violation(classify(backend, s, evs, rj["line"]), "replay: event %s rejected" % json.dumps(evs[rj["line"]])[:300],
                      {"kind": "tasks", "backend": backend, "threads": threads, "scenario": s, "rejected_at": rj["line"]})
