"""C07 - scalar math kernels meet accuracy and range contracts for every float (rkmath.h, vec.h packing, random.h).

Code -> spec on IEEE-754 BIT PATTERNS: the driver evaluates the real kernels and records input / output patterns
(16-bit halves, integers as limbs); TLC (ScalarKernelsValidate) decides every recorded result in exact integer
arithmetic against the contracts of ScalarKernels.tla.  Spec -> code: TLC (ScalarKernelsGen) enumerates the operand
grids of the binary / ternary kernels and, where the property determines the result, the expected value.
Python moves data only: starts the tools, regroups records, compares expected with observed for equality."""
import json, os, random, struct, time
from concurrent.futures import ThreadPoolExecutor
from .. import tla, build, adt, funcheck
from ..tla import VERIF

LEVEL = "exploration"
LEVEL_TEXT = ("TLC model-checks the laws of the specification itself: for EVERY pair of floats of a toy format (4 fraction bits, 4 exponent bits: the same "
              "operators as binary32 with other constants) each decision made on limbs (relative-error contracts of rcp / rsqrt, rcp_safe, order by bit "
              "pattern, neighbours, decode / encode, exact add / subtract / compare) equals the decision by plain integer arithmetic, the contracts are "
              "satisfiable at the format's precision and tell a coarser estimate apart; at constant level the limb arithmetic, binary32 anchors (the 2^-20 "
              "bound itself, an estimate without Newton-Raphson step, the ends of the stated range), the pi bracket, uniqueness of divRoundUp, clamp and "
              "negative controls of every table / stream law.  The driver then evaluates rcp, rsqrt, rcp_safe and sign on ALL 2^32 bit patterns in the SIMD "
              "and in the RKCOMMON_NO_SIMD build and records, per sign and biased exponent, the inputs with the largest deviation by a double-precision "
              "estimate, every input flagged by a cheap class test, a boundary set and seeded random patterns; TLC decides each recorded (input, output) "
              "pattern pair exactly (|x*r - 1| <= 2^-20 and (1-2^-20)^2 <= r^2*x <= (1+2^-20)^2 on 48- / 72-bit products).  clamp, divRoundUp (8 integer "
              "types up to the type's maximum, as limbs), sign, lerp, madd, deg2rad are evaluated on grids TLC enumerates (dyadic lattice: exact expected "
              "values; bit patterns: judged by TLC against the definitions, pi bracketed to 2^-60).  The 8-bit packing is decided on complete run-length "
              "encoded tables over all non-NaN floats (cvt_uint32(float) and the red channel of linear_to_srgba8; in the thorough tier every channel of "
              "cvt_uint32(vec4f) and linear_to_srgba8) "
              "and on sampled channel tables with varied other channels plus packed vectors; the distributions on recorded stream pairs")
LEVEL_NOTE = ("The exhaustive 2^32 sweep is done by the driver as a SELECTION pre-filter (double-precision estimate of the deviation, per binade and sign, top-k); "
              "TLC judges only the selected records, exactly.  Missed: an input whose true deviation exceeds 2^-20 while the double estimate ranks it below "
              "the k recorded inputs of its binade - the estimate is accurate to 2^-50 relative, so none unless the estimate itself is wrong by more than the "
              "gap between 2^-20 and the recorded maximum.  Both variants run (checked by disassembly and by the count of patterns where rcp(x) differs from "
              "1.f/x: 1.8e9 in the SIMD build, 0 in the NO_SIMD build).  Readings decided from the statement's wording: (1) 'never of the opposite sign to x': "
              "x and r are of opposite sign when x*r < 0; a zero (either pattern) is a number without sign, so rcp_safe(-0.0f) = +2^126 is NOT counted as a "
              "violation (it is recorded and reported in the notes); (2) clamp with lower > upper, any NaN operand, divRoundUp with a < 0 or b <= 0, packing of "
              "NaN, distributions with lower > upper: the statement is silent, left unconstrained; (3) 'to within one rounding step': one unit in the last "
              "place at the larger-magnitude end of [lower, upper] (the rounding of upper - lower alone can exceed upper by that much); (4) madd / lerp 'match "
              "their definitions': exactly on the dyadic lattice (all roundings exact), within the accumulated rounding bound of the expression (2 resp. 4 "
              "half-units relative to the magnitudes of the terms) on random finite patterns; deg2rad: |180 r - x pi| <= 2^-22 |x pi| with pi bracketed by "
              "two dyadic numbers 2^-60 apart; only float instantiations of lerp (also double on the lattice) / deg2rad are exercised; (5) 'monotone, "
              "saturating, per-channel' is decided on the packed bytes (0 for x <= 0, 255 for x >= 1), the float-valued linear_to_srgb is not judged by "
              "itself.  Complete tables over all floats: cvt_uint32(float) and channel x of linear_to_srgba8 in both tiers, all eight channel tables of the two "
              "vec4f packing functions only in the thorough tier (other channels held at 1, 0, 1); the influence of the other channels is decided on sampled "
              "tables (k/4096, every float next to a step, specials; three settings of the other channels) and 400 / 5000 packed vectors.  Every run also "
              "feeds TLC ten of its own records with one field altered and requires their rejection.  At most 12 signatures are reported per (function, "
              "build, clause); further rejected records are counted in the notes.  Trusted: TLC, g++, the driver's "
              "conversion between values and bit patterns / limbs, the decimal digits of pi.  Boundary audit (type variants, extremes): (6) rcp(double) / rsqrt(double) "
              "are outside the statement ('for every float x', a 2^-20 bound and a range that are binary32's); rcp_safe(double), clamp<double>, lerp<double>, "
              "deg2rad<double> (within 2^-50) ARE judged, on binary64 patterns (four 16-bit quarters, 53-bit mantissa on limbs) from an edge grid (zeros, "
              "denormals, the ends of the binary32 range, DBL_MAX) plus random patterns - not exhaustively; (7) lerp<T> for the 8 integer types is judged "
              "(exact value of the expression, truncated, within the binary32 rounding bound + 1; stated only when the exact value is a value of T); "
              "clamp / divRoundUp operands include the neighbourhoods of 2^7, 2^8, 2^15, 2^16, 2^24, 2^31, 2^32 and the ends of every type; sign and madd are "
              "float-only functions (no integer overloads), deg2rad<integer> and divRoundUp<float> are not exercised (the notions do not apply); (8) every lane "
              "of the vec_t liftings rcp / rcp_safe (vec2f, vec3f, padded vec3fa, vec4f), madd (vec3f, vec3fa) and lerp<vec_t> is judged by the scalar contract "
              "on edge and random lanes in both builds (that the lifting is lane-by-lane IDENTICAL to the scalar function is C04's claim, not repeated here); "
              "(9) madd / lerp are stated only when no exact intermediate value (plus its bound) leaves the finite range - an overflowing evaluation may or may "
              "not return an infinity; (10) distributions: lower == upper at zeros, denormals and FLT_MAX, ranges one float wide, denormal ranges, ranges whose "
              "width is FLT_MAX and ranges whose width is not a float any more, streams of 4100 / 65600 draws, a full period of makeRandomColor; (11) distribution OBJECTS are "
              "abstract data types without abstract state (ScalarKernelsDistADT: New / Copy / Draw(generator type, 1 or 20 values) on uniform_real_distribution<float / double>, "
              "pcg32_biased_float_distribution (state = stream position only) and makeRandomColor in four orders): histories from TLC's state graph (all paths up to a budgeted "
              "length, one history per transition label, seeded walks) hand ONE object (and copies of a used object) pcg32, mt19937_64, minstd_rand, ranlux24 and a "
              "range-end generator in every order; per Draw TLC decides that the used / copied object returned exactly what a fresh object fed a twin generator returned, that each "
              "value is l + (raw - min)(u - l) / (max - min) within the accumulated rounding bound (exact arithmetic on the recorded raw output), and the range clause; ranges wider "
              "than FLT_MAX are not part of the histories (they stay judged - and known - on the stream records)")
TECHNIQUE = ("TLA+ specification of IEEE-754 bit patterns and exact dyadic arithmetic on limbs; laws model-checked by TLC on a complete toy format; "
             "exhaustive 2^32 driver sweep as selection, TLC validation of every recorded result; TLC-enumerated operand grids replayed on the real functions")
SPEC = os.path.join(VERIF, "spec", "math")
VARIANTS = [("simd", None), ("nosimd", ["RKCOMMON_NO_SIMD=ON"])]
BIG_STACK = {"JDK_JAVA_OPTIONS": "-Xss64m"}      # read by the java launcher itself: also sizes the main thread, where TLC evaluates ASSUMEs
SIG_CAP = 12      # distinct signatures reported per (function, variant, failed clause)

FN_OF = {"rcp": "rkmath.h/rcp", "rsqrt": "rkmath.h/rsqrt", "rcp_safe": "rkmath.h/rcp_safe", "sign": "rkmath.h/sign", "clampf": "rkmath.h/clamp",
         "clampi": "rkmath.h/clamp", "dru": "rkmath.h/divRoundUp", "madd": "rkmath.h/madd", "lerp": "rkmath.h/lerp", "deg2rad": "rkmath.h/deg2rad"}
ACTION_OF = {"rcp": "Rcp", "rsqrt": "Rsqrt", "rcp_safe": "RcpSafe", "sign": "Sign"}
TABLE_FN = {"cvt_f": "vec.h/cvt_uint32(float)", "cvt_v": "vec.h/cvt_uint32(vec4f)", "srgba8": "vec.h/linear_to_srgba8"}
DIST_FN = {"pcg_biased": "random.h/pcg32_biased_float_distribution", "urd_pcg32": "random.h/uniform_real_distribution<float>(pcg32)",
           "urd_mt19937": "random.h/uniform_real_distribution<float>(mt19937)", "urd_minstd": "random.h/uniform_real_distribution<float>(minstd_rand)",
           "urd_edge": "random.h/uniform_real_distribution<float>(range-end-generator)", "color": "random.h/makeRandomColor"}


# ---------------------------------------------------------------------------------------------
# small data movers
# ---------------------------------------------------------------------------------------------
def halves(u):
    return [(u >> 16) & 0xffff, u & 0xffff]


def pattern(h):
    return (h[0] << 16) | h[1]


def limbs(n):
    neg = n < 0
    n = abs(n)
    m = []
    while True:
        m.append(n & 32767)
        n >>= 15
        if not n:
            break
    return {"n": 1 if neg and m != [0] else 0, "m": m}


def unlimbs(z):
    v = 0
    for d in reversed(z["m"]):
        v = (v << 15) | d
    return -v if z["n"] else v


def run_steps(exe, steps, tag, timeout=3000):
    """One history per step.  Returns the list of observations (None where the driver reported an exception)."""
    res, rc, stderr, wall = adt.run_driver(exe, [[{"a": s["a"], "arg": s["arg"]}] for s in steps], tag, timeout=timeout)
    out = []
    for i in range(len(steps)):
        r = res.get(i)
        if r is None or not r.get("obs"):
            raise tla.InfraError("driver %s gave no observation for step %d %s (rc=%s): %s" % (exe, i, json.dumps(steps[i])[:200], rc, stderr[-1500:]))
        o = r["obs"][0]
        if "unexpected_exception" in o:
            raise tla.InfraError("driver could not perform %s: %s" % (json.dumps(steps[i])[:300], o["unexpected_exception"]))
        out.append(o)
    return out


# ---------------------------------------------------------------------------------------------
# code -> spec: TLC judges records
# ---------------------------------------------------------------------------------------------
def tlc_judge(chk, recs, tag, chunks=4):
    """recs: list of record dicts (without id).  Returns ({index: (failed list, cls)}, judged count)."""
    if not recs:
        return {}, 0
    d = os.path.join(tla.WORK, "run", "c07-" + tag)
    os.makedirs(d, exist_ok=True)
    big = [i for i, r in enumerate(recs) if r["k"] in ("pack", "runs")]
    small = [i for i, r in enumerate(recs) if r["k"] not in ("pack", "runs")]
    parts = [[i] for i in big] + [small[k::chunks] for k in range(chunks) if small[k::chunks]]

    def one(k):
        inp = os.path.join(d, "obs-%d-%d.ndjson" % (os.getpid(), k))
        outp = os.path.join(d, "rej-%d-%d.ndjson" % (os.getpid(), k))
        with open(inp, "w") as f:
            for i in parts[k]:
                o = dict(recs[i])
                o["id"] = i
                f.write(json.dumps(o, separators=(",", ":")) + "\n")
        if os.path.exists(outp):
            os.remove(outp)
        r = tla.run_tlc(os.path.join(SPEC, "ScalarKernelsValidate.tla"), os.path.join(SPEC, "ScalarKernelsValidate.cfg"), workers=1, timeout=2400,
                        env={"C07_OBS": inp, "OUT": outp, "JDK_JAVA_OPTIONS": "-Xss64m"}, tag="c07-val-%s-%d" % (tag, k), xmx="4g")
        if not r.ok or "C07-VALIDATED" not in r.out or not os.path.exists(outp):
            raise tla.InfraError("ScalarKernelsValidate failed: violated=%s error=%s\n%s" % (r.violated, r.error, r.out[-2500:]))
        with open(outp) as f:
            lines = [json.loads(x) for x in f if x.strip()]
        os.remove(outp)
        os.remove(inp)
        return lines

    t0 = time.time()
    with ThreadPoolExecutor(max_workers=min(len(parts), 8)) as ex:
        outs = list(ex.map(one, range(len(parts))))
    rej, judged, total = {}, 0, 0
    for lines in outs:
        for j in lines:
            if j.get("summary"):
                judged += j["judged"]
                total += j["total"]
            else:
                rej[j["id"]] = (sorted(j["failed"]), j.get("cls") or {})
    if total != len(recs):
        raise tla.InfraError("ScalarKernelsValidate read %d of %d records" % (total, len(recs)))
    chk.log("TLC judged %d of %d recorded results (%s; the others lie outside the statement), %d rejected, %.1fs" % (judged, len(recs), tag, len(rej), time.time() - t0))
    return rej, judged


def signature(item, failed, cls):
    rec, k = item["rec"], item["rec"]["k"]
    if item.get("lift"):      # a lane of the vec_t lifting of the kernel (vec.h)
        dom = ("Record(binade=%s,sign=%s)" % (cls.get("binade"), cls.get("sign")) if k == "rcp" else
               "Record(class=%s,sign=%s)" % (cls.get("class"), cls.get("sign")) if k == "rcp_safe" else "Lane(%s)" % item.get("origin", "grid"))
        return "vec.h/%s(%s,%s)/%s/%s" % (k, item["lift"], item["variant"], dom, failed)
    if k == "rcp_safed":
        return "rkmath.h/rcp_safe(double)/Record(class=%s,sign=%s)/%s" % (cls.get("class"), cls.get("sign"), failed)
    if k == "clampd":
        return "rkmath.h/clamp(d,%s)/%s" % (cls.get("class"), failed)
    if k == "deg2radd":
        return "rkmath.h/deg2rad(double,%s)/%s" % (cls.get("class"), failed)
    if k == "lerpd":
        return "rkmath.h/lerp(double,%s)/%s" % (item.get("origin", "grid"), failed)
    if k == "lerpi":
        return "rkmath.h/lerp(%s,%s)/%s" % (item["step"]["arg"]["ty"], cls.get("class"), failed)
    if k in ("rcp", "rsqrt"):
        return "%s(%s)/Record(binade=%s,sign=%s)/%s" % (FN_OF[k], item["variant"], cls.get("binade"), cls.get("sign"), failed)
    if k == "rcp_safe":
        return "%s(%s)/Record(class=%s,sign=%s)/%s" % (FN_OF[k], item["variant"], cls.get("class"), cls.get("sign"), failed)
    if k == "sign":
        return "%s/Record(class=%s,sign=%s)/%s" % (FN_OF[k], cls.get("class"), cls.get("sign"), failed)
    if k in ("clampf", "clampi"):
        return "%s(%s,%s)/%s" % (FN_OF[k], item["step"]["arg"]["ty"], cls.get("class"), failed)
    if k == "dru":
        return "%s(%s,%s)/%s" % (FN_OF[k], item["step"]["arg"]["ty"], cls.get("class"), failed)
    if k == "deg2rad":
        return "%s(float,%s)/%s" % (FN_OF[k], cls.get("class"), failed)
    if k in ("madd", "lerp"):
        return "%s(float,%s)/%s" % (FN_OF[k], item.get("origin", "grid"), failed)
    if k == "runs":
        a = item["step"]["arg"]
        return "%s/Table(all-floats%s)/%s" % (TABLE_FN[a["fn"]], ",channel=%d" % a["c"] if a["fn"] != "cvt_f" else "", failed)
    if k == "pack":
        return "%s/Table(sampled-channels)/%s" % (TABLE_FN[item["step"]["arg"]["fn"]], failed)
    if k == "dhist":
        if failed == "range" and cls.get("class") == "(upper-lower)/(max-min)<MIN_NORMAL":      # one code site whatever the generator / the object's history
            return "%s/Stream(%s)/range" % (HIST_FN[rec["kind"]], cls["class"])
        return "%s/Draw(%s,%s)/%s" % (HIST_FN[rec["kind"]], cls.get("gen", "-"), cls.get("class", "-"), failed)
    if k == "dist":
        fn = DIST_FN[item["step"]["arg"]["kind"]]
        if cls.get("class") == "upper-lower>FLT_MAX":      # one code site whatever the generator: the width is computed as upper - lower
            fn = fn.split("(")[0]
        return "%s/Stream(%s)/%s" % (fn, cls.get("class", "lower<=upper"), failed)
    return "rkcommon/%s/%s" % (k, failed)


HIST_FN = {"urd_f": "random.h/uniform_real_distribution<float>", "urd_d": "random.h/uniform_real_distribution<double>",
           "biased": "random.h/pcg32_biased_float_distribution", "color": "random.h/makeRandomColor"}
OUTPUTS = {"dhist": ["steps"], "runs": ["runs", "truncated"], "pack": ["tabs", "vecs"], "dist": ["a", "b"], "dru": ["q"]}


def template(rec):
    """The record without the observed fields."""
    return {k: v for k, v in rec.items() if k not in OUTPUTS.get(rec["k"], ["r"])}


def rebuild_record(item, obs):
    """The record TLC judges, from the step's arguments and a (new) observation of the driver."""
    rec = dict(item["rec"])
    k = rec["k"]
    if k in ("runs",):
        rec["runs"], rec["truncated"] = obs["runs"], obs["truncated"]
    elif k == "pack":
        rec["tabs"], rec["vecs"] = obs["tabs"], obs["vecs"]
    elif k == "dist":
        rec["a"], rec["b"] = obs["a"], obs["b"]
    elif k == "dhist":
        rec["steps"] = hist_steps(item["step"]["arg"]["steps"], obs["steps"])
    elif k == "dru":
        rec["q"] = obs["q"]
    elif "lane" in item:
        rec["r"] = obs["r"][item["lane"]]
    else:
        rec["r"] = obs["r"]
    return rec


def short(rec):
    s = {k: v for k, v in rec.items() if k not in ("runs", "tabs", "vecs", "steps")}
    if "steps" in rec:      # the first step whose used object and fresh object differ, else the plan only
        s["plan"] = [[st["a"], st.get("gen"), st.get("cls")] for st in rec["steps"]]
        for st in rec["steps"]:
            if st["a"] == "Draw" and st["v"] != st["fv"]:
                j = next(i for i in range(min(len(st["v"]), len(st["fv"]))) if st["v"][i] != st["fv"][i]) if len(st["v"]) == len(st["fv"]) else 0
                s["first_difference"] = {"gen": st["gen"], "cls": st["cls"], "draw": j, "raw": unlimbs({"n": 0, "m": st["raws"][j]}) if j < len(st["raws"]) else None,
                                         "used_object": st["v"][j:j + 1], "fresh_object": st["fv"][j:j + 1]}
                break
    if "runs" in rec:
        s["runs"] = "%d runs" % len(rec["runs"])
    if "tabs" in rec:
        s["tabs"] = "%s families, %d vectors" % ([len(t) for t in rec["tabs"]], len(rec["vecs"]))
    return json.dumps(s)[:600]


def judge_items(chk, exes, items, tag, chunks=4, before_report=None):
    """TLC judges the records; a rejected record is evaluated on the real code once more and judged again before it is reported."""
    rej, judged = tlc_judge(chk, [it["rec"] for it in items], tag, chunks)
    if before_report:
        before_report()
    nreal = sum(1 for it in items if not it.get("control") and it["rec"]["k"] != "distinct")
    chk.cov["evaluations"] += nreal
    chk.cov["traces_validated_against_impl"] += nreal
    chk.cov["records_in_the_stated_domain"] = chk.cov.get("records_in_the_stated_domain", 0) + judged
    # corruption controls: records of this run with one field altered must be rejected (they are not findings)
    controls = [i for i, it in enumerate(items) if it.get("control")]
    missed = [items[i]["control"] for i in controls if i not in rej]
    if missed:
        raise tla.InfraError("corruption control(s) accepted by ScalarKernelsValidate: %s" % missed)
    for i in controls:
        del rej[i]
    chk.cov["corruption_controls_rejected"] = chk.cov.get("corruption_controls_rejected", 0) + len(controls)
    vac = [i for i in rej if items[i]["rec"]["k"] == "distinct"]
    if vac:
        raise tla.InfraError("vacuity guard: the streams recorded for different seeds / sequence ids are identical (%s): reproducibility is not exercised"
                             % json.dumps(items[vac[0]]["step"])[:300])
    for i in rej:
        g = [f for f in rej[i][0] if f.startswith("guard:")]
        if g:
            raise tla.InfraError("binding guard of a distribution-object history failed (%s): the scenario was not exercised as planned: %s"
                                 % (g, json.dumps(items[i]["step"])[:400]))
    for i, it in enumerate(items):
        if it["rec"].get("truncated") and i not in rej:
            raise tla.InfraError("a table was cut off by the recorder (more than 4096 runs) and its prefix shows no failure: cannot be decided")
    if not rej:
        return 0
    idx = sorted(rej)
    # second evaluation (deterministic functions: the same record is expected)
    again = {}
    for variant in sorted({items[i]["variant"] for i in idx}):
        sel = [i for i in idx if items[i]["variant"] == variant]
        obs = run_steps(exes[variant], [items[i]["step"] for i in sel], "c07-recheck-" + variant)
        for i, o in zip(sel, obs):
            again[i] = rebuild_record(items[i], o)
    rej2, _ = tlc_judge(chk, [again[i] for i in idx], tag + "-recheck", chunks=1)
    counts = {}
    nrep = 0
    for pos, i in enumerate(idx):
        if pos not in rej2:
            chk.note("a record rejected once was accepted when the evaluation was repeated: %s" % short(items[i]["rec"]))
            continue
        failed_list, cls = rej2[pos]
        for failed in failed_list:
            it = items[i]
            sig = signature(it, failed, cls)
            fam = (it["rec"]["k"], it["variant"], failed)
            seen = counts.setdefault(fam, set())
            if sig not in seen and len(seen) >= SIG_CAP:
                counts[fam + ("more",)] = counts.get(fam + ("more",), 0) + 1
                continue
            seen.add(sig)
            what = ("%s (%s build): TLC rejects the recorded result, clause '%s': %s" % (sig.split("/Record")[0].split("/Table")[0], it["variant"], failed, short(again[i])))
            chk.violation(sig, what, {"kind": "record", "property": chk.pid, "variant": it["variant"], "step": it["step"], "rec": template(it["rec"]),
                                      "observed": short(again[i]), "failed": failed, "cls": cls, "why": it.get("why")})
            nrep += 1
    for fam, n in counts.items():
        if len(fam) == 4:
            chk.note("%s (%s) clause %s: %d more rejected records with further signatures not listed (cap %d)" % (fam[0], fam[1], fam[2], n, SIG_CAP))
    return nrep


# ---------------------------------------------------------------------------------------------
# item builders
# ---------------------------------------------------------------------------------------------
def sweep_items(variant, obs):
    items = []
    for r in obs["records"]:
        items.append({"variant": variant, "why": r["why"], "step": {"a": ACTION_OF[r["k"]], "arg": {"x": r["x"]}},
                      "rec": {"k": r["k"], "x": r["x"], "r": r["r"]}})
    return items


def case_item(variant, c, o, origin="grid"):
    a, arg = c["a"], c["arg"]
    step = {"a": a, "arg": arg}
    if a == "Dru":
        rec = {"k": "dru", "bits": arg["bits"], "sgn": arg["sgn"], "a": arg["a"], "b": arg["b"], "q": o["q"]}
    elif a == "ClampI":
        rec = {"k": "clampi", "x": arg["x"], "lo": arg["lo"], "hi": arg["hi"], "r": o["r"]}
    elif a == "ClampF":
        rec = {"k": "clampf", "x": arg["x"], "lo": arg["lo"], "hi": arg["hi"], "r": o["r"]}
    elif a == "Madd":
        rec = {"k": "madd", "a": arg["a"], "b": arg["b"], "c": arg["c"], "r": o["r"]}
    elif a == "Lerp":
        rec = {"k": "lerp", "f": arg["f"], "a": arg["a"], "b": arg["b"], "r": o["r"]}
    elif a == "Sign":
        rec = {"k": "sign", "x": arg["x"], "r": o["r"]}
    elif a == "Deg2Rad":
        rec = {"k": "deg2rad", "x": arg["x"], "r": o["r"]}
    elif a == "LerpI":
        rec = {"k": "lerpi", "bits": arg["bits"], "sgn": arg["sgn"], "f": arg["f"], "a": arg["a"], "b": arg["b"], "r": o["r"]}
    elif a == "RcpSafeD":
        rec = {"k": "rcp_safed", "x": arg["x"], "r": o["r"]}
    elif a == "ClampD":
        rec = {"k": "clampd", "x": arg["x"], "lo": arg["lo"], "hi": arg["hi"], "r": o["r"]}
    elif a == "Deg2RadD":
        rec = {"k": "deg2radd", "x": arg["x"], "r": o["r"]}
    elif a == "LerpD":
        rec = {"k": "lerpd", "f": arg["f"], "a": arg["a"], "b": arg["b"], "r": o["r"]}
    else:
        raise tla.InfraError("no record for action %s" % a)
    return {"variant": variant, "step": step, "rec": rec, "origin": origin}


INT_TYPES = {"i8": (8, 1), "u8": (8, 0), "i16": (16, 1), "u16": (16, 0), "i32": (32, 1), "u32": (32, 0), "i64": (64, 1), "u64": (64, 0)}


def rand_float(rnd, emin=87, emax=167):
    return halves((rnd.getrandbits(1) << 31) | (rnd.randint(emin, emax) << 23) | rnd.getrandbits(23))


def random_cases(rnd, n):
    """Seeded random operands for the binary / ternary kernels (inputs only; TLC judges the results)."""
    cs = []
    for _ in range(n):
        cs.append({"a": "Madd", "arg": {"a": rand_float(rnd), "b": rand_float(rnd), "c": rand_float(rnd)}})
        cs.append({"a": "Lerp", "arg": {"f": rand_float(rnd, 110, 130), "a": rand_float(rnd), "b": rand_float(rnd)}})
        cs.append({"a": "Deg2Rad", "arg": {"x": rand_float(rnd, 1, 250)}})
        x, lo, hi = rand_float(rnd, 120, 134), rand_float(rnd, 120, 134), rand_float(rnd, 120, 134)
        cs.append({"a": "ClampF", "arg": {"ty": rnd.choice(["f", "d"]), "x": x, "lo": lo, "hi": hi}})
        ty = rnd.choice(sorted(INT_TYPES))
        bits, sgn = INT_TYPES[ty]
        mx = (1 << (bits - sgn)) - 1
        mn = -(1 << (bits - 1)) if sgn else 0
        a = rnd.randint(0, mx) if rnd.random() < 0.6 else mx - rnd.randint(0, 1000 if bits > 8 else 20)
        b = rnd.choice([1, 2, 3, rnd.randint(1, mx), rnd.randint(1, 1 << (bits // 2)), mx - rnd.randint(0, 100)])
        cs.append({"a": "Dru", "arg": {"ty": ty, "bits": bits, "sgn": sgn, "a": limbs(a), "b": limbs(max(1, b))}})
        v = sorted(rnd.randint(mn, mx) for _ in range(2))
        cs.append({"a": "ClampI", "arg": {"ty": ty, "x": limbs(rnd.choice([rnd.randint(mn, mx), v[0], v[1], mn, mx])), "lo": limbs(v[0]), "hi": limbs(v[1])}})
        # end points of very different magnitude (denormal .. 2^126), factor at or next to the ends of [0, 1] (no overflow possible)
        fw = rnd.choice([F(0.0), F(1.0), halves(0x3f7fffff), halves(0x00000001), rand_float(rnd, 100, 126), rand_float(rnd, 100, 126)])
        fw[0] &= 0x7fff
        cs.append({"a": "Lerp", "arg": {"f": fw, "a": rand_float(rnd, 0, 252), "b": rand_float(rnd, 0, 252)}})
        ea = rnd.randint(30, 190)
        cs.append({"a": "Madd", "arg": {"a": rand_float(rnd, ea, ea), "b": rand_float(rnd, 30, min(190, 378 - ea)), "c": rand_float(rnd, 0, 252)}})
        # the double instantiations (binary64 patterns as quarters)
        cs.append({"a": "LerpD", "arg": {"f": rnd.choice([fw, rand_float(rnd, 110, 130)]), "a": rand_double(rnd), "b": rand_double(rnd)}})
        cs.append({"a": "Deg2RadD", "arg": {"x": rand_double(rnd, 1, 2000)}})
        cs.append({"a": "RcpSafeD", "arg": {"x": rand_double(rnd, 0, 2046)}})
        d = sorted([rand_double(rnd, 1000, 1046), rand_double(rnd, 1000, 1046)], key=dkey)
        cs.append({"a": "ClampD", "arg": {"x": rnd.choice([rand_double(rnd, 1000, 1046), d[0], d[1]]), "lo": d[0], "hi": d[1]}})
        # lerp<T> for an integer type: anywhere in the type, factor in [0, 1]
        cs.append({"a": "LerpI", "arg": {"ty": ty, "bits": bits, "sgn": sgn, "f": rnd.choice([F(0.0), F(1.0), F(0.5), fw]),
                                         "a": limbs(rnd.choice([rnd.randint(mn, mx), rnd.randint(-100 if sgn else 0, 100)])), "b": limbs(rnd.randint(mn, mx))}})
    return cs


def rand_double(rnd, emin=900, emax=1150):
    u = (rnd.getrandbits(1) << 63) | (rnd.randint(emin, emax) << 52) | rnd.getrandbits(52)
    return [(u >> 48) & 0xffff, (u >> 32) & 0xffff, (u >> 16) & 0xffff, u & 0xffff]


def dkey(q):
    """order of finite binary64 patterns (sorting is data movement: TLC re-decides lower <= upper)"""
    m = ((q[0] & 0x7fff) << 48) | (q[1] << 32) | (q[2] << 16) | q[3]
    return -m if q[0] & 0x8000 else m


# the vec_t liftings of the kernels: lanes from every class of float, all shapes (vec3fa = padded 3-vector)
LANE_EDGE = [0x00000000, 0x80000000, 0x00000001, 0x80000001, 0x007fffff, 0x807fffff, 0x00400000, 0x00800000, 0x80800000, 0x3f800000, 0xbf800000,
             0x3f7fffff, 0x40400000, 0x7e7fffff, 0xfe7fffff, 0x7e800000, 0x7f7fffff, 0xff7fffff, 0x34000000, 0x4b800001]
SHAPES = {"2": 2, "3": 3, "3a": 3, "4": 4}


def lane_steps(rnd, nrand):
    steps = []
    pool = [halves(u) for u in LANE_EDGE]

    def lanes(n, i):
        return [pool[(i * 7 + 3 * k * k + k) % len(pool)] if i < 3 * len(pool) else rand_float(rnd, 0, 254) for k in range(n)]

    for op in ("rcp", "rcp_safe"):
        for sh, n in sorted(SHAPES.items()):
            for i in range(3 * len(pool) + nrand):
                steps.append({"a": "VecLanes", "arg": {"op": op, "shape": sh, "v": lanes(n, i)}})
    for sh in ("3", "3a"):
        for i in range(20 + nrand):
            ea = rnd.randint(30, 190)
            steps.append({"a": "VecLanes", "arg": {"op": "madd", "shape": sh, "v": [rand_float(rnd, ea, ea) for _ in range(3)],
                                                   "b": [rand_float(rnd, 30, min(190, 378 - ea)) for _ in range(3)], "c": [rand_float(rnd, 0, 252) for _ in range(3)]}})
    for sh, n in sorted(SHAPES.items()):
        for i in range(20 + nrand):
            f = rnd.choice([F(0.0), F(1.0), F(0.25), halves(0x3f7fffff), rand_float(rnd, 100, 126)])
            f[0] &= 0x7fff
            steps.append({"a": "VecLanes", "arg": {"op": "lerp", "shape": sh, "f": f, "v": [rand_float(rnd, 0, 252) for _ in range(n)], "b": [rand_float(rnd, 0, 252) for _ in range(n)]}})
    return steps


def lane_items(variant, steps, obs):
    items = []
    for st, o in zip(steps, obs):
        a = st["arg"]
        for k in range(SHAPES[a["shape"]]):
            if a["op"] in ("rcp", "rcp_safe"):
                rec = {"k": a["op"], "x": a["v"][k], "r": o["r"][k]}
            elif a["op"] == "madd":
                rec = {"k": "madd", "a": a["v"][k], "b": a["b"][k], "c": a["c"][k], "r": o["r"][k]}
            else:
                rec = {"k": "lerp", "f": a["f"], "a": a["v"][k], "b": a["b"][k], "r": o["r"][k]}
            items.append({"variant": variant, "step": st, "rec": rec, "lane": k, "lift": "vec" + a["shape"].replace("3a", "3fa") + ("f" if a["shape"] != "3a" else ""),
                          "origin": "lane"})
    return items


FLT_MAX = 3.4028234663852886e38


def F(x):
    """float value -> halves of its binary32 pattern (the value is exactly representable or rounded once by struct)."""
    return halves(struct.unpack(">I", struct.pack(">f", x))[0])


RANGES = [(0.0, 1.0), (-1.0, 1.0), (0.0, 255.0), (1.0, 2.0), (-1000.0, 1000.0), (0.25, 0.75), (-5.0, -1.0), (0.001, 1000.0), (-1.0, 0.001), (3.0, 3.0),
          (0.0, 0.0), (-0.0, 0.0), (1.0e-30, 1.0e-20), (-1.0e6, 2.5e-3), (16777216.0, 16777218.0), (0.1, 0.3),
          # lower == upper at every kind of value; ranges one float wide; denormal ranges; the widest ranges whose width is still a float, and wider
          (-0.0, -0.0), (FLT_MAX, FLT_MAX), (-FLT_MAX, -FLT_MAX), (1.0e-45, 1.0e-45), (1.0, 1.0000001192092896), (0.0, 1.0e-45), (1.0e-45, 3.0e-45),
          (-1.0e-40, 1.0e-40), (0.0, FLT_MAX), (-FLT_MAX, 0.0), (-1.7e38, 1.7e38), (-FLT_MAX, FLT_MAX), (-2.0e38, 2.0e38), (-1.0, FLT_MAX)]


def dist_steps(rnd, nconf, ndraw):
    steps, pairs = [], []
    kinds = ["pcg_biased", "urd_pcg32", "urd_mt19937", "urd_minstd", "urd_edge"]
    for i in range(nconf):
        kind = kinds[i % len(kinds)]
        lo, hi = RANGES[(i // len(kinds)) % len(RANGES)] if i < len(kinds) * len(RANGES) else tuple(sorted([rnd.uniform(-1000, 1000), rnd.uniform(-1000, 1000)]))
        seed, seq = rnd.choice([0, 1, 2, 42, -1, 2147483647, rnd.randint(-2 ** 31, 2 ** 31 - 1)]), rnd.choice([0, 1, 7, -3, rnd.randint(-2 ** 31, 2 ** 31 - 1)])
        steps.append({"a": "Dist", "arg": {"kind": kind, "seed": seed, "seq": seq, "lo": F(lo), "hi": F(hi), "n": ndraw}})
    # the same range with another seed / another sequence id (non-vacuity of "reproducible": the streams must differ)
    for kind, dseed, dseq in [("pcg_biased", 1, 0), ("pcg_biased", 0, 1), ("urd_pcg32", 1, 0), ("urd_pcg32", 0, 1), ("urd_mt19937", 1, 0), ("urd_minstd", 1, 0)]:
        a = {"a": "Dist", "arg": {"kind": kind, "seed": 11, "seq": 5, "lo": F(0.0), "hi": F(1.0), "n": ndraw}}
        b = {"a": "Dist", "arg": {"kind": kind, "seed": 11 + dseed, "seq": 5 + dseq, "lo": F(0.0), "hi": F(1.0), "n": ndraw}}
        pairs.append((len(steps), len(steps) + 1))
        steps += [a, b]
    # long streams: more draws than 2^12 (quick) / 2^16 (thorough) from one generator pair
    for kind in ("pcg_biased", "urd_pcg32"):
        steps.append({"a": "Dist", "arg": {"kind": kind, "seed": 3, "seq": 4, "lo": F(-1.0), "hi": F(1.0), "n": 4100 if nconf < 1000 else 65600}})
    for i in range(max(4, nconf // 8)):
        steps.append({"a": "Dist", "arg": {"kind": "color", "seed": rnd.choice([0, 1, 4294967295 - 64, rnd.randint(0, 2 ** 32 - 1)]) if i else 0,
                                           "seq": rnd.choice([1, 1, 7919, 65537]) if i else 1, "lo": F(0.0), "hi": F(1.0), "n": 64 if i else 10200}})       # 10200 > 7 * 23 * 63: every residue of the three moduli
    return steps, pairs


# ---------------------------------------------------------------------------------------------
# distribution OBJECTS: histories of ScalarKernelsDistADT (TLC's state graph) with ranges / seeds filled in
# ---------------------------------------------------------------------------------------------
def D(x):
    u = struct.unpack(">Q", struct.pack(">d", x))[0]
    return [(u >> 48) & 0xffff, (u >> 32) & 0xffff, (u >> 16) & 0xffff, u & 0xffff]


HIST_RANGES_F = [(0.0, 1.0), (-1.0, 1.0), (10.0, 20.0), (-1000.0, 1000.0), (0.25, 0.75), (3.0, 3.0), (1.0e-30, 1.0e-20), (-1.0e6, 2.5e-3), (0.0, 1.0e-45),
                 (-1.0e-40, 1.0e-40), (-1.7e38, 1.7e38), (0.0, 255.0), (-5.0, -1.0), (16777216.0, 16777218.0), (0.0, FLT_MAX)]
HIST_RANGES_D = [(10.0, 20.0), (0.0, 1.0), (-1.0, 1.0), (-1.0e300, 1.0e300), (1.0e-310, 1.0e-308), (5.0, 5.0), (-1.0e6, 2.5e-3), (0.1, 0.3), (4503599627370496.0, 4503599627370498.0)]


def hist_plans(ag, rnd, budget, walks, walk_len):
    """Histories from TLC's state graph: every path up to the longest length within the budget + seeded random walks; ranges and seeds are filled in here."""
    K = 1
    while K < 4 and adt.count_paths(ag, K + 1) <= budget:
        K += 1
    cover, labels = [], set()
    for h in adt.edge_cover(ag):      # one shortest history per distinct label (kind, action, arguments, class) of the graph
        lab = json.dumps(h[-1], sort_keys=True)
        if lab not in labels:
            labels.add(lab)
            cover.append(h)
    hs = (adt.all_paths(ag, K, budget * 2) or []) + cover + adt.random_walks(ag, walks, walk_len, rnd.randint(0, 2 ** 30))
    steps, seen = [], set()
    for h in hs:
        if not h or not any(st["a"] in ("Draw", "Colors") for st in h):
            continue
        kind = h[0]["arg"]["kind"]
        key = json.dumps([[st["a"], st["arg"]] for st in h], sort_keys=True)
        rep = key in seen
        seen.add(key)
        n = len(steps)
        if kind == "urd_d":
            lo, hi = HIST_RANGES_D[n % len(HIST_RANGES_D)]
            lo, hi = D(lo), D(hi)
        else:
            lo, hi = HIST_RANGES_F[n % len(HIST_RANGES_F)] if not rep or rnd.random() < 0.5 else tuple(sorted([rnd.uniform(-1000, 1000), rnd.uniform(-1000, 1000)]))
            lo, hi = F(lo), F(hi)
        steps.append({"a": "DistHist", "arg": {"kind": kind, "lo": lo, "hi": hi, "seed": rnd.choice([0, 1, 42, 2147483647, rnd.randint(0, 2 ** 31 - 1)]),
                                               "seq": rnd.choice([0, 1, 7, -3, rnd.randint(-2 ** 31, 2 ** 31 - 1)]),
                                               "steps": [{"a": st["a"], "arg": st["arg"], "cls": st["cls"]} for st in h]}})
    return steps, K, len(seen)


def hist_steps(plan, obs):
    """One record per step: the plan's action / arguments / class next to what the driver recorded (data movement only)."""
    if len(plan) != len(obs):
        raise tla.InfraError("the driver performed %d of the %d steps of a distribution-object history" % (len(obs), len(plan)))
    out = []
    for p, o in zip(plan, obs):
        st = {"a": p["a"], "cls": p["cls"]}
        if p["a"] == "Draw":
            st.update({"gen": p["arg"]["gen"], "n": p["arg"]["n"], "obj": p["arg"]["obj"], "skip": p["arg"]["skip"]})
            st.update({k: o[k] for k in ("v", "fv", "raws", "fraws", "gmin", "gmax")})
        elif p["a"] == "Colors":
            st.update({"n": p["arg"]["n"], "idx": o["idx"], "v": o["v"]})
        out.append(st)
    return out


def corruption_controls(items):
    """Copies of records of this run with ONE field altered: TLC must reject each (binding of the judge to the data)."""
    out = []

    def first(pred):
        return next((it for it in items if pred(it)), None)

    def add(it, name, change):
        if it is None:
            raise tla.InfraError("no record to derive the corruption control '%s' from" % name)
        rec = json.loads(json.dumps(it["rec"]))
        change(rec)
        out.append({"variant": it["variant"], "step": it["step"], "rec": rec, "control": name})

    one = [16256, 0]
    for v in ("simd", "nosimd"):
        add(first(lambda it: it["rec"]["k"] == "rcp" and it["variant"] == v and it["rec"]["x"] == one), "rcp(1.0) result with bit 8 flipped (%s)" % v,
            lambda r: r["r"].__setitem__(1, r["r"][1] ^ 256))
        add(first(lambda it: it["rec"]["k"] == "rsqrt" and it["variant"] == v and it["rec"]["x"] == one), "rsqrt(1.0) result with bit 8 flipped (%s)" % v,
            lambda r: r["r"].__setitem__(1, r["r"][1] ^ 256))
        add(first(lambda it: it["rec"]["k"] == "rcp_safe" and it["variant"] == v and it["rec"]["x"] == one), "rcp_safe(1.0) result with the sign flipped (%s)" % v,
            lambda r: r["r"].__setitem__(0, r["r"][0] ^ 32768))
    add(first(lambda it: it["rec"]["k"] == "dist"), "second stream with one bit changed", lambda r: r["b"][0].__setitem__(1, r["b"][0][1] ^ 1))
    def flip_used(r):
        st = next(x for x in r["steps"] if x["a"] == "Draw" and x["cls"].startswith("served-other-range"))
        st["v"][0][-1] ^= 1
    add(first(lambda it: it["rec"]["k"] == "dhist" and it["rec"]["kind"] == "urd_f" and any(x["a"] == "Draw" and x["cls"].startswith("served-other-range") for x in it["rec"]["steps"])),
        "history: one value of an object that served another generator type before, last bit changed", flip_used)
    add(first(lambda it: it["rec"]["k"] == "runs"), "table with one run's byte lowered", lambda r: r["runs"][len(r["runs"]) // 2].__setitem__("v", 0))
    add(first(lambda it: it["rec"]["k"] == "pack"), "packed word with channels x and y exchanged",
        lambda r: [v.__setitem__("w", [v["w"][0], (v["w"][1] % 256) * 256 + v["w"][1] // 256]) for v in r["vecs"]])
    add(first(lambda it: it["rec"]["k"] == "dru" and it["rec"]["q"]["m"] == [1] and it["rec"]["q"]["n"] == 0), "divRoundUp result 1 replaced by 2",
        lambda r: r["q"].__setitem__("m", [2]))
    return out


# ---------------------------------------------------------------------------------------------
# spec -> code: lattice cases with expected values
# ---------------------------------------------------------------------------------------------
LAT_FN = {"LatSign": ("rkmath.h/sign", "lattice"), "LatMadd": ("rkmath.h/madd", "float,lattice"), "LatLerp": ("rkmath.h/lerp", None), "LatDru": ("rkmath.h/divRoundUp", None),
          "LatLerpI": ("rkmath.h/lerp", None)}


def compare_lattice(chk, variant, cases, obs):
    n = 0
    for c, o in zip(cases, obs):
        exp = c["exp"]
        bad = [k for k in sorted(exp) if o.get(k) != exp[k]]
        if c["a"] == "LatDru" and isinstance(o.get("q"), dict):
            bad = [] if unlimbs(o["q"]) == exp["q"] else ["q"]
        if not bad:
            continue
        n += 1
        fn, cl = LAT_FN[c["a"]]
        if c["a"] == "LatLerp":
            cl = ("float" if c["arg"]["ty"] == "f" else "double") + ",lattice"
        if c["a"] == "LatDru":
            cl = c["cls"]
        if c["a"] == "LatLerpI":
            cl = c["arg"]["ty"] + ",lattice"
        field = "least-q" if c["a"] == "LatDru" else "definition"
        sig = "%s(%s)/%s" % (fn, cl, field)
        what = "%s(%s): the specification computes %s, the real function returned %s (%s build)" % (fn, json.dumps(c["arg"]), json.dumps(exp), json.dumps(o)[:200], variant)
        chk.violation(sig, what, {"kind": "case", "property": chk.pid, "variant": variant, "case": c, "observed": o})
    return n


# ---------------------------------------------------------------------------------------------
def run(chk, replay=None):
    quick = chk.tier == "quick"
    rnd = random.Random(chk.seed)
    chk.assumptions += [
        "the driver's double-precision ranking of deviations per binade selects the records TLC judges (selection only; every verdict is TLC's exact decision on bit patterns)",
        "conversion between float values / integers and bit patterns (16-bit halves) / base-2^15 limbs in the driver and the orchestrator is faithful",
        "TLC explores the toy floating-point format completely (thorough) or for 60 patterns of x against all 512 patterns of r (quick)",
        "the first 21 decimal digits of pi",
    ]
    if replay:
        return do_replay(chk, replay)
    pool = ThreadPoolExecutor(max_workers=6)
    # builds (both variants), model checking and case generation run side by side
    f_build = {v: pool.submit(build.build, "drv_scalar", "TBB", "", True, 16, defs) for v, defs in VARIANTS}
    # -Xss: the limb operators recurse once per digit; aligning the largest double with the smallest denormal takes 140 digits
    f_mc = pool.submit(tla.run_tlc, os.path.join(SPEC, "ScalarKernelsMC.tla"), os.path.join(SPEC, "ScalarKernelsMC.cfg" if quick else "ScalarKernelsMC_thorough.cfg"),
                       8, 3000, env=BIG_STACK)
    f_adt = pool.submit(adt.build_graph, os.path.join(SPEC, "ScalarKernelsDistADT.tla"),
                        os.path.join(SPEC, "ScalarKernelsDistADT.cfg" if quick else "ScalarKernelsDistADT_thorough.cfg"), 4, 1500, "c07-distadt")
    level = "0" if quick else "1"
    cases = funcheck.gen_cases(chk, SPEC, "ScalarKernelsGen", "ScalarKernelsGen.cfg", "c07-gen", env=dict(BIG_STACK, C07_LEVEL=level),
                               what="operand grids of clamp / divRoundUp / sign / lerp / madd / deg2rad; closed form of divRoundUp = the definition's solution")
    exes = {v: f.result() for v, f in f_build.items()}
    chk.log("drivers built: %s" % ", ".join(sorted(exes)))

    # ---- the exhaustive sweep of the unary kernels, both variants at once
    topk = 3 if quick else 8
    nrandom = 1000 if quick else 20000
    sweep_step = {"a": "Sweep", "arg": {"topk": topk, "seed": chk.seed, "nrandom": nrandom, "threads": 16}}
    f_sweep = {v: pool.submit(run_steps, exes[v], [sweep_step], "c07-sweep-" + v, 6000) for v, _ in VARIANTS}

    # ---- binary / ternary kernels: TLC's grids + seeded random operands, both variants
    rcases = random_cases(rnd, 400 if quick else 10000)
    lat = [c for c in cases if "exp" in c]
    law = [c for c in cases if "exp" not in c]
    chk.count_actions([[c] for c in cases + rcases])
    chk.require_actions(["LatSign", "LatMadd", "LatLerp", "LatDru", "LatLerpI", "Dru", "ClampI", "ClampF", "Madd", "Lerp", "Sign", "Deg2Rad",
                         "LerpI", "RcpSafeD", "ClampD", "Deg2RadD", "LerpD"])
    items = []
    nlat = 0
    lsteps = lane_steps(rnd, 40 if quick else 600)
    for v, _ in VARIANTS:
        # the law-judged binary / ternary cases do not depend on RKCOMMON_NO_SIMD: default build only; lattice cases and vector lanes on both
        todo = lat + (law + rcases if v == "simd" else [])
        obs = run_steps(exes[v], todo + lsteps, "c07-cases-" + v)
        nlat += compare_lattice(chk, v, lat, obs[:len(lat)])
        chk.cov["evaluations"] += len(lat)
        if v == "simd":
            items += [case_item(v, c, o) for c, o in zip(law, obs[len(lat):len(lat) + len(law)])]
            items += [case_item(v, c, o, "random") for c, o in zip(rcases, obs[len(lat) + len(law):len(todo)])]
        li = lane_items(v, lsteps, obs[len(todo):])
        items += li
        chk.cov["action_counts"]["VecLanes(%s)" % v] = len(li)
    chk.require_actions(["VecLanes(simd)", "VecLanes(nosimd)"])
    chk.log("lattice cases with expected values: %d per variant replayed, %d mismatching" % (len(lat), nlat))
    chk.add_sample({"kind": "lattice case (spec -> code)", "case": lat[len(lat) // 3]})

    # ---- packing tables and distributions (no SIMD dependence: the default build)
    # complete tables (all non-NaN patterns); the other channels are held at 1, 0, 1 (their influence is the subject of the sampled tables)
    ctx = [F(1.0), F(0.0), F(1.0)]
    tsteps = [{"a": "Runs", "arg": {"fn": "cvt_f", "threads": 16}}, {"a": "Runs", "arg": {"fn": "srgba8", "c": 0, "ctx": ctx, "threads": 16}}]
    if not quick:
        tsteps += [{"a": "Runs", "arg": {"fn": fn, "c": c, "ctx": ctx, "threads": 16}} for fn in ("cvt_v", "srgba8") for c in range(4) if (fn, c) != ("srgba8", 0)]
    tsteps += [{"a": "Pack", "arg": {"fn": fn, "seed": chk.seed, "nvec": 400 if quick else 5000, "den": 4096}} for fn in ("cvt_v", "srgba8")]
    dsteps, pairs = dist_steps(rnd, 160 if quick else 2400, 48)
    f_tab = pool.submit(run_steps, exes["simd"], tsteps + dsteps, "c07-tables", 6000)

    # ---- distribution objects as abstract data types: histories from TLC's state graph of ScalarKernelsDistADT
    ag, r_adt = f_adt.result()
    chk.add_model("ScalarKernelsDistADT", r_adt, "distribution objects as ADTs without abstract state (ghost history only): %d abstract states, %d transitions; "
                  "invariants TypeOK, GhostOK" % (len(ag.states), ag.nedges))
    hsteps, hK, hdistinct = hist_plans(ag, rnd, 400 if quick else 6000, 400 if quick else 3000, 7 if quick else 9)
    hobs = run_steps(exes["simd"], hsteps, "c07-disthist", 3000)
    hcount = {}
    for st, o in zip(hsteps, hobs):
        a = st["arg"]
        rec = {"k": "dhist", "kind": a["kind"], "lo": a["lo"], "hi": a["hi"], "steps": hist_steps(a["steps"], o["steps"])}
        items.append({"variant": "simd", "step": st, "rec": rec})
        for x in rec["steps"]:
            for key in (["DistHist.%s(%s)" % (x["a"], a["kind"])] + (["DistHist.Draw(%s,%s)" % (a["kind"], x["cls"]), "DistHist.Draw(%s,gen=%s)" % (a["kind"], x["gen"])] if x["a"] == "Draw" else [])
                        + (["DistHist.Colors(%s)" % x["cls"]] if x["a"] == "Colors" else [])):
                hcount[key] = hcount.get(key, 0) + 1
            if x["a"] == "Draw":
                chk.cov["object_draws_compared_with_a_fresh_object"] = chk.cov.get("object_draws_compared_with_a_fresh_object", 0) + len(x["v"])
    chk.cov["action_counts"].update(hcount)
    gens = ["pcg32", "mt19937_64", "minstd_rand", "ranlux24"] + ["edge32"]
    need = ["DistHist.Copy(%s)" % k for k in ("urd_f", "urd_d", "biased")] + ["DistHist.New(%s)" % k for k in ("urd_f", "urd_d", "biased")]
    need += ["DistHist.Draw(%s,%s)" % (k, c) for k in ("urd_f", "urd_d") for c in ("fresh", "served-same-type", "served-other-range", "served-other-range,copy", "served-same-type,copy", "fresh,copy")]
    need += ["DistHist.Draw(%s,gen=%s)" % (k, g) for k in ("urd_f", "urd_d") for g in gens]
    need += ["DistHist.Draw(biased,%s)" % c for c in ("fresh", "used", "used,copy", "fresh,copy")] + ["DistHist.Colors(%s)" % c for c in ("up", "down", "stride7", "repeat")]
    chk.require_actions(need)
    # both orders of every pair of generator types of different range on ONE object (the second type's draws are the ones judged)
    orders = set()
    for st in hsteps:
        served = {}
        for x in st["arg"]["steps"]:
            if x["a"] == "Copy":
                served[x["arg"]["dst"]] = list(served.get(x["arg"]["src"], []))
            if x["a"] == "Draw" and st["arg"]["kind"] in ("urd_f", "urd_d"):
                for g in served.get(x["arg"]["obj"], []):
                    if g != x["arg"]["gen"]:
                        orders.add((st["arg"]["kind"], g, x["arg"]["gen"]))
                served.setdefault(x["arg"]["obj"], []).append(x["arg"]["gen"])
    missing = [(k, g, h) for k in ("urd_f", "urd_d") for g in gens for h in gens if g != h and (k, g, h) not in orders]
    if missing:
        raise tla.InfraError("vacuity guard: no history hands one %s object the generator types %s in this order" % (missing[0][0], missing[0][1:]))
    chk.cov["object_histories"] = {"histories": len(hsteps), "distinct_plans": hdistinct, "all_paths_up_to": hK, "ordered_generator_type_pairs_on_one_object": len(orders),
                                   "generator_types": gens, "kinds": sorted(HIST_FN), "ranges": len(HIST_RANGES_F) + len(HIST_RANGES_D)}
    chk.add_sample({"kind": "distribution-object history (spec -> plan -> code -> spec)", "plan": [[x["a"], x["arg"]] for x in hsteps[len(hsteps) // 2]["arg"]["steps"]]})

    tobs = f_tab.result()
    swept = 0
    for st, o in zip(tsteps, tobs[:len(tsteps)]):
        if st["a"] == "Runs":
            items.append({"variant": "simd", "step": st, "rec": {"k": "runs", "runs": o["runs"], "truncated": o["truncated"]}})
            swept += o["evaluated"]
            chk.cov.setdefault("complete_tables", []).append({"fn": st["arg"]["fn"], "channel": st["arg"].get("c"), "runs": len(o["runs"]), "patterns": o["evaluated"]})
        else:
            items.append({"variant": "simd", "step": st, "rec": {"k": "pack", "tabs": o["tabs"], "vecs": o["vecs"]}})
            chk.cov["packing_evaluations"] = chk.cov.get("packing_evaluations", 0) + o["evaluated"]
    dobs = tobs[len(tsteps):]
    for st, o in zip(dsteps, dobs):
        a = st["arg"]
        items.append({"variant": "simd", "step": st, "rec": {"k": "dist", "lo": a["lo"], "hi": a["hi"], "a": o["a"], "b": o["b"]}})
    for i, j in pairs:
        items.append({"variant": "simd", "step": {"a": "DistinctStreams", "arg": [dsteps[i]["arg"], dsteps[j]["arg"]]}, "rec": {"k": "distinct", "s1": dobs[i]["a"], "s2": dobs[j]["a"]}})
    chk.cov["action_counts"]["Runs"] = sum(1 for s in tsteps if s["a"] == "Runs")
    chk.cov["action_counts"]["Pack"] = sum(1 for s in tsteps if s["a"] == "Pack")
    chk.cov["action_counts"]["Dist"] = len(dsteps)
    chk.add_sample({"kind": "recorded stream pair (code -> spec)", "step": dsteps[0], "a": dobs[0]["a"][:4], "b": dobs[0]["b"][:4]})

    sums = {}
    for v, _ in VARIANTS:
        o = f_sweep[v].result()[0]
        sums[v] = o["summary"]
        sw = sweep_items(v, o)
        items += sw
        chk.cov["action_counts"]["Sweep(%s)" % v] = len(sw)
        swept += o["summary"]["evaluated"]
    chk.cov["sweep"] = sums
    chk.cov["patterns_evaluated_on_the_real_code"] = swept
    chk.require_actions(["Runs", "Pack", "Dist", "Sweep(simd)", "Sweep(nosimd)"])
    for v in sums:
        if sums[v]["evaluated"] != 2 ** 32:
            raise tla.InfraError("sweep (%s) covered %d of 2^32 patterns" % (v, sums[v]["evaluated"]))
        if sums[v]["rcp_safe_flagged_sign_bit"]:
            chk.note("rcp_safe (%s): %d finite input(s) whose result has the other sign BIT (recorded; judged by value: a zero has no sign - e.g. rcp_safe(-0.0f) = +2^126)"
                     % (v, sums[v]["rcp_safe_flagged_sign_bit"]))
    if sums["simd"]["rcp_differs_from_division"] == 0 or sums["nosimd"]["rcp_differs_from_division"] != 0:
        chk.note("the two builds do not differ as expected: rcp(x) != 1.f/x on %d patterns (SIMD build) / %d (NO_SIMD build)"
                 % (sums["simd"]["rcp_differs_from_division"], sums["nosimd"]["rcp_differs_from_division"]))
    chk.add_sample({"kind": "recorded kernel result (code -> spec)", "variant": "simd", "record": next(it["rec"] for it in items if it["rec"]["k"] == "rcp")})

    items += corruption_controls(items)

    def model_checked():
        # the specification's own laws must hold before any of its verdicts is reported
        chk.require_model_ok("ScalarKernelsMC", f_mc.result(),
                             "toy format MB=4 EB=4: limb decisions = integer decisions for every pair (x, r); constant-level laws and negative controls")

    judge_items(chk, exes, items, "all", chunks=6 if quick else 8, before_report=model_checked)
    pool.shutdown()
    keys = {json.dumps([it["rec"]["k"], it["variant"] if it["rec"]["k"] in ("rcp", "rsqrt", "rcp_safe") else "", it["step"], it.get("lane")], sort_keys=True) for it in items}
    chk.cov["distinct_nontrivial"] = len(keys) + funcheck.distinct_cases(lat)
    chk.cov["rule"] = ("a case = one evaluation of a real kernel (or one complete table / one stream pair) whose input and output bit patterns TLC judged, or one "
                       "lattice case whose TLC-computed value was compared; distinct = distinct (function, build variant where it matters, operands); all are "
                       "non-trivial (each exercises a clause of the statement; records outside the stated domain are counted in evaluations but not in "
                       "records_in_the_stated_domain). patterns_evaluated_on_the_real_code counts the 2^32-pattern sweeps behind the selection")


def do_replay(chk, path):
    rep = json.load(open(path))
    variant = rep.get("variant", "simd")
    exes = {variant: build.build("drv_scalar", extra_defs=dict(VARIANTS)[variant])}
    if rep["kind"] == "case":
        c = rep["case"]
        obs = run_steps(exes[variant], [c], "c07-replay")
        compare_lattice(chk, variant, [c], obs)
    else:
        step = rep["step"]
        obs = run_steps(exes[variant], [step], "c07-replay", 6000)[0]
        item = {"variant": variant, "step": step, "rec": rep["rec"], "why": rep.get("why")}
        item["rec"] = rebuild_record(item, obs)
        judge_items(chk, exes, [item], "replay", chunks=1)
    chk.cov["evaluations"] = max(chk.cov["evaluations"], 1)
    chk.cov["distinct_nontrivial"] = max(chk.cov["distinct_nontrivial"], 2)
    chk.cov["rule"] = "replay of one saved artefact"
    chk.add_sample({"kind": "replay", "artefact": os.path.basename(path)})
