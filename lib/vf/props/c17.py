"""C17 - Index maps are bijections and 3D array adaptors address the right cell."""
import json, os, random, time
from .. import tla, build, adt, adtcheck, funcheck, trace
from ..tla import VERIF
from ..core import sig_of

LEVEL = "model_checking"
LEVEL_TEXT = ("TLC checks, for every extent of the bounded domain (0..4 per axis quick, 0..6 thorough; every region of every extent 0..3 / 0..4), that the "
              "specified flatten/reshape and longIndex/coordsOf are mutually inverse bijections onto 0..total-1 whose value is the rank in flattened order, "
              "and that sequence iteration and for_each visit every coordinate of the region exactly once in increasing flattened order; it checks the limb "
              "arithmetic used for extents beyond 2^32, the agreement of the ActualArray3D state machine with the declarative 'value last set at c' reading "
              "after every history of New/Set/Clear up to the bound, and the adaptor laws (shifts permute and compose, sub-boxes and slices name their cells, "
              "getValueRange is tight, clamping picks a nearest cell) in every reachable array state.  TLC then emits the complete tables (every coordinate<->index "
              "pair, every iteration / for_each sequence, every shift -ext..ext, clip box, 1..3 slices, compositions of two adaptors, every region's value range, "
              "for every adaptor case the gets over the window -2..size+1 per axis (all sign combinations, plus +-(2^31-1) where no adaptor does arithmetic) and value ranges of "
              "regions that start below 0 / end beyond the size, by what each adaptor's code defines there (sub-box / accessor forward to the clamping array, MultiSlice clamps z, a shift wraps), "
              "clamped gets, indices of extents whose products exceed 2^31, 2^32 and approach 2^64 including seeded random ones) which the driver evaluates on the real "
              "headers under ASan/UBSan; histories of the state graph are replayed on a real ActualArray3D with live adaptor views, and seeded random long "
              "executions of the real code (arrays, views, index tables of larger random extents) are validated by TLC against the trace specifications")
LEVEL_NOTE = ("bounded: map laws for extents 0..4 per axis (thorough 0..6), for_each laws for every region of extents 0..3 (0..4); tables replayed for extents <= 4^3 (5^3) and "
              "regions with bounds 0..3 (-1..4); adaptors for every extent <= 3^3 (every shift -ext..ext, clip box, 1..3 slices, every region's range) and compositions over 3x2x2 "
              "(+ 2x3x1, 1x2x3, 2x2x3); state machine over 2x1x2 / 1x2x1 (/ 1x2x2) arrays with 2 values, histories of mutators up to K=4 (5); random parts: tables of extents "
              "<= 9x7x6, arrays <= 5x4x4 with 200-step executions; huge extents: fixed list + seeded random list, one-byte cells mapped lazily up to 2^33 cells. "
              "Boundary families: extents with an axis at 127..129 / 255..257 / ... / 65535..65537 with coordinates at those marks, coordinates whose index is exactly 2^31-1, 2^31, 2^31+1, 2^32-1, 2^32, 2^32+1 "
              "(TLC asserts the hit), partial products at 2^31 / 2^32, totals of 2^64-1, iteration windows across 2^31 / 2^32, for_each regions at the ends of int and across 0; adaptors on 255..257-cell axes "
              "(shifts, clip boxes, 127..257 slices); element values at the ends of u8 / i8 / i16 / u16 / i32 / i64 / f32 / f64 through the accessors; the state machine replayed on 8 further element types "
              "(u8, i16, i64, f32, f64 and structs of 12 / 3 / 24 bytes) with the raw external memory compared after every step and direct writes to it (Poke); two sequences used alternately. "
              "Left unconstrained: a shifted array queried where coordinate + size + shift < 0 (C++ % negative) and coordinates near 2^31 through shift / sub-box (int overflow). "
              "Outside the statement and only recorded as notes: shifts more negative than the extent, getValueRange of empty regions, numElements() of MultiSlice over slices "
              "thicker than one plane, Array3DRepeater. Trusted: TLC, the driver's table order (x fastest) and limb conversion, g++/libstdc++, ASan/UBSan")
TECHNIQUE = ("TLA+ functional specification with laws checked by TLC over the whole bounded domain + limb arithmetic for 64-bit indices; "
             "TLA+ ADT specification of ActualArray3D and its adaptors; TLC-generated cases and state-graph histories replayed on the real code; "
             "TLC trace validation of recorded random executions")
SPEC = os.path.join(VERIF, "spec", "array3D")
SIG = "array3D"
MUT = {"Set", "Clear", "Poke"}
ARITH_VARIANTS = ["u8", "i16", "i64", "f32", "f64"]
STRUCT_VARIANTS = ["vec3f", "b3", "b24"]      # 12 / 3 / 24 bytes: no ordering, hence no getValueRange


# ---------------------------------------------------------------------------
# inputs drawn by the orchestrator (inputs only - every expectation comes from TLC)
# ---------------------------------------------------------------------------
def limbs(n):
    out = []
    while True:
        out.append(n % 32768)
        n //= 32768
        if n == 0:
            break
    return out


def rand_big_inputs(rnd, n):
    """Random extents whose products exceed 2^31 / 2^32 (below 2^64) with random inside coordinates."""
    lines = []
    for i in range(n):
        kind = ["seq3", "arr3", "seq2"][i % 3]
        nd = 2 if kind == "seq2" else 3
        bits = rnd.choice([31, 32, 33, 40, 50, 62, 63])
        target = rnd.randint(2 ** bits, 2 ** (bits + 1) - 1)
        compmax = 2 ** 31 - 1 if kind == "arr3" else 2 ** 40
        while True:
            d = []
            rest = target
            for j in range(nd - 1):
                hi = max(1, min(compmax, rest))
                x = int(2 ** rnd.uniform(0, max(0.0, min(hi.bit_length() - 1, bits * 0.7))))
                x = max(1, min(hi, x))
                d.append(x)
                rest = max(1, rest // x)
            d.append(max(1, min(compmax, rest)))
            rnd.shuffle(d)
            prod = 1
            for x in d:
                prod *= x
            if 2 ** 31 <= prod < 2 ** 64:
                break
            target = rnd.randint(2 ** bits, 2 ** (bits + 1) - 1)
        mode = rnd.random()
        if mode < 0.3:
            c = [x - 1 for x in d]
        elif mode < 0.5:
            c = [x // 2 for x in d]
        else:
            c = [rnd.randrange(x) for x in d]
        lines.append({"k": kind, "d": [limbs(x) for x in d], "c": [limbs(x) for x in c]})
    return lines


def can_map_lazily(nbytes):
    """Can this machine map `nbytes` of untouched anonymous memory (MAP_NORESERVE)?  If not, the
    ActualArray3D-on-huge-external-memory part of the BigArr3 cases is skipped (infrastructure, not a verdict)."""
    import mmap
    try:
        m = mmap.mmap(-1, nbytes, flags=mmap.MAP_PRIVATE | mmap.MAP_ANONYMOUS | getattr(mmap, "MAP_NORESERVE", 0x4000))
        m.close()
        return True
    except (OSError, ValueError, OverflowError):
        return False


def write_ndjson(path, lines):
    os.makedirs(os.path.dirname(path), exist_ok=True)
    with open(path, "w") as f:
        for ln in lines:
            f.write(json.dumps(ln, separators=(",", ":")) + "\n")


def rand_array_actions(rnd, n):
    """One random execution on a larger array: New, then Set/Clear/Get/Range/View* with random parameters."""
    d = [rnd.randint(1, 5), rnd.randint(1, 4), rnd.randint(1, 4)]
    mode = rnd.choice(["own", "ext"])
    tot = d[0] * d[1] * d[2]
    mem = [0] * tot if mode == "own" else [100 + k for k in range(1, tot + 1)]
    acts = [{"a": "New", "arg": {"d": d, "mode": mode, "mem": mem}}]

    def coord():
        return [rnd.randrange(d[i]) for i in range(3)]

    def box():
        lo, hi = [], []
        for i in range(3):
            a = rnd.randrange(d[i])
            b = rnd.randint(a + 1, d[i])
            lo.append(a)
            hi.append(b)
        return lo, hi
    def probes(size, lowest=None):
        """Coordinates inside and outside a view of the given size; `lowest` (shifted views): the smallest
        coordinate per axis for which C++ % is still a modulo (where + size + shift >= 0)."""
        out = []
        for _ in range(rnd.randint(3, 8)):
            c = []
            for i in range(3):
                lo = -3 if lowest is None else max(-3, lowest[i])
                c.append(rnd.choice([lo, -1, 0, size[i] - 1, size[i], size[i] + 2, rnd.randint(lo, size[i] + 2)]))
                if c[-1] < lo:
                    c[-1] = lo
            out.append(c)
        return out
    shifts = [[rnd.randint(-d[i], 2 * d[i]) for i in range(3)] for _ in range(3)]
    boxes = [box() for _ in range(3)]
    planes = [[rnd.randrange(d[2]) for _ in range(rnd.randint(1, 3))] for _ in range(2)]
    for _ in range(n):
        x = rnd.random()
        if x < 0.34:
            acts.append({"a": "Set", "arg": {"c": coord(), "v": rnd.choice([0, 0, -1, -60, 2147483647, -2147483647] + list(range(1, 61)))}})
        elif x < 0.40 and mode == "ext":
            acts.append({"a": "Poke", "arg": {"o": rnd.choice([0, tot - 1, rnd.randrange(tot)]), "v": rnd.randint(-5, 60)}})
        elif x < 0.43:
            acts.append({"a": "Clear", "arg": {"v": rnd.choice([0, 0, rnd.randint(-3, 60)])}})
        elif x < 0.58:
            c = [rnd.choice([-(2 ** 31 - 1), -3, -1, 2 ** 31 - 1, d[i], d[i] + 2] + list(range(d[i])) * 2) for i in range(3)]
            acts.append({"a": "Get", "arg": {"c": c}})
        elif x < 0.68:
            lo, hi = box()
            acts.append({"a": "Range", "arg": {"lo": lo, "hi": hi}})
        elif x < 0.72:
            acts.append({"a": "RangeWhole", "arg": []})
        elif x < 0.82:
            sh = rnd.choice(shifts)
            acts.append({"a": "ViewShift", "arg": {"s": sh, "probes": probes(d, [-(d[i] + sh[i]) for i in range(3)])}})
        elif x < 0.90:
            lo, hi = rnd.choice(boxes)
            acts.append({"a": "ViewSub", "arg": {"lo": lo, "hi": hi, "probes": probes([hi[i] - lo[i] for i in range(3)])}})
        elif x < 0.95:
            ps = rnd.choice(planes)
            acts.append({"a": "ViewSlices", "arg": {"ps": ps, "probes": probes([d[0], d[1], len(ps)])}})
        else:
            acts.append({"a": "ViewAcc", "arg": {"probes": probes(d)}})
    return acts


def rand_table_actions(rnd, n):
    """Random larger extents: the driver evaluates the complete tables, TLC validates the laws on them."""
    acts = []
    for _ in range(n):
        k = rnd.choice(["Seq2", "Seq3", "Arr3", "ForEach"])
        if k == "Seq2":
            d = [rnd.randint(1, 12), rnd.randint(1, 12)]
            coords = [[x, y] for x in range(d[0]) for y in range(d[1])]
        elif k == "ForEach":
            lo = [rnd.randint(-3, 5) for _ in range(3)]
            hi = [rnd.randint(lo[i] - 1, lo[i] + 5) for i in range(3)]
            acts.append({"a": k, "arg": {"lo": lo, "hi": hi}})
            continue
        else:
            d = [rnd.randint(1, 9), rnd.randint(1, 7), rnd.randint(1, 6)]
            coords = [[x, y, z] for x in range(d[0]) for y in range(d[1]) for z in range(d[2])]
        rnd.shuffle(coords)
        idxs = list(range(len(coords)))
        rnd.shuffle(idxs)
        acts.append({"a": k, "arg": {"d": d, "coords": coords, "idxs": idxs}})
    return acts


# ---------------------------------------------------------------------------
SLOW = 90.0      # seconds
FLOOD = 150      # mismatches in one chunk after which the rest of that replay is skipped (the verdict is already VIOLATION)


def replay_chunked(chk, exe, hs, tag, sig_prefix, isolate, chunk):
    """adtcheck.replay in chunks.  On the unchanged tree every chunk runs; when a change of the code makes
    hundreds of cases crash (each crash costs a fork and a sanitizer report), the replay stops after the first
    chunk with more than FLOOD mismatches - all of them are reported - instead of taking half an hour."""
    n = 0
    wall = 0.0
    done = 0
    for i in range(0, len(hs), chunk):
        part = hs[i:i + chunk]
        k, w = adtcheck.replay(chk, exe, part, tag, sig_prefix, isolate=isolate)
        n += k
        wall += w
        done += len(part)
        # a change that makes calls hang costs one watchdog period per case (seeded/C17-07: 140 of 1500 cases, 30 s each):
        # a chunk with mismatches that took longer than SLOW seconds ends the replay as well
        if (k > FLOOD or (k > 0 and w > SLOW)) and done < len(hs):
            chk.log("%s: %d of %d cases of this chunk mismatch (%.0f s) - skipping the remaining %d cases of this replay" % (tag, k, len(part), w, len(hs) - done))
            chk.cov.setdefault("replays_cut_short", []).append({"tag": tag, "replayed": done, "of": len(hs)})
            break
    return n, wall, done


def replay_cases(chk, exe, cases, tag, isolate=200):
    hs = [[c] for c in cases]
    n, wall, done = replay_chunked(chk, exe, hs, tag, SIG, isolate, 100)
    chk.count_actions(hs)      # what was generated (a replay cut short by a flood of mismatches already is a VIOLATION)
    return n, wall


WALK_STYLES = ["walk_range_for", "walk_for_pre", "walk_std_for_each", "walk_for_post", "walk_while_pre", "walk_do_while_pre", "walk_deref_preinc",
               "preinc_equals_it", "preinc_value_index", "begin_is_end", "begin_ne_end"]
POSTFIX_STYLES = ["walk_deref_postinc", "postinc_value_is_old", "postinc_value_index"]
POSTFIX_SIG = "multidim_index_iterator/operator++(int)/value-designates-new-position"


def replay_postfix_value(chk, exe, post):
    """The value of it++ must designate the OLD position (cases IterPost2 / IterPost3: `*it++` loops, v = it++ compared with
    the old and the new position).  All mismatches of this family are one defect of the header (the postfix operator
    returns a reference to the advanced iterator), so they are reported under ONE signature."""
    hs = [[c] for c in post]
    chk.count_actions(hs)
    res, rc, stderr, wall = adt.run_driver(exe, hs, "c17-iterpost", isolate=50)
    if rc not in (0,) and not res:
        raise tla.InfraError("driver produced nothing for the postfix cases (rc=%s): %s" % (rc, stderr[-1500:]))
    mms = adt.compare(hs, res, rc, stderr)
    for mm in mms:
        if mm["kind"] == "missing":
            raise tla.InfraError("driver stopped without result for postfix case %d (rc=%s): %s" % (mm["case"], rc, stderr[-1500:]))
        c = hs[mm["case"]][0]
        what = ("%s extent %s: %s expected %s observed %s (the value of it++ designates the new position: `*it++` skips the first "
                "coordinate and dereferences end())" % (c["a"], c["arg"]["d"], mm["field"], json.dumps(mm.get("expected"))[:200], json.dumps(mm.get("observed"))[:200]))
        rep = {"kind": "history", "property": chk.pid, "tag": "c17-iterpost", "sig_prefix": SIG, "fixed_sig": POSTFIX_SIG, "meta": None,
               "history": hs[mm["case"]], "mismatch": {k: v for k, v in mm.items() if k != "stderr"}}
        sig = POSTFIX_SIG if mm["kind"] == "value" else sig_of(SIG, mm)
        chk.violation(sig, what, rep)
    chk.cov["evaluations"] += len(hs)
    chk.log("value of it++: %d cases replayed (%d mismatching) in %.1fs" % (len(hs), len(mms), wall))


def observe_only(chk, exe, cases, tag, what):
    """Cases outside the statement: run them, compare, record differences as notes (never violations)."""
    hs = [[c] for c in cases]
    res, rc, stderr, wall = adt.run_driver(exe, hs, tag, isolate=50)
    diffs = 0
    first = None
    for i, h in enumerate(hs):
        r = res.get(i)
        if r is None or "crash" in r or "timeout" in r:
            diffs += 1
            first = first or {"case": h[0].get("arg"), "observed": r}
            continue
        mm = adt.subset_mismatch(h[0].get("exp", {}), r["obs"][0])
        if mm:
            diffs += 1
            first = first or {"arg": h[0].get("arg"), "field": mm[0], "spec": mm[1], "observed": mm[2]}
    chk.cov.setdefault("outside_statement", []).append({"what": what, "cases": len(hs), "differ_from_reference": diffs, "first": first})
    if diffs:
        chk.note("outside the statement (recorded only): %s: %d of %d cases differ from the reference reading, e.g. %s"
                 % (what, diffs, len(hs), json.dumps(first)[:600]))
    return res


def validate_tables(chk, exe, executions, tag):
    """record_and_validate for IndexMapsTrace (own copy: TLC needs a larger JVM thread stack for the set
    comparisons over a few hundred tuples, which adtcheck.record_and_validate cannot pass on)."""
    res, rc, stderr, wall = adt.run_driver(exe, executions, tag + "-rec", isolate=5)
    execs = []
    for i, acts in enumerate(executions):
        r = res.get(i)
        if r is None:
            raise tla.InfraError("driver gave no result for recorded execution %d (rc=%s): %s" % (i, rc, stderr[-1500:]))
        if "crash" in r or "timeout" in r:
            kind = "crash" if "crash" in r else "timeout"
            k = r[kind].get("step", 0)
            execs.append([{"a": kind, "arg": acts[k].get("arg") if 0 <= k < len(acts) else None,
                           "during": acts[k]["a"] if 0 <= k < len(acts) else None, "obs": r[kind]}])
        else:
            execs.append([{"a": st["a"], "arg": st.get("arg", []), "obs": o} for st, o in zip(acts, r["obs"])])
    acc, rej, stats = trace.validate(os.path.join(SPEC, "IndexMapsTrace.tla"), os.path.join(SPEC, "IndexMapsTrace.cfg"), execs, tag,
                                     workers=1, env={"JAVA_TOOL_OPTIONS": "-Xss256m"})
    chk.cov["traces_validated_against_impl"] += acc + len(rej)
    chk.cov.setdefault("trace_events_validated", 0)
    chk.cov["trace_events_validated"] += stats["events"]
    chk.log("trace validation %s: %d executions accepted, %d rejected, %d events, %.1fs" % (tag, acc, len(rej), stats["events"], stats["wall"]))
    for rj in rej:
        ev = rj["event"]
        mm = {"action": ev.get("during") or ev.get("a"), "cls": None, "field": "trace-rejected" if ev.get("a") not in ("crash", "timeout") else ev["a"]}
        what = "%s/maps: recorded tables rejected by IndexMapsTrace at event %d: %s" % (SIG, rj["line"], json.dumps(ev)[:400])
        rep = {"kind": "trace", "property": chk.pid, "tag": tag, "sig_prefix": SIG + "/maps", "meta": None,
               "actions": executions[rj["exec"]], "events": execs[rj["exec"]], "rejected_at": rj["line"]}
        chk.violation(sig_of(SIG + "/maps", mm), what, rep)


def model_checks(chk, quick):
    s = "" if quick else "_thorough"
    adtcheck.model_check(chk, SPEC, "IndexMapsMC", "IndexMapsMC%s.cfg" % s,
                         what="laws of flatten/reshape/longIndex/coordsOf/iteration for every extent, of for_each for every region")
    for neg in ("IndexMapsMC_neg1.cfg", "IndexMapsMC_neg2.cfg", "IndexMapsMC_neg3.cfg"):
        r = tla.run_tlc(os.path.join(SPEC, "IndexMapsMC.tla"), os.path.join(SPEC, neg), workers=4, timeout=300)
        if not r.violated:
            raise tla.InfraError("negative control %s was not violated: the laws are vacuous" % neg)
    r = tla.run_tlc(os.path.join(SPEC, "Array3DLaws.tla"), os.path.join(SPEC, "Array3DLaws_neg.cfg"), workers=4, timeout=300)
    if not r.violated:
        raise tla.InfraError("negative control Array3DLaws_neg.cfg was not violated: the out-of-extent laws are vacuous")
    chk.cov["negative_controls_violated_as_expected"] = 4
    adtcheck.model_check(chk, SPEC, "LimbsMC", "LimbsMC.cfg", workers=4, what="limb arithmetic laws (ASSUMEs)")
    adtcheck.model_check(chk, SPEC, "Array3DMC", "Array3DMC%s.cfg" % s, what="get(c) = value last set at clamp(c) after every history of New/Set/Clear up to K")
    adtcheck.model_check(chk, SPEC, "Array3DLaws", "Array3DLaws%s.cfg" % s, what="adaptor laws in every reachable array state")


def run(chk, replay=None):
    quick = chk.tier == "quick"
    rnd = random.Random(chk.seed)
    chk.assumptions += [
        "flattened order = first coordinate fastest (the documented layout of rkcommon arrays); the driver reports tables in that order",
        "TLC explores the bounded domains completely; larger extents are covered by seeded random tables validated against the laws and by the fixed + random list of huge extents",
        "values beyond 2^31 are exchanged as base-2^15 digit sequences; the limb arithmetic is checked by TLC against integer arithmetic where both exist and by algebraic laws beyond",
        "outside their size() the adaptors mean what their code defines: sub-box and accessor forward to the (clamping) underlying array, MultiSlice clamps z to the slice range, "
        "a shift wraps; left unconstrained: a shifted array handed where + size + shift < 0 (C++ % negative), shifts < -extent, coordinates near 2^31 through shift / sub-box "
        "(int overflow in where + lower), getValueRange of empty regions",
    ]
    if replay:
        return do_replay(chk, replay)
    s = "" if quick else "_thorough"
    # 1. design level (in a second thread: the TLC runs do not depend on the driver work below)
    import threading
    mc_err = []

    def mc():
        try:
            model_checks(chk, quick)
        except BaseException as ex:      # re-raised in the main thread
            mc_err.append(ex)
    mc_thread = threading.Thread(target=mc)
    mc_thread.start()
    try:
        _run_conformance(chk, quick, rnd, s)
    finally:
        mc_thread.join()
    if mc_err:
        raise mc_err[0]


def _run_conformance(chk, quick, rnd, s):
    exe = build.build("drv_array3d", san="address,undefined")
    # the state graph of the ActualArray3D machine is built by TLC while the functional cases are generated and replayed
    import threading
    gen = {}

    def gen_graph():
        try:
            budget = 20000 if quick else 400000
            gen["res"] = adtcheck.gen_histories(chk, SPEC, "Array3DLaws", "Array3DGen%s.cfg" % s, budget, 5,
                                                walks=1500 if quick else 15000, walk_len=40, seed=chk.seed, mutators=MUT, tag="c17-adt")
        except BaseException as ex:
            gen["err"] = ex
    gen_thread = threading.Thread(target=gen_graph)
    gen_thread.start()
    try:
        _run_cases(chk, quick, rnd, s, exe)
    finally:
        gen_thread.join()
    if "err" in gen:
        raise gen["err"]
    _run_machine(chk, quick, rnd, s, exe, gen["res"])


def _run_cases(chk, quick, rnd, s, exe):

    # 2. functional cases: small extents, complete tables
    cases = funcheck.gen_cases(chk, SPEC, "IndexMapsGen", "IndexMapsGen%s.cfg" % s, "c17-maps", env={"JDK_JAVA_OPTIONS": "-Xss512m"},
                               what="complete flatten/reshape/longIndex/coordsOf tables and iteration / for_each sequences")
    post = [c for c in cases if c["a"] in ("IterPost2", "IterPost3")]
    cases = [c for c in cases if c["a"] not in ("IterPost2", "IterPost3")]
    n, wall = replay_cases(chk, exe, cases, "c17-maps")
    chk.log("index maps: %d cases replayed (%d mismatching) in %.1fs" % (len(cases), n, wall))
    replay_postfix_value(chk, exe, post)
    # vacuity guard: every way of writing the loop was generated for every extent 0..4 per axis, in 2D and in 3D
    styles = {}
    for c in cases + post:
        if c["a"] in ("Seq2", "Seq3", "IterPost2", "IterPost3") and max(c["arg"]["d"]) <= 4:
            for f in (WALK_STYLES if c["a"].startswith("Seq") else POSTFIX_STYLES):
                if f in c["exp"]:
                    styles[c["a"] + "/" + f] = styles.get(c["a"] + "/" + f, 0) + 1
    chk.cov["walk_styles_per_extent"] = styles
    for a, need, fields in (("Seq2", 25, WALK_STYLES), ("Seq3", 125, WALK_STYLES), ("IterPost2", 25, POSTFIX_STYLES), ("IterPost3", 125, POSTFIX_STYLES)):
        for f in fields:
            if styles.get(a + "/" + f, 0) < need:
                raise tla.InfraError("vacuity guard: walk style %s generated for %d of %d extents of %s" % (f, styles.get(a + "/" + f, 0), need, a))
    chk.cov["distinct_nontrivial"] += len({json.dumps([c["a"], c["arg"]], sort_keys=True) for c in cases if c.get("cls") != "empty"})
    chk.add_sample({"kind": "case", "case": next(c for c in cases if c["a"] == "Seq2" and c["arg"]["d"] == [3, 2])})

    # 3. huge extents
    bigin = os.path.join(tla.WORK, "cases", "c17-big", "bigin-%d.ndjson" % os.getpid())
    rb = rand_big_inputs(rnd, 60 if quick else 600)
    write_ndjson(bigin, rb)
    bcases = funcheck.gen_cases(chk, SPEC, "IndexMapsBig", "IndexMapsBig.cfg", "c17-big", env={"BIGIN": bigin},
                                what="indices of extents with products beyond 2^31 / 2^32 (fixed list + %d seeded random)" % len(rb))
    os.remove(bigin)
    if not can_map_lazily(2 ** 33 + 2 ** 30):
        chk.note("this machine cannot map 2^33 bytes lazily: set()/get() on huge external memory skipped (indices are still compared)")
        for c in bcases:
            if c["a"] == "BigArr3" and c["arg"].get("mem"):
                c["arg"]["mem"] = False
                c["exp"].pop("set_offset", None)
                c["exp"].pop("get_back", None)
    chk.cov["huge_arrays_mapped"] = sum(1 for c in bcases if c["a"] == "BigArr3" and c["arg"].get("mem"))
    n, wall = replay_cases(chk, exe, bcases, "c17-big", isolate=20)
    chk.log("huge extents: %d cases replayed (%d mismatching) in %.1fs" % (len(bcases), n, wall))
    chk.cov["distinct_nontrivial"] += len({json.dumps([c["a"], c["arg"]], sort_keys=True) for c in bcases})
    chk.cov["huge_extent_cases_by_class"] = {}
    for c in bcases:
        chk.cov["huge_extent_cases_by_class"][c["cls"]] = chk.cov["huge_extent_cases_by_class"].get(c["cls"], 0) + 1
    chk.add_sample({"kind": "case", "case": next(c for c in bcases if c["a"] == "BigArr3" and c["cls"] == "above2^32")})

    # 4. adaptors: complete tables for every extent <= 3x3x3
    acases = funcheck.gen_cases(chk, SPEC, "Array3DCases", "Array3DCases%s.cfg" % s, "c17-views",
                                what="clamped gets, value ranges of every region, tables of every shift / clip box / accessor / 1..3 slices, compositions")
    for c in acases:
        if c["exp"].get("vn") == -1:      # the specification leaves numElements() open here (slices thicker than one plane)
            del c["exp"]["vn"]
    OUTSIDE = ("shift<-ext", "empty", "repeat", "repeat-as-clamp")
    inside = [c for c in acases if c["cls"] not in OUTSIDE]
    outside_shift = [c for c in acases if c["cls"] == "shift<-ext"]
    outside_empty = [c for c in acases if c["cls"] == "empty"]
    n, wall = replay_cases(chk, exe, inside, "c17-views")
    chk.log("adaptors: %d cases replayed (%d mismatching) in %.1fs" % (len(inside), n, wall))
    chk.cov["distinct_nontrivial"] += len({json.dumps([c["a"], c["arg"]], sort_keys=True) for c in inside})
    chk.cov["adaptor_cases_by_class"] = {}
    for c in inside:
        chk.cov["adaptor_cases_by_class"][c["cls"]] = chk.cov["adaptor_cases_by_class"].get(c["cls"], 0) + 1
    chk.add_sample({"kind": "case", "case": next(c for c in inside if c["cls"] == "shift.sub")})
    observe_only(chk, exe, outside_shift, "c17-out-shift", "IndexShiftedArray3D with a shift more negative than the extent (C++ % yields a negative coordinate, which get() clamps)")
    res = observe_only(chk, exe, outside_empty, "c17-out-empty", "getValueRange of an empty region")
    observe_only(chk, exe, [c for c in acases if c["cls"] == "repeat"], "c17-out-repeat",
                 "Array3DRepeater (not named by the statement) against mirrored repetition with the period of the input")
    observe_only(chk, exe, [c for c in acases if c["cls"] == "repeat-as-clamp"], "c17-out-repeat2",
                 "Array3DRepeater against plain clamping (what dividing by repeatedSize instead of the input's size amounts to)")
    ne = 0
    for i, c in enumerate(outside_empty):
        r = res.get(i)
        if r and "obs" in r:
            ne += sum(1 for x in r["obs"][0].get("ranges", []) if x["lo"] <= x["hi"])
    if ne:
        chk.note("outside the statement (recorded only): getValueRange of an empty region returned a NON-empty range (the value at the clamped begin) for %d empty regions" % ne)

    # vacuity guard: every adaptor kind is queried with a negative coordinate on each axis (and beyond the size)
    neg = {}
    for c in inside:
        if c["a"] != "View":
            continue
        kinds = set()
        def walk(e):
            if isinstance(e, list):
                for x in e:
                    walk(x)
            else:
                kinds.add(e["k"])
                if "of" in e:
                    walk(e["of"])
        walk(c["arg"]["e"])
        vs = c["exp"]["vsize"]
        for k in kinds - {"actual"}:
            st = neg.setdefault(k, {"neg": [0, 0, 0], "beyond": [0, 0, 0], "regions_below_0": 0})
            for pc in c["arg"]["probes"]:
                for i in range(3):
                    if pc[i] < 0:
                        st["neg"][i] += 1
                    if pc[i] >= vs[i]:
                        st["beyond"][i] += 1
            st["regions_below_0"] += sum(1 for r in c["arg"]["oregions"] if min(r[0]) < 0)
    chk.cov["adaptor_gets_outside_size"] = neg
    for k in ("shift", "sub", "acc", "slices"):
        st = neg.get(k)
        if not st or min(st["neg"]) == 0 or min(st["beyond"]) == 0 or st["regions_below_0"] == 0:
            raise tla.InfraError("vacuity guard: adaptor %s never queried with a negative / beyond-size coordinate on every axis: %s" % (k, st))
    chk.require_actions(["Seq2", "Seq3", "Arr3", "ForEach", "Interleave3", "IterPost2", "IterPost3", "BigSeq3", "BigSeq2", "BigArr3", "BigIter3", "Actual", "Ranges", "View"])
    for cls in ("shift", "shift>ext", "sub", "acc", "slices", "shift.sub", "sub.shift", "sub.sub", "shift.shift", "slices.sub", "acc.shift", "shift.slices"):
        if not chk.cov["adaptor_cases_by_class"].get(cls):
            raise tla.InfraError("vacuity guard: no adaptor case of class %s" % cls)
    for cls in ("shift(wide)", "sub(wide)", "slices(wide)", "acc(values)", "acc.shift(values)", "sub(values)", "non-empty(values)"):
        if not chk.cov["adaptor_cases_by_class"].get(cls):
            raise tla.InfraError("vacuity guard: no adaptor case of class %s" % cls)
    # numeric boundaries: an index exactly at 2^31-1, 2^31, 2^31+1, 2^32-1, 2^32, 2^32+1 and a total of 2^64-1 must be among the cases
    marks = {"2^31-1": 2 ** 31 - 1, "2^31": 2 ** 31, "2^31+1": 2 ** 31 + 1, "2^32-1": 2 ** 32 - 1, "2^32": 2 ** 32, "2^32+1": 2 ** 32 + 1}
    hit = {}
    for c in bcases:
        if "idx" in c["exp"]:
            for name, val in marks.items():
                if c["exp"]["idx"] == limbs(val):
                    hit[name + "/" + c["a"]] = hit.get(name + "/" + c["a"], 0) + 1
        if c["exp"].get("total") == limbs(2 ** 64 - 1):
            hit["total=2^64-1"] = hit.get("total=2^64-1", 0) + 1
    chk.cov["boundary_indices_hit"] = hit
    for name in marks:
        for op in ("BigSeq3", "BigArr3"):
            if not hit.get(name + "/" + op):
                raise tla.InfraError("vacuity guard: no %s case with index %s" % (op, name))
    if not hit.get("total=2^64-1"):
        raise tla.InfraError("vacuity guard: no extent with 2^64-1 cells")
    for cls in ("2^31..2^32", "above2^32"):
        if not chk.cov["huge_extent_cases_by_class"].get(cls):
            raise tla.InfraError("vacuity guard: no huge-extent case of class %s" % cls)



def _run_machine(chk, quick, rnd, s, exe, gen_result):
    # 5. the ActualArray3D state machine with live views: spec -> code
    hs, info, ag = gen_result
    chk.count_actions(hs)
    chk.require_actions(["New", "Set", "Clear", "Poke", "Get", "Range", "RangeWhole", "ViewShift", "ViewSub", "ViewAcc", "ViewSlices"])
    chk.cov["generation_Array3D"] = info
    n, wall, _ = replay_chunked(chk, exe, hs, "c17-adt", SIG + "/ActualArray3D", 500, 3000)
    chk.log("ActualArray3D + views: %d histories replayed (%d mismatching) in %.1fs" % (len(hs), n, wall))
    chk.cov["distinct_nontrivial"] += adtcheck._nontrivial_distinct(hs, MUT)
    chk.add_sample({"kind": "history", "object": "ActualArray3D", "steps": hs[len(hs) // 2][:6]})

    # element type variants (narrower / wider than int, floats, structs of 3 / 12 / 24 bytes): the transition cover and a
    # sample of the walks; for the struct types the steps that need an ordering (value ranges, views with their range) are
    # left out of the histories - they are reading steps, so what remains is still a behaviour of the specification
    cover = [h for h in hs if len(h) <= 6]
    sample = cover[::6 if quick else 3] + [h for h in hs if len(h) > 6][:100 if quick else 1000]
    plain = {"New", "Set", "Clear", "Poke", "Get"}
    chk.cov["type_variants"] = {}
    for variant in ARITH_VARIANTS + STRUCT_VARIANTS:
        vh = sample if variant in ARITH_VARIANTS else [[st for st in h if st["a"] in plain] for h in sample]
        n, wall = adtcheck.replay(chk, exe, vh, "c17-adt-" + variant, SIG + "/ActualArray3D<%s>" % variant, isolate=500, meta={"variant": variant})
        chk.cov["type_variants"][variant] = len(vh)
        chk.cov["distinct_nontrivial"] += adtcheck._nontrivial_distinct(vh, MUT)
        if n:
            chk.log("ActualArray3D<%s>: %d of %d histories mismatch" % (variant, n, len(vh)))
    chk.log("element type variants %s: %d histories each" % (", ".join(ARITH_VARIANTS + STRUCT_VARIANTS), len(sample)))

    # 6. code -> spec: recorded random executions validated by TLC
    nexec = 20 if quick else 150
    acts = [rand_array_actions(rnd, 200) for _ in range(nexec)]
    adtcheck.record_and_validate(chk, exe, SPEC, "Array3DTrace", "Array3DTrace.cfg", acts, "c17-adt", SIG + "/ActualArray3D", isolate=5)
    tacts = [rand_table_actions(rnd, 12) for _ in range(8 if quick else 60)]
    validate_tables(chk, exe, tacts, "c17-maps")
    chk.add_sample({"kind": "recorded-trace-prefix", "object": "ActualArray3D", "actions": acts[0][:5]})
    chk.cov["exhaustive"] = True
    chk.cov["rule"] = ("cases = one per point of the bounded input domain, emitted by TLC with the complete expected tables (extent -> all coordinate<->index pairs and "
                       "iteration sequences; region -> for_each sequence; (extent, adaptor parameters) -> complete table of the adaptor; (huge extent, coordinate) -> index); "
                       "histories = paths of TLC's state graph of the ActualArray3D machine (all paths up to the budgeted length, one shortest path per transition, seeded random "
                       "walks); non-trivial = non-empty extent / region for cases, contains Set or Clear for histories; distinct = distinct (action, argument) sequences")


def do_replay(chk, path):
    rep = json.load(open(path))
    exe = build.build("drv_array3d", san="address,undefined")
    if rep["kind"] == "history" and rep.get("fixed_sig"):
        replay_postfix_value(chk, exe, rep["history"])
    elif rep["kind"] == "history":
        adtcheck.replay(chk, exe, [rep["history"]], "replay", rep["sig_prefix"], isolate=1)
    else:
        if rep["sig_prefix"].endswith("/maps"):
            validate_tables(chk, exe, [rep["actions"]], "replay")
        else:
            adtcheck.record_and_validate(chk, exe, SPEC, "Array3DTrace", "Array3DTrace.cfg", [rep["actions"]], "replay", rep["sig_prefix"], isolate=1)
    chk.cov["evaluations"] = max(chk.cov["evaluations"], 1)
