"""C16 - XML reading is total, memory-safe, and faithful on its supported subset (rkcommon/xml/XML.{h,cpp})."""
import glob, json, os, random, re, shutil, time
from concurrent.futures import ThreadPoolExecutor
from .. import tla, build, adt, funcheck
from ..core import sig_of
from ..tla import VERIF, WORK

LEVEL = "exploration"
LEVEL_TEXT = ("TLA+ module XmlDoc defines the documented subset twice, independently: Render(tree, choices) (header, quote style, attribute "
              "order, <a/> versus <a></a>, whitespace at every place the grammar allows it, comments, position of the text run) and a strict "
              "recursive-descent reference parser ParseDoc over character sequences.  TLC checks Parse(Render(t, c)) = t on the whole bounded "
              "domain, prefix laws of the recogniser, and a render-back law on EVERY string up to the bounded length over an 8-symbol alphabet, "
              "and emits [document, tree] cases.  Every such document is read by the real readXML (ASan+UBSan build, file on disk) and the "
              "returned tree is compared with the tree TLC computed.  For everything else - the same short-string set enumerated natively, "
              "every truncation / deletion / substitution / insertion (and truncation followed by one more symbol) of sampled generated "
              "documents over a 58-symbol alphabet (27 fixed symbols + the bytes 0x85 0x89 0x8A 0x8D 0xA0 0xC9 0xCA 0xCD 0xE0 + 22 seeded further bytes "
              ">= 0x80) incl. dash runs, NUL, VT, FF, 0x1C-0x1F, DEL, 0x80 and 0xFF (always among them documents with blank-padded "
              "text), every character-data run of length <= 3 over { t, space, LF, tab, VT, FF } in three positions, seeded random token and byte strings, documents nested 2000 deep - only the way the call ends is constrained "
              "(returned, or std::runtime_error; the admissible set is supplied by the specification).  Boundaries: documents defined by formula "
              "(a name / value / content / comment / blank run of n characters, n attributes, n children, files of exactly n bytes, chains "
              "n deep, n at 0 1 2 127..129 255..257 511..513 1023..1025 4095..4097 8191..8193 65535..65537 2^20-1..2^20+1) are built by the "
              "driver, the returned tree is compared in run-length compressed form with the formula tree, and TLC checks formula = parser "
              "for n <= 9; every byte value first / last in names, control bytes first / last in every field; the accessors getProp / hasProp "
              "are compared with the property map.  History: all sequences of <= 3 files from a pool of 8 read in a fresh process must give "
              "the per-file expectation and equal observations for equal bytes; the same on 4 threads released together; every other ending (sanitizer report, "
              "signal, other exception type, no progress for 120 s) is attributed to its input in a forked child, judged and classified by "
              "TLC (lexical context in which the input ends) and re-run once before it is reported.  Code -> spec: seeded random larger "
              "documents with per-occurrence random layout are read by the real code and TLC's reference parser decides whether the "
              "observed tree is the tree of the document")
LEVEL_NOTE = ("exhaustive over: 4 core trees (two attributes, both quote characters inside values, bare child, text beside two children, "
              "depth 3) x all 17 280 choice vectors (4 headers x 2x2 quote styles x attribute order x <a/> or <a></a> x 3 in-tag whitespace "
              "forms x end-tag whitespace x 3 content whitespace forms x 6 comment forms x 3 text positions, minus the combinations of the "
              "separately classed constructs; choices that cannot change the document of a tree are fixed); all trees of depth <= 2, "
              "fan-out <= 2, 2 names, 9 attribute lists, 3 contents with children from 8 (thorough 24) leaves x 8 style profiles; every comment body built from dash runs of 0..5 at its start, middle and end (and bodies of dashes only, '>' "
              "after a single dash) in 6 positions incl. one where a missed terminator swallows a sibling; every byte value 0x21..0xFF except markup as content b, bx, xb, bb "
              "after the start tag / a comment / a child, before a child, blank-padded, and as attribute value in both quote styles; every "
              "string of length <= 6 (thorough 7) over { < > / = \" a space ! }; every content run of length <= 3 over 6 symbols x 3 positions (trees "
              "for the runs inside the subset, the ending only for runs with VT / FF).  Sampled only: mutations (seeded sample of the generated "
              "documents), random strings, random larger documents.  Not decided: totality over all byte strings (only the enumerated / "
              "derived / sampled corpus), files of 2^31 bytes and more, directories / unreadable files, nesting deeper than 2000 (the ASan build exhausts the 8 MB stack between 3500 and 4000 levels: the "
              "statement assumes bounded depth), files that cannot be opened or sized, locale-dependent isalpha, "
              "entities / CDATA / DOCTYPE / names with '-' or ':' (outside the subset the reader documents; only their safe ending is "
              "checked).  The accept/reject decision outside the subset is deliberately not compared (the reader may be lenient).  "
              "Trusted: TLC, ASan/UBSan as the out-of-bounds detector (reads that stay inside the zero-terminated copy of the file plus "
              "its terminator are in bounds), the driver's projection of a Node to name / sorted attribute pairs / content / children, "
              "tmpfs or disk files as 'a file', g++/libstdc++")
TECHNIQUE = ("TLA+ functional specification (renderer + reference parser) with laws checked by TLC over bounded domains; exhaustive case "
             "replay on the real reader under ASan/UBSan; native enumeration / mutation / random corpora with per-input crash attribution; "
             "TLC judgement of recorded observations (reference parser as trace validator, lexical classifier for signatures)")
SPEC = os.path.join(VERIF, "spec", "xml")
API = "readXML"
HANG_S = int(os.environ.get("VERIF_C16_HANG_S", "120"))      # no progress on one input for this long = hang (monotonic clock, generous)
# the recursive scans of XmlDoc need a deep stack in TLC's worker threads; the characters 0x7F..0xFF are written as UTF-8
JAVA_ENV = {"JAVA_TOOL_OPTIONS": "-Xss512m -Dfile.encoding=UTF-8"}
REQUIRED_HIGH = [0x85, 0x89, 0x8A, 0x8D, 0xA0, 0xC9, 0xCA, 0xCD, 0xE0, 0xFF]


def tlc_env(**kw):
    """environment of every TLC run: JVM options and the table code -> character (codes 33..255) the specification cannot write itself"""
    d = os.path.join(WORK, "cases")
    os.makedirs(d, exist_ok=True)
    tab = os.path.join(d, "c16-bytes-%d.ndjson" % os.getpid())
    if not os.path.exists(tab):
        with open(tab, "w") as f:
            ctl = [c for c in range(32) if c not in (9, 10, 13)]
            f.write(json.dumps({"codes": list(range(33, 256)), "chars": [chr(c) for c in range(33, 256)],
                                "ctlcodes": ctl, "ctlchars": [chr(c) for c in ctl]}) + "\n")
    e = dict(JAVA_ENV, XML_BYTES=tab, XML_VT="\x0b")
    e.update(kw)
    return e
MUT_ALPHABET = ["<", ">", "/", "=", "\"", "a", " ", "!", "'", "\\", "-", "?", "\x00", "\xff", "&", "\n", "x",
                # the byte-class boundaries of the C locale that the reader's isspace / isalpha / isdigit calls tell apart and its own
                # isWhite() does not: VT and FF (isspace only), the separators 0x1C-0x1F, DEL, the first high byte
                "\x0b", "\x0c", "\x1c", "\x1d", "\x1e", "\x1f", "\x7f", "\x80",
                # dash runs (a run put before the "-->" of a comment makes a longer closing run)
                "--", "---"]


def closing_dash_runs(doc):
    """lengths of the dash runs that stand directly before the '>' ending each comment of a document (a comment ends at the first
    "-->" after its opener); used by the vacuity guard only"""
    out, i = [], doc.find("<!--")
    while i >= 0:
        e = doc.find("-->", i + 4)
        if e < 0:
            break
        k = e + 2
        while k - 1 >= i + 4 and doc[k - 1] == "-":
            k -= 1
        out.append(e + 2 - k)
        i = doc.find("<!--", e + 3)
    return out
PADDED_TEXT = re.compile(r">[ \t\r\n]+[^<\s][^<]*[ \t\r\n]+<")              # a text run with blanks on both sides
ODD_AFTER_BLANK = re.compile(r">[^<>]*[ \t\r\n][^<>]*[\x0b\x0c][^<>]*<")    # VT / FF in element content after a blank
RANDOM_TOKENS = ["<", ">", "/", "=", "\"", "'", " ", "\n", "a", "b1", "<a", "</a>", "<a>", "/>", "<!--", "-->", "<?xml", "?>", " q=\"v\"",
                 " q='", "\\", "\x00", "\xff", "&", "-", "!", "t u", "<a q=\"", "<!", "</", "<?", "--", "<a/>", "\t", "\r", "_", ".", "9"]
BULK_ASAN = ("detect_leaks=0:abort_on_error=0:exitcode=97:allocator_may_return_null=1:detect_stack_use_after_return=0:"
             "symbolize=0:print_legend=0")


def family_path(path):
    """the nesting depth at which a tree differs is not part of the family of a finding: /tree/child[0]/child[1]/content -> /tree/child[]/content"""
    return re.sub(r"(/child\[\d*\])+", "/child[]", path or "")


def sort_keys(v):
    return json.loads(json.dumps(v, sort_keys=True))


def unchars(v):
    """for messages / path computation only: lists of one-character strings back to strings"""
    if isinstance(v, list):
        if v and all(isinstance(x, str) and len(x) == 1 for x in v):
            return "".join(v)
        if not v:
            return v
        return [unchars(x) for x in v]
    if isinstance(v, dict):
        return {k: unchars(x) for k, x in v.items()}
    return v


def unchars_tree(t):
    """tree in chars mode -> tree with plain strings (empty list = empty string for name / content / attribute parts)"""
    j = lambda x: "".join(x) if isinstance(x, list) else x
    return {"name": j(t["name"]), "content": j(t["content"]), "props": [[j(p[0]), j(p[1])] for p in t["props"]],
            "child": [unchars_tree(c) for c in t["child"]]}


class Ctx:
    def __init__(self, chk):
        self.chk = chk
        self.exe = build.build("drv_xml", san="address,undefined")
        base = "/dev/shm" if os.path.isdir("/dev/shm") and os.access("/dev/shm", os.W_OK) else os.path.join(WORK, "run")
        self.tmpdir = os.path.join(base, "verif-c16-%d" % os.getpid())      # the files readXML is given (tmpfs if there is one)
        os.makedirs(self.tmpdir, exist_ok=True)
        self.safe = None
        self.fd_delta = 0
        self.fd_reports = 0
        self.calls = 0

    def close(self):
        shutil.rmtree(self.tmpdir, ignore_errors=True)
        try:
            os.remove(os.path.join(WORK, "cases", "c16-bytes-%d.ndjson" % os.getpid()))
        except OSError:
            pass

    def meta(self, **kw):
        m = {"tmpdir": self.tmpdir}
        m.update(kw)
        return m


# ---------------------------------------------------------------------------
# running histories in parallel driver processes
# ---------------------------------------------------------------------------
def run_parallel(cx, histories, tag, isolate, meta, jobs=8, env=None, timeout_ms=3600000):
    """-> list of result lines (or None) in the order of `histories`"""
    n = len(histories)
    if n == 0:
        return []
    jobs = max(1, min(jobs, n))
    chunks = [list(range(k, n, jobs)) for k in range(jobs)]

    def one(k):
        hs = [histories[i] for i in chunks[k]]
        res, rc, stderr, wall = adt.run_driver(cx.exe, hs, "%s-%d" % (tag, k), isolate=isolate, meta=meta, env=env, timeout=7200,
                                               extra_args=["--timeout-ms", str(timeout_ms)])
        return res, rc, stderr
    out = [None] * n
    with ThreadPoolExecutor(max_workers=jobs) as ex:
        for k, (res, rc, stderr) in enumerate(ex.map(one, range(jobs))):
            for j, i in enumerate(chunks[k]):
                out[i] = res.get(j)
                if out[i] is None:
                    raise tla.InfraError("driver gave no result for %s history %d (rc=%s): %s" % (tag, i, rc, stderr[-1500:]))
    return out


# ---------------------------------------------------------------------------
# spec -> code: documents of the subset, expected tree computed by TLC
# ---------------------------------------------------------------------------
def replay_reads(cx, hs, tag, isolate=500, jobs=8):
    chk = cx.chk
    res = run_parallel(cx, hs, tag, isolate, cx.meta(), jobs=jobs, timeout_ms=900000)
    cx.calls += len(hs)
    mms = sorted(adt.compare(hs, dict(enumerate(res)), 0, ""), key=lambda m: (len(hs[m["case"]][0]["arg"]["doc"]), hs[m["case"]][0]["arg"]["doc"]))
    confirmed = set()
    for mm in mms:
        h = hs[mm["case"]]
        sig = sig_of(API, dict(mm, field=family_path(mm.get("field"))))
        what = "%s: document %s (class %s): %s expected %s observed %s" % (
            API, json.dumps(h[0]["arg"]["doc"])[:400], h[0].get("cls"), mm["field"], json.dumps(mm.get("expected"))[:300], json.dumps(mm.get("observed"))[:300])
        rep = {"kind": "history", "property": chk.pid, "tag": tag, "sig_prefix": API, "meta": None, "history": h,
               "mismatch": {k: v for k, v in mm.items() if k != "stderr"}}
        if mm["kind"] in ("crash", "timeout") and sig not in confirmed:
            confirmed.add(sig)
            kind, obs, tail = read_single(cx, h[0]["arg"]["doc"], "c16-confirm")      # re-run once, sanitizer report symbolised
            if kind != mm["kind"]:
                chk.note("not reproduced (first run: %s, re-run: %s), not reported: %s" % (mm["kind"], kind, what[:300]))
                confirmed.discard(sig)
                continue
            rep["stderr_tail"] = tail
        chk.violation(sig, what, rep)
    return len(mms)


# ---------------------------------------------------------------------------
# TLC as judge of recorded observations
# ---------------------------------------------------------------------------
def judge(chk, lines, tag):
    """lines: [{"kind","doc"(str),"obs"}] -> verdict per line (same order)"""
    if not lines:
        return []
    d = os.path.join(WORK, "traces", tag)
    os.makedirs(d, exist_ok=True)
    obsp = os.path.join(d, "obs-%d.ndjson" % os.getpid())
    outp = os.path.join(d, "verdict-%d" % os.getpid())
    for f in glob.glob(outp + "-*"):
        os.remove(f)
    with open(obsp, "w") as f:
        for i, ln in enumerate(lines):
            f.write(json.dumps({"id": i, "kind": ln["kind"], "doc": list(ln["doc"]), "nul": ["\x00"], "obs": ln["obs"]}, separators=(",", ":")) + "\n")
    env = tlc_env(OBS=obsp, OUT=outp)
    r = tla.run_tlc(os.path.join(SPEC, "XmlJudge.tla"), os.path.join(SPEC, "XmlJudge.cfg"), workers=8, timeout=3000, env=env, tag="judge-" + tag)
    if not r.ok:
        raise tla.InfraError("XmlJudge failed on %s: violated=%s error=%s\n%s" % (tag, r.violated, r.error, r.out[-2500:]))
    verdicts = {}
    for fpath in glob.glob(outp + "-*"):
        for x in open(fpath, encoding="utf-8"):
            if x.strip():
                v = json.loads(x)
                verdicts[v["id"]] = v
        os.remove(fpath)
    os.remove(obsp)
    if len(verdicts) != len(lines):
        raise tla.InfraError("XmlJudge returned %d verdicts for %d lines (%s)" % (len(verdicts), len(lines), tag))
    chk.cov["models"].append({"module": "XmlJudge/" + tag, "lines_judged": len(lines), "rejected": sum(1 for v in verdicts.values() if not v["ok"]),
                              "wall_s": round(r.wall, 1), "what": "recorded observations of the real reader judged by the specification"})
    chk.cov["traces_validated_against_impl"] += len(lines)
    chk.cov.setdefault("observations_validated_by_tlc", 0)
    chk.cov["observations_validated_by_tlc"] += len(lines)
    chk.log("TLC XmlJudge %s: %d recorded observations judged, %d rejected, %.1fs" % (tag, len(lines), sum(1 for v in verdicts.values() if not v["ok"]), r.wall))
    return [verdicts[i] for i in range(len(lines))]


# ---------------------------------------------------------------------------
# robustness: every call ends in one of the outcomes the specification admits
# ---------------------------------------------------------------------------
def read_single(cx, doc, tag):
    """one file through readXML in a forked child, sanitizer reports symbolised; -> (kind, observation, stderr tail)"""
    res, rc, stderr, wall = adt.run_driver(cx.exe, [[{"a": "Read", "arg": {"doc": doc}}]], tag, isolate=1, meta=cx.meta(),
                                           extra_args=["--timeout-ms", str(HANG_S * 1000)])
    r = res.get(0)
    if r is None:
        raise tla.InfraError("driver gave no result for a single read (rc=%s): %s" % (rc, stderr[-1500:]))
    if "crash" in r:
        return "crash", r["crash"], stderr[-3000:]
    if "timeout" in r:
        return "timeout", r["timeout"], stderr[-1500:]
    o = r["obs"][0]
    if "unexpected_exception" in o:
        raise tla.InfraError("driver failed on a single read: %s" % o)
    return o["outcome"], o, ""


def report_unsafe(cx, bad, tag):
    """bad: [{"doc","outcome","src"}]: inputs whose call ended outside the admitted set.  TLC judges and classifies each of
    them; per signature the shortest input is re-run once (symbolised) and reported."""
    chk = cx.chk
    if not bad:
        return
    bad = sorted(bad, key=lambda b: (len(b["doc"]), b["doc"]))
    cap = 60000
    if len(bad) > cap:
        chk.note("%d inputs ended outside the admitted outcomes; the %d shortest are classified" % (len(bad), cap))
        bad = bad[:cap]
    vs = judge(chk, [{"kind": "safe", "doc": b["doc"], "obs": {"outcome": b["outcome"].split(":")[0] if b["outcome"].startswith("exception") else b["outcome"]}}
                     for b in bad], tag)
    groups = {}
    for b, v in zip(bad, vs):
        if v["ok"]:
            raise tla.InfraError("orchestrator and specification disagree on the admitted outcomes: %s / %s" % (b, v))
        sig = sig_of(API, {"action": "readXML", "cls": v["cls"], "field": v["field"]})
        groups.setdefault(sig, []).append((b, v))
    for sig in sorted(groups):
        members = groups[sig]
        b, v = members[0]                                  # the shortest input of the family
        kind, obs, tail = read_single(cx, b["doc"], "c16-confirm")
        same = (kind == b["outcome"]) or (kind.startswith("exception") and b["outcome"].startswith("exception"))
        if not same:
            chk.note("not reproduced (first run: %s, re-run: %s), not reported: %s %r" % (b["outcome"], kind, sig, b["doc"][:80]))
            continue
        what = "%s: file %s (%d bytes, %s) ended in %s; the specification admits %s; %d input(s) of this class" % (
            API, json.dumps(b["doc"]), len(b["doc"]), b["src"], kind if kind in ("crash", "timeout") else obs.get("outcome"),
            cx.safe, len(members))
        rep = {"kind": "safe", "property": chk.pid, "doc": b["doc"], "outcome": b["outcome"], "cls": v["cls"], "field": v["field"], "source": b["src"],
               "admitted": cx.safe, "observed": obs, "others": [m[0]["doc"] for m in members[1:6]]}
        if tail:
            rep["stderr_tail"] = tail
        for _ in members:
            chk.violation(sig, what, rep)


SINGLE = ("Nest", "Big", "ReadMissing", "ReadSeq", "ReadThreads", "ReadRep")     # actions whose history is one call (or one short sequence of calls)


def check_single(cx, h, r, tag):
    """Nest / Big / ReadMissing / ReadSeq / ReadThreads: expectations computed by TLC (formula documents, function-of-the-bytes law)"""
    chk = cx.chk
    st = h[0]
    a, arg, exp = st["a"], st["arg"], st.get("exp", {})
    cls = {"Nest": lambda: "depth=%s,form=%s" % (arg["depth"], arg["form"]), "Big": lambda: "%s,n=%s" % (arg["kind"], arg["n"]),
           "ReadMissing": lambda: "no-such-file", "ReadSeq": lambda: "", "ReadThreads": lambda: "threads=%d" % len(arg["threads"]),
           "ReadRep": lambda: "nofile=%s" % arg["nofile"]}[a]()

    def report(cls_, field, expected, observed):
        chk.violation(sig_of(API, {"action": a, "cls": cls_, "field": family_path(field)}),
                      "%s: %s(%s): %s expected %s observed %s" % (API, a, json.dumps({k: v for k, v in arg.items() if k not in ("docs", "threads")} or cls_)[:200],
                                                                  field, json.dumps(expected)[:300], json.dumps(observed)[:300]),
                      {"kind": "history", "property": chk.pid, "tag": tag, "sig_prefix": API, "meta": None, "history": h, "admitted": cx.safe})

    if "crash" in r or "timeout" in r:
        kind = "crash" if "crash" in r else "timeout"
        cx.calls += 1
        return report(cls, kind, cx.safe, r[kind])
    o = r["obs"][0]
    if "unexpected_exception" in o or "unknown_action" in o:
        raise tla.InfraError("driver failed on %s: %s" % (a, o))

    def step(cls_, path, e, ob):
        """one call: e = expectation of the specification (tree, or only the admitted endings)"""
        cx.calls += 1
        if "fd_delta" in ob:
            cx.fd_reports += 1
            if ob["fd_delta"] != cx.fd_delta:                 # fds' = fds, whether the call returned or threw
                report(cls_, path + "/fd_delta", cx.fd_delta, ob["fd_delta"])
        if ob.get("outcome") not in cx.safe:
            return report(cls_, path + "/outcome", cx.safe, ob.get("outcome"))
        e2 = {k: v for k, v in e.items() if k != "outcomes"}
        if "doc" in e2 and "doc" in ob and e2["doc"] != ob["doc"]:
            raise tla.InfraError("the driver builds another document than the specification: %r / %r" % (e2["doc"], ob["doc"]))
        mm = adt.subset_mismatch(e2, ob)
        if mm:
            report(cls_, path + mm[0], mm[1], mm[2])

    if a in ("Nest", "Big", "ReadMissing"):
        step(cls if a != "Big" else arg["kind"], "", exp, o)
    elif a == "ReadSeq":
        for i, (e, ob) in enumerate(zip(exp["steps"], o["steps"])):
            step(exp["cls"][i], "", e, ob)
            first = o["steps"][exp["same"][i] - 1]
            if ob != first:
                mm = adt.subset_mismatch(first, ob) or ("", first, ob)
                report(exp["cls"][i], "/differs-from-first-read-of-the-same-bytes" + mm[0], mm[1], mm[2])
    elif a == "ReadRep":
        if "parts" not in o:
            return report(cls, "crash", cx.safe, o)
        if o["nofile"] != exp["nofile"]:
            raise tla.InfraError("the long history did not run with the lowered descriptor limit: %s" % o["nofile"])
        for k, (e, ob) in enumerate(zip(exp["parts"], o["parts"])):
            pcls = "%s,part=%d" % (cls, k + 1)
            step(pcls, "/first", e["first"], ob["first"])
            cx.calls += e["reads"] - 1
            mm = adt.subset_mismatch({x: e[x] for x in ("reads", "distinct", "fd_delta_min", "fd_delta_max")}, ob)
            if mm:
                report(pcls, mm[0], mm[1], mm[2])
        if o["fd_delta_total"] != exp["fd_delta_total"]:
            report(cls, "/fd_delta_total", exp["fd_delta_total"], o["fd_delta_total"])
        cx.chk.cov["long_history"] = {"nofile": o["nofile"], "reads": [p_["reads"] for p_ in o["parts"]]}
    else:
        if o["fds"][1] - o["fds"][0] != cx.fd_delta:
            report(cls, "/fd_delta-over-all-threads", cx.fd_delta, o["fds"][1] - o["fds"][0])
        for t, (es, obs) in enumerate(zip(exp["threads"], o["threads"])):
            for e, ob in zip(es, obs):
                step(cls, "", e, ob["first"])
                cx.calls += arg["rounds"] - 1
                if ob["distinct"] != exp["distinct"]:
                    report(cls, "/distinct-observations-of-one-file", exp["distinct"], ob["distinct"])


def check_bulk(cx, hs, results, tag):
    """hs: bulk histories (one step each); collects the inputs whose outcome the specification does not admit"""
    chk = cx.chk
    bad = []
    skipped = {"not_run": 0, "not_listed": 0}
    for h, r in zip(hs, results):
        st = h[0]
        if st["a"] in SINGLE:
            check_single(cx, h, r, tag)
            continue
        if "crash" in r or "timeout" in r:
            raise tla.InfraError("bulk action %s died outside its children: %s" % (st["a"], r))
        o = r["obs"][0]
        if "unexpected_exception" in o or "unknown_action" in o:
            raise tla.InfraError("driver failed on %s: %s" % (st["a"], o))
        if "count" in st.get("exp", {}) and o["count"] != st["exp"]["count"]:
            raise tla.InfraError("driver enumerated %d strings, the specification %d: %s" % (o["count"], st["exp"]["count"], st["arg"]))
        fds = o.get("fds") or [-1, -1]
        if fds[0] >= 0 and fds[1] >= 0:
            cx.fd_reports += 1
            if fds[1] - fds[0] != cx.fd_delta:
                chk.violation(sig_of(API, {"action": st["a"], "cls": "batch", "field": "fd_delta"}),
                              "%s: %s: open descriptors of the process at the start / end of a batch of reads: %s; the specification: difference %s"
                              % (API, st["a"], fds, cx.fd_delta),
                              {"kind": "history", "property": chk.pid, "tag": tag, "sig_prefix": API, "meta": None, "history": h, "admitted": cx.safe})
        notrun = o["outcomes"].get("not_run", 0)
        cx.calls += o["count"] - notrun
        skipped["not_run"] += notrun
        skipped["not_listed"] += o.get("inputs_not_listed") or 0
        for k, v in o["outcomes"].items():
            chk.cov["outcomes"][k.split(":")[0]] = chk.cov["outcomes"].get(k.split(":")[0], 0) + v
        for e in o["inputs"]:
            if e["outcome"] == "not_run":
                continue
            bad.append({"doc": e["doc"], "outcome": e["outcome"], "src": st["a"]})
    if skipped["not_run"] or skipped["not_listed"]:
        chk.note("%d inputs not run (per-step budget of abnormal endings exhausted), %d further inputs with unadmitted outcomes counted "
                 "but not listed by the driver" % (skipped["not_run"], skipped["not_listed"]))
        chk.cov["inputs_not_run"] = chk.cov.get("inputs_not_run", 0) + skipped["not_run"]
    return bad


# ---------------------------------------------------------------------------
# seeded random documents of the subset with per-occurrence random layout (inputs only: TLC's parser says what they mean)
# ---------------------------------------------------------------------------
NAME0 = "abcdefghijklmnopqrstuvwxyzABCDEFGHIJKLMNOPQRSTUVWXYZ_"
NAME1 = NAME0 + "0123456789."
HIGHCH = "".join(chr(c) for c in range(127, 256))
TEXTCH = "".join(chr(c) for c in range(33, 127) if chr(c) not in "<&") * 3 + " " * 12 + HIGHCH
VALCH = "".join(chr(c) for c in range(32, 127) if chr(c) not in "<&\\") * 3 + HIGHCH
WSS = ["", "", " ", "  ", "\n", "\t", "\r\n", "\n    "]


def rand_name(rnd):
    return rnd.choice(NAME0) + "".join(rnd.choice(NAME1) for _ in range(rnd.choice([0, 0, 1, 2, 5, 11])))


def rand_doc(rnd, depth):
    rare = rnd.choice(["", "", "", "", "", "dash", "dash", "endws", "gtcomment"])      # at most one of the constructs with a class of their own

    def ws(required=False):
        w = rnd.choice(WSS)
        return w if (w or not required) else " "

    def comment():
        body = "".join(rnd.choice(TEXTCH + "<&") for _ in range(rnd.randint(0, 12)))
        if rare == "dash" and rnd.random() < 0.6:      # dash runs at the start, inside and at the end of the body (banner style comments)
            k = rnd.randint(0, len(body))
            body = "-" * rnd.randint(0, 5) + body[:k] + "-" * rnd.randint(0, 5) + body[k:] + "-" * rnd.randint(0, 5)
        while "-->" in body or "<!--" in body:
            body = body.replace("-->", "-- >").replace("<!--", "<!- -")
        if rare != "dash":
            while "---" in body:
                body = body.replace("---", "- -")
            if body.endswith("-"):
                body += " "
        if rare == "gtcomment" and rnd.random() < 0.3:
            body = rnd.choice([">", "->"]) + body
        elif body.startswith(">") or body.startswith("->"):
            body = " " + body
        return "<!--" + body + "-->"

    def misc():
        out = ws()
        while rnd.random() < 0.25:
            out += comment() + ws()
        return out

    def attr():
        v = "".join(rnd.choice(VALCH) for _ in range(rnd.choice([0, 1, 3, 8])))
        q = rnd.choice("\"'")
        if q in v:
            q = "'" if q == "\"" else "\""
            if q in v:
                v = v.replace(q, "")
        return ws() + "=" + ws() + q + v + q

    def node(d):
        name = rand_name(rnd)
        names = set()
        while rnd.random() < 0.45 and len(names) < 4:
            names.add(rand_name(rnd))
        names = list(names)
        rnd.shuffle(names)
        out = "<" + name + "".join(ws(True) + n + attr() for n in names) + ws()
        items = [node(d - 1) for _ in range(rnd.choice([0, 0, 1, 2, 3]) if d > 0 else 0)]
        if rnd.random() < 0.5:
            t = "".join(rnd.choice(TEXTCH) for _ in range(rnd.choice([1, 2, 6, 20]))).strip(" \t\r\n")
            if t:
                items.insert(rnd.randint(0, len(items)), t)
        if not items and rnd.random() < 0.5:
            return out + "/>"
        return out + ">" + misc() + "".join(it + misc() for it in items) + "</" + name + (rnd.choice([" ", "\n", "\t "]) if rare == "endws" and rnd.random() < 0.3 else "") + ">"

    hdr = rnd.choice(["", "", "<?xml?>",
                      "<?xml" + ws(True) + "version" + ws() + "=" + ws() + "\"1.0\"" + ws() + "?>",
                      "<?xml" + ws(True) + "version" + ws() + "=" + ws() + "'1.0'" + ws(True) + "encoding" + ws() + "=" + ws() + "\"UTF-8\"" + ws(True)
                      + "standalone='yes'" + ws() + "?>"])
    return hdr + misc() + node(depth) + misc()


# ---------------------------------------------------------------------------
def run(chk, replay=None):
    quick = chk.tier == "quick"
    rnd = random.Random(chk.seed)
    chk.cov["outcomes"] = {}
    chk.assumptions += [
        "the subset the reader documents is the grammar at the head of spec/xml/XmlDoc.tla: identifiers [A-Za-z_][A-Za-z0-9_.]*, attributes "
        "in either quote style without backslash / '<' / '&', at most one text run per node, comments, optional <?xml ...?> header, "
        "whitespace wherever XML 1.0 allows it (including before the '>' of an end tag)",
        "properties are compared as a map (ascending by name, as std::map iterates); trimmed content = the text run without leading / "
        "trailing space, tab, CR, LF",
        "a file is a regular file whose bytes are the input; reading the terminator of the reader's zero-terminated copy is in bounds",
        "std::runtime_error includes classes derived from it",
        "a call that makes no progress for 120 s of monotonic time is a hang",
    ]
    cx = Ctx(chk)
    try:
        if replay:
            return do_replay(cx, replay)
        return do_run(cx, quick, rnd)
    finally:
        cx.close()


def do_run(cx, quick, rnd):
    chk = cx.chk
    # ---- 1. TLC: laws of the specification + cases -------------------------------------------------------
    cfg = "XmlDocGen_quick.cfg" if quick else "XmlDocGen_thorough.cfg"
    cases = sort_keys(funcheck.gen_cases(chk, SPEC, "XmlDocGen", cfg, "c16-gen", workers=16, timeout=3000, env=tlc_env(),
                                         what="RoundTrip, WellFormed, PrefixLaw, ShortLaw, ContentLaw, DashLaw, ByteLaw, NameLaw, CtlLaw, BigLaw on every slice; one case per document of the subset"))
    reads = [c for c in cases if c["a"] == "Read"]
    enums = [c for c in cases if c["a"] == "Enumerate"]
    policy = [c for c in cases if c["a"] == "Policy"]
    rsafe = [c for c in cases if c["a"] == "ReadSafe"]        # outside the subset by VT / FF in element content: only the ending is stated
    if len(policy) != 1 or not enums or not reads or not rsafe:
        raise tla.InfraError("XmlDocGen emitted %d policy / %d enumeration / %d document cases" % (len(policy), len(enums), len(reads)))
    cx.safe = sorted(policy[0]["exp"]["outcomes"])
    cx.fd_delta = policy[0]["exp"]["fd_delta"]                 # fds' = fds: what every call (and every batch of calls) must report
    for c in reads:
        c["exp"]["fd_delta"] = cx.fd_delta
    for e in enums + rsafe:
        if sorted(e["exp"]["outcomes"]) != cx.safe:
            raise tla.InfraError("inconsistent outcome sets in the emitted cases")
    chk.cov["exhaustive"] = True
    chk.cov["admitted_outcomes"] = cx.safe
    chk.cov["documents_by_class"] = {}
    for c in reads:
        chk.cov["documents_by_class"][c["cls"]] = chk.cov["documents_by_class"].get(c["cls"], 0) + 1

    # ---- 2. spec -> code: every document of the subset, tree compared -------------------------------------
    hs = [[c] for c in reads]
    chk.count_actions(hs)
    t0 = time.time()
    nmis = replay_reads(cx, hs, "c16-read")
    chk.log("%d documents of the subset read by the real reader, trees compared (%d mismatching) in %.1fs" % (len(hs), nmis, time.time() - t0))
    nontrivial = {c["arg"]["doc"] for c in reads if c["exp"]["tree"]["child"] and
                  (c["exp"]["tree"]["child"][0]["props"] or c["exp"]["tree"]["child"][0]["content"] or c["exp"]["tree"]["child"][0]["child"])}
    chk.cov["distinct_nontrivial"] += len(nontrivial)
    for c in reads:
        if len(c["arg"]["doc"]) > 60 and "<!--" in c["arg"]["doc"] and "<?xml" in c["arg"]["doc"]:
            chk.add_sample(c, maxn=2)
            break

    # ---- 3. everything else: only the way the call ends is constrained -------------------------------------
    bulk = []
    for e in enums:
        st = dict(e)
        st["arg"] = dict(e["arg"], quiet=cx.safe)
        bulk.append([st])
    docs = sorted({c["arg"]["doc"] for c in reads})
    # the bytes >= 0x80 on which a signed / unsigned or table-driven character test can go wrong, and a seeded sample of the others
    have = {ord(a) for a in MUT_ALPHABET if len(a) == 1}
    high = [b for b in REQUIRED_HIGH if b not in have] + rnd.sample([b for b in range(0x80, 0x100) if b not in have and b not in REQUIRED_HIGH], 22)
    mut_alphabet = MUT_ALPHABET + [chr(b) for b in high]
    chk.cov["mutation_alphabet_size"] = len(mut_alphabet)
    nmut = 160 if quick else 1500
    mdocs = rnd.sample(docs, min(nmut, len(docs)))
    longest = sorted(docs, key=len)[-4:]
    padded = sorted((d for d in docs if PADDED_TEXT.search(d)), key=lambda d: (len(d), d))
    padded = padded[:4] + padded[len(padded) // 2:len(padded) // 2 + 4]       # always among the mutated documents: blank-padded text content
    if len(padded) < 4:
        raise tla.InfraError("vacuity guard: no generated document with blank-padded text content to mutate")
    extra = [x for x in longest + padded if x not in mdocs]
    chk.cov["mutated_documents_with_padded_text"] = sum(1 for d in mdocs + extra if PADDED_TEXT.search(d))
    sdocs = [c["arg"]["doc"] for c in rsafe]
    for k in range(0, len(sdocs), 100):
        bulk.append([{"a": "Batch", "cls": "content-family", "arg": {"docs": sdocs[k:k + 100], "quiet": cx.safe}, "exp": {"outcomes": cx.safe}}])
    for d in mdocs + extra:
        bulk.append([{"a": "Mutations", "arg": {"doc": d, "alphabet": mut_alphabet, "quiet": cx.safe}, "exp": {"outcomes": cx.safe}}])
    # every truncation of a few documents followed by one more symbol (e.g. a backslash right before the end of the file)
    for d in longest + mdocs[:(12 if quick else 60)]:
        bulk.append([{"a": "Batch", "arg": {"docs": [d[:k] + a for k in range(len(d)) for a in mut_alphabet], "quiet": cx.safe}, "exp": {"outcomes": cx.safe}}])
    nrand, per = (60000, 5000) if quick else (1200000, 5000)
    for k in range(nrand // per):
        bulk.append([{"a": "Random", "arg": {"seed": chk.seed * 1000 + k, "n": per, "maxtok": 3 + (k % 4) * 6, "tokens": RANDOM_TOKENS, "quiet": cx.safe},
                      "exp": {"outcomes": cx.safe}}])
    # formula-defined documents at the numeric boundaries, chains, a missing file, histories of reads, reads on several threads
    singles = [c for c in cases if c["a"] in SINGLE]
    for c in singles:
        bulk.append([c])
    nsingle = {a: sum(1 for c in singles if c["a"] == a) for a in SINGLE}
    chk.cov["formula_documents"] = nsingle["Big"]
    chk.cov["read_histories"] = nsingle["ReadSeq"]
    sizes = {c["exp"]["bytes"] for c in singles if c["a"] == "Big"}
    if nsingle["ReadRep"] != 1:
        raise tla.InfraError("vacuity guard: the long history is missing")
    if (nsingle["Big"] < 150 or nsingle["Nest"] < 20 or nsingle["ReadSeq"] < 500 or nsingle["ReadThreads"] < 3 or nsingle["ReadMissing"] != 1
            or not {4095, 4096, 4097, 65535, 65536, 65537, 1048576} <= sizes):
        raise tla.InfraError("vacuity guard: boundary / history cases missing: %s" % nsingle)
    chk.count_actions(bulk)
    t0 = time.time()
    res = run_parallel(cx, bulk, "c16-bulk", 1, cx.meta(hang_s=HANG_S, max_crashes=600, max_inputs=600), jobs=8, env={"ASAN_OPTIONS": BULK_ASAN})
    before = cx.calls
    bad = check_bulk(cx, bulk, res, "c16-bulk")
    chk.log("%d further files (%d enumerated short strings, mutations of %d documents, %d random strings, nested documents) read in %.1fs: "
            "%d ended outside %s" % (cx.calls - before, sum(e["exp"]["count"] for e in enums), len(mdocs) + len(extra), nrand, time.time() - t0, len(bad), cx.safe))
    chk.cov["distinct_nontrivial"] += sum(e["exp"]["count"] for e in enums) - 1      # distinct by construction; all but the empty string
    chk.cov["mutated_documents"] = len(mdocs) + len(extra)
    # vacuity guard: VT / FF in element content after a blank really went through the reader
    nodd = 0
    for h, r in zip(bulk, res):
        if h[0].get("cls") == "content-family" and "obs" in r:
            o = r["obs"][0]
            if o.get("count") == len(h[0]["arg"]["docs"]) and not o["outcomes"].get("not_run"):
                nodd += sum(1 for d in h[0]["arg"]["docs"] if ODD_AFTER_BLANK.search(d))
    chk.cov["inputs_with_vt_ff_after_blank_in_content"] = nodd
    if nodd < 50 or not {"\x0b", "\x0c"} <= set(MUT_ALPHABET):
        raise tla.InfraError("vacuity guard: only %d inputs with VT / FF after a blank inside element content were read" % nodd)
    report_unsafe(cx, bad, "c16-unsafe")
    chk.add_sample({"kind": "bulk-action", "step": {k: v for k, v in bulk[len(enums)][0].items()}}, maxn=4)

    # ---- 4. code -> spec: random larger documents, observed trees judged by TLC's reference parser ----------
    nj = 120 if quick else 2500
    jdocs = [rand_doc(rnd, rnd.choice([1, 2, 3, 4])) for _ in range(nj)]
    jh = [[{"a": "Read", "arg": {"doc": list(d)}}] for d in jdocs]
    chk.count_actions(jh)
    res = run_parallel(cx, jh, "c16-rec", 200, cx.meta(chars=True), jobs=4)
    cx.calls += len(jh)
    lines = []
    for d, r in zip(jdocs, res):
        if "crash" in r or "timeout" in r:
            kind = "crash" if "crash" in r else "timeout"
            lines.append({"kind": "tree", "doc": d, "obs": {"outcome": kind}})
        else:
            lines.append({"kind": "tree", "doc": d, "obs": r["obs"][0]})
    vs = judge(chk, lines, "c16-rec")
    report_tree_verdicts(cx, lines, vs, "c16-rec")
    chk.cov["distinct_nontrivial"] += len(set(jdocs))
    chk.add_sample({"kind": "recorded-observation-input", "doc": jdocs[0][:300]}, maxn=4)

    lh = chk.cov.get("long_history") or {}
    chk.cov["descriptor_observations"] = cx.fd_reports + len(reads)
    if lh.get("nofile") != 256 or not lh.get("reads") or lh["reads"][0] < 300 or cx.fd_reports < sum(len(c["arg"]["docs"]) for c in singles if c["a"] == "ReadSeq"):
        raise tla.InfraError("vacuity guard: long history %s, %d descriptor observations" % (lh, cx.fd_reports))
    chk.cov["evaluations"] = cx.calls
    chk.require_actions(["Read", "Enumerate", "Mutations", "Batch", "Random", "Nest", "Big", "ReadSeq", "ReadThreads", "ReadMissing", "ReadRep"])
    # vacuity guard: every byte value 0x80..0xFF stood at the start and at the end of a text content that was read and compared
    at_start, at_end, in_value = set(), set(), set()
    for c in reads:
        d = c["arg"]["doc"]
        at_start.update(ord(x) for x in re.findall(r">[ \n]?([\x80-\xff])", d))
        at_end.update(ord(x) for x in re.findall(r"([\x80-\xff])[ \n]?</", d))
        in_value.update(ord(x) for x in re.findall(r"=[\"']([\x80-\xff])", d))
    chk.cov["high_bytes_read"] = {"content_start": len(at_start), "content_end": len(at_end), "value_start": len(in_value)}
    if min(len(at_start), len(at_end), len(in_value)) < 128:
        raise tla.InfraError("vacuity guard: not every byte 0x80..0xFF was read at content start / content end / value start: %s" % chk.cov["high_bytes_read"])
    runs = [r for c in reads for r in closing_dash_runs(c["arg"]["doc"])]
    chk.cov["comments_closed_by_dash_run"] = {"odd>=3": sum(1 for r in runs if r >= 3 and r % 2 == 1), "even>=4": sum(1 for r in runs if r >= 4 and r % 2 == 0)}
    if min(chk.cov["comments_closed_by_dash_run"].values()) < 300:
        raise tla.InfraError("vacuity guard: too few comments closed by a dash run were read: %s" % chk.cov["comments_closed_by_dash_run"])
    for cls in ("subset", "subset,ws-in-end-tag", "subset,comment-begins-with-gt", "subset,comment-ends-with-dash-run"):
        if not chk.cov["documents_by_class"].get(cls):
            raise tla.InfraError("vacuity guard: no generated document of class %s" % cls)
    chk.cov["rule"] = ("evaluation = one call of the real readXML on one file.  Distinct non-trivial inputs: distinct generated documents "
                       "of the subset whose root has an attribute, text or a child (tree compared with the tree TLC computed) + the "
                       "natively enumerated short strings (distinct by construction, all but the empty one) + distinct random larger "
                       "documents judged by TLC; mutations and random strings are counted as evaluations only")


def report_tree_verdicts(cx, lines, vs, tag):
    chk = cx.chk
    for ln, v in zip(lines, vs):
        if v["ok"]:
            continue
        if v["field"] == "bad-input":
            raise tla.InfraError("the orchestrator's random generator left the subset: %r" % ln["doc"][:400])
        field = v["field"]
        exp = unchars_tree(v["exp"]["tree"])
        obs = ln["obs"]
        if field == "outcome" and obs["outcome"] in ("crash", "timeout"):
            field = obs["outcome"]
        elif field == "tree" and "tree" in obs:
            mm = adt.subset_mismatch({"tree": exp}, {"tree": unchars_tree(obs["tree"])})
            field = mm[0] if mm else "tree"
        sig = sig_of(API, {"action": "Read", "cls": v["cls"], "field": family_path(field)})
        shown = dict(obs)
        if "tree" in shown:
            shown["tree"] = unchars_tree(shown["tree"])
        what = "%s: TLC rejects the observation for document %s at %s: observed %s; specification: outcome ok, tree %s" % (
            API, json.dumps(ln["doc"])[:400], field, json.dumps(shown)[:300], json.dumps(exp)[:300])
        chk.violation(sig, what, {"kind": "tree", "property": chk.pid, "tag": tag, "doc": ln["doc"], "observed": shown, "verdict": {k: v[k] for k in ("field", "cls")},
                                  "expected_tree": exp})


def do_replay(cx, path):
    chk = cx.chk
    rep = json.load(open(path))
    cx.safe = rep.get("admitted") or ["ok", "runtime_error"]
    if rep["kind"] == "history":
        h = rep["history"]
        if h[0]["a"] in SINGLE:
            res = run_parallel(cx, [h], "replay", 1, cx.meta(hang_s=HANG_S), jobs=1)
            check_bulk(cx, [h], res, "replay")
        else:
            replay_reads(cx, [h], "replay", isolate=1, jobs=1)
    elif rep["kind"] == "safe":
        kind, obs, tail = read_single(cx, rep["doc"], "replay")
        if kind not in cx.safe:
            report_unsafe(cx, [{"doc": rep["doc"], "outcome": kind, "src": rep.get("source", "replay")}], "replay")
    else:
        res = run_parallel(cx, [[{"a": "Read", "arg": {"doc": list(rep["doc"])}}]], "replay", 1, cx.meta(chars=True), jobs=1)
        r = res[0]
        obs = {"outcome": "crash" if "crash" in r else "timeout"} if ("crash" in r or "timeout" in r) else r["obs"][0]
        lines = [{"kind": "tree", "doc": rep["doc"], "obs": obs}]
        report_tree_verdicts(cx, lines, judge(chk, lines, "replay"), "replay")
    chk.cov["evaluations"] = max(chk.cov["evaluations"], 1)
