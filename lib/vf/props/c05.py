"""C05 - ranges and boxes behave as closed axis-aligned sets (range.h, box.h, xfmBounds, intersectRayBox)."""
import json, os, random, time
from concurrent.futures import ThreadPoolExecutor
from .. import tla, build, adt, adtcheck, funcheck, trace
from ..tla import VERIF
from ..core import sig_of

LEVEL = "exploration"
LEVEL_TEXT = ("TLC checks, for every box / pair of boxes / point of bounded integer lattices in dimensions 1-3 (1-4 thorough), that the "
              "min/max formulas of the BoxAlgebra specification agree with the set semantics Pts(b) = {p : lo <= p <= hi} (membership, least "
              "enclosing box with the default-constructed empty box as identity, set intersection, disjoint <=> empty intersection <=> not "
              "touchingOrOverlapping, unique nearest point, size / volume as cell counts, centre as reflection point, translation and scaling "
              "as images); TLC then enumerates the same lattices completely and emits one case per input with the expected values, and every "
              "case is evaluated on the real range_t<T> / box_t<T,N> / box3fa / box3ia for T in {int, float, double} and compared exactly; the "
              "operations that only compare coordinates (contains, extend, clamp, intersectionOf, disjoint, touchingOrOverlapping, empty) are "
              "also evaluated on int64 / uint32 / int16 / uint8 boxes and on coordinates f(k) for strictly increasing maps f (neighbourhoods of "
              "2^31, 2^24, 2^15, of the sign bit of unsigned types and multiples of 2^32; non-dyadic, subnormal and huge floats) - TLC checks that "
              "these operations commute with such maps; size and centre of integer boxes with coordinates beyond 2^24; member and free center() "
              "and default / explicit ray range are compared with each other; xfmBounds "
              "must contain the exact images (computed by TLC) of all lattice points of the box for a family of integer affine maps; "
              "intersectRayBox intervals recorded from the real code are validated by TLC against exact rational point membership at probe "
              "parameters; seeded random long executions of a real box object are validated by TLC against the trace specification")
LEVEL_NOTE = ("bounded and exact-arithmetic only: lattices of 3-6 values per axis, all values exactly representable (non-lattice floats, rounding of "
              "sums, overflow are not decided); binary laws (extend(box), disjoint, touchingOrOverlapping) are claimed for non-empty operands and "
              "the default-constructed empty box - for an inverted box other than the default one only contains() = false, empty() = true and the "
              "emptiness of intersectionOf are constrained (the comparison formulas of disjoint / extend do not describe its empty point set; TLC "
              "exhibits the counter-example in BoxAlgebraMC); size / center / area / volume / clamp only for non-empty boxes, integer center() "
              "only for even sums, scaling only by non-negative factors (a negative factor inverts the bounds); boxes without points under scaling / "
              "translation: positive factors and every translation must leave them without points (empty(), contains nothing, default empty box "
              "still the identity of extend; both operand orders - the only overloads are range*T, T*range, range+T, T+range), a zero factor on "
              "them is unconstrained (inf*0), the integer default empty box only with factor 1 / translation 0 (anything else overflows); intersectRayBox: integer origins, "
              "direction components in -2..2, probes at least 2^-13 away from every face (band 2^-14 = 2^-18 relative to 16), grazing rays "
              "unconstrained; rays against boxes without points (default-constructed empty, inverted): the returned range must be empty() - its "
              "bounds are free; xfmBounds: containment only, tightness is "
              "reported as a note; arithmetic operations (size, centre, area, volume, scale, translate) are not taken to the type limits (their "
              "sums / products would leave the element type); trusted: TLC, the driver's mapping of the model's "
              "+-INF to pos_inf / neg_inf and of interval ends to integers scaled by 2^16, g++")
TECHNIQUE = ("TLA+ functional specification with set semantics; laws model-checked by TLC over the complete bounded lattice; constant-level case "
             "enumeration by TLC replayed on the real templates; TLC validation of recorded ray intervals and of recorded random executions")
SPEC = os.path.join(VERIF, "spec", "math")

VARIANTS = ["i", "f", "d", "fa"]
TNAME = {"i": "int", "f": "float", "d": "double", "fa": "float", "ia": "int", "l": "int64", "ui": "uint32", "s": "int16", "uc": "uint8"}
PADDED = ("fa", "ia")
# (element type, value map): the comparison-only operations on coordinates f(k), f strictly increasing (see the driver and
# LawMonotone* in BoxAlgebra.tla): type limits / sign bits / 2^24 / 2^32, non-dyadic, subnormal, huge values
MAPPED_QUICK = [("i", "far"), ("f", "far"), ("f", "tenth"), ("f", "sub"), ("f", "huge"), ("ui", "far"), ("uc", "far"), ("s", "far"), ("l", "far")]
MAPPED_THOROUGH = MAPPED_QUICK + [("d", "far"), ("d", "tenth"), ("d", "sub"), ("d", "huge"), ("fa", "sub"), ("ia", "far")]
COMPARE_ONLY = ("Points", "Pair", "PairInv")
EMPTY_OPS = ("ScaleEmpty", "TranslateEmpty", "ScalePair", "TranslatePair")     # scaling / translation of boxes without points


def type_name(variant, d, vmap="id"):
    sfx = "" if vmap == "id" else "@" + vmap
    if d == 1:
        return "range_t<%s>%s" % (TNAME[variant], sfx)
    if variant in PADDED:
        return "box_t<%s,3,aligned>%s" % (TNAME[variant], sfx)
    return "box_t<%s,%d>%s" % (TNAME[variant], d, sfx)


class Sub:
    """Per-thread stand-in for the Check object: the framework helpers (funcheck / adtcheck) update counters and report
    violations through it; merge() folds everything into the real Check from the main thread, in a deterministic order."""

    def __init__(self, chk):
        self.parent, self.pid, self.tier, self.seed = chk, chk.pid, chk.tier, chk.seed
        self.cov = {"states": 0, "transitions": 0, "traces_validated_against_impl": 0, "evaluations": 0, "distinct_nontrivial": 0,
                    "samples": [], "models": [], "action_counts": {}}
        self.viol, self.notes_ = [], []

    def log(self, msg):
        self.parent.log(msg)

    def note(self, msg):
        self.notes_.append(msg)

    def add_model(self, name, r, what=""):
        self.cov["states"] += r.distinct
        self.cov["transitions"] += r.generated
        self.cov["models"].append({"module": name, "distinct_states": r.distinct, "states_generated": r.generated, "depth": r.depth,
                                   "wall_s": round(r.wall, 1), "what": what})
        self.log("TLC %s: %d distinct / %d generated states, depth %d, %.1fs %s" % (name, r.distinct, r.generated, r.depth, r.wall, what))

    def require_model_ok(self, name, r, what=""):
        if not r.ok:
            raise tla.InfraError("model %s does not satisfy its own properties (violated=%s, error=%s):\n%s" % (name, r.violated, r.error, r.out[-2500:]))
        self.add_model(name, r, what)

    def count_actions(self, histories):
        ac = self.cov["action_counts"]
        for h in histories:
            for st in h:
                ac[st["a"]] = ac.get(st["a"], 0) + 1

    def violation(self, sig, what, replay_obj):
        self.viol.append((sig, what, replay_obj))

    def merge(self):
        pc = self.parent.cov
        for k, v in self.cov.items():
            if isinstance(v, bool):
                pc[k] = v
            elif isinstance(v, int):
                pc[k] = pc.get(k, 0) + v
            elif isinstance(v, list):
                pc.setdefault(k, []).extend(v)
            elif isinstance(v, dict):
                d = pc.setdefault(k, {})
                for kk, vv in v.items():
                    d[kk] = d.get(kk, 0) + vv if isinstance(vv, int) else vv
        for n in self.notes_:
            self.parent.note(n)
        for v in self.viol:
            self.parent.violation(*v)


def parallel(chk, fns, workers=12):
    """Run fns (callables taking a Sub) in threads; merge in submission order; first exception is re-raised."""
    subs = [Sub(chk) for _ in fns]
    with ThreadPoolExecutor(max_workers=workers) as ex:
        futs = [ex.submit(f, s) for f, s in zip(fns, subs)]
        outs, err = [], None
        for f in futs:
            try:
                outs.append(f.result())
            except Exception as e:      # noqa: keep the first, let the others finish
                outs.append(None)
                err = err or e
    for s in subs:
        s.merge()
    if err:
        raise err
    return outs


# ---------------------------------------------------------------------------------------------
# TLC jobs
# ---------------------------------------------------------------------------------------------
def gen_jobs(quick):
    """(group, d, axlo, axhi, mode, level): one TLC case-generation run each."""
    lv = 0 if quick else 1
    if quick:
        return [
            ("box", 1, -2, 3, "all", lv), ("box", 2, -1, 2, "all", lv), ("box", 3, -1, 1, "all", lv), ("box", 4, 0, 1, "all", lv),
            ("pair", 1, -2, 3, "all", lv), ("pair", 2, -1, 2, "all", lv), ("pair", 3, -1, 1, "all", lv), ("pair", 4, 0, 1, "all", lv),
            ("pair", 3, -1, 2, "cover", lv),      # partial overlaps need 4 values per axis: every two axes x every interval relation
            ("pairinv", 2, -1, 1, "all", lv), ("pairinv", 3, 0, 1, "all", lv),
            ("vec", 1, -2, 3, "all", lv), ("vec", 2, -1, 2, "all", lv), ("vec", 3, -1, 1, "all", lv), ("vec", 4, 0, 1, "all", lv),
            ("xfm", 3, 0, 1, "all", lv),
            ("big", 1, 0, 0, "all", lv), ("big", 2, 0, 0, "all", lv), ("big", 3, 0, 0, "all", lv), ("big", 4, 0, 0, "all", lv),
            ("emptyops", 1, 0, 0, "all", lv), ("emptyops", 2, 0, 0, "all", lv), ("emptyops", 3, 0, 0, "all", lv), ("emptyops", 4, 0, 0, "all", lv),
        ]
    return [
        ("emptyops", 1, 0, 0, "all", lv), ("emptyops", 2, 0, 0, "all", lv), ("emptyops", 3, 0, 0, "all", lv), ("emptyops", 4, 0, 0, "all", lv),
        ("big", 1, 0, 0, "all", lv), ("big", 2, 0, 0, "all", lv), ("big", 3, 0, 0, "all", lv), ("big", 4, 0, 0, "all", lv),
        ("box", 1, -2, 3, "all", lv), ("box", 2, -2, 3, "all", lv), ("box", 3, -1, 1, "all", lv), ("box", 4, 0, 1, "all", lv),
        ("pair", 1, -2, 3, "all", lv), ("pair", 2, -2, 2, "all", lv), ("pair", 3, -1, 1, "all", lv), ("pair", 3, -1, 2, "cover", lv),
        ("pair", 4, 0, 1, "all", lv), ("pair", 4, -1, 1, "cover", lv),
        ("pairinv", 2, -1, 2, "all", lv), ("pairinv", 3, 0, 1, "all", lv), ("pairinv", 4, 0, 1, "all", lv),
        ("vec", 1, -2, 3, "all", lv), ("vec", 2, -2, 3, "all", lv), ("vec", 3, -1, 2, "all", lv), ("vec", 4, -1, 1, "all", lv),
        ("xfm", 3, -1, 1, "all", lv),
    ]


def ray_jobs(quick):
    """mode = which of the ray boxes (one TLC run per box: the ray laws are checked on exactly the emitted cases)."""
    lv = 0 if quick else 1
    if quick:
        return [("ray", 2, -2, 3, "0", lv)] + [("ray", 3, -1, 2, str(k), lv) for k in (1, 2, 3, 4, 5)]
    return [("ray", 2, -3, 4, str(k), lv) for k in (1, 2, 3, 4)] + [("ray", 3, -1, 2, str(k), lv) for k in (1, 2, 3, 4, 5)]


def run_gen(chk, job):
    g, d, lo, hi, mode, lv = job
    tag = "c05-%s-%d-%s" % (g, d, mode)
    env = {"C05_GROUP": g, "C05_D": str(d), "C05_AXLO": str(lo), "C05_AXHI": str(hi), "C05_MODE": mode, "C05_LEVEL": str(lv)}
    cases = funcheck.gen_cases(chk, SPEC, "BoxAlgebraGen", "BoxAlgebraGen.cfg", tag, workers=1, timeout=1500, env=env,
                               what="group %s d=%d axis %d..%d %s" % (g, d, lo, hi, mode))
    for c in cases:
        c["d"] = d
        c["mode"] = mode
    return cases


def model_check(chk):
    r = tla.run_tlc(os.path.join(SPEC, "BoxAlgebraMC.tla"), os.path.join(SPEC, "BoxAlgebraMC.cfg"), workers=8 if chk.tier == "quick" else 10, timeout=1500,
                    env={"C05_TIER": chk.tier}, tag="c05-mc")
    chk.require_model_ok("BoxAlgebraMC/" + chk.tier, r, "laws: operations = set semantics for every box / pair / point of the lattices")
    return r


# ---------------------------------------------------------------------------------------------
# spec -> code
# ---------------------------------------------------------------------------------------------
def applicable(case, variant):
    a, d = case["a"], case["d"]
    if a == "MeasureBig" and variant in ("f", "fa"):
        return False              # coordinates beyond 2^24 are not representable in float
    if variant in PADDED and d != 3:
        return False
    if a in EMPTY_OPS and variant in ("i", "ia", "l"):
        # integer element types: no fractional factors; the default empty box (INT_MAX, INT_MIN) only with the factor 1 and the
        # translation 0 - every other one overflows (not defined, not constrained)
        arg = case["arg"]
        if arg["den"] != 1:
            return False
        if a in ("ScaleEmpty", "TranslateEmpty") and arg["lo"][0] == 1000000 and any(x != (1 if a == "ScaleEmpty" else 0) for x in arg["v"]):
            return False
    if variant == "fa":
        return a != "Ray"
    if variant in ("i", "ia", "l"):
        if a in ("Xfm", "Ray"):
            return False
        if a == "Center" and case.get("cls") == "odd":
            return False          # integer center() truncates: only even sums are constrained
    return True


def strip(case):
    return {k: v for k, v in case.items() if k in ("a", "arg", "exp", "cls")}


def nontrivial_key(case):
    """None for trivial cases; otherwise a canonical key in which the two operands of a pair are unordered."""
    a, cls = case["a"], case.get("cls")
    if a in ("Pair", "PairInv"):
        if cls in ("both-empty", "equal"):
            return None
        x, y = json.dumps(case["arg"]["a"], sort_keys=True), json.dumps(case["arg"]["b"], sort_keys=True)
        return a + "|" + "|".join(sorted([x, y]))
    if cls == "empty-default" and a == "Unary":
        return None
    arg = {k: v for k, v in case["arg"].items() if k not in ("pts", "imgs")}
    return a + "|" + json.dumps(arg, sort_keys=True)


def replay_group(chk, exe, cases, variant, vmap="id", select=None):
    """Replay cases (all dimensions) on one element-type variant (and value map), one driver run per (operation family, dimension)."""
    total = 0
    by = {}
    for c in cases:
        if not applicable(c, variant) or (select and not select(c)):
            continue
        if c["a"] == "Xfm":
            fam = "xfmBounds<%s%s>" % (TNAME[variant], ",aligned" if variant in PADDED else "")
        elif c["a"] == "MeasureBig":      # one family per element type (all dimensions): one signature per finding
            fam = "range_t|box_t<%s%s>" % (TNAME[variant], ",aligned" if variant in PADDED else "")
        else:
            fam = type_name(variant, c["d"], vmap)
        by.setdefault(fam, []).append(strip(c))
    meta = {"variant": variant} if vmap == "id" else {"variant": variant, "vmap": vmap}
    for fam, cs in sorted(by.items()):
        n, wall = funcheck.replay_cases(chk, exe, cs, "c05-%s-%s-%s" % (variant, vmap, "".join(ch for ch in fam if ch.isalnum())), fam, meta=meta)
        total += len(cs)
        keys = {nontrivial_key(c) for c in cs}
        keys.discard(None)
        chk.cov["distinct_nontrivial"] += len(keys)
        chk.cov.setdefault("instantiations", {})
        chk.cov["instantiations"][fam] = len(cs)
        chk.log("%s: %d cases evaluated (%d mismatching) in %.1fs" % (fam, len(cs), n, wall))
    return total


def xfm_tightness(chk, exe, cases, variant):
    xs = [c for c in cases if c["a"] == "Xfm"]
    if not xs:
        return
    res, rc, stderr, wall = adt.run_driver(exe, [[strip(c)] for c in xs], "c05-xfm-tight-" + variant, meta={"variant": variant})
    tight = 0
    for i, c in enumerate(xs):
        r = res.get(i)
        if r and "obs" in r and r["obs"] and r["obs"][0].get("lo") == c["info"]["hull"]["lo"] and r["obs"][0].get("hi") == c["info"]["hull"]["hi"]:
            tight += 1
    chk.cov.setdefault("xfmBounds_tight", {})[variant] = {"cases": len(xs), "equal_to_hull_of_images": tight}
    if tight != len(xs):
        chk.note("xfmBounds<%s>: %d of %d results differ from the hull of the image points (not a violation by itself: the statement requires containment only)"
                 % (variant, len(xs) - tight, len(xs)))


# ---------------------------------------------------------------------------------------------
# code -> spec: rays
# ---------------------------------------------------------------------------------------------
def validate_rays(chk, exe, cases, variant, tag, chunks=4):
    """Evaluate intersectRayBox on the real code, let TLC (BoxRayValidate) decide.  Returns number of rejected records."""
    if not cases:
        return 0
    res, rc, stderr, wall = adt.run_driver(exe, [[strip(c)] for c in cases], "c05-ray-" + tag, meta={"variant": variant})
    obs = []
    for i, c in enumerate(cases):
        r = res.get(i)
        if r is None or "obs" not in r or not r["obs"] or "T0" not in r["obs"][0]:
            raise tla.InfraError("box driver gave no ray observation for case %d (rc=%s): %s %s" % (i, rc, r, stderr[-800:]))
        o = r["obs"][0]
        obs.append({"id": i, "arg": c["arg"], "T0": o["T0"], "T1": o["T1"], "nan": o["nan"], "differs": bool(o.get("differs", False)),
                    "empty": bool(o["empty"])})
    d = os.path.join(tla.WORK, "run", "c05-ray-" + tag)
    os.makedirs(d, exist_ok=True)
    parts = [obs[k::chunks] for k in range(chunks) if obs[k::chunks]]

    def one(k):
        inp = os.path.join(d, "rayobs-%d-%d.ndjson" % (os.getpid(), k))
        outp = os.path.join(d, "rayrej-%d-%d.ndjson" % (os.getpid(), k))
        with open(inp, "w") as f:
            for o in parts[k]:
                f.write(json.dumps(o, separators=(",", ":")) + "\n")
        if os.path.exists(outp):
            os.remove(outp)
        r = tla.run_tlc(os.path.join(SPEC, "BoxRayValidate.tla"), os.path.join(SPEC, "BoxRayValidate.cfg"), workers=1, timeout=1500,
                        env={"C05_OBS": inp, "OUT": outp}, tag="c05-rayval-%s-%d" % (tag, k), xmx="3g")
        if not r.ok or "C05-RAY-VALIDATED" not in r.out:
            raise tla.InfraError("BoxRayValidate failed: violated=%s error=%s\n%s" % (r.violated, r.error, r.out[-2500:]))
        rej = []
        if os.path.exists(outp):
            with open(outp) as f:
                rej = [json.loads(x) for x in f if x.strip()]
            os.remove(outp)
        os.remove(inp)
        return rej, r

    t0 = time.time()
    with ThreadPoolExecutor(max_workers=chunks) as ex:
        outs = list(ex.map(one, range(len(parts))))
    rejected = [x for rej, _ in outs for x in rej]
    chk.cov["evaluations"] += len(cases)
    chk.cov["traces_validated_against_impl"] += len(cases)
    chk.cov.setdefault("ray_intervals_validated", 0)
    chk.cov["ray_intervals_validated"] += len(cases)
    d_ = len(cases[0]["arg"]["org"])
    fam = "intersectRayBox<%s,%d>" % (TNAME[variant], d_)
    chk.log("%s%s: %d recorded intervals validated by TLC (BoxRayValidate), %d rejected, %.1fs"
            % (fam, " against boxes without points" if tag.startswith("empty") else "", len(cases), len(rejected), time.time() - t0))
    for rj in rejected:
        c = cases[rj["id"]]
        o = res[rj["id"]]["obs"][0]
        mm = {"action": "Ray", "cls": rj["cls"], "field": "interval/" + rj["reason"]}
        what = ("%s: org=%s dir=%s box=[%s,%s] range=[%s/2,%s/2]: returned [%r,%r]; %s" %
                (fam, c["arg"]["org"], c["arg"]["dir"], c["arg"]["lo"], c["arg"]["hi"], c["arg"]["tlo2"],
                 "inf" if c["arg"]["thi2"] == 1000000 else c["arg"]["thi2"], o.get("t0"), o.get("t1"),
                 ("parameter %d/65536 is %s the box but %s the interval" % (rj["probe"], "in" if rj["hit"] else "outside",
                                                                            "outside" if rj["hit"] else "inside")) if rj["reason"] == "probe"
                 else ("interval contains NaN" if rj["reason"] == "nan"
                       else "the call relying on the default range [0, inf) returns a different interval than the call that spells it out"
                       if rj["reason"] == "default-range-differs"
                       else "the box has no points (empty / inverted) but the returned interval is not empty" if rj["reason"] == "box-without-points-hit"
                       else "the ray stays clear of the box but the interval is not empty")))
        chk.violation(sig_of(fam, mm), what, {"kind": "ray", "property": chk.pid, "variant": variant, "case": strip(c), "observed": o, "report": rj})
    return len(rejected)


# ---------------------------------------------------------------------------------------------
# code -> spec: recorded random executions of one box object
# ---------------------------------------------------------------------------------------------
def rand_execution(rnd, d, n, R=20):
    def pt(r=R):
        return [rnd.randint(-r, r) for _ in range(d)]

    def box():
        x = rnd.random()
        if x < 0.08:
            return {"lo": [1000000] * d, "hi": [-1000000] * d}          # the default-constructed empty box
        lo = [rnd.randint(-R, R // 2) for _ in range(d)]
        if x < 0.16:
            hi = [v + rnd.choice([0, 0, 3]) for v in lo]                  # flat / point
        else:
            hi = [v + rnd.randint(0, R) for v in lo]
        return {"lo": lo, "hi": hi}

    acts = [{"a": "New", "arg": {"d": d}}]
    scales = 0
    for _ in range(n):
        x = rnd.random()
        if x < 0.22: a = {"a": "ExtendPt", "arg": {"p": pt()}}
        elif x < 0.34: a = {"a": "ExtendBox", "arg": box()}
        elif x < 0.44 and d > 1: a = {"a": "Intersect", "arg": box()}
        elif x < 0.52: a = {"a": "Translate1", "arg": {"v": pt(9)}}
        elif x < 0.57 and scales < 4:                                     # bounded growth: all values stay far below 2^24 and the INF sentinel
            scales += 1
            a = {"a": "Scale1", "arg": {"v": [rnd.choice([0, 1, 1, 2, 2]) for _ in range(d)]}}
        elif x < 0.70: a = {"a": "ContainsQ", "arg": {"p": pt(2 * R)}}
        elif x < 0.80: a = {"a": "ClampQ", "arg": {"p": pt(2 * R)}}
        elif x < 0.88: a = {"a": "Measure", "arg": {}}
        elif x < 0.96 and d > 1: a = {"a": "Relate", "arg": box()}
        elif x < 0.98: a = {"a": "Clear", "arg": {}}
        else: a = {"a": "ExtendPt", "arg": {"p": pt()}}
        acts.append(a)
    return acts


def recorded_executions(chk, exe, variant, acts):
    chk.count_actions(acts)
    adtcheck.record_and_validate(chk, exe, SPEC, "BoxTrace", "BoxTrace.cfg", acts, "c05-trace-" + variant,
                                 "box<%s>" % (TNAME[variant] + ",aligned" if variant in PADDED else TNAME[variant]), meta={"variant": variant})


# ---------------------------------------------------------------------------------------------
def run(chk, replay=None):
    quick = chk.tier == "quick"
    rnd = random.Random(chk.seed)
    chk.assumptions += [
        "TLC enumerates the bounded lattices completely; all values are small integers, exactly representable in int / float / double",
        "the driver maps the model's +-1000000 to pos_inf / neg_inf of the element type and default-constructs a box with these bounds",
        "binary laws are claimed for non-empty operands and the default-constructed empty box; other empty (inverted) operands: contains, empty and emptiness of intersectionOf only",
        "intersectRayBox: interval ends are recorded scaled by 2^16 and rounded; nothing is demanded within 2^-14 of a face (grazing rays unconstrained); "
        "for a box without points the interval must be empty as decided by range_t::empty() of the returned value",
    ]
    if replay:
        return do_replay(chk, replay)
    variants = ["i", "f", "fa", "ia"] if quick else VARIANTS + ["ia"]          # double: thorough tier only
    mapped = MAPPED_QUICK if quick else MAPPED_THOROUGH
    ray_variants = ["f"] if quick else ["f", "d"]

    # phase A: build the driver, check the laws, generate the cases - all TLC runs in parallel
    t0 = time.time()
    jobs, rjobs = gen_jobs(quick), ray_jobs(quick)
    rjobs += [("rayempty", 2, -2, 3, "all", 0 if quick else 1), ("rayempty", 3, -1, 1, "all", 0 if quick else 1)]
    # the law check runs alongside everything else and is joined before the verdict (it does not feed the cases)
    mc_sub = Sub(chk)
    mc_pool = ThreadPoolExecutor(max_workers=1)
    mc_future = mc_pool.submit(model_check, mc_sub)
    fns = [lambda sub: build.build("drv_box")]
    fns += [(lambda sub, j=j: run_gen(sub, j)) for j in rjobs + jobs]
    outs = parallel(chk, fns, workers=14)
    exe = outs[0]
    rays_by_d, empties_by_d = {}, {}
    for j, cs in zip(rjobs, outs[1:1 + len(rjobs)]):
        (empties_by_d if j[0] == "rayempty" else rays_by_d).setdefault(j[1], []).extend(cs)
    rays = [rays_by_d[d] for d in sorted(rays_by_d)]
    rays_empty = [empties_by_d[d] for d in sorted(empties_by_d)]      # rays against boxes without points, per dimension
    cases = [c for cs in outs[1 + len(rjobs):] for c in cs]
    chk.log("%d cases + %d ray inputs generated in %.1fs" % (len(cases), sum(len(r) for r in rays + rays_empty), time.time() - t0))

    # vacuity guards: every operation and every class of input the statement names must be present
    ops = {}
    for c in cases:
        ops.setdefault(c["a"], {}).setdefault(c.get("cls"), 0)
        ops[c["a"]][c.get("cls")] += 1
    chk.cov["case_classes"] = ops
    need = {"Unary": ["empty-default", "inverted", "point", "flat", "solid"], "Points": ["empty-default", "inverted", "point", "flat", "solid"],
            "Center": ["even", "odd"], "Pair": ["a-empty", "b-empty", "both-empty", "equal", "apart", "touching", "nested", "overlapping"],
            "PairInv": ["inverted-operand"], "Scale": ["flat", "solid"], "Translate": ["flat", "solid"], "Xfm": ["flat", "solid", "singular-map,solid"], "MeasureBig": ["beyond-2^24"],
            "ScaleEmpty": ["empty-default", "inverted", "disjoint-intersection"], "TranslateEmpty": ["empty-default", "inverted", "disjoint-intersection"],
            "ScalePair": ["apart", "touching"], "TranslatePair": ["apart", "touching"]}
    for op, cl in need.items():
        for k in cl:
            if not ops.get(op, {}).get(k):
                raise tla.InfraError("vacuity guard: no %s case of class %s was generated" % (op, k))
    # boxes without points under scaling / translation: per dimension and kind of box at least 4 factors (incl. a fractional and a large one)
    # and 3 translations; per dimension >= 2 at least 12 separated and 4 touching pairs per operation
    for d in (1, 2, 3, 4):
        for op, least in (("ScaleEmpty", 4), ("TranslateEmpty", 3)):
            for kind in ("empty-default", "inverted", "disjoint-intersection"):
                sel = [c for c in cases if c["a"] == op and c["d"] == d and c["cls"] == kind]
                if len(sel) < least or (op == "ScaleEmpty" and not (any(c["arg"]["den"] == 2 for c in sel) and any(max(c["arg"]["v"]) >= 1000 for c in sel))):
                    raise tla.InfraError("vacuity guard: too few %s cases for %s boxes in dimension %d (%d)" % (op, kind, d, len(sel)))
        if d >= 2:
            for op in ("ScalePair", "TranslatePair"):
                for kind, least in (("apart", 12), ("touching", 4)):
                    n = sum(1 for c in cases if c["a"] == op and c["d"] == d and c["cls"] == kind)
                    if n < least:
                        raise tla.InfraError("vacuity guard: too few %s(%s) cases in dimension %d (%d)" % (op, kind, d, n))
    rcls = {}
    for rs in rays:
        for c in rs:
            rcls[c["cls"]] = rcls.get(c["cls"], 0) + 1
    chk.cov["ray_classes"] = rcls
    for k in ["hit", "hit-from-inside", "hit-parallel", "miss", "miss-parallel", "graze"]:
        if not rcls.get(k):
            raise tla.InfraError("vacuity guard: no ray of class %s was generated" % k)
    # boxes without points: at least 500 rays against each of the two kinds per dimension (every one is evaluated on every ray variant),
    # default and explicit ranges, axis-parallel directions included
    for rs in rays_empty:
        d = rs[0]["d"]
        for kind in ("empty-box-default", "empty-box-inverted"):
            sel = [c for c in rs if c["cls"] == kind]
            rcls["%s,d=%d" % (kind, d)] = len(sel)
            if (len(sel) < 500 or not any(c["arg"]["thi2"] != 1000000 for c in sel) or not any(c["arg"]["thi2"] == 1000000 for c in sel)
                    or not any(0 in c["arg"]["dir"] for c in sel)):
                raise tla.InfraError("vacuity guard: too few rays against %s boxes in dimension %d (%d)" % (kind, d, len(sel)))

    # phase B: spec -> code replays, ray validation and recorded executions, in parallel
    nexec = 12 if quick else 120
    def base_select(v):
        if v == "ia" and quick:      # padded int: everything in dimension 3 except the exhaustive pair lattice (the axis-pair covering stays)
            return lambda c: not (c["a"] == "Pair" and c["mode"] == "all")
        return None

    for n, c in enumerate(cases):
        c["n"] = n

    def mapped_select(j):
        """comparison-only operations.  quick: without the 3-D pair lattices; thorough: the 3-D axis-pair covering instead of the
        exhaustive 3-D lattice, and of the large pair families every 4th case, rotating with the instantiation number j."""
        def sel(c):
            if c["a"] not in COMPARE_ONLY:
                return False
            if c["a"] == "Pair" and c["d"] == 3 and (quick or c["mode"] == "all"):
                return False
            if not quick and c["a"] != "Points" and c["d"] >= 2:
                return (c["n"] + j) % 4 == 0
            return True
        return sel

    fns = [(lambda sub, v=v: replay_group(sub, exe, cases, v, select=base_select(v))) for v in variants]
    fns += [(lambda sub, t=t, m=m, j=j: replay_group(sub, exe, cases, t, vmap=m, select=mapped_select(j))) for j, (t, m) in enumerate(mapped)]
    # integer coordinates beyond 2^24 on the wide types that are not among the base variants of this tier
    # ... and boxes without points under scaling / translation on int64 (and double, which the quick tier has no base run for)
    fns += [(lambda sub, v=v: replay_group(sub, exe, cases, v, select=lambda c: c["a"] == "MeasureBig" or c["a"] in EMPTY_OPS))
            for v in (["l", "d"] if quick else ["l"])]
    fns += [(lambda sub, v=v: xfm_tightness(sub, exe, cases, v)) for v in variants if v not in ("i", "ia")]
    for rs in rays_empty:           # float AND double in both tiers
        for v in ("f", "d"):
            fns.append(lambda sub, rs=rs, v=v: validate_rays(sub, exe, rs, v, "empty-%s-%d" % (v, rs[0]["d"]), chunks=2))
    for rs in rays:
        for v in ray_variants:
            fns.append(lambda sub, rs=rs, v=v: validate_rays(sub, exe, rs, v, "%s-%d" % (v, rs[0]["d"]), chunks=3 if quick else 6))
    trace_acts = {}
    for v in variants:
        trace_acts[v] = [rand_execution(rnd, 3 if v in PADDED else 1 + (k % 4), 200) for k in range(nexec)]
        fns.append(lambda sub, v=v: recorded_executions(sub, exe, v, trace_acts[v]))
    parallel(chk, fns, workers=8 if quick else 5)
    try:
        mc_future.result()           # InfraError if the specification's own laws do not hold
    finally:
        mc_pool.shutdown(wait=True)
        mc_sub.merge()

    chk.require_actions(["Unary", "Center", "Points", "Pair", "PairInv", "Scale", "Translate", "Xfm", "MeasureBig"] + list(EMPTY_OPS))
    inst = chk.cov.get("instantiations", {})
    for t, m in mapped:              # vacuity guard: every (element type, value map) instantiation was exercised in dimension 3
        if not inst.get(type_name(t, 3, m)):
            raise tla.InfraError("vacuity guard: instantiation %s was not exercised" % type_name(t, 3, m))
    for fam in ("range_t<int>", "box_t<int,3,aligned>", "range_t|box_t<int64>", "range_t|box_t<int>", "range_t|box_t<double>"):
        if not inst.get(fam):
            raise tla.InfraError("vacuity guard: instantiation %s was not exercised" % fam)
    chk.require_actions(["New", "ExtendPt", "ExtendBox", "Intersect", "Translate1", "Scale1", "ContainsQ", "ClampQ", "Measure", "Relate", "Clear"])
    for rs in rays:
        keys = {json.dumps(c["arg"], sort_keys=True) for c in rs if c["cls"] not in ("miss-parallel",)}
        chk.cov["distinct_nontrivial"] += len(ray_variants) * len(keys)
    for rs in rays_empty:
        chk.cov["distinct_nontrivial"] += 2 * len({json.dumps(c["arg"], sort_keys=True) for c in rs})
    chk.add_sample({"kind": "case", "case": strip(next(c for c in cases if c["a"] == "Pair" and c["cls"] == "touching" and c["d"] == 3))})
    chk.add_sample({"kind": "case", "case": strip(next(c for c in cases if c["a"] == "Xfm" and c["cls"] == "solid"))})
    chk.add_sample({"kind": "ray-input", "case": strip(next(c for c in rays[-1] if c["cls"] == "hit"))})
    chk.add_sample({"kind": "recorded-execution-prefix", "variant": "f", "actions": trace_acts["f"][1][:8]})

    chk.cov["exhaustive"] = True
    chk.cov["rule"] = ("cases = every input of the bounded lattices enumerated by TLC at constant level (all boxes incl. inverted and the default empty box "
                       "against all lattice points; all ordered pairs of proper boxes; pairs with an inverted operand; non-empty boxes x scale / "
                       "translation vectors; affine maps x boxes; rays = origins x directions x boxes x ranges), evaluated per element-type "
                       "instantiation (int, float, padded float, padded int; double in the thorough tier; the comparison-only operations also on "
                       "int64 / uint32 / int16 / uint8 and under strictly increasing value maps: type limits, 2^24, sign bits, non-dyadic, subnormal, huge); distinct = distinct (operation, arguments) per "
                       "instantiation with the two operands of a pair unordered; non-trivial = not (both operands empty or equal), not the unary "
                       "case of the default empty box, not a ray whose stationary axis lies outside its slab; exhaustive refers to these lattices - "
                       "the recorded random executions and the thorough tier's axis-pair covering in dimensions 3/4 are samples on top")


def do_replay(chk, path):
    rep = json.load(open(path))
    exe = build.build("drv_box")
    if rep["kind"] == "history":
        adtcheck.replay(chk, exe, [rep["history"]], "replay", rep["sig_prefix"], meta=rep.get("meta"))
    elif rep["kind"] == "ray":
        c = dict(rep["case"])
        c["d"] = len(c["arg"]["org"])
        validate_rays(chk, exe, [c], rep["variant"], "replay", chunks=1)
    else:
        adtcheck.record_and_validate(chk, exe, SPEC, "BoxTrace", "BoxTrace.cfg", [rep["actions"]], "replay", rep["sig_prefix"], meta=rep.get("meta"))
    chk.cov["evaluations"] = max(chk.cov["evaluations"], 1)
    chk.cov["rule"] = "replay of one saved artefact"
    chk.add_sample({"kind": "replay", "artefact": os.path.basename(path)})
